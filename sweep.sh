#!/bin/sh
# usage: sweep.sh <stream> <tier> <seeds...> -- extra args ; prints failure signatures
stream=$1; tier=$2; shift 2
mkdir -p /verif/scratch/sweep
for prop in C01 C03 C05 C09 C10 C12 C13; do
  for seed in "$@"; do
    out=/verif/scratch/sweep/${stream}_${prop}_${seed}.json
    /verif/harness/target/debug/vh $stream --prop $prop --seed $seed --tier $tier --scratch /verif/scratch/sweep --out $out 2>/dev/null
    python3 - $out $prop $seed <<'PY'
import json,sys
r=json.load(open(sys.argv[1]))
for f in r['fails'][:6]: print(sys.argv[2], sys.argv[3], f['oracle'], f['signature'], '|', f['what'][:300])
PY
  done
done
echo SWEEP-DONE
