//! Stream `xfer` (C11): recursive and transfer operations over ordered pairs of filesystem
//! instances (same instance, two instances of one backend, two different backends/adapters).
//!   PROP  (implementation only) copy: destination subtree = source subtree, source untouched,
//!         copy_dir count = number of proper descendants; move: additionally no trace of the
//!         source; existing destination refused without side effects; create_dir_all leaves
//!         exactly the chain; remove_dir_all removes exactly the subtree and succeeds on an absent
//!         path; and the outcome is the same for every pair of instances.
//!   CORR  results and snapshots of both filesystems against the Lean model.
use crate::tree_stream::{build_cfg_at, first_diff, parse_snap, project, random_bytes, Obs, Who};
use crate::util::*;
use crate::world::RWorld;
use std::collections::BTreeMap;

const KINDS: [&str; 6] = ["mem", "phys", "alt(mem)", "alt(phys)", "ovl(mem,mem)", "ovl(phys,mem)"];

/// a random source tree below /src: (path, None = dir | Some(bytes))
fn gen_tree(rng: &mut Rng, thorough: bool) -> Vec<(String, Option<Vec<u8>>)> {
    let mut out: Vec<(String, Option<Vec<u8>>)> = vec![("/src".into(), None)];
    let names = ["a", "b.txt", "é", "a.b", "ab", "empty", "日本.txt"];
    let mut dirs = vec!["/src".to_string()];
    let n = 3 + rng.below(if thorough { 20 } else { 14 });
    for _ in 0..n {
        let parent = rng.pick(&dirs[..]).clone();
        if parent.matches('/').count() > 4 {
            continue;
        }
        let name = rng.pick(&names[..]);
        let p = format!("{}/{}", parent, name);
        if out.iter().any(|(q, _)| *q == p) {
            continue;
        }
        if rng.chance(2, 5) {
            out.push((p.clone(), None));
            dirs.push(p);
        } else {
            let mut b = random_bytes(rng);
            if thorough && rng.chance(1, 12) {
                b = (0..70_000).map(|i| (i % 253) as u8).collect();
            }
            out.push((p, Some(b)));
        }
    }
    out
}

fn sub_universe(tree: &[(String, Option<Vec<u8>>)], from: &str, to: &str) -> Vec<String> {
    tree.iter().map(|(p, _)| format!("{}{}", to, &p[from.len()..])).collect()
}

pub fn run(o: &Opts) -> Report {
    let mut rep = Report::new("xfer");
    let mut rng = Rng::new(o.seed ^ 0x7fe2);
    let mut world = RWorld::new(&o.scratch);
    let n_scen = if o.thorough() { 40 } else { 6 };
    let mut batch: Vec<String> = vec![];
    let mut impl_outs: Vec<String> = vec![];
    let mut corr_points: Vec<(usize, String)> = vec![];
    for sc in 0..n_scen {
        let tree = gen_tree(&mut rng, o.thorough());
        let file_src = tree.iter().find(|(_, c)| c.is_some()).map(|(p, _)| p.clone());
        // the operations of one scenario, executed on every ordered pair of instances
        let mut baseline: Option<Vec<String>> = None;
        let mut pairs: Vec<(&str, &str, bool)> = vec![];
        for a in KINDS {
            pairs.push((a, a, true)); // same instance
        }
        for a in KINDS {
            for b in KINDS {
                if o.thorough() || a == b || rng.chance(1, 3) {
                    pairs.push((a, b, false));
                }
            }
        }
        for (ka, kb, same) in pairs {
            let (ca, nl, nf) = build_cfg_at(ka, &mut rng.fork(), 0, 0, false);
            let (cb, _, _) = if same { build_cfg_at(ka, &mut rng.fork(), 0, 0, false) } else { build_cfg_at(kb, &mut rng.fork(), nl, nf, false) };
            let mut lines: Vec<String> = vec!["reset".into()];
            lines.extend(ca.lines.iter().filter(|l| l.who != Who::Model).map(|l| l.text.clone()));
            if !same {
                lines.extend(cb.lines.iter().filter(|l| l.who != Who::Model).map(|l| l.text.clone()));
            }
            let (sa, sb) = (ca.target, if same { ca.target } else { cb.target });
            // populate the source tree on A; a destination parent on B
            for (p, c) in &tree {
                lines.push(match c {
                    None => format!("op {} create_dir_all {}", sa, enc_str(p)),
                    Some(b) => format!("op {} write {} {}", sa, enc_str(p), enc_bytes(b)),
                });
            }
            lines.push(format!("op {} create_dir_all {}", sb, enc_str("/dst/deep")));
            lines.push(format!("op {} write {} {}", sb, enc_str("/dst/occupied"), enc_bytes(b"occ")));
            // bystanders whose names have the source / destination names as string prefixes (or are
            // prefixes of them): no transfer may touch them
            lines.push(format!("op {} create_dir {}", sa, enc_str("/src2")));
            lines.push(format!("op {} write {} {}", sa, enc_str("/src2/k"), enc_bytes(b"k")));
            lines.push(format!("op {} write {} {}", sa, enc_str("/src.bak"), enc_bytes(b"bak")));
            lines.push(format!("op {} create_dir {}", sa, enc_str("/sr")));
            lines.push(format!("op {} write {} {}", sb, enc_str("/dst/mv.old"), enc_bytes(b"m")));
            lines.push(format!("op {} create_dir {}", sb, enc_str("/dst/copy2")));
            lines.push(format!("op {} write {} {}", sb, enc_str("/dst/copy2/z"), enc_bytes(b"z")));
            // … and bystanders named like the temporary / staging / backup files an implementation might
            // derive from a destination name (onefile.tmp, moved.tmp, onefile~, .onefile.swp, onefile.part,
            // moved.bak): ordinary user files, which no transfer may touch
            for extra in ["/dst/onefile.tmp", "/dst/moved.tmp", "/dst/onefile~", "/dst/.onefile.swp", "/dst/onefile.part", "/dst/moved.bak", "/dst/copy.tmp", "/dst/mv.tmp"] {
                lines.push(format!("op {} write {} {}", sb, enc_str(extra), enc_bytes(extra.as_bytes())));
            }
            let by_a: Vec<String> = ["/src2", "/src2/k", "/src.bak", "/sr"].iter().map(|s| s.to_string()).collect();
            let by_b: Vec<String> = ["/dst/mv.old", "/dst/copy2", "/dst/copy2/z", "/dst/mv2", "/dst/m", "/dst/onefile.tmp", "/dst/moved.tmp", "/dst/onefile~", "/dst/.onefile.swp", "/dst/onefile.part", "/dst/moved.bak", "/dst/copy.tmp", "/dst/mv.tmp"].iter().map(|s| s.to_string()).collect();
            let src_uni = sub_universe(&tree, "/src", "/src");
            let snap_line = |fs: usize, paths: &Vec<String>| format!("snap {} {}", fs, paths.iter().map(|p| enc_str(p)).collect::<Vec<_>>().join(" "));
            let mut results: Vec<String> = vec![];
            let start = batch.len();
            let mut exec = |world: &mut RWorld, l: String, batch: &mut Vec<String>, impl_outs: &mut Vec<String>| -> String {
                let out = world.exec(&l);
                batch.push(l);
                impl_outs.push(out.clone());
                out
            };
            for l in lines {
                exec(&mut world, l, &mut batch, &mut impl_outs);
            }
            let desc = format!("[{} -> {}{}] tree of {} entries", ka, kb, if same { ", same instance" } else { "" }, tree.len());
            let mk = |sig: &str, what: String, a: &str, b: &str, batch: &Vec<String>| Fail { oracle: "prop".into(), signature: format!("xfer:{}", sig), what: format!("{}: {}", desc, what), script: batch[start..].iter().map(|l| format!("B {}", l)).collect(), impl_out: a.into(), model_out: b.into() };
            let by_a0 = exec(&mut world, snap_line(sa, &by_a), &mut batch, &mut impl_outs);
            let by_b0 = exec(&mut world, snap_line(sb, &by_b), &mut batch, &mut impl_outs);
            let src_before = exec(&mut world, snap_line(sa, &src_uni), &mut batch, &mut impl_outs);
            let n_desc = tree.len() - 1;
            // 1. copy_dir /src -> /dst/copy
            let r = exec(&mut world, format!("op {} copy_dir {} {} {}", sa, enc_str("/src"), sb, enc_str("/dst/copy")), &mut batch, &mut impl_outs);
            corr_points.push((batch.len() - 1, desc.clone()));
            results.push(project(&r, 0));
            rep.evaluations += 1;
            let copy_uni = sub_universe(&tree, "/src", "/dst/copy");
            let dst_after = exec(&mut world, snap_line(sb, &copy_uni), &mut batch, &mut impl_outs);
            corr_points.push((batch.len() - 1, desc.clone()));
            let src_after = exec(&mut world, snap_line(sa, &src_uni), &mut batch, &mut impl_outs);
            if r != format!("ok {}", n_desc) {
                rep.fail(mk("copy_dir:count-or-failure", format!("copy_dir returned {} for a tree with {} proper descendants", r, n_desc), &r, "", &batch));
            } else {
                let a = reroot(&src_before, "/src", "/dst/copy");
                if a != parse_snap(&dst_after) {
                    rep.fail(mk("copy_dir:copy-differs", format!("the copy differs from the source: {}", first_diff(&dst_after, &render(&a))), &dst_after, &src_before, &batch));
                }
                if src_after != src_before {
                    rep.fail(mk("copy_dir:source-changed", first_diff(&src_after, &src_before), &src_after, &src_before, &batch));
                }
            }
            for (stage, fsid, uni, want) in [("copy_dir", sa, &by_a, &by_a0), ("copy_dir", sb, &by_b, &by_b0)] {
                let now = exec(&mut world, snap_line(fsid, uni), &mut batch, &mut impl_outs);
                corr_points.push((batch.len() - 1, desc.clone()));
                if now != *want {
                    rep.fail(mk(&format!("{}:bystander-changed", stage), format!("an entry outside the transferred subtree changed: {}", first_diff(&now, want)), &now, want, &batch));
                }
            }
            // 1b. two DIFFERENT instances: a destination whose path string lies below the source's
            // path string is not inside the source (it is on another filesystem) and must be accepted
            if !same && sa != sb {
                exec(&mut world, format!("op {} create_dir {}", sb, enc_str("/src")), &mut batch, &mut impl_outs);
                let r = exec(&mut world, format!("op {} copy_dir {} {} {}", sa, enc_str("/src"), sb, enc_str("/src/in")), &mut batch, &mut impl_outs);
                corr_points.push((batch.len() - 1, desc.clone()));
                rep.evaluations += 1;
                let in_uni = sub_universe(&tree, "/src", "/src/in");
                let dst_in = exec(&mut world, snap_line(sb, &in_uni), &mut batch, &mut impl_outs);
                corr_points.push((batch.len() - 1, desc.clone()));
                if r != format!("ok {}", n_desc) {
                    rep.fail(mk("copy_dir:cross-instance-same-name-refused", format!("copy_dir to another instance's /src/in returned {} (expected ok {})", r, n_desc), &r, "", &batch));
                } else if reroot(&src_before, "/src", "/src/in") != parse_snap(&dst_in) {
                    rep.fail(mk("copy_dir:copy-differs", format!("the cross-instance copy below the same name differs from the source: {}", first_diff(&dst_in, &render(&reroot(&src_before, "/src", "/src/in")))), &dst_in, &src_before, &batch));
                }
                let r = exec(&mut world, format!("op {} remove_dir_all {}", sb, enc_str("/src")), &mut batch, &mut impl_outs);
                corr_points.push((batch.len() - 1, desc.clone()));
                let _ = r;
            }
            // 2. refused existing destinations, no side effects
            let both_uni: Vec<String> = src_uni.iter().cloned().chain(vec!["/dst".to_string(), "/dst/occupied".into(), "/dst/copy".into(), "/dst/deep".into()]).collect();
            let before_a = exec(&mut world, snap_line(sa, &both_uni), &mut batch, &mut impl_outs);
            let before_b = exec(&mut world, snap_line(sb, &both_uni), &mut batch, &mut impl_outs);
            let mut refusals = vec![
                format!("op {} copy_dir {} {} {}", sa, enc_str("/src"), sb, enc_str("/dst/occupied")),
                format!("op {} move_dir {} {} {}", sa, enc_str("/src"), sb, enc_str("/dst/deep")),
            ];
            if let Some(f) = &file_src {
                refusals.push(format!("op {} copy_file {} {} {}", sa, enc_str(f), sb, enc_str("/dst/occupied")));
                refusals.push(format!("op {} move_file {} {} {}", sa, enc_str(f), sb, enc_str("/dst/deep")));
                // … and onto an occupant of the OTHER type: an existing destination is refused whatever it is
                refusals.push(format!("op {} move_file {} {} {}", sa, enc_str(f), sb, enc_str("/dst/occupied")));
                refusals.push(format!("op {} copy_file {} {} {}", sa, enc_str(f), sb, enc_str("/dst/deep")));
            }
            for l in refusals {
                let r = exec(&mut world, l.clone(), &mut batch, &mut impl_outs);
                corr_points.push((batch.len() - 1, desc.clone()));
                results.push(project(&r, 0));
                rep.evaluations += 1;
                if !r.starts_with("err") {
                    rep.fail(mk("existing-destination-accepted", format!("{} onto an existing destination returned {}", l.split(' ').nth(2).unwrap_or("?"), r), &r, "", &batch));
                }
            }
            let after_a = exec(&mut world, snap_line(sa, &both_uni), &mut batch, &mut impl_outs);
            let after_b = exec(&mut world, snap_line(sb, &both_uni), &mut batch, &mut impl_outs);
            if after_a != before_a || after_b != before_b {
                rep.fail(mk("refused-transfer-had-side-effects", first_diff(&after_a, &before_a) + " / " + &first_diff(&after_b, &before_b), &after_b, &before_b, &batch));
            }
            // 3. copy_file / move_file of one file
            if let Some(f) = &file_src {
                let content = tree.iter().find(|(p, _)| p == f).unwrap().1.clone().unwrap();
                let r = exec(&mut world, format!("op {} copy_file {} {} {}", sa, enc_str(f), sb, enc_str("/dst/onefile")), &mut batch, &mut impl_outs);
                corr_points.push((batch.len() - 1, desc.clone()));
                results.push(project(&r, 0));
                let rd = exec(&mut world, format!("op {} read {}", sb, enc_str("/dst/onefile")), &mut batch, &mut impl_outs);
                let rs = exec(&mut world, format!("op {} read {}", sa, enc_str(f)), &mut batch, &mut impl_outs);
                let want = format!("ok {}", crate::world::enc_content(&content));
                rep.evaluations += 1;
                if r != "ok" || rd != want || rs != want {
                    rep.fail(mk("copy_file:wrong", format!("copy_file returned {}; destination reads {}, source reads {}, expected {}", r, short(&rd), short(&rs), short(&want)), &rd, &want, &batch));
                }
                let r = exec(&mut world, format!("op {} move_file {} {} {}", sa, enc_str(f), sb, enc_str("/dst/moved")), &mut batch, &mut impl_outs);
                corr_points.push((batch.len() - 1, desc.clone()));
                results.push(project(&r, 0));
                let rd = exec(&mut world, format!("op {} read {}", sb, enc_str("/dst/moved")), &mut batch, &mut impl_outs);
                let ex = exec(&mut world, format!("op {} exists {}", sa, enc_str(f)), &mut batch, &mut impl_outs);
                rep.evaluations += 1;
                if r != "ok" || rd != want || ex != "ok false" {
                    rep.fail(mk("move_file:wrong", format!("move_file returned {}; destination reads {}, source exists: {}", r, short(&rd), ex), &rd, &want, &batch));
                }
                // put it back for the directory move below
                exec(&mut world, format!("op {} write {} {}", sa, enc_str(f), enc_bytes(&content)), &mut batch, &mut impl_outs);
            }
            // 4. move_dir /src -> /dst/mv: copy equal, no trace of the source
            let src_now = exec(&mut world, snap_line(sa, &src_uni), &mut batch, &mut impl_outs);
            let r = exec(&mut world, format!("op {} move_dir {} {} {}", sa, enc_str("/src"), sb, enc_str("/dst/mv")), &mut batch, &mut impl_outs);
            corr_points.push((batch.len() - 1, desc.clone()));
            results.push(project(&r, 0));
            rep.evaluations += 1;
            let mv_uni = sub_universe(&tree, "/src", "/dst/mv");
            let dst_mv = exec(&mut world, snap_line(sb, &mv_uni), &mut batch, &mut impl_outs);
            corr_points.push((batch.len() - 1, desc.clone()));
            let src_gone = exec(&mut world, snap_line(sa, &src_uni), &mut batch, &mut impl_outs);
            corr_points.push((batch.len() - 1, desc.clone()));
            if r != "ok" {
                rep.fail(mk("move_dir:failed", format!("move_dir returned {}", r), &r, "", &batch));
            } else {
                let a = reroot(&src_now, "/src", "/dst/mv");
                if a != parse_snap(&dst_mv) {
                    rep.fail(mk("move_dir:copy-differs", format!("the moved tree differs from the source: {}", first_diff(&dst_mv, &render(&a))), &dst_mv, &src_now, &batch));
                }
                if parse_snap(&src_gone).values().any(|o| o.ex != "A") {
                    rep.fail(mk("move_dir:source-left-behind", format!("the source is still visible: {}", src_gone.split(' ').find(|t| !t.contains("=A|")).unwrap_or("?")), &src_gone, "", &batch));
                }
            }
            for (stage, fsid, uni, want) in [("move_dir", sa, &by_a, &by_a0), ("move_dir", sb, &by_b, &by_b0)] {
                let now = exec(&mut world, snap_line(fsid, uni), &mut batch, &mut impl_outs);
                corr_points.push((batch.len() - 1, desc.clone()));
                if now != *want {
                    rep.fail(mk(&format!("{}:bystander-changed", stage), format!("an entry outside the transferred subtree changed: {}", first_diff(&now, want)), &now, want, &batch));
                }
            }
            // 5. create_dir_all exact chain; remove_dir_all exact subtree and absent path
            let chain = vec!["/n".to_string(), "/n/e".into(), "/n/e/w".into(), "/n/x".into(), "/nn".into()];
            let r = exec(&mut world, format!("op {} create_dir_all {}", sb, enc_str("/n/e/w")), &mut batch, &mut impl_outs);
            corr_points.push((batch.len() - 1, desc.clone()));
            let sn = exec(&mut world, snap_line(sb, &chain), &mut batch, &mut impl_outs);
            corr_points.push((batch.len() - 1, desc.clone()));
            let ps = parse_snap(&sn);
            rep.evaluations += 1;
            if r != "ok" || ps["/n"].md != "D 0" || ps["/n/e"].md != "D 0" || ps["/n/e/w"].md != "D 0" || ps["/n/x"].ex != "A" || ps["/nn"].ex != "A" || ps["/n"].ls != format!("[{}]", enc_str("e")) {
                rep.fail(mk("create_dir_all:not-exact", format!("create_dir_all(/n/e/w) returned {} and left {}", r, sn), &sn, "", &batch));
            }
            let r1 = exec(&mut world, format!("op {} remove_dir_all {}", sb, enc_str("/dst/mv")), &mut batch, &mut impl_outs);
            corr_points.push((batch.len() - 1, desc.clone()));
            let r2 = exec(&mut world, format!("op {} remove_dir_all {}", sb, enc_str("/dst/mv")), &mut batch, &mut impl_outs);
            let gone = exec(&mut world, snap_line(sb, &mv_uni), &mut batch, &mut impl_outs);
            let kept = exec(&mut world, snap_line(sb, &vec!["/dst".to_string(), "/dst/deep".into(), "/dst/occupied".into(), "/n/e/w".into()]), &mut batch, &mut impl_outs);
            corr_points.push((batch.len() - 1, desc.clone()));
            rep.evaluations += 1;
            let pk = parse_snap(&kept);
            if r1 != "ok" || r2 != "ok" || parse_snap(&gone).values().any(|o| o.ex != "A") || pk["/dst/deep"].ex != "E" || pk["/dst/occupied"].ex != "E" || pk["/n/e/w"].ex != "E" {
                rep.fail(mk("remove_dir_all:not-exact", format!("remove_dir_all returned {} then {} (absent path); subtree gone: {}; siblings kept: {}", r1, r2, !parse_snap(&gone).values().any(|o| o.ex != "A"), kept), &gone, "", &batch));
            }
            for (stage, fsid, uni, want) in [("remove_dir_all", sa, &by_a, &by_a0), ("remove_dir_all", sb, &by_b, &by_b0)] {
                let now = exec(&mut world, snap_line(fsid, uni), &mut batch, &mut impl_outs);
                if now != *want {
                    rep.fail(mk(&format!("{}:bystander-changed", stage), format!("an entry outside the removed subtree changed: {}", first_diff(&now, want)), &now, want, &batch));
                }
            }
            results.push(project(&r1, 0));
            rep.distinct_hash(&format!("{}|{}|{}|{:?}", ka, kb, same, results));
            rep.count(&format!("pair:{}->{}{}", ka, kb, if same { ":same" } else { "" }));
            // identical results whatever the pair
            match &baseline {
                None => baseline = Some(results),
                Some(b) => {
                    if *b != results {
                        rep.fail(mk("pair-dependent-outcome", format!("outcomes {:?} differ from those on the first pair {:?}", results, b), "", "", &batch));
                    }
                }
            }
            if sc == 0 && rep.samples.len() < 4 {
                rep.sample(format!("{}: copy_dir, 2-4 refused transfers, copy_file, move_file, move_dir, create_dir_all, remove_dir_all x2; source tree {:?}", desc, tree.iter().map(|(p, c)| format!("{}{}", p, c.as_ref().map(|b| format!("({}B)", b.len())).unwrap_or("/".into()))).collect::<Vec<_>>()));
            }
        }
    }
    world.reset();
    let outs = run_driver(&o.driver, &batch);
    for (i, desc) in corr_points {
        let a = &impl_outs[i];
        let m = &outs[i];
        let same = if batch[i].starts_with("snap") { a == m } else { project(a, 0) == project(m, 0) && (a.starts_with("err") || a == m) };
        if !same {
            rep.fail(Fail { oracle: "corr".into(), signature: format!("xfer:{}:model-differs", batch[i].split(' ').nth(if batch[i].starts_with("snap") { 0 } else { 2 }).unwrap_or("?")), what: format!("{}: {}: implementation {} / model {}", desc, short(&batch[i]), short(a), short(m)), script: vec![batch[i].clone()], impl_out: a.clone(), model_out: m.clone() });
        }
    }
    rep.count_n("corr-lines", batch.len() as u64);
    rep.notes.push(format!("ordered pairs over {:?} (quick: same-instance, same-kind and a third of the mixed pairs; thorough: all 36 + 6 same-instance) x random source trees (depth <= 4, empty directories, dotted/multi-byte names, files up to 8 KiB, thorough: 70 kB)", KINDS));
    rep
}

fn short(s: &str) -> String {
    if s.len() > 100 { format!("{}…", &s[..90]) } else { s.to_string() }
}

fn reroot(snap: &str, from: &str, to: &str) -> BTreeMap<String, Obs> {
    parse_snap(snap).into_iter().map(|(k, v)| (format!("{}{}", to, &k[from.len()..]), v)).collect()
}
fn render(m: &BTreeMap<String, Obs>) -> String {
    m.iter().map(|(k, v)| format!("{}={}|{}|{}|{}", enc_str(k), v.ex, v.md, v.ls, v.rd)).collect::<Vec<_>>().join(" ")
}
