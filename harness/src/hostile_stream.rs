//! Stream `hostile` (C13): PhysicalFS / AsyncPhysicalFS over directories whose content was not
//! created through the library: non-UTF-8 file names, dangling symlinks, symlinks to files and
//! directories, a FIFO-free set of odd names. Every call under catch_unwind: no panic.
use crate::util::*;
use std::io::Read;
use std::os::unix::ffi::OsStringExt;
use vfs::async_vfs::{AsyncPhysicalFS, AsyncVfsPath};
use vfs::{PhysicalFS, VfsPath};

fn build_dir(dir: &std::path::Path) {
    let _ = std::fs::remove_dir_all(dir);
    std::fs::create_dir_all(dir.join("sub/inner")).unwrap();
    std::fs::write(dir.join("plain.txt"), b"plain").unwrap();
    std::fs::write(dir.join("sub/inner/f"), b"f").unwrap();
    // non-UTF-8 names (a file and a directory)
    let bad = std::ffi::OsString::from_vec(b"bad\xff\xfename".to_vec());
    std::fs::write(dir.join(&bad), b"x").unwrap();
    let bad_dir = std::ffi::OsString::from_vec(b"dir\xc3\x28".to_vec());
    std::fs::create_dir(dir.join(&bad_dir)).unwrap();
    std::fs::write(dir.join(&bad_dir).join("child"), b"c").unwrap();
    // symlinks
    std::os::unix::fs::symlink("nowhere", dir.join("dangling")).unwrap();
    std::os::unix::fs::symlink("plain.txt", dir.join("to_file")).unwrap();
    std::os::unix::fs::symlink("sub", dir.join("to_dir")).unwrap();
    std::os::unix::fs::symlink("selfloop", dir.join("selfloop")).unwrap();
    std::fs::write(dir.join("sub/dangling_inside_target"), b"").unwrap();
    std::os::unix::fs::symlink("../nowhere2", dir.join("sub/dangling2")).unwrap();
}

thread_local! {
    /// (prefix of the host directory, prefix of the inner altroot path) that must never show in an error
    static FOREIGN: std::cell::RefCell<(String, String)> = std::cell::RefCell::new((String::new(), String::new()));
}
/// C12 on hostile content: the path an error carries is in the caller's namespace — canonical
/// ("" or "/"-separated), never the unfilled placeholder, never the host directory, never the
/// inner path of the altroot. Returns a marker that `check` turns into a failure.
fn foreign(e: &vfs::VfsError) -> String {
    let p = e.path().to_string();
    let (host, inner) = FOREIGN.with(|f| f.borrow().clone());
    let bad = p == PLACEHOLDER || (!p.is_empty() && !p.starts_with('/')) || (!host.is_empty() && p.contains(&host)) || (!inner.is_empty() && (p == inner || p.starts_with(&format!("{}/", inner))));
    // the Display text must carry the same path (and never the placeholder)
    let shown = format!("{}", e);
    let bad_display = shown.contains(PLACEHOLDER) || !shown.contains(&format!("'{}'", p));
    if bad || bad_display {
        format!(" FOREIGN-ERROR-PATH[{}]", p)
    } else {
        String::new()
    }
}
/// walk_dir with its error items judged
fn walk_judged(p: &VfsPath) -> String {
    match p.walk_dir() {
        Ok(it) => {
            let mut n = 0;
            let mut marks = String::new();
            for item in it.take(500) {
                n += 1;
                if let Err(e) = item {
                    marks.push_str(&foreign(&e));
                }
            }
            format!("ok {}{}", n, marks)
        }
        Err(e) => format!("err {}{}", kind_name(e.kind()), foreign(&e)),
    }
}

pub fn run(o: &Opts) -> Report {
    let mut rep = Report::new("hostile");
    let dir = std::path::PathBuf::from(&o.scratch).join(format!("hostile_{}", std::process::id()));
    build_dir(&dir);
    let root = VfsPath::new(PhysicalFS::new(&dir));
    FOREIGN.with(|f| *f.borrow_mut() = (dir.to_string_lossy().to_string(), String::new()));
    let names = ["", "/plain.txt", "/dangling", "/to_file", "/to_dir", "/to_dir/inner", "/selfloop", "/selfloop/x", "/sub", "/sub/dangling2", "/bad\u{fffd}\u{fffd}name", "/dir\u{fffd}(", "/dir\u{fffd}(/child", "/missing", "/dangling/below"];
    let mut check = |rep: &mut Report, what: String, r: Result<String, String>| {
        rep.evaluations += 1;
        rep.distinct_hash(&format!("{}={:?}", what, r));
        match r {
            Ok(v) if v.contains("FOREIGN-ERROR-PATH") => rep.fail(Fail { oracle: "prop".into(), signature: format!("phys-hostile:{}:error-path-foreign", what.split('(').next().unwrap_or("?")), what: format!("{}: the error (or an error item of the walk) carries a path outside the caller's namespace, or its Display text does not show the path: {}", what, v), script: vec![what.clone()], impl_out: v.clone(), model_out: String::new() }),
            Ok(v) => rep.count(&format!("outcome:{}", v.split(' ').next().unwrap_or("?"))),
            Err(m) => rep.fail(Fail { oracle: "prop".into(), signature: format!("phys-hostile:{}:panic", what.split('(').next().unwrap_or("?")), what: format!("{} panicked on hostile directory content: {}", what, m), script: vec![what.clone()], impl_out: "panic".into(), model_out: String::new() }),
        }
    };
    fn res<T>(r: vfs::VfsResult<T>) -> String {
        match r {
            Ok(_) => "ok".into(),
            Err(e) => format!("err {}{}", kind_name(e.kind()), foreign(&e)),
        }
    }
    for n in names {
        let p = match root.join(n) {
            Ok(p) => p,
            Err(_) => continue,
        };
        check(&mut rep, format!("exists({:?})", n), guarded(|| res(p.exists())));
        check(&mut rep, format!("metadata({:?})", n), guarded(|| res(p.metadata())));
        check(&mut rep, format!("is_dir({:?})", n), guarded(|| res(p.is_dir())));
        check(&mut rep, format!("read_dir({:?})", n), guarded(|| match p.read_dir() {
            Ok(it) => format!("ok {}", it.count()),
            Err(e) => format!("err {}{}", kind_name(e.kind()), foreign(&e)),
        }));
        check(&mut rep, format!("walk_dir({:?})", n), guarded(|| walk_judged(&p)));
        check(&mut rep, format!("open_file({:?})", n), guarded(|| match p.open_file() {
            Ok(mut f) => {
                let mut v = vec![];
                format!("ok {:?}", f.read_to_end(&mut v).is_ok())
            }
            Err(e) => format!("err {}{}", kind_name(e.kind()), foreign(&e)),
        }));
        check(&mut rep, format!("read_to_string({:?})", n), guarded(|| res(p.read_to_string())));
        check(&mut rep, format!("create_dir({:?})", n), guarded(|| res(p.create_dir())));
        check(&mut rep, format!("create_dir_all({:?})", n), guarded(|| res(p.create_dir_all())));
        check(&mut rep, format!("append_file({:?})", n), guarded(|| res(p.append_file().map(|_| ()))));
        check(&mut rep, format!("copy_file({:?})", n), guarded(|| res(p.copy_file(&root.join("copy_target").unwrap()))));
        let _ = std::fs::remove_file(dir.join("copy_target"));
        check(&mut rep, format!("set_modification_time({:?})", n), guarded(|| res(p.set_modification_time(std::time::UNIX_EPOCH))));
    }
    // destructive calls last, on a rebuilt directory each
    for n in ["/dangling", "/to_dir", "/selfloop", "/sub", "/bad\u{fffd}\u{fffd}name", "/dir\u{fffd}("] {
        build_dir(&dir);
        let p = root.join(n).unwrap();
        check(&mut rep, format!("remove_file({:?})", n), guarded(|| res(p.remove_file())));
        build_dir(&dir);
        check(&mut rep, format!("remove_dir({:?})", n), guarded(|| res(p.remove_dir())));
        build_dir(&dir);
        check(&mut rep, format!("remove_dir_all({:?})", n), guarded(|| res(p.remove_dir_all())));
        build_dir(&dir);
        check(&mut rep, format!("create_file({:?})", n), guarded(|| res(p.create_file().map(|_| ()))));
        build_dir(&dir);
        check(&mut rep, format!("move_dir({:?})", n), guarded(|| res(p.move_dir(&root.join("moved").unwrap()))));
    }
    build_dir(&dir);
    check(&mut rep, "copy_dir(root->/sub/copy)".into(), guarded(|| res(root.join("/to_dir").unwrap().copy_dir(&root.join("/copy_of_to_dir").unwrap()))));
    // the same content seen through an altroot: the hostile directory is /jail/in of the underlying
    // filesystem; errors must name the altroot's paths, never /jail/in/…
    {
        let outer = std::path::PathBuf::from(&o.scratch).join(format!("hostile_alt_{}", std::process::id()));
        let _ = std::fs::remove_dir_all(&outer);
        build_dir(&outer.join("jail/in"));
        let under = VfsPath::new(PhysicalFS::new(&outer));
        let aroot = VfsPath::new(vfs::AltrootFS::new(under.join("jail/in").unwrap()));
        FOREIGN.with(|f| *f.borrow_mut() = (outer.to_string_lossy().to_string(), "/jail".to_string()));
        for n in ["", "/sub", "/to_dir", "/dangling", "/sub/dangling2", "/selfloop", "/missing", "/dangling/below"] {
            let p = match aroot.join(n) {
                Ok(p) => p,
                Err(_) => continue,
            };
            check(&mut rep, format!("alt walk_dir({:?})", n), guarded(|| walk_judged(&p)));
            check(&mut rep, format!("alt metadata({:?})", n), guarded(|| res(p.metadata())));
            check(&mut rep, format!("alt read_to_string({:?})", n), guarded(|| res(p.read_to_string())));
            check(&mut rep, format!("alt copy_dir({:?})", n), guarded(|| res(p.copy_dir(&aroot.join("/copy_out").unwrap()))));
            let _ = std::fs::remove_dir_all(outer.join("jail/in/copy_out"));
            let _ = std::fs::remove_file(outer.join("jail/in/copy_out"));
        }
        for n in ["", "/sub", "/to_dir"] {
            build_dir(&outer.join("jail/in"));
            let p = aroot.join(n).unwrap();
            if !n.is_empty() {
                check(&mut rep, format!("alt remove_dir_all({:?})", n), guarded(|| res(p.remove_dir_all())));
                build_dir(&outer.join("jail/in"));
                check(&mut rep, format!("alt move_dir({:?})", n), guarded(|| res(p.move_dir(&aroot.join("/moved_out").unwrap()))));
            }
        }
        let _ = std::fs::remove_dir_all(&outer);
        FOREIGN.with(|f| *f.borrow_mut() = (dir.to_string_lossy().to_string(), String::new()));
    }
    // async twin
    build_dir(&dir);
    let aroot = AsyncVfsPath::new(AsyncPhysicalFS::new(&dir));
    let rt = tokio::runtime::Builder::new_current_thread().build().unwrap();
    for n in names {
        let p = match aroot.join(n) {
            Ok(p) => p,
            Err(_) => continue,
        };
        check(&mut rep, format!("async exists({:?})", n), guarded(|| rt.block_on(async { res(p.exists().await) })));
        check(&mut rep, format!("async metadata({:?})", n), guarded(|| rt.block_on(async { res(p.metadata().await) })));
        check(&mut rep, format!("async read_dir({:?})", n), guarded(|| {
            rt.block_on(async {
                use futures::StreamExt;
                match p.read_dir().await {
                    Ok(s) => format!("ok {}", s.count().await),
                    Err(e) => format!("err {}", kind_name(e.kind())),
                }
            })
        }));
        check(&mut rep, format!("async walk_dir({:?})", n), guarded(|| {
            rt.block_on(async {
                use futures::StreamExt;
                match p.walk_dir().await {
                    Ok(s) => format!("ok {}", s.take(500).count().await),
                    Err(e) => format!("err {}", kind_name(e.kind())),
                }
            })
        }));
        check(&mut rep, format!("async create_dir({:?})", n), guarded(|| rt.block_on(async { res(p.create_dir().await) })));
        check(&mut rep, format!("async read_to_string({:?})", n), guarded(|| rt.block_on(async { res(p.read_to_string().await) })));
    }
    let _ = std::fs::remove_dir_all(&dir);
    rep.exhaustive = true;
    rep.sample("directory: plain.txt, sub/inner/f, file 'bad\\xff\\xfename', directory 'dir\\xc3\\x28' with a child, symlinks dangling -> nowhere, to_file, to_dir, selfloop -> selfloop, sub/dangling2".to_string());
    rep.notes.push("hand-built hostile directory; 12 observers/mutators on 15 path names, 5 destructive calls on 6 names (directory rebuilt each time), 6 async operations on 15 names".into());
    rep
}
