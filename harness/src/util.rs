//! Shared infrastructure: PRNG, codec of the line protocol, driver process, JSON, report.
use std::collections::{BTreeMap, BTreeSet};
use std::io::Write;
use std::process::{Command, Stdio};

/// SplitMix64 — every random choice of a run derives from one state (VERIF_SEED).
#[derive(Clone)]
pub struct Rng(pub u64);
impl Rng {
    pub fn new(seed: u64) -> Self {
        Rng(seed ^ 0x9E37_79B9_7F4A_7C15)
    }
    pub fn next(&mut self) -> u64 {
        self.0 = self.0.wrapping_add(0x9E37_79B9_7F4A_7C15);
        let mut z = self.0;
        z = (z ^ (z >> 30)).wrapping_mul(0xBF58_476D_1CE4_E5B9);
        z = (z ^ (z >> 27)).wrapping_mul(0x94D0_49BB_1331_11EB);
        z ^ (z >> 31)
    }
    pub fn below(&mut self, n: usize) -> usize {
        if n == 0 {
            0
        } else {
            (self.next() % n as u64) as usize
        }
    }
    pub fn chance(&mut self, num: u64, den: u64) -> bool {
        self.next() % den < num
    }
    pub fn pick<'a, T>(&mut self, xs: &'a [T]) -> &'a T {
        &xs[self.below(xs.len())]
    }
    pub fn fork(&mut self) -> Rng {
        Rng(self.next())
    }
}

pub fn hex(bs: &[u8]) -> String {
    let mut s = String::with_capacity(bs.len() * 2);
    for b in bs {
        s.push_str(&format!("{:02x}", b));
    }
    s
}
pub fn unhex(s: &str) -> Vec<u8> {
    (0..s.len() / 2)
        .map(|i| u8::from_str_radix(&s[2 * i..2 * i + 2], 16).unwrap())
        .collect()
}
pub fn enc_str(s: &str) -> String {
    format!("s{}", hex(s.as_bytes()))
}
pub fn dec_str(t: &str) -> String {
    String::from_utf8_lossy(&unhex(&t[1..])).into_owned()
}
pub fn enc_bytes(b: &[u8]) -> String {
    format!("b{}", hex(b))
}

/// Run the Lean model driver on a batch of request lines; one output line per request.
pub fn run_driver(driver: &str, lines: &[String]) -> Vec<String> {
    let mut child = Command::new(driver)
        .stdin(Stdio::piped())
        .stdout(Stdio::piped())
        .spawn()
        .unwrap_or_else(|e| panic!("cannot start model driver {}: {}", driver, e));
    let mut stdin = child.stdin.take().unwrap();
    let mut payload = String::with_capacity(lines.iter().map(|l| l.len() + 1).sum());
    for l in lines {
        payload.push_str(l);
        payload.push('\n');
    }
    let writer = std::thread::spawn(move || {
        let _ = stdin.write_all(payload.as_bytes());
    });
    let out = child.wait_with_output().expect("driver failed");
    writer.join().unwrap();
    let text = String::from_utf8_lossy(&out.stdout);
    let res: Vec<String> = text.lines().map(|l| l.to_string()).collect();
    if res.len() != lines.len() {
        panic!(
            "model driver answered {} lines for {} requests (stderr: {})",
            res.len(),
            lines.len(),
            String::from_utf8_lossy(&out.stderr)
        );
    }
    res
}

/// Minimal JSON value (no external crates).
#[derive(Clone, Debug)]
pub enum J {
    Null,
    B(bool),
    N(i64),
    F(f64),
    S(String),
    A(Vec<J>),
    O(Vec<(String, J)>),
}
impl J {
    pub fn s(x: impl Into<String>) -> J {
        J::S(x.into())
    }
    pub fn obj(kv: Vec<(&str, J)>) -> J {
        J::O(kv.into_iter().map(|(k, v)| (k.to_string(), v)).collect())
    }
    pub fn render(&self) -> String {
        let mut s = String::new();
        self.w(&mut s);
        s
    }
    fn w(&self, out: &mut String) {
        match self {
            J::Null => out.push_str("null"),
            J::B(b) => out.push_str(if *b { "true" } else { "false" }),
            J::N(n) => out.push_str(&n.to_string()),
            J::F(f) => out.push_str(&format!("{:.3}", f)),
            J::S(s) => {
                out.push('"');
                for c in s.chars() {
                    match c {
                        '"' => out.push_str("\\\""),
                        '\\' => out.push_str("\\\\"),
                        '\n' => out.push_str("\\n"),
                        '\r' => out.push_str("\\r"),
                        '\t' => out.push_str("\\t"),
                        c if (c as u32) < 0x20 => out.push_str(&format!("\\u{:04x}", c as u32)),
                        c => out.push(c),
                    }
                }
                out.push('"');
            }
            J::A(a) => {
                out.push('[');
                for (i, x) in a.iter().enumerate() {
                    if i > 0 {
                        out.push(',');
                    }
                    x.w(out);
                }
                out.push(']');
            }
            J::O(o) => {
                out.push('{');
                for (i, (k, v)) in o.iter().enumerate() {
                    if i > 0 {
                        out.push(',');
                    }
                    J::S(k.clone()).w(out);
                    out.push(':');
                    v.w(out);
                }
                out.push('}');
            }
        }
    }
}

/// One failure (a script plus what each side said).
#[derive(Clone, Debug)]
pub struct Fail {
    /// "corr" (implementation vs Lean model) or "prop" (implementation vs the property itself)
    pub oracle: String,
    /// short signature used to match known findings
    pub signature: String,
    /// human-readable description
    pub what: String,
    /// replayable script (protocol lines)
    pub script: Vec<String>,
    pub impl_out: String,
    pub model_out: String,
}

#[derive(Default)]
pub struct Report {
    pub stream: String,
    pub evaluations: u64,
    pub distinct: BTreeSet<u64>,
    pub hist: BTreeMap<String, u64>,
    pub samples: Vec<String>,
    pub fails: Vec<Fail>,
    pub notes: Vec<String>,
    pub exhaustive: bool,
}
impl Report {
    pub fn new(stream: &str) -> Self {
        Report {
            stream: stream.to_string(),
            ..Default::default()
        }
    }
    pub fn count(&mut self, key: &str) {
        *self.hist.entry(key.to_string()).or_insert(0) += 1;
    }
    pub fn count_n(&mut self, key: &str, n: u64) {
        *self.hist.entry(key.to_string()).or_insert(0) += n;
    }
    pub fn sample(&mut self, s: impl Into<String>) {
        if self.samples.len() < 12 {
            self.samples.push(s.into());
        }
    }
    pub fn distinct_hash(&mut self, s: &str) {
        // FNV-1a
        let mut h: u64 = 0xcbf29ce484222325;
        for b in s.as_bytes() {
            h ^= *b as u64;
            h = h.wrapping_mul(0x100000001b3);
        }
        self.distinct.insert(h);
    }
    pub fn fail(&mut self, f: Fail) {
        // keep a bounded number per (oracle, signature)
        let n = self
            .fails
            .iter()
            .filter(|g| g.oracle == f.oracle && g.signature == f.signature)
            .count();
        self.count(&format!("fail:{}:{}", f.oracle, f.signature));
        if n < 3 && self.fails.len() < 200 {
            self.fails.push(f);
        }
    }
    pub fn to_json(&self) -> J {
        J::obj(vec![
            ("stream", J::s(self.stream.clone())),
            ("evaluations", J::N(self.evaluations as i64)),
            ("distinct_nontrivial", J::N(self.distinct.len() as i64)),
            ("exhaustive", J::B(self.exhaustive)),
            (
                "hist",
                J::O(self.hist.iter().map(|(k, v)| (k.clone(), J::N(*v as i64))).collect()),
            ),
            ("samples", J::A(self.samples.iter().map(|s| J::s(s.clone())).collect())),
            ("notes", J::A(self.notes.iter().map(|s| J::s(s.clone())).collect())),
            (
                "fails",
                J::A(self
                    .fails
                    .iter()
                    .map(|f| {
                        J::obj(vec![
                            ("oracle", J::s(f.oracle.clone())),
                            ("signature", J::s(f.signature.clone())),
                            ("what", J::s(f.what.clone())),
                            ("script", J::A(f.script.iter().map(|l| J::s(l.clone())).collect())),
                            ("impl", J::s(f.impl_out.clone())),
                            ("model", J::s(f.model_out.clone())),
                        ])
                    })
                    .collect()),
            ),
        ])
    }
}

pub struct Opts {
    pub tier: String,
    pub seed: u64,
    pub driver: String,
    pub out: String,
    pub scratch: String,
    pub replay: Option<String>,
    pub extra: Vec<String>,
}
impl Opts {
    pub fn thorough(&self) -> bool {
        self.tier == "thorough"
    }
}

pub fn kind_name(k: &vfs::error::VfsErrorKind) -> &'static str {
    use vfs::error::VfsErrorKind::*;
    match k {
        IoError(_) => "io",
        AsyncIoError(_) => "io",
        FileNotFound => "fileNotFound",
        InvalidPath => "invalidPath",
        Other(_) => "other",
        DirectoryExists => "dirExists",
        FileExists => "fileExists",
        NotSupported => "notSupported",
    }
}

/// canonical error class (C01/C02/C12 vocabulary)
pub fn class_of(kind: &str) -> &'static str {
    match kind {
        "fileNotFound" => "notFound",
        "invalidPath" => "invalidPath",
        "dirExists" => "dirExists",
        "fileExists" => "fileExists",
        "notSupported" => "notSupported",
        _ => "otherFailure",
    }
}

pub const PLACEHOLDER: &str = "PATH NOT FILLED BY VFS LAYER";

/// run a closure, turning a panic into Err(message)
pub fn guarded<T>(f: impl FnOnce() -> T) -> Result<T, String> {
    match std::panic::catch_unwind(std::panic::AssertUnwindSafe(f)) {
        Ok(v) => Ok(v),
        Err(e) => Err(if let Some(s) = e.downcast_ref::<&str>() {
            s.to_string()
        } else if let Some(s) = e.downcast_ref::<String>() {
            s.clone()
        } else {
            "panic".to_string()
        }),
    }
}
