//! Stream `embed` (C18, EmbeddedFS part of C13): every observer and mutator on
//! `EmbeddedFS<Fixture>` over a path set derived from the fixture.
//!   CORR  EmbeddedFS vs the Lean model of `EmbeddedFS::new` + methods (fed with the file list)
//!   PROP  EmbeddedFS vs PhysicalFS on the same folder (observers), NotSupported + unchanged
//!         for every mutator, root behaves like any other directory, no panic.
use crate::tree_stream::{parse_snap, project};
use crate::util::*;
use crate::world::{enc_content, enc_list_sorted, enc_res, RWorld};
use rust_embed::RustEmbed;
use std::collections::BTreeSet;
use std::io::Read;
use vfs::{EmbeddedFS, PhysicalFS, VfsPath};

#[derive(RustEmbed, Debug)]
#[folder = "fixtures/embedded"]
pub struct Fixture;

/// a SECOND embedded folder in the same process: every embed type has its own content
#[derive(RustEmbed, Debug)]
#[folder = "fixtures/embedded2"]
pub struct Fixture2;

fn observe(root: &VfsPath, p: &str) -> String {
    let on = |f: &dyn Fn(&VfsPath) -> vfs::VfsResult<String>| -> String {
        match guarded(|| {
            let q = root.join(p)?;
            f(&q)
        }) {
            Ok(Ok(s)) => s,
            Ok(Err(_)) => "-".into(),
            Err(_) => "P".into(),
        }
    };
    let ex = match guarded(|| root.join(p).and_then(|q| q.exists())) {
        Ok(Ok(true)) => "E".to_string(),
        Ok(Ok(false)) => "A".into(),
        Ok(Err(_)) => "X".into(),
        Err(_) => "P".into(),
    };
    let md = on(&|q| q.metadata().map(|m| format!("{} {}", if m.file_type == vfs::VfsFileType::File { "F" } else { "D" }, m.len)));
    let ls = on(&|q| Ok(enc_list_sorted(q.read_dir()?.map(|c| c.filename()).collect())));
    let rd = on(&|q| {
        let mut h = q.open_file()?;
        let mut v = vec![];
        h.read_to_end(&mut v)?;
        Ok(enc_content(&v))
    });
    format!("{}={}|{}|{}|{}", enc_str(p), ex, md, ls, rd)
}

pub fn run(o: &Opts) -> Report {
    let mut rep = Report::new("embed");
    let fixture_dir = concat!(env!("CARGO_MANIFEST_DIR"), "/fixtures/embedded");
    let emb = VfsPath::new(EmbeddedFS::<Fixture>::new());
    let phys = VfsPath::new(PhysicalFS::new(fixture_dir));
    // file list as rust-embed provides it
    let mut files: Vec<(String, Vec<u8>)> = Fixture::iter().map(|f| (f.to_string(), Fixture::get(&f).unwrap().data.to_vec())).collect();
    files.sort();
    // path set: files, implied directories, root, and name mutations of each
    let mut base: BTreeSet<String> = BTreeSet::new();
    base.insert(String::new());
    for (f, _) in &files {
        let mut cur = String::new();
        for c in f.split('/') {
            cur.push('/');
            cur.push_str(c);
            base.insert(cur.clone());
        }
    }
    let mut paths: BTreeSet<String> = base.clone();
    for p in &base {
        if p.is_empty() {
            paths.insert("/zz".into());
            continue;
        }
        paths.insert(format!("{}x", p)); // sibling / extension of the name
        paths.insert(format!("{}.z", p));
        // every proper prefix of the path string (names cut down to one character included)
        let chars: Vec<char> = p.chars().collect();
        for n in 1..chars.len() {
            let shorter: String = chars[..n].iter().collect();
            if !shorter.ends_with('/') {
                paths.insert(shorter);
            }
        }
        paths.insert(format!("{}/below", p)); // deeper, also below files
        paths.insert(format!("{}/below/more", p));
    }
    let paths: Vec<String> = paths.into_iter().collect();
    // the second embed type, constructed AFTER the first (and the first once more after it): each shows
    // exactly its own folder
    {
        let dir2 = concat!(env!("CARGO_MANIFEST_DIR"), "/fixtures/embedded2");
        let emb2 = VfsPath::new(EmbeddedFS::<Fixture2>::new());
        let emb1_again = VfsPath::new(EmbeddedFS::<Fixture>::new());
        let phys2 = VfsPath::new(PhysicalFS::new(dir2));
        for p in ["", "/d.txt", "/x", "/x/y.txt", "/x/deep", "/x/deep/z.bin", "/a", "/a.txt", "/c", "/zz"] {
            rep.evaluations += 1;
            let (e2, p2) = (observe(&emb2, p), observe(&phys2, p));
            if e2 != p2 {
                rep.fail(Fail { oracle: "prop".into(), signature: "embedded:second-type:differs-from-folder".into(), what: format!("second embed type, {:?}: EmbeddedFS shows {} but its folder has {}", p, e2, p2), script: vec![], impl_out: e2.clone(), model_out: p2.clone() });
                break;
            }
            let (e1, p1) = (observe(&emb1_again, p), observe(&phys, p));
            if e1 != p1 {
                rep.fail(Fail { oracle: "prop".into(), signature: "embedded:first-type-after-second:differs-from-folder".into(), what: format!("first embed type constructed again after the second, {:?}: EmbeddedFS shows {} but its folder has {}", p, e1, p1), script: vec![], impl_out: e1.clone(), model_out: p1.clone() });
                break;
            }
        }
    }
    // model configuration
    let mut lines: Vec<String> = vec!["reset".into()];
    lines.push(format!("fs 0 emb {}", files.iter().map(|(f, b)| format!("{}:{}", enc_str(f), enc_bytes(b))).collect::<Vec<_>>().join(" ")));
    let mut impl_out: Vec<String> = vec!["ok".into(), "ok".into()];
    let mut checks: Vec<(usize, String, String)> = vec![]; // (line idx, kind, path)
    let w = RWorld::new(&o.scratch);
    drop(w);
    for p in &paths {
        let e = observe(&emb, p);
        let ph = observe(&phys, p);
        rep.evaluations += 1;
        rep.distinct_hash(&e);
        lines.push(format!("snap 0 {}", enc_str(p)));
        impl_out.push(e.clone());
        checks.push((lines.len() - 1, "snap".into(), p.clone()));
        // PROP: same existence, type, length, bytes, listing as the physical folder
        let se = parse_snap(&e);
        let sp = parse_snap(&ph);
        let (oe, op) = (se.get(p).unwrap(), sp.get(p).unwrap());
        let t = if oe.ex == "E" { if oe.md.starts_with('D') { "dir" } else { "file" } } else { "absent" };
        rep.count(&format!("path-class:{}", t));
        if e.contains("=P|") || e.contains("|P") {
            rep.fail(Fail { oracle: "prop".into(), signature: format!("embedded:observer-panics:{}", if p.is_empty() { "root" } else { "nonroot" }), what: format!("an observer of EmbeddedFS panicked on {:?}: {}", p, e), script: lines.clone(), impl_out: e.clone(), model_out: ph.clone() });
        } else if oe != op {
            rep.fail(Fail { oracle: "prop".into(), signature: format!("embedded:differs-from-folder:{}", t), what: format!("{:?}: EmbeddedFS shows {}|{}|{}|{} but the folder has {}|{}|{}|{}", p, oe.ex, oe.md, oe.ls, oe.rd, op.ex, op.md, op.ls, op.rd), script: lines.clone(), impl_out: e.clone(), model_out: ph.clone() });
        }
    }
    // walks
    for p in base.iter() {
        let walk = |root: &VfsPath| -> String {
            enc_res(
                guarded(|| {
                    let q = root.join(p)?;
                    let mut v = vec![];
                    for it in q.walk_dir()? {
                        v.push(it?.as_str().to_string());
                    }
                    v.sort();
                    Ok(v)
                }),
                |v| v.iter().map(|s| enc_str(s)).collect::<Vec<_>>().join(" "),
            )
        };
        let (we, wp) = (walk(&emb), walk(&phys));
        rep.evaluations += 1;
        if project(&we, 0) != project(&wp, 0) {
            rep.fail(Fail { oracle: "prop".into(), signature: "embedded:walk-differs-from-folder".into(), what: format!("walk_dir({:?}): EmbeddedFS {} / folder {}", p, we, wp), script: vec![], impl_out: we.clone(), model_out: wp });
        }
        lines.push(format!("op 0 walk {}", enc_str(p)));
        impl_out.push(we);
        checks.push((lines.len() - 1, "walk".into(), p.clone()));
    }
    // the FileSystem trait called directly (both types are public) with the raw strings a caller
    // may pass, including a trailing separator, which VfsPath::join never produces: the four
    // observers must tell the same story as the physical folder, and one story among themselves
    {
        use vfs::FileSystem;
        let efs = EmbeddedFS::<Fixture>::new();
        let pfs = PhysicalFS::new(fixture_dir);
        let story = |fs: &dyn FileSystem, p: &str| -> String {
            let ex = match guarded(|| fs.exists(p)) { Ok(Ok(b)) => if b { "E" } else { "A" }, Ok(Err(_)) => "X", Err(_) => "P" };
            let md = match guarded(|| fs.metadata(p)) { Ok(Ok(m)) => if m.file_type == vfs::VfsFileType::File { "F" } else { "D" }, Ok(Err(_)) => "-", Err(_) => "P" };
            let ls = match guarded(|| fs.read_dir(p).map(|i| i.count())) { Ok(Ok(_)) => "L", Ok(Err(_)) => "-", Err(_) => "P" };
            let rd = match guarded(|| fs.open_file(p).and_then(|mut h| { let mut v = vec![]; h.read_to_end(&mut v)?; Ok(v.len()) })) { Ok(Ok(_)) => "R", Ok(Err(_)) => "-", Err(_) => "P" };
            format!("{}{}{}{}", ex, md, ls, rd)
        };
        // only FILE paths: for a directory a trailing separator is a different spelling of the
        // same directory on the host and simply not a path of the embedded filesystem — outside
        // what the property says; for a file both must say "nothing there"
        let file_paths: Vec<String> = files.iter().map(|(f, _)| format!("/{}", f)).collect();
        for b in file_paths.iter() {
            for raw in [format!("{}/", b), format!("{}//", b), format!("{}/.", b)] {
                let (se, sp) = (story(&efs, &raw), story(&pfs, &raw));
                rep.evaluations += 1;
                if se.contains('P') {
                    rep.fail(Fail { oracle: "prop".into(), signature: "embedded:raw-trait-call:panic".into(), what: format!("EmbeddedFS trait call on {:?} panicked ({})", raw, se), script: vec![], impl_out: se.clone(), model_out: sp.clone() });
                } else if se != sp {
                    rep.fail(Fail { oracle: "prop".into(), signature: "embedded:raw-trait-call:differs-from-folder".into(), what: format!("trait calls on {:?}: EmbeddedFS answers {} (exists/metadata/read_dir/open+read) but the folder answers {}", raw, se, sp), script: vec![], impl_out: se.clone(), model_out: sp.clone() });
                }
            }
        }
    }
    // mutators: refused as not-supported, nothing changes
    let before: Vec<String> = paths.iter().map(|p| observe(&emb, p)).collect();
    let mutators: Vec<(&str, Box<dyn Fn(&VfsPath, &VfsPath) -> vfs::VfsResult<()>>)> = vec![
        ("create_dir", Box::new(|q, _| q.create_dir())),
        ("create_dir_all", Box::new(|q, _| q.create_dir_all())),
        ("create_file", Box::new(|q, _| q.create_file().map(|_| ()))),
        ("append_file", Box::new(|q, _| q.append_file().map(|_| ()))),
        ("remove_file", Box::new(|q, _| q.remove_file())),
        ("remove_dir", Box::new(|q, _| q.remove_dir())),
        ("set_creation_time", Box::new(|q, _| q.set_creation_time(std::time::UNIX_EPOCH))),
        ("set_modification_time", Box::new(|q, _| q.set_modification_time(std::time::UNIX_EPOCH))),
        ("set_access_time", Box::new(|q, _| q.set_access_time(std::time::UNIX_EPOCH))),
        ("copy_file", Box::new(|q, r| q.copy_file(&r.join("copy-target")?))),
        ("move_file", Box::new(|q, r| q.move_file(&r.join("move-target")?))),
        ("move_dir", Box::new(|q, r| q.move_dir(&r.join("movedir-target")?))),
        ("copy_dir", Box::new(|q, r| q.copy_dir(&r.join("copydir-target")?).map(|_| ()))),
    ];
    for p in &paths {
        for (name, f) in &mutators {
            let r = guarded(|| {
                let q = emb.join(p)?;
                f(&q, &emb)
            });
            rep.evaluations += 1;
            let out = enc_res(r, |_| String::new());
            rep.count(&format!("mutator:{}:{}", name, project(&out, 1)));
            let toks: Vec<&str> = out.split(' ').collect();
            // a mutator is refused; where the refusal comes from the backend it is NotSupported
            // (composite operations may fail earlier on an observer, e.g. a missing source)
            let direct = matches!(*name, "set_creation_time" | "set_modification_time" | "set_access_time");
            if out == "panic" {
                rep.fail(Fail { oracle: "prop".into(), signature: format!("embedded:{}:panic", name), what: format!("{}({:?}) panicked", name, p), script: vec![], impl_out: out.clone(), model_out: String::new() });
            } else if toks[0] != "err" && !(name == &"create_dir_all" && emb.join(p).map(|q| q.is_root()).unwrap_or(false)) {
                // (create_dir_all of the ROOT — also spelled "x/.." — answers Ok in the path layer without reaching the backend)
                rep.fail(Fail { oracle: "prop".into(), signature: format!("embedded:{}:accepted", name), what: format!("{}({:?}) was not refused: {}", name, p, out), script: vec![], impl_out: out.clone(), model_out: String::new() });
            } else if direct && toks.get(1) != Some(&"notSupported") {
                rep.fail(Fail { oracle: "prop".into(), signature: format!("embedded:{}:wrong-class", name), what: format!("{}({:?}) refused with {} instead of not-supported", name, p, out), script: vec![], impl_out: out.clone(), model_out: String::new() });
            }
        }
    }
    let after: Vec<String> = paths.iter().map(|p| observe(&emb, p)).collect();
    if before != after {
        rep.fail(Fail { oracle: "prop".into(), signature: "embedded:mutator-changed-something".into(), what: "observations differ after the mutator calls".into(), script: vec![], impl_out: String::new(), model_out: String::new() });
    }
    // CORR
    let outs = run_driver(&o.driver, &lines);
    for (i, kind, p) in &checks {
        let a = &impl_out[*i];
        let m = &outs[*i];
        let same = if kind == "walk" {
            let norm = |s: &str| {
                let mut v: Vec<&str> = s.split(' ').collect();
                v.sort();
                v.join(" ")
            };
            norm(&project(a, 0)) == norm(&project(m, 0))
        } else {
            a == m
        };
        if !same {
            rep.fail(Fail { oracle: "corr".into(), signature: format!("embedded:{}:model-differs", kind), what: format!("{} {:?}: implementation {} / model {}", kind, p, a, m), script: vec![lines[0].clone(), lines[1].clone(), lines[*i].clone()], impl_out: a.clone(), model_out: m.clone() });
        }
    }
    rep.count_n("corr-lines", lines.len() as u64);
    rep.count_n("paths", paths.len() as u64);
    rep.exhaustive = true;
    rep.sample(format!("fixture files: {:?}", files.iter().map(|f| f.0.clone()).collect::<Vec<_>>()));
    rep.sample(format!("path set (first 12 of {}): {:?}", paths.len(), paths.iter().take(12).collect::<Vec<_>>()));
    rep.notes.push("exhaustive over the path set derived from the fixture: every embedded file, implied directory, the root, and for each a sibling, a prefix, an extension and two deeper paths; all observers, walk_dir from every directory, 13 mutators on every path".into());
    rep
}
