//! `vh witness --replay FILE`: re-execute the stored witness of a known finding on the real code.
//! The file holds `"script": [...]`, `"line": N` and `"violating": "<prefix>"`: the finding
//! still reproduces when the implementation's answer to script line N starts with the prefix.
use crate::util::*;
use crate::world::RWorld;

fn field<'a>(text: &'a str, key: &str) -> Option<&'a str> {
    let k = format!("\"{}\"", key);
    let i = text.find(&k)?;
    let rest = &text[i + k.len()..];
    let c = rest.find(':')?;
    Some(rest[c + 1..].trim_start())
}

pub fn run(o: &Opts) -> Report {
    let mut rep = Report::new("witness");
    let file = o.replay.clone().expect("--replay FILE required");
    let text = std::fs::read_to_string(&file).expect("cannot read witness file");
    let script = crate::replay::extract_script(&text);
    let line: usize = field(&text, "line").and_then(|s| s.split(|c: char| !c.is_ascii_digit()).next().and_then(|n| n.parse().ok())).expect("witness needs a line");
    let violating = field(&text, "violating").map(|s| s.trim_start_matches('"').split('"').next().unwrap_or("").to_string()).expect("witness needs a violating prefix");
    let mut world = RWorld::new(&o.scratch);
    let mut outs = vec![];
    for l in &script {
        let body = if l.len() > 2 && (l.starts_with("B ") || l.starts_with("I ")) { &l[2..] } else { &l[..] };
        if l.starts_with("M ") {
            outs.push(String::new());
            continue;
        }
        outs.push(world.exec(body));
    }
    rep.evaluations = script.len() as u64;
    let got = outs.get(line).cloned().unwrap_or_default();
    if got.starts_with(&violating) {
        println!("WITNESS-FAILS line {} answered {:?}", line, got);
        rep.count("witness-fails");
    } else {
        println!("WITNESS-PASSES line {} answered {:?} (violating prefix {:?})", line, got, violating);
        rep.count("witness-passes");
    }
    rep
}
