//! Stream `record` (C08, C07): the tree histories with a recording `FileSystem` wrapper between
//! an adapter and each inner layer.
//!   C08: overlay over recorded layers — no mutating method is ever recorded on a lower layer,
//!        none at all during observers; deep snapshots (bytes, types, creation and modification
//!        times) of every lower layer are unchanged by every call.
//!   C07: altroot over a recorded underlying filesystem — every recorded path argument lies
//!        below P; the underlying tree outside P never changes; inside P it equals the
//!        altroot's own view re-rooted.
//!   CORR: results, snapshots and the recorded call multiset against the Lean model.
use crate::tree_stream::{gen_layers, gen_op, parse_snap, populate_lines, project, Cfg, Obs, Op, TreeSpec, universe};
use crate::util::*;
use crate::world::RWorld;
use crate::wrappers::is_mutating;
use std::collections::BTreeMap;

struct L {
    both: bool,
    text: String,
}

struct RunRec {
    cfg: String,
    lines: Vec<L>,
    impl_out: Vec<Option<String>>,
    /// (line index of op, of log, of lower snapshots before / after, of inner snapshot, of target snap)
    steps: Vec<StepIdx>,
    ops: Vec<Op>,
    lowers: Vec<usize>,
    alt_root: Option<String>,
    /// line index of the trait-call log taken right after the INITIAL snapshot of the target
    init_snap_log: usize,
}
struct StepIdx {
    op: usize,
    log: usize,
    snap: usize,
    lower_snaps: Vec<usize>,
    base_snap: Option<usize>,
    /// trait calls recorded while the harness took its snapshot of the target (observers only)
    snap_log: usize,
}

fn uni_args(prefix: &str, extra: &[&str]) -> String {
    let mut v: Vec<String> = universe().iter().map(|p| enc_str(&format!("{}{}", prefix, p))).collect();
    for e in extra {
        v.push(enc_str(e));
    }
    v.join(" ")
}

fn hostile_path(rng: &mut Rng) -> String {
    let pieces = ["..\\x", "a\\..\\..\\y", "\\..\\z", "..\\..\\outside\\x", "..", "../..", "../../../outside/x", "/..", "a/../../..", "/outside/x", "./..", "a/./../..", "../r", "..//..", "/a/../../outside", "a/b/../../../.."];
    rng.pick(&pieces[..]).to_string()
}

pub fn run(o: &Opts) -> Report {
    let prop = o.extra.iter().position(|a| a == "--prop").and_then(|i| o.extra.get(i + 1)).cloned().unwrap_or_else(|| "C08".into());
    let mut rep = Report::new("record");
    let mut rng = Rng::new(o.seed ^ 0x5ec);
    let mut world = RWorld::new(&o.scratch);
    let (n_runs, n_ops) = if o.thorough() { (40, 50) } else { (8, 25) };
    let configs: Vec<&str> = if prop == "C08" {
        vec!["ovl(mem,mem)", "ovl(mem,mem,mem)", "ovl(mem,mem,mem,mem)", "ovl(phys,mem)", "ovl(mem,phys)", "ovl(alt,alt)", "ovl(ovl,mem)", "ovl(sib,sib)", "ovl(sibphys,sibphys)"]
    } else {
        vec!["alt(mem)", "alt(phys)", "alt(ovl)", "alt(alt)"]
    };
    let ts = TreeSpec {
        prop: prop.clone(),
        configs: vec![],
        corr_level: 0,
        spec_results: false,
        spec_snapshots: false,
        wrong_type_calls: true,
        root_calls: false,
        composite_ops: true,
        time_ops: true,
        preds: vec![],
    };
    let mut runs: Vec<RunRec> = vec![];
    for cfg_kind in &configs {
        let reps = if cfg_kind.contains("phys") { (n_runs / 2).max(3) } else { n_runs };
        for r in 0..reps {
            let mut lines: Vec<L> = vec![L { both: true, text: "reset".into() }];
            let mut n_leaf = 0;
            let mut n_fs = 0;
            let mut leaf = |lines: &mut Vec<L>, k: &str| -> usize {
                lines.push(L { both: true, text: format!("leaf {}", k) });
                n_leaf += 1;
                n_leaf - 1
            };
            let mut fs = |lines: &mut Vec<L>, rest: String| -> usize {
                lines.push(L { both: true, text: format!("fs {} {}", n_fs, rest) });
                n_fs += 1;
                n_fs - 1
            };
            let mut lowers: Vec<usize> = vec![]; // direct (unrecorded) fs ids of the lower layers
            let mut alt_root = None;
            let target;
            let overlay_upper;
            if prop == "C08" && cfg_kind.starts_with("ovl(sib") {
                // both layers are sibling directories of ONE filesystem object (the documented way to
                // stack a scratch directory over a read-only one on a single disk)
                let pop_upper = rng.chance(1, 2);
                let contents = gen_layers(&mut rng, 2, pop_upper);
                let l = leaf(&mut lines, if cfg_kind.contains("phys") { "phys" } else { "mem" });
                let direct = fs(&mut lines, format!("leaf {}", l));
                let roots = ["/up", "/low"];
                for (i, lay_root) in roots.iter().enumerate() {
                    lines.push(L { both: true, text: format!("op {} create_dir {}", direct, enc_str(lay_root)) });
                    let shifted: crate::tree_stream::Content = contents[i].iter().map(|(k, v)| (format!("{}{}", lay_root, k), v.clone())).collect();
                    for pl in populate_lines(direct, &shifted, crate::tree_stream::Who::Both) {
                        lines.push(L { both: true, text: pl.text });
                    }
                }
                let rec = fs(&mut lines, format!("rec 0 {}", direct));
                let up_view = fs(&mut lines, format!("alt {} {}", direct, enc_str("/up")));
                let low_view = fs(&mut lines, format!("alt {} {}", direct, enc_str("/low")));
                lowers.push(low_view);
                target = fs(&mut lines, format!("ovl {}:{} {}:{}", rec, enc_str("/up"), rec, enc_str("/low")));
                overlay_upper = Some(up_view);
            } else if prop == "C08" {
                let kinds: Vec<&str> = match *cfg_kind {
                    "ovl(mem,mem)" | "ovl(alt,alt)" | "ovl(ovl,mem)" => vec!["mem", "mem"],
                    "ovl(mem,mem,mem)" => vec!["mem", "mem", "mem"],
                    "ovl(mem,mem,mem,mem)" => vec!["mem", "mem", "mem", "mem"],
                    "ovl(phys,mem)" => vec!["phys", "mem"],
                    _ => vec!["mem", "phys"],
                };
                let pop_upper = rng.chance(1, 2);
                let contents = gen_layers(&mut rng, kinds.len(), pop_upper);
                let mut layer_args = vec![];
                let mut first_direct = 0;
                for (i, k) in kinds.iter().enumerate() {
                    let l = leaf(&mut lines, k);
                    let direct = fs(&mut lines, format!("leaf {}", l));
                    let (pop_fs, lay_root) = if *cfg_kind == "ovl(alt,alt)" {
                        lines.push(L { both: true, text: format!("op {} create_dir_all {}", direct, enc_str("/lay")) });
                        (direct, "/lay")
                    } else {
                        (direct, "")
                    };
                    // populate below lay_root
                    let shifted: crate::tree_stream::Content = contents[i].iter().map(|(k, v)| (format!("{}{}", lay_root, k), v.clone())).collect();
                    for pl in populate_lines(pop_fs, &shifted, crate::tree_stream::Who::Both) {
                        lines.push(L { both: true, text: pl.text });
                    }
                    let rec = fs(&mut lines, format!("rec {} {}", i, direct));
                    let layer_fs = if *cfg_kind == "ovl(alt,alt)" { fs(&mut lines, format!("alt {} {}", rec, enc_str("/lay"))) } else { rec };
                    layer_args.push(format!("{}:s", layer_fs));
                    if i == 0 {
                        first_direct = direct;
                    } else {
                        lowers.push(direct);
                    }
                }
                if *cfg_kind == "ovl(ovl,mem)" {
                    let inner = fs(&mut lines, format!("ovl {}", layer_args.join(" ")));
                    let l = leaf(&mut lines, "mem");
                    let direct = fs(&mut lines, format!("leaf {}", l));
                    lines.push(L { both: true, text: format!("op {} create_dir {}", direct, enc_str("/c")) });
                    lines.push(L { both: true, text: format!("op {} write {} {}", direct, enc_str("/c/d"), enc_bytes(b"low")) });
                    let rec = fs(&mut lines, format!("rec 9 {}", direct));
                    lowers.push(direct);
                    target = fs(&mut lines, format!("ovl {}:s {}:s", inner, rec));
                } else {
                    target = fs(&mut lines, format!("ovl {}", layer_args.join(" ")));
                }
                overlay_upper = Some(first_direct);
                // "all pre-populated layer contents" includes an upper layer that already holds
                // bookkeeping: now and then a marker for a path the upper layer ALSO holds (what an
                // interrupted re-creation leaves behind), written directly into the first layer.
                // Whatever the overlay makes of it, its observers must not write.
                if *cfg_kind != "ovl(alt,alt)" && *cfg_kind != "ovl(ovl,mem)" && rng.chance(1, 3) {
                    let held: Vec<&String> = contents[0].keys().collect();
                    if !held.is_empty() {
                        let x = (*rng.pick(&held[..])).clone();
                        let par = crate::tree_stream::parent_of(&x);
                        lines.push(L { both: true, text: format!("op {} create_dir_all {}", first_direct, enc_str(&format!("/.whiteout{}", par))) });
                        lines.push(L { both: true, text: format!("op {} write {} {}", first_direct, enc_str(&format!("/.whiteout{}_wo", x)), enc_bytes(b"")) });
                    }
                }
            } else {
                // C07
                let p = *rng.pick(&["", "/r", "/r/s", "/r/s/t.u"][..]);
                let base_direct;
                match *cfg_kind {
                    "alt(mem)" | "alt(phys)" | "alt(alt)" => {
                        let l = leaf(&mut lines, if cfg_kind.contains("phys") { "phys" } else { "mem" });
                        base_direct = fs(&mut lines, format!("leaf {}", l));
                    }
                    _ => {
                        let l0 = leaf(&mut lines, "mem");
                        let f0 = fs(&mut lines, format!("leaf {}", l0));
                        let l1 = leaf(&mut lines, "mem");
                        let f1 = fs(&mut lines, format!("leaf {}", l1));
                        lines.push(L { both: true, text: format!("op {} create_dir_all {}", f1, enc_str(&format!("{}/c", p))) });
                        lines.push(L { both: true, text: format!("op {} write {} {}", f1, enc_str(&format!("{}/c/d", p)), enc_bytes(b"lower")) });
                        base_direct = fs(&mut lines, format!("ovl {}:s {}:s", f0, f1));
                    }
                }
                lines.push(L { both: true, text: format!("op {} create_dir_all {}", base_direct, enc_str("/outside/x")) });
                lines.push(L { both: true, text: format!("op {} write {} {}", base_direct, enc_str("/outside/f"), enc_bytes(b"keep")) });
                if !p.is_empty() {
                    lines.push(L { both: true, text: format!("op {} create_dir_all {}", base_direct, enc_str(p)) });
                }
                let rec = fs(&mut lines, format!("rec 0 {}", base_direct));
                let a1 = fs(&mut lines, format!("alt {} {}", rec, enc_str(p)));
                if *cfg_kind == "alt(alt)" {
                    lines.push(L { both: true, text: format!("op {} create_dir_all {}", a1, enc_str("/q")) });
                    target = fs(&mut lines, format!("alt {} {}", a1, enc_str("/q")));
                    alt_root = Some(format!("{}/q", p));
                } else {
                    target = a1;
                    alt_root = Some(p.to_string());
                }
                lowers.push(base_direct);
                overlay_upper = None;
            }
            // execute configuration
            let mut impl_out: Vec<Option<String>> = vec![];
            for l in &lines {
                impl_out.push(Some(world.exec(&l.text)));
            }
            let cfg = Cfg { name: cfg_kind.to_string(), lines: vec![], target, spec: 0, overlay_upper, kind: cfg_kind.to_string() };
            let uni = uni_args("", &[]);
            let mut steps = vec![];
            let mut ops = vec![];
            let mut push = |world: &mut RWorld, lines: &mut Vec<L>, impl_out: &mut Vec<Option<String>>, t: String| -> (usize, String) {
                let o = world.exec(&t);
                lines.push(L { both: true, text: t });
                impl_out.push(Some(o.clone()));
                (lines.len() - 1, o)
            };
            let lower_snap_cmd = |f: usize, alt_root: &Option<String>| -> String {
                match alt_root {
                    None => format!("snapt {} {}", f, uni),
                    Some(_) => format!("snapt {} {} {}", f, uni, uni_args("", &["/outside", "/outside/x", "/outside/f", "/r", "/r/s"])),
                }
            };
            push(&mut world, &mut lines, &mut impl_out, "clearlog".into());
            let (_, s0) = push(&mut world, &mut lines, &mut impl_out, format!("snap {} {}", target, uni));
            let (init_snap_log, _) = push(&mut world, &mut lines, &mut impl_out, "log".into());
            let mut snap: BTreeMap<String, Obs> = parse_snap(&s0);
            // initial lower snapshots
            let mut prev_lower: Vec<usize> = vec![];
            for f in &lowers {
                let (i, _) = push(&mut world, &mut lines, &mut impl_out, lower_snap_cmd(*f, &alt_root));
                prev_lower.push(i);
            }
            // follow-ups queued after a removal: bring the entry back, then observe its directory and
            // everything above it (bookkeeping left behind by the removal must not make observers write)
            let mut queued: Vec<Op> = vec![];
            if prop == "C08" && r % 2 == 0 {
                // prelude of every second run: remove an entry of a non-root directory, bring it back
                // (the bookkeeping directory of its parent is then left EMPTY), then observe
                let mk = |name: &'static str, path: &str, bytes: Option<Vec<u8>>| Op { name, path: path.to_string(), bytes, dest: None, time: None };
                let (dir, child) = *rng.pick(&[("/c", "/c/d"), ("/a", "/a/a"), ("/a/a", "/a/a/b")][..]);
                queued = vec![
                    mk("create_dir_all", dir, None),
                    mk("write", child, Some(b"one".to_vec())),
                    mk("remove_file", child, None),
                    mk("write", child, Some(b"two".to_vec())),
                    mk("read_dir", dir, None),
                    mk("walk", "", None),
                    mk("metadata", child, None),
                    mk("read", child, None),
                ];
            }
            for _ in 0..n_ops {
                let mut op = if queued.is_empty() { gen_op(&mut rng, &ts, &snap, &cfg) } else { queued.remove(0) };
                if prop == "C08" && queued.is_empty() && matches!(op.name, "remove_file" | "remove_dir") && op.path.matches('/').count() >= 2 && rng.chance(1, 2) {
                    let parent = op.path[..op.path.rfind('/').unwrap()].to_string();
                    let mk = |name: &'static str, path: &str, bytes: Option<Vec<u8>>| Op { name, path: path.to_string(), bytes, dest: None, time: None };
                    queued.push(if op.name == "remove_file" { mk("write", &op.path, Some(b"again".to_vec())) } else { mk("create_dir", &op.path, None) });
                    queued.push(mk("read_dir", &parent, None));
                    queued.push(mk("walk", "", None));
                    queued.push(mk("exists", &parent, None));
                }
                if prop == "C07" && rng.chance(1, 5) {
                    // hostile path expressions: however many '..' and absolute segments
                    op.path = hostile_path(&mut rng);
                    op.dest = None;
                    if matches!(op.name, "copy_file" | "move_file" | "copy_dir" | "move_dir" | "remove_dir_all") {
                        op.name = "create_dir_all";
                    }
                }
                push(&mut world, &mut lines, &mut impl_out, "clearlog".into());
                let (oi, _) = push(&mut world, &mut lines, &mut impl_out, op.line(target));
                let (li, _) = push(&mut world, &mut lines, &mut impl_out, "log".into());
                let mut ls = vec![];
                for f in &lowers {
                    let (i, _) = push(&mut world, &mut lines, &mut impl_out, lower_snap_cmd(*f, &alt_root));
                    ls.push(i);
                }
                let base_snap = if let Some(p) = &alt_root {
                    // the underlying tree inside P, for comparison with the altroot's own view
                    let args = uni_args(p, &[]);
                    let (i, _) = push(&mut world, &mut lines, &mut impl_out, format!("snap {} {}", lowers[0], args));
                    Some(i)
                } else {
                    None
                };
                push(&mut world, &mut lines, &mut impl_out, "clearlog".into());
                let (si, s) = push(&mut world, &mut lines, &mut impl_out, format!("snap {} {}", target, uni));
                let (sli, _) = push(&mut world, &mut lines, &mut impl_out, "log".into());
                snap = parse_snap(&s);
                steps.push(StepIdx { op: oi, log: li, snap: si, lower_snaps: ls, base_snap, snap_log: sli });
                ops.push(op);
            }
            if r == 0 {
                rep.sample(format!("[{}] {}", cfg_kind, ops.iter().take(8).map(|o| o.describe()).collect::<Vec<_>>().join("; ")));
            }
            let _ = prev_lower;
            runs.push(RunRec { cfg: cfg_kind.to_string(), lines, impl_out, steps, ops, lowers, alt_root, init_snap_log });
        }
    }
    world.reset();
    let mut batch = vec![];
    for r in &runs {
        for l in &r.lines {
            if l.both {
                batch.push(l.text.clone());
            }
        }
    }
    let outs = run_driver(&o.driver, &batch);
    let mut k = 0;
    for r in &runs {
        let model: Vec<String> = r.lines.iter().map(|_| { k += 1; outs[k - 1].clone() }).collect();
        let script_upto = |i: usize| r.lines[..=i].iter().map(|l| format!("B {}", l.text)).collect::<Vec<_>>();
        let imp = |i: usize| r.impl_out[i].as_ref().unwrap();
        // lower snapshots before the first step: the last `snapt` lines before steps[0].op
        let mut prev_lower: Vec<String> = vec![];
        if let Some(first) = r.steps.first() {
            let n = r.lowers.len();
            // they are the n lines right before the first clearlog (first.op - 1)
            for j in 0..n {
                prev_lower.push(imp(first.op - 1 - n + j).clone());
            }
        }
        let mut dead = false;
        let mut corr_dead = false;
        // the very first observation of a pre-populated overlay (the upper layer may already hold
        // bookkeeping): observers only, so no layer may receive a mutating call
        if prop == "C08" {
            for t in imp(r.init_snap_log).split(' ').filter(|t| !t.is_empty()) {
                let mut it = t.splitn(3, ':');
                let tag = it.next().unwrap_or("?");
                let method = it.next().unwrap_or("?").trim_start_matches("Vfs.Method.").to_string();
                let path = dec_str(it.next().unwrap_or("s"));
                if is_mutating(&method) {
                    rep.fail(Fail {
                        oracle: "prop".into(),
                        signature: format!("ovl:initial-snapshot:observer-issued-mutating-call:{}", method),
                        what: format!("[{}] while the pre-populated overlay was only being observed (exists/metadata/read_dir/open_file on the universe), layer {} received the mutating call {}({:?})", r.cfg, tag, method, path),
                        script: script_upto(r.init_snap_log),
                        impl_out: imp(r.init_snap_log).clone(),
                        model_out: String::new(),
                    });
                    dead = true;
                    break;
                }
            }
        }
        for (si, st) in r.steps.iter().enumerate() {
            if dead {
                break;
            }
            let op = &r.ops[si];
            let opname = op.name;
            rep.evaluations += 1;
            rep.count(&format!("{}:{}:{}", r.cfg, opname, project(imp(st.op), 1)));
            rep.distinct_hash(&format!("{}|{}|{}|{}", r.cfg, opname, imp(st.op), imp(st.log)));
            let mk = |oracle: &str, sig: String, what: String, a: &str, b: &str, upto: usize| Fail {
                oracle: oracle.into(),
                signature: sig,
                what: format!("[{}] step {} {}: {}", r.cfg, si + 1, op.describe(), what),
                script: script_upto(upto),
                impl_out: a.to_string(),
                model_out: b.to_string(),
            };
            // ---- PROP on the implementation's own recordings
            let entries: Vec<(usize, String, String)> = imp(st.log)
                .split(' ')
                .filter(|t| !t.is_empty())
                .map(|t| {
                    let mut it = t.splitn(3, ':');
                    let tag: usize = it.next().unwrap().parse().unwrap_or(99);
                    let method = it.next().unwrap_or("?").trim_start_matches("Vfs.Method.").to_string();
                    let path = dec_str(it.next().unwrap_or("s"));
                    (tag, method, path)
                })
                .collect();
            if prop == "C08" {
                for (tag, method, path) in &entries {
                    let on_lower = if r.cfg.starts_with("ovl(sib") { path == "/low" || path.starts_with("/low/") || !(path == "/up" || path.starts_with("/up/")) } else { *tag >= 1 };
                    // copy_file(src, dest) is recorded under its source: with the source in the lower
                    // directory it reads the lower layer (the copy-up); its destination is covered by
                    // the lower-layer snapshot comparison below
                    let reads_only = r.cfg.starts_with("ovl(sib") && method == "copyFile";
                    if on_lower && is_mutating(method) && !reads_only {
                        rep.fail(mk("prop", format!("ovl:{}:mutating-call-on-lower-layer:{}", opname, method), format!("layer {} received the mutating call {}({:?})", tag, method, path), imp(st.log), "", st.log));
                        dead = true;
                        break;
                    }
                    if op.is_observer() && is_mutating(method) {
                        rep.fail(mk("prop", format!("ovl:{}:observer-issued-mutating-call:{}", opname, method), format!("observer issued {}({:?}) on layer {}", method, path, tag), imp(st.log), "", st.log));
                        dead = true;
                        break;
                    }
                }
                for (j, li) in st.lower_snaps.iter().enumerate() {
                    if *imp(*li) != prev_lower[j] {
                        rep.fail(mk("prop", format!("ovl:{}:lower-layer-changed", opname), format!("lower layer {} changed: {}", j + 1, diff_t(&prev_lower[j], imp(*li))), imp(*li), &prev_lower[j], *li));
                        dead = true;
                    }
                    prev_lower[j] = imp(*li).clone();
                }
            } else {
                let p = r.alt_root.as_ref().unwrap();
                for (_tag, method, path) in &entries {
                    let inside = path == p || path.starts_with(&format!("{}/", p)) || p.is_empty();
                    // reading recorded in DESIGN.md §6.0: the parent probe (exists + metadata) that
                    // VfsPath::create_dir / create_file make on the directories P itself consists of
                    // touches no entry outside P's own chain and is not a mutation
                    let ancestor_probe = (p.starts_with(&format!("{}/", path)) || path.is_empty()) && !is_mutating(method) && matches!(method.as_str(), "exists_" | "metadata");
                    if !inside && !ancestor_probe {
                        rep.fail(mk("prop", format!("alt:{}:call-outside-root:{}", opname, method), format!("underlying filesystem received {}({:?}) outside the altroot {:?}", method, path, p), imp(st.log), "", st.log));
                        dead = true;
                        break;
                    }
                }
                // outside P nothing changes
                let li = st.lower_snaps[0];
                let outside_only = |s: &str| -> Vec<String> {
                    s.split(' ').filter(|t| {
                        let key = dec_str(t.split('=').next().unwrap_or("s"));
                        !(key == *p || key.starts_with(&format!("{}/", p)) || p.is_empty()) && !(p.starts_with(&format!("{}/", key)) || key.is_empty())
                    }).map(|t| t.to_string()).collect()
                };
                if outside_only(imp(li)) != outside_only(&prev_lower[0]) {
                    rep.fail(mk("prop", format!("alt:{}:outside-changed", opname), format!("the underlying tree outside {:?} changed", p), imp(li), &prev_lower[0], li));
                    dead = true;
                }
                prev_lower[0] = imp(li).clone();
                // inside P the underlying tree is the altroot's view re-rooted
                if let Some(bi) = st.base_snap {
                    let a = parse_snap(imp(bi));
                    let b = parse_snap(imp(st.snap));
                    for (k, v) in &b {
                        let kk = format!("{}{}", p, k);
                        if a.get(&kk) != Some(v) {
                            rep.fail(mk("prop", format!("alt:{}:view-differs-from-subtree", opname), format!("altroot shows {:?} as {:?} but the underlying {:?} is {:?}", k, v, kk, a.get(&kk)), imp(st.snap), imp(bi), st.snap));
                            dead = true;
                            break;
                        }
                    }
                }
            }
            if op.is_observer() {
                rep.count("observer-steps");
            }
            // the harness's own snapshot consists of observers only (exists, metadata, read_dir,
            // open_file + read on every universe path): none of them may issue a mutating call
            if prop == "C08" {
                for t in imp(st.snap_log).split(' ').filter(|t| !t.is_empty()) {
                    let mut it = t.splitn(3, ':');
                    let tag = it.next().unwrap_or("?");
                    let method = it.next().unwrap_or("?").trim_start_matches("Vfs.Method.").to_string();
                    let path = dec_str(it.next().unwrap_or("s"));
                    if is_mutating(&method) {
                        rep.fail(mk("prop", format!("ovl:snapshot:observer-issued-mutating-call:{}", method), format!("while the tree was only being observed (exists/metadata/read_dir/open_file on the universe), layer {} received the mutating call {}({:?})", tag, method, path), imp(st.snap_log), "", st.snap_log));
                        break;
                    }
                }
            }
            if imp(st.op) == "panic" {
                dead = true;
                continue;
            }
            // ---- CORR (stops at the first disagreement of a run; the PROP predicates above are on the
            // implementation's own recordings and go on to the end of the run)
            if corr_dead {
                continue;
            }
            if project(imp(st.op), 1) != project(&model[st.op], 1) && opname != "walk" && opname != "metadata_t" {
                rep.fail(mk("corr", format!("{}:{}:result", if prop == "C08" { "ovl" } else { "alt" }, opname), format!("result: implementation {} / model {}", imp(st.op), model[st.op]), imp(st.op), &model[st.op], st.op));
                corr_dead = true;
            }
            let norm = |s: &str| {
                let mut v: Vec<&str> = s.split(' ').collect();
                v.sort();
                v.join(" ")
            };
            // nested overlays: the outer overlay keeps its bookkeeping INSIDE the inner overlay's
            // namespace, where it meets the inner overlay's own bookkeeping for the same names
            // (reserved-name territory); which trait calls an operation that iterates a listing
            // makes there depends on the iteration order, which model and code do not share
            let order_dependent_nested = r.cfg == "ovl(ovl,mem)" && matches!(opname, "remove_dir_all" | "copy_dir" | "move_dir" | "walk");
            if norm(imp(st.log)) != norm(&model[st.log]) && !order_dependent_nested {
                rep.fail(mk("corr", format!("{}:{}:recorded-calls", if prop == "C08" { "ovl" } else { "alt" }, opname), format!("recorded trait calls differ: implementation [{}] / model [{}]", pretty_log(imp(st.log)), pretty_log(&model[st.log])), imp(st.log), &model[st.log], st.log));
                corr_dead = true;
            }
            if *imp(st.snap) != model[st.snap] {
                rep.fail(mk("corr", format!("{}:{}:snapshot", if prop == "C08" { "ovl" } else { "alt" }, opname), format!("snapshot differs: {}", crate::tree_stream::first_diff(imp(st.snap), &model[st.snap])), imp(st.snap), &model[st.snap], st.snap));
                corr_dead = true;
            }
            for li in &st.lower_snaps {
                if !r.cfg.contains("phys") && *imp(*li) != model[*li] {
                    rep.fail(mk("corr", format!("{}:{}:inner-snapshot", if prop == "C08" { "ovl" } else { "alt" }, opname), format!("inner layer snapshot differs: {}", diff_t(imp(*li), &model[*li])), imp(*li), &model[*li], *li));
                    corr_dead = true;
                }
            }
        }
    }
    rep.count_n("corr-lines", batch.len() as u64);
    rep.count_n("scenarios", runs.len() as u64);
    rep.notes.push(format!("property {}: configs {:?}, {} ops per history, recording wrapper around every inner layer", prop, configs, n_ops));
    rep
}

fn pretty_log(s: &str) -> String {
    s.split(' ')
        .filter(|t| !t.is_empty())
        .map(|t| {
            let mut it = t.splitn(3, ':');
            let tag = it.next().unwrap_or("?");
            let m = it.next().unwrap_or("?").trim_start_matches("Vfs.Method.");
            let p = dec_str(it.next().unwrap_or("s"));
            format!("{}:{}({})", tag, m, p)
        })
        .collect::<Vec<_>>()
        .join(" ")
}

fn diff_t(a: &str, b: &str) -> String {
    let pa: Vec<&str> = a.split(' ').collect();
    let pb: Vec<&str> = b.split(' ').collect();
    // entries contain spaces ("F 3 c=now m=now"): compare on the raw strings by key
    let keyed = |v: &Vec<&str>| -> BTreeMap<String, String> {
        let mut out = BTreeMap::new();
        let mut cur: Option<String> = None;
        let mut val = String::new();
        for t in v {
            if t.starts_with('s') && t.contains('=') && !t.starts_with("c=") && !t.starts_with("m=") {
                if let Some(k) = cur.take() {
                    out.insert(k, val.clone());
                }
                let (k, rest) = t.split_once('=').unwrap();
                cur = Some(dec_str(k));
                val = rest.to_string();
            } else {
                val.push(' ');
                val.push_str(t);
            }
        }
        if let Some(k) = cur {
            out.insert(k, val);
        }
        out
    };
    let ka = keyed(&pa);
    let kb = keyed(&pb);
    for (k, v) in &ka {
        if kb.get(k) != Some(v) {
            return format!("{:?}: {} vs {}", k, v, kb.get(k).cloned().unwrap_or_default());
        }
    }
    "?".into()
}
