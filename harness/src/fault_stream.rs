//! Stream `fault` (C20): for every operation of the explored histories and every position k,
//! the k-th call that the operation makes into an underlying filesystem fails with an injected
//! I/O error (wrapper written against the public `FileSystem` trait).
//!   PROP  the operation returns / yields an error, or the resulting snapshot is the fault-free
//!         full-effect snapshot; never a panic; lower overlay layers unchanged.
//!   CORR  per k: result class, `fired`, snapshot against the Lean model (same fault plan).
use crate::tree_stream::{first_diff, gen_layers, gen_op, parse_snap, populate_lines, project, Cfg, Op, TreeSpec, Who, universe};
use crate::util::*;
use crate::world::RWorld;

struct Scenario {
    cfg: String,
    /// configuration + prefix history (all executed fault-free)
    setup: Vec<String>,
    op: Op,
    target: usize,
    lowers: Vec<usize>,
}

fn build(kind: &str, rng: &mut Rng) -> (Vec<String>, usize, Vec<usize>, Option<usize>) {
    // returns (lines, target fs, direct fs ids of lower layers, upper direct)
    let mut lines = vec!["reset".to_string()];
    let mut n_leaf = 0;
    let mut n_fs = 0;
    let mut leaf = |lines: &mut Vec<String>, k: &str| -> usize {
        lines.push(format!("leaf {}", k));
        n_leaf += 1;
        n_leaf - 1
    };
    let mut fs = |lines: &mut Vec<String>, rest: String| -> usize {
        lines.push(format!("fs {} {}", n_fs, rest));
        n_fs += 1;
        n_fs - 1
    };
    let mut lowers = vec![];
    let target;
    let mut upper = None;
    match kind {
        "fault(mem)" | "fault(phys)" => {
            let l = leaf(&mut lines, if kind.contains("phys") { "phys" } else { "mem" });
            let d = fs(&mut lines, format!("leaf {}", l));
            target = fs(&mut lines, format!("fault {}", d));
        }
        "alt(fault(mem))" | "alt(fault(phys))" => {
            let l = leaf(&mut lines, if kind.contains("phys") { "phys" } else { "mem" });
            let d = fs(&mut lines, format!("leaf {}", l));
            lines.push(format!("op {} create_dir_all {}", d, enc_str("/r/s")));
            let f = fs(&mut lines, format!("fault {}", d));
            target = fs(&mut lines, format!("alt {} {}", f, enc_str("/r/s")));
        }
        _ => {
            // overlays: which layers are fault-wrapped
            let (kinds, wrap): (Vec<&str>, Vec<bool>) = match kind {
                "ovl(fault(mem),mem)" => (vec!["mem", "mem"], vec![true, false]),
                "ovl(mem,fault(mem))" => (vec!["mem", "mem"], vec![false, true]),
                "ovl(fault(mem),fault(mem))" | "alt(ovl(fault(mem),fault(mem)))" => (vec!["mem", "mem"], vec![true, true]),
                "ovl(fault(mem),fault(mem),fault(mem))" => (vec!["mem", "mem", "mem"], vec![true, true, true]),
                "ovl(fault(phys),fault(mem))" => (vec!["phys", "mem"], vec![true, true]),
                "ovl(fault(mem),fault(phys))" => (vec!["mem", "phys"], vec![true, true]),
                _ => panic!("unknown fault config {}", kind),
            };
            let pop_upper = rng.chance(1, 2);
            let contents = gen_layers(rng, kinds.len(), pop_upper);
            let mut args = vec![];
            for (i, k) in kinds.iter().enumerate() {
                let l = leaf(&mut lines, k);
                let d = fs(&mut lines, format!("leaf {}", l));
                for pl in populate_lines(d, &contents[i], Who::Both) {
                    lines.push(pl.text);
                }
                let lf = if wrap[i] { fs(&mut lines, format!("fault {}", d)) } else { d };
                args.push(format!("{}:s", lf));
                if i == 0 {
                    upper = Some(d);
                } else {
                    lowers.push(d);
                }
            }
            let o = fs(&mut lines, format!("ovl {}", args.join(" ")));
            target = if kind.starts_with("alt(") { fs(&mut lines, format!("alt {} s", o)) } else { o };
        }
    }
    (lines, target, lowers, upper)
}

pub fn run(o: &Opts) -> Report {
    let mut rep = Report::new("fault");
    // `--prop C08`: the same sweep, judged only by C08's clause ("still never modifies a lower
    // overlay layer", whatever fails and wherever), on the overlay configurations
    let c08 = o.extra.iter().position(|a| a == "--prop").and_then(|i| o.extra.get(i + 1)).map(|s| s.as_str()) == Some("C08");
    crate::tree_stream::select_universe(&o.extra);
    let mut rng = Rng::new(o.seed ^ 0xfa17);
    let mut world = RWorld::new(&o.scratch);
    let configs = [
        "fault(mem)", "fault(phys)", "alt(fault(mem))", "alt(fault(phys))", "ovl(fault(mem),mem)", "ovl(mem,fault(mem))", "ovl(fault(mem),fault(mem))",
        "ovl(fault(mem),fault(mem),fault(mem))", "ovl(fault(phys),fault(mem))", "ovl(fault(mem),fault(phys))", "alt(ovl(fault(mem),fault(mem)))",
    ];
    let n_scen = if o.thorough() { 60 } else if c08 { 24 } else { 8 };
    let ts = TreeSpec {
        prop: "C20".into(),
        configs: vec![],
        corr_level: 1,
        spec_results: false,
        spec_snapshots: false,
        wrong_type_calls: false,
        root_calls: false,
        composite_ops: true,
        time_ops: false,
        preds: vec![],
    };
    let uni: String = universe().iter().map(|p| enc_str(p)).collect::<Vec<_>>().join(" ");
    // every request line sent to the model, with the implementation's answer
    let mut batch: Vec<String> = vec![];
    let mut impl_outs: Vec<String> = vec![];
    // (scenario description, op, k, range in batch of [op, fired, snap, lowersnaps...], script start)
    struct Probe {
        cfg: String,
        desc: String,
        k: Option<u64>,
        start: usize,
        op_i: usize,
        fired_i: usize,
        snap_i: usize,
        lower_i: Vec<usize>,
        full_snap: String,
        free_res: String,
        base_lower: Vec<String>,
        opname: &'static str,
        n_calls: i64,
    }
    let mut probes: Vec<Probe> = vec![];
    for cfg_kind in configs {
        if c08 && !cfg_kind.contains("ovl") {
            continue;
        }
        let phys = cfg_kind.contains("phys");
        let reps = if phys { (n_scen / 2).max(2) } else { n_scen };
        // curated scenarios (run on every tier): a fixed tree with nested NON-EMPTY directories and
        // the operations that iterate listings, so that every call position of a traversal — the
        // listing of each level, the metadata probe of each entry — is hit by the sweep over k
        let mk_op = |name: &'static str, path: &str, dest: Option<&str>| Op { name, path: path.to_string(), bytes: None, dest: dest.map(|d| d.to_string()), time: None };
        let mut curated: Vec<Op> = vec![];
        if matches!(cfg_kind, "fault(mem)" | "alt(fault(mem))" | "ovl(fault(mem),fault(mem))") || (o.thorough() && !phys) {
            curated = vec![mk_op("walk", "", None), mk_op("copy_dir", "/a", Some("/c/d")), mk_op("move_dir", "/a", Some("/c/d")), mk_op("remove_dir_all", "/a", None), mk_op("read_dir", "/a", None), mk_op("remove_dir", "/a/a", None),
                // re-creation of a path that was removed before (on overlays: its deletion marker is in place, and
                // clearing it is the LAST underlying call of the re-creation)
                Op { name: "write", path: "/c/d".into(), bytes: Some(b"again".to_vec()), dest: None, time: None }, mk_op("create_dir", "/c/d", None), mk_op("create_dir_all", "/c/d/e", None)];
        }
        for si in 0..(reps + curated.len()) {
            let forced: Option<Op> = if si >= reps { Some(curated[si - reps].clone()) } else { None };
            let (cfg_lines, target, lowers, upper) = build(cfg_kind, &mut rng);
            // prefix history generated on the fly, fault-free
            world.reset();
            let mut setup = cfg_lines.clone();
            for l in &cfg_lines {
                world.exec(l);
            }
            let cfg = Cfg { name: cfg_kind.to_string(), lines: vec![], target, spec: 0, overlay_upper: upper, kind: cfg_kind.to_string() };
            let n_prefix = if forced.is_some() { 0 } else { 2 + rng.below(10) };
            if forced.is_some() {
                // fixed tree (calls that collide with the generated layer contents simply fail)
                for l in [
                    format!("op {} remove_dir_all {}", target, enc_str("/c/d")),
                    format!("op {} remove_file {}", target, enc_str("/c/d")),
                    format!("op {} create_dir_all {}", target, enc_str("/a/a")),
                    format!("op {} write {} {}", target, enc_str("/a/a/b"), enc_bytes(b"deep")),
                    format!("op {} create_dir {}", target, enc_str("/c")),
                    format!("op {} write {} {}", target, enc_str("/c/d"), enc_bytes(b"gone")),
                    format!("op {} remove_file {}", target, enc_str("/c/d")),
                ] {
                    world.exec(&l);
                    setup.push(l);
                }
            }
            let mut snap = parse_snap(&world.exec(&format!("snap {} {}", target, uni)));
            for _ in 0..n_prefix {
                let op = gen_op(&mut rng, &ts, &snap, &cfg);
                let line = op.line(target);
                world.exec(&line);
                setup.push(line);
                snap = parse_snap(&world.exec(&format!("snap {} {}", target, uni)));
            }
            // the operation under fault: biased towards composites and adapters' multi-call paths
            let mut op = gen_op(&mut rng, &ts, &snap, &cfg);
            let want_composite = si % 4 != 0;
            if let Some(f) = &forced {
                op = f.clone();
            }
            if c08 && forced.is_none() {
                // C08: the calls whose implementation touches lower layers while writing to the upper one
                // (copy-up of append, whiteouts of removals, creation over lower entries, transfers)
                let wanted = ["append", "remove_file", "append", "remove_dir", "write", "move_file", "append", "remove_dir_all", "create_dir", "move_dir", "copy_file", "append"];
                let w = wanted[si % wanted.len()];
                for _ in 0..300 {
                    if op.name == w && (w != "append" || snap.get(&op.path).map(|o| o.ex == "E").unwrap_or(false)) {
                        break;
                    }
                    op = gen_op(&mut rng, &ts, &snap, &cfg);
                }
            }
            for _ in 0..(if forced.is_some() || c08 { 0 } else { 80 }) {
                let composite = matches!(op.name, "create_dir_all" | "remove_dir_all" | "copy_file" | "move_file" | "copy_dir" | "move_dir" | "walk" | "read_to_string" | "read_dir" | "remove_dir" | "read");
                let mutator = matches!(op.name, "append" | "write" | "remove_dir" | "remove_file" | "create_dir");
                if (want_composite && composite) || (!want_composite && (mutator || composite)) {
                    break;
                }
                op = gen_op(&mut rng, &ts, &snap, &cfg);
            }
            // transfers: the snapshot also covers the re-rooted image of the source subtree at the
            // destination, so that a partial copy below the destination is visible
            let mut uni = uni.clone();
            if let Some(d) = &op.dest {
                if matches!(op.name, "copy_dir" | "move_dir") {
                    for u in universe().iter() {
                        if u.len() > op.path.len() && u.starts_with(&format!("{}/", op.path)) {
                            uni.push(' ');
                            uni.push_str(&enc_str(&format!("{}{}", d, &u[op.path.len()..])));
                        }
                    }
                }
            }
            // fault-free run: number of calls and full-effect snapshot
            world.exec("setfault none");
            let base_lower: Vec<String> = lowers.iter().map(|f| world.exec(&format!("snapt {} {}", f, uni))).collect();
            let free_res = world.exec(&op.line(target));
            let n_calls = world.plan.calls.load(std::sync::atomic::Ordering::SeqCst);
            let full_snap = world.exec(&format!("snap {} {}", target, uni));
            if si < 2 {
                rep.sample(format!("[{}] after {} prefix ops: {} makes {} underlying calls fault-free ({})", cfg_kind, n_prefix, op.describe(), n_calls, project(&free_res, 1)));
            }
            rep.count(&format!("calls-per-op:{}", n_calls.min(40)));
            let ks: Vec<Option<u64>> = (0..(n_calls as u64 + 1)).map(Some).chain(std::iter::once(None)).collect();
            for k in ks {
                // rebuild the state and run the operation with the plan armed
                let start = batch.len();
                for l in &setup {
                    batch.push(l.clone());
                    impl_outs.push(world.exec(l));
                }
                let mut push = |world: &mut RWorld, l: String| -> usize {
                    impl_outs.push(world.exec(&l));
                    batch.push(l);
                    batch.len() - 1
                };
                push(&mut world, format!("setfault {}", k.map(|k| k.to_string()).unwrap_or("none".into())));
                let op_i = push(&mut world, op.line(target));
                let fired_i = push(&mut world, "fired".into());
                push(&mut world, "setfault none".into());
                let snap_i = push(&mut world, format!("snap {} {}", target, uni));
                let lower_i: Vec<usize> = lowers.iter().map(|f| push(&mut world, format!("snapt {} {}", f, uni))).collect();
                probes.push(Probe {
                    cfg: cfg_kind.to_string(),
                    desc: op.describe(),
                    k,
                    start,
                    op_i,
                    fired_i,
                    snap_i,
                    lower_i,
                    full_snap: full_snap.clone(),
                    free_res: free_res.clone(),
                    base_lower: base_lower.clone(),
                    opname: op.name,
                    n_calls,
                });
            }
        }
    }
    world.reset();
    let outs = run_driver(&o.driver, &batch);
    for p in &probes {
        rep.evaluations += 1;
        let res = &impl_outs[p.op_i];
        let fired = impl_outs[p.fired_i] == "fired";
        rep.count(&format!("{}:{}:{}", p.opname, if fired { "fired" } else { "not-fired" }, project(res, 0).split(' ').next().unwrap_or("?")));
        rep.distinct_hash(&format!("{}|{}|{:?}|{}|{}", p.cfg, p.desc, p.k, res, impl_outs[p.snap_i]));
        let script = || batch[p.start..=*p.lower_i.last().unwrap_or(&p.snap_i)].iter().map(|l| format!("B {}", l)).collect::<Vec<_>>();
        let mk = |oracle: &str, sig: String, what: String, a: &str, b: &str| Fail {
            oracle: oracle.into(),
            signature: sig,
            what: format!("[{}] {} with fault at call {:?} of {}: {}", p.cfg, p.desc, p.k, p.n_calls, what),
            script: script(),
            impl_out: a.to_string(),
            model_out: b.to_string(),
        };
        let class = if p.cfg.contains("ovl") { "ovl" } else if p.cfg.starts_with("alt") { "alt" } else { "plain" };
        // ---- PROP
        if res == "panic" {
            rep.fail(mk("prop", format!("{}:{}:panic-under-fault", class, p.opname), "the operation panicked".into(), res, ""));
            continue;
        }
        let ok = !res.starts_with("err");
        let yields_err = p.opname == "walk" && res.contains('!');
        if c08 {
            for (j, li) in p.lower_i.iter().enumerate() {
                if impl_outs[*li] != p.base_lower[j] {
                    rep.fail(mk("prop", format!("{}:{}:lower-layer-changed-under-fault", class, p.opname), format!("lower layer {} changed: {}", j + 1, first_diff(&impl_outs[*li], &p.base_lower[j])), &impl_outs[*li], &p.base_lower[j]));
                }
            }
            continue;
        }
        if fired && ok && !yields_err && impl_outs[p.snap_i] != p.full_snap {
            rep.fail(mk(
                "prop",
                format!("{}:{}:success-with-partial-effect", class, p.opname),
                format!("an underlying call failed, the operation reported success ({}) but the tree is not the full-effect tree: {}", res, first_diff(&impl_outs[p.snap_i], &p.full_snap)),
                &impl_outs[p.snap_i],
                &p.full_snap,
            ));
            continue;
        }
        // an observer that reports success although one of its underlying calls failed must still
        // return the full, fault-free answer (a partial listing / partial walk is a wrong effect)
        let observer = matches!(p.opname, "read_dir" | "walk" | "read" | "read_to_string" | "exists" | "metadata" | "is_file" | "is_dir");
        if fired && ok && !yields_err && observer {
            let norm = |s: &str| {
                let mut v: Vec<&str> = s.split(' ').collect();
                v.sort();
                v.join(" ")
            };
            if norm(res) != norm(&p.free_res) {
                rep.fail(mk("prop", format!("{}:{}:success-with-partial-answer", class, p.opname), format!("an underlying call failed, the observer reported success with {} while the fault-free answer is {}", res, p.free_res), res, &p.free_res));
                continue;
            }
        }
        if fired && ok && !yields_err && p.opname != "walk" {
            // success although a call failed: only acceptable if the effect is complete (checked
            // above) AND the returned value is the fault-free one (copy_dir's count)
            rep.count("success-by-another-route");
            if p.free_res.starts_with("ok") && *res != p.free_res && !observer {
                rep.fail(mk("prop", format!("{}:{}:success-with-wrong-value", class, p.opname), format!("an underlying call failed, the operation reported success with {} while the fault-free value is {}", res, p.free_res), res, &p.free_res));
                continue;
            }
        }
        for (j, li) in p.lower_i.iter().enumerate() {
            if impl_outs[*li] != p.base_lower[j] {
                rep.fail(mk("prop", format!("{}:{}:lower-layer-changed-under-fault", class, p.opname), format!("lower layer {} changed", j + 1), &impl_outs[*li], &p.base_lower[j]));
            }
        }
        // ---- CORR
        let m_res = &outs[p.op_i];
        let cmp_res = |a: &str, b: &str| {
            if p.opname == "walk" {
                let n = |s: &str| {
                    let mut v: Vec<String> = project(s, 1).split(' ').map(|x| x.to_string()).collect();
                    v.sort();
                    v
                };
                // under a fault the walk order decides which items are lost: compare ok-ness and
                // whether an error item is present
                (project(a, 0).starts_with("err") == project(b, 0).starts_with("err")) && (a.contains('!') == b.contains('!')) && (p.k.is_some() || n(a) == n(b))
            } else {
                project(a, 1) == project(b, 1)
            }
        };
        // listing order (HashMap/HashSet) decides which call is the k-th one in operations that
        // iterate a listing; the model iterates in its own order. Compare strictly when the
        // operation is order-free, otherwise only the property-level facts.
        let order_free = !matches!(p.opname, "remove_dir_all" | "copy_dir" | "move_dir" | "walk") && !(class == "ovl" && matches!(p.opname, "read_dir" | "remove_dir"));
        if outs[p.fired_i] != impl_outs[p.fired_i] && (order_free || p.k.is_none()) {
            rep.fail(mk("corr", format!("{}:{}:fired-flag", class, p.opname), format!("implementation {} / model {}", impl_outs[p.fired_i], outs[p.fired_i]), &impl_outs[p.fired_i], &outs[p.fired_i]));
            continue;
        }
        if order_free || p.k.is_none() {
            if !cmp_res(res, m_res) {
                rep.fail(mk("corr", format!("{}:{}:result-under-fault", class, p.opname), format!("result: implementation {} / model {}", res, m_res), res, m_res));
            } else if impl_outs[p.snap_i] != outs[p.snap_i] {
                rep.fail(mk("corr", format!("{}:{}:snapshot-under-fault", class, p.opname), format!("snapshot differs: {}", first_diff(&impl_outs[p.snap_i], &outs[p.snap_i])), &impl_outs[p.snap_i], &outs[p.snap_i]));
            }
        } else {
            rep.count("order-dependent-probes-prop-only");
        }
    }
    rep.count_n("corr-lines", batch.len() as u64);
    rep.count_n("probes", probes.len() as u64);
    rep.notes.push(format!("configs {:?}; per scenario: 0-6 fault-free prefix operations, then one operation re-executed from scratch for every k in 0..=calls (and without fault)", configs));
    rep
}
