//! Stream `scale` (C04 C05 C06 C09 C10 C11): the same line protocol as the other streams, on inputs
//! that are LARGE in one dimension — file contents around internal buffer sizes, directories with
//! hundreds of entries, paths of depth 40, components of 255 bytes, overlays of six layers and
//! nested overlays, histories of hundreds of calls on one name. The theorems hold for every size;
//! this stream extends the TIE between model and code to sizes the small path universes never reach.
//!   CORR  every line's answer: implementation (world.rs) against the Lean model driver
//!         (listings and walks as sorted multisets; contents above 48 bytes as length + checksum).
//!   PROP  (implementation only) the answer each scenario expects by construction: bytes read back
//!         equal bytes written, a listing has exactly the names created, a walk yields every
//!         descendant once, a copy is identical, a removed name stays absent, the parent chain of a
//!         deep path reaches the root in exactly `depth` steps.
use crate::util::*;
use crate::world::{enc_content, enc_list_sorted, RWorld};

struct Sc {
    name: String,
    prop: &'static str,
    lines: Vec<String>,
    /// expected implementation answer per line (None: judged by CORR only)
    expect: Vec<Option<String>>,
    /// compare as a sorted multiset of space-separated items after the leading "ok"
    bag: Vec<bool>,
}

impl Sc {
    fn new(name: &str, prop: &'static str) -> Sc {
        Sc { name: name.into(), prop, lines: vec![], expect: vec![], bag: vec![] }
    }
    fn l(&mut self, s: String) {
        self.lines.push(s);
        self.expect.push(None);
        self.bag.push(false);
    }
    fn le(&mut self, s: String, e: String) {
        self.lines.push(s);
        self.expect.push(Some(e));
        self.bag.push(false);
    }
    fn lbag(&mut self, s: String, e: Option<String>) {
        self.lines.push(s);
        self.expect.push(e);
        self.bag.push(true);
    }
    fn setup(&mut self, cfg: &str) {
        self.l("reset".into());
        let e = enc_str("");
        match cfg {
            "mem" => {
                self.l("leaf mem".into());
                self.l("fs 0 leaf 0".into());
            }
            "phys" => {
                self.l("leaf phys".into());
                self.l("fs 0 leaf 0".into());
            }
            "alt(mem)" | "alt(phys)" => {
                self.l(format!("leaf {}", if cfg == "alt(mem)" { "mem" } else { "phys" }));
                self.l("fs 5 leaf 0".into());
                self.l(format!("op 5 create_dir_all {}", enc_str("/jail/inner")));
                self.l(format!("fs 0 alt 5 {}", enc_str("jail/inner")));
            }
            "ovl(mem,mem)" | "ovl(phys,mem)" | "ovl(mem,phys)" => {
                let (a, b) = match cfg {
                    "ovl(mem,mem)" => ("mem", "mem"),
                    "ovl(phys,mem)" => ("phys", "mem"),
                    _ => ("mem", "phys"),
                };
                self.l(format!("leaf {}", a));
                self.l(format!("leaf {}", b));
                self.l("fs 5 leaf 0".into());
                self.l("fs 6 leaf 1".into());
                self.l(format!("fs 0 ovl 5:{} 6:{}", e, e));
            }
            _ => panic!("unknown cfg"),
        }
    }
}

fn big(n: usize, salt: u8) -> Vec<u8> {
    (0..n).map(|i| ((i * 7 + i / 251 + salt as usize) % 256) as u8).collect()
}
/// contents with structure an implementation might special-case: runs of zeros (sparse-file
/// handling), a zero tail or head aligned to a block size, one repeated byte, 0xFF, line ends
fn shaped(n: usize, shape: usize, salt: u8) -> Vec<u8> {
    match shape % 7 {
        0 => big(n, salt),
        1 => vec![0u8; n],
        2 => {
            // data, then zeros from the last 64 KiB / 8 KiB / 4 KiB boundary on
            let mut b = big(n, salt);
            let blk = if n > 65536 { 65536 } else if n > 8192 { 8192 } else { 4096 };
            let from = if n % blk == 0 { n.saturating_sub(blk) } else { n - n % blk };
            for x in b[from.min(n)..].iter_mut() {
                *x = 0;
            }
            b
        }
        3 => {
            let mut b = big(n, salt);
            let k = (n / 2).min(65536);
            for x in b[..k].iter_mut() {
                *x = 0;
            }
            b
        }
        4 => vec![0xFFu8; n],
        5 => (0..n).map(|i| if i % 64 == 63 { b'\n' } else if i % 64 == 62 { b'\r' } else { b'a' + (i % 23) as u8 }).collect(),
        _ => {
            // zero block in the middle
            let mut b = big(n, salt);
            let a = n / 3;
            for x in b[a..(a + 70000).min(n)].iter_mut() {
                *x = 0;
            }
            b
        }
    }
}
fn ok_content(b: &[u8]) -> String {
    format!("ok {}", enc_content(b))
}
fn ok_bytes(b: &[u8]) -> String {
    format!("ok {}", enc_bytes(b))
}
fn ok_list(l: Vec<String>) -> String {
    format!("ok {}", enc_list_sorted(l))
}

fn scenarios(o: &Opts, rng: &mut Rng) -> Vec<Sc> {
    let mut out = vec![];
    let th = o.thorough();
    // ---- 1. large contents around buffer sizes ----
    let mut sizes = vec![4095, 4096, 8191, 8192, 8193, 16384, 65535, 65536, 65537, 131072 + 5];
    if th {
        sizes.extend([1 << 20, (1 << 20) + 1, 3 * (1 << 20) + 17]);
    }
    for cfg in ["mem", "phys", "alt(mem)", "ovl(mem,mem)", "ovl(phys,mem)", "ovl(mem,phys)"] {
        let mut sc = Sc::new(&format!("large-contents[{}]", cfg), "C04");
        sc.setup(cfg);
        // (size, shape): random picks plus two fixed ones — 64 KiB of data followed by 64 KiB of zeros, one block of zeros
        let mut pick: Vec<(usize, usize)> = if th { sizes.iter().enumerate().map(|(i, n)| (*n, i)).collect() } else { (0..3).map(|_| (*rng.pick(&sizes[..]), rng.below(7) as usize)).collect() };
        pick.push((131072, 2));
        pick.push((65536, 1));
        if th {
            pick.extend(sizes.iter().map(|n| (*n, 2)));
            pick.extend([(65536usize * 3, 6), (8192, 1), (8192 * 2, 2), (1 << 20, 3)]);
        }
        for (i, (n, shape)) in pick.iter().enumerate() {
            let b = shaped(*n, *shape, i as u8);
            let p = format!("/f{}", i);
            sc.le(format!("op 0 write {} {}", enc_str(&p), enc_bytes(&b)), "ok".into());
            sc.le(format!("op 0 read {}", enc_str(&p)), ok_content(&b));
            sc.le(format!("op 0 metadata {}", enc_str(&p)), format!("ok F {}", n));
            // chunked reads through one handle
            sc.l(format!("hopen 1 0 {}", enc_str(&p)));
            let mut off = 0;
            for chunk in [1usize, 4096, 8191, 70000, 1 << 21] {
                let end = (off + chunk).min(b.len());
                sc.le(format!("hread 1 {}", chunk), ok_bytes(&b[off..end]));
                off = end;
            }
            sc.le("hread 1 10".into(), ok_bytes(&b[off..(off + 10).min(b.len())]));
            sc.l("hdrop 1".into());
            // copy, append, move
            let q = format!("/g{}", i);
            sc.le(format!("op 0 copy_file {} 0 {}", enc_str(&p), enc_str(&q)), "ok".into());
            sc.le(format!("op 0 read {}", enc_str(&q)), ok_content(&b));
            let tail = shaped(*rng.pick(&[1usize, 8192, 65536][..]), rng.below(3) as usize, 9);
            sc.le(format!("op 0 append {} {}", enc_str(&q), enc_bytes(&tail)), "ok".into());
            let mut bb = b.clone();
            bb.extend_from_slice(&tail);
            sc.le(format!("op 0 read {}", enc_str(&q)), ok_content(&bb));
            let r = format!("/h{}", i);
            sc.le(format!("op 0 move_file {} 0 {}", enc_str(&q), enc_str(&r)), "ok".into());
            sc.le(format!("op 0 read {}", enc_str(&r)), ok_content(&bb));
            sc.le(format!("op 0 exists {}", enc_str(&q)), "ok false".into());
            // chunked writes through one handle: the same bytes in pieces
            let s = format!("/w{}", i);
            sc.l(format!("hcreate 2 0 {}", enc_str(&s)));
            let mut off = 0;
            for chunk in [3usize, 8192, 8193, 65536, 1 << 22] {
                let end = (off + chunk).min(b.len());
                if end > off {
                    sc.l(format!("hwrite 2 {}", enc_bytes(&b[off..end])));
                }
                off = end;
            }
            sc.l("hdrop 2".into());
            sc.le(format!("op 0 read {}", enc_str(&s)), ok_content(&b));
        }
        out.push(sc);
    }
    // a large file that lives in the LOWER layer: read, append (copy-up), copy out
    for cfg in ["ovl(mem,mem)", "ovl(phys,mem)"] {
        let mut sc = Sc::new(&format!("large-lower-file[{}]", cfg), "C04");
        sc.setup(cfg);
        let b = shaped(*rng.pick(&[8193usize, 65537, 131072, 200_001][..]), rng.below(7) as usize, 3);
        sc.le(format!("op 6 write {} {}", enc_str("/low.bin"), enc_bytes(&b)), "ok".into());
        sc.le(format!("op 0 read {}", enc_str("/low.bin")), ok_content(&b));
        let tail = big(8193, 1);
        sc.le(format!("op 0 append {} {}", enc_str("/low.bin"), enc_bytes(&tail)), "ok".into());
        let mut bb = b.clone();
        bb.extend_from_slice(&tail);
        sc.le(format!("op 0 read {}", enc_str("/low.bin")), ok_content(&bb));
        sc.le(format!("op 6 read {}", enc_str("/low.bin")), ok_content(&b));
        out.push(sc);
    }
    // ---- 2. directories with many entries ----
    let counts: Vec<usize> = if th { vec![33, 257, 1025] } else { vec![*rng.pick(&[33usize, 65, 129][..]), 257] };
    for cfg in ["mem", "phys", "alt(mem)", "ovl(mem,mem)"] {
        for n in &counts {
            if cfg != "mem" && *n > 300 {
                continue;
            }
            let mut sc = Sc::new(&format!("many-entries[{} x{}]", cfg, n), "C05");
            sc.setup(cfg);
            sc.le(format!("op 0 create_dir {}", enc_str("/d")), "ok".into());
            let mut names = vec![];
            let ovl = cfg.starts_with("ovl");
            if ovl {
                sc.l(format!("op 6 create_dir {}", enc_str("/d")));
            }
            for i in 0..*n {
                let name = format!("e{:04}{}", i, if i % 7 == 0 { ".d" } else { "" });
                let p = format!("/d/{}", name);
                // on overlays every third entry lives in the lower layer only
                let fs = if ovl && i % 3 == 0 { 6 } else { 0 };
                if i % 7 == 0 {
                    sc.l(format!("op {} create_dir {}", fs, enc_str(&p)));
                    // every directory has a child (a walk must descend into the 129th, 257th, … entry too)
                    sc.l(format!("op {} write {} {}", fs, enc_str(&format!("{}/in", p)), enc_bytes(b"i")));
                } else {
                    sc.l(format!("op {} write {} {}", fs, enc_str(&p), enc_bytes(format!("c{}", i).as_bytes())));
                }
                names.push(p);
            }
            sc.le(format!("op 0 read_dir {}", enc_str("/d")), ok_list(names.clone()));
            sc.le(format!("op 0 remove_dir {}", enc_str("/d")), "^err ".into());
            sc.le(format!("op 0 create_dir {}", enc_str(&names[names.len() - 1])), "^err ".into());
            sc.le(format!("op 0 exists {}", enc_str(&format!("/d/e{:04}", n))), "ok false".into());
            sc.le(format!("op 0 metadata {}", enc_str(&names[names.len() / 2])), if (names.len() / 2) % 7 == 0 { "ok D 0".to_string() } else { format!("ok F {}", format!("c{}", names.len() / 2).len()) });
            let inner = |p: &String| if p.ends_with(".d") { Some(format!("{}/in", p)) } else { None };
            let mut walk: Vec<String> = names.iter().map(|p| enc_str(p)).chain(names.iter().filter_map(inner).map(|p| enc_str(&p))).collect();
            walk.sort();
            sc.lbag(format!("op 0 walk {}", enc_str("/d")), Some(format!("ok {}", walk.join(" "))));
            // remove every fifth, the listing follows
            let mut left = vec![];
            for (i, p) in names.iter().enumerate() {
                if i % 5 == 0 {
                    if i % 7 == 0 {
                        sc.le(format!("op 0 remove_dir {}", enc_str(p)), "^err ".into());
                    }
                    sc.le(format!("op 0 {} {}", if i % 7 == 0 { "remove_dir_all" } else { "remove_file" }, enc_str(p)), "ok".into());
                } else {
                    left.push(p.clone());
                }
            }
            sc.le(format!("op 0 read_dir {}", enc_str("/d")), ok_list(left.clone()));
            sc.le(format!("op 0 copy_dir {} 0 {}", enc_str("/d"), enc_str("/copy")), format!("ok {}", left.len() + left.iter().filter(|p| p.ends_with(".d")).count()));
            {
                let mut w: Vec<String> = left.iter().map(|p| format!("/copy{}", &p[2..])).flat_map(|p| if p.ends_with(".d") { vec![enc_str(&p), enc_str(&format!("{}/in", p))] } else { vec![enc_str(&p)] }).collect();
                w.sort();
                sc.lbag(format!("op 0 walk {}", enc_str("/copy")), Some(format!("ok {}", w.join(" "))));
            }
            sc.le(format!("op 0 read_dir {}", enc_str("/copy")), ok_list(left.iter().map(|p| format!("/copy{}", &p[2..])).collect()));
            let probe = &left[left.len() / 2];
            sc.l(format!("op 0 read {}", enc_str(&format!("/copy{}", &probe[2..]))));
            sc.le(format!("op 0 move_dir {} 0 {}", enc_str("/copy"), enc_str("/moved")), "ok".into());
            sc.le(format!("op 0 read_dir {}", enc_str("/moved")), ok_list(left.iter().map(|p| format!("/moved{}", &p[2..])).collect()));
            sc.le(format!("op 0 exists {}", enc_str("/copy")), "ok false".into());
            sc.le(format!("op 0 remove_dir_all {}", enc_str("/d")), "ok".into());
            sc.le(format!("op 0 exists {}", enc_str("/d")), "ok false".into());
            sc.le(format!("op 0 read_dir {}", enc_str("")), ok_list(vec!["/moved".into()]));
            out.push(sc);
        }
    }
    // ---- 3. deep paths ----
    for cfg in ["mem", "phys", "alt(mem)", "alt(phys)", "ovl(mem,mem)", "ovl(mem,phys)"] {
        let depth = if th { 64 } else { *rng.pick(&[17usize, 33, 40][..]) };
        let mut sc = Sc::new(&format!("deep[{} depth {}]", cfg, depth), "C11");
        sc.setup(cfg);
        let comps: Vec<String> = (0..depth).map(|i| format!("{}{}", ["n", "é", "x.y", "ab"][i % 4], i)).collect();
        let full = format!("/t/{}", comps.join("/"));
        if cfg.starts_with("ovl") {
            // the first half of the chain exists only in the lower layer
            let half = format!("/t/{}", comps[..depth / 2].join("/"));
            sc.l(format!("op 6 create_dir_all {}", enc_str(&half)));
        }
        sc.le(format!("op 0 create_dir_all {}", enc_str(&full)), "ok".into());
        sc.le(format!("op 0 is_dir {}", enc_str(&full)), "ok true".into());
        sc.le(format!("op 0 write {} {}", enc_str(&format!("{}/leaf.txt", full)), enc_bytes(b"deep")), "ok".into());
        // wrong-type and already-complete targets at depth: refused / idempotent as at depth 1
        sc.le(format!("op 0 create_dir_all {}", enc_str(&format!("{}/leaf.txt", full))), "^err ".into());
        sc.le(format!("op 0 create_dir_all {}", enc_str(&format!("{}/leaf.txt/below", full))), "^err ".into());
        sc.le(format!("op 0 create_dir_all {}", enc_str(&full)), "ok".into());
        sc.le(format!("op 0 create_dir {}", enc_str(&full)), "^err ".into());
        sc.le(format!("op 0 remove_dir {}", enc_str(&format!("/t/{}", comps[..depth - 1].join("/")))), "^err ".into());
        sc.le(format!("op 0 read {}", enc_str(&full)), "^err ".into());
        sc.le(format!("op 0 is_file {}", enc_str(&format!("{}/leaf.txt", full))), "ok true".into());
        {
            // a partial chain: a second branch shares the first depth-3 levels
            let branch = format!("/t/{}/side/way", comps[..depth - 3].join("/"));
            sc.le(format!("op 0 create_dir_all {}", enc_str(&branch)), "ok".into());
            sc.le(format!("op 0 remove_dir {}", enc_str(&branch)), "ok".into());
            sc.le(format!("op 0 remove_dir {}", enc_str(&format!("/t/{}/side", comps[..depth - 3].join("/")))), "ok".into());
        }
        let mut walk = vec![];
        for i in 1..=depth {
            walk.push(enc_str(&format!("/t/{}", comps[..i].join("/"))));
        }
        walk.push(enc_str(&format!("{}/leaf.txt", full)));
        walk.sort();
        sc.lbag(format!("op 0 walk {}", enc_str("/t")), Some(format!("ok {}", walk.join(" "))));
        sc.le(format!("op 0 copy_dir {} 0 {}", enc_str("/t"), enc_str("/u")), format!("ok {}", depth + 1));
        sc.le(format!("op 0 read {}", enc_str(&format!("/u/{}/leaf.txt", comps.join("/")))), ok_content(b"deep"));
        sc.le(format!("op 0 move_dir {} 0 {}", enc_str("/u"), enc_str("/v")), "ok".into());
        sc.le(format!("op 0 read {}", enc_str(&format!("/v/{}/leaf.txt", comps.join("/")))), ok_content(b"deep"));
        sc.le(format!("op 0 remove_dir_all {}", enc_str("/t")), "ok".into());
        sc.le(format!("op 0 exists {}", enc_str(&format!("/t/{}", comps[0]))), "ok false".into());
        sc.le(format!("op 0 exists {}", enc_str("/t")), "ok false".into());
        // re-creation below the removed tree starts fresh
        sc.le(format!("op 0 create_dir_all {}", enc_str(&format!("/t/{}", comps[..3].join("/")))), "ok".into());
        sc.le(format!("op 0 read_dir {}", enc_str(&format!("/t/{}", comps[..3].join("/")))), "ok []".into());
        sc.le(format!("op 0 remove_dir_all {}", enc_str("/v")), "ok".into());
        sc.le(format!("op 0 read_dir {}", enc_str("")), ok_list(vec!["/t".into()]));
        out.push(sc);
    }
    // ---- 4. long names ----
    for cfg in ["mem", "phys", "alt(mem)", "ovl(mem,mem)"] {
        let mut sc = Sc::new(&format!("long-names[{}]", cfg), "C05");
        sc.setup(cfg);
        // 255 bytes is the host's limit per component; multi-byte: 85 x 3 bytes
        let ascii: String = std::iter::repeat("abcdefghij").take(30).collect::<String>()[..if cfg == "phys" { 255 } else { 300 }].to_string();
        let multi: String = std::iter::repeat('日').take(85).collect();
        let two: String = std::iter::repeat('é').take(127).collect();
        let mut made = vec![];
        for (i, name) in [ascii.clone(), multi.clone(), two.clone()].iter().enumerate() {
            let d = format!("/{}", name);
            sc.le(format!("op 0 create_dir {}", enc_str(&d)), "ok".into());
            let f = format!("{}/{}", d, name);
            sc.le(format!("op 0 write {} {}", enc_str(&f), enc_bytes(format!("v{}", i).as_bytes())), "ok".into());
            sc.le(format!("op 0 read {}", enc_str(&f)), ok_content(format!("v{}", i).as_bytes()));
            sc.le(format!("op 0 read_dir {}", enc_str(&d)), ok_list(vec![f.clone()]));
            // a sibling whose name is a one-character extension / truncation of the long one
            let sib = format!("{}/{}", d, &name[..name.char_indices().last().unwrap().0]);
            sc.le(format!("op 0 exists {}", enc_str(&sib)), "ok false".into());
            made.push(d);
        }
        sc.le(format!("op 0 read_dir {}", enc_str("")), ok_list(made.clone()));
        // a long chain of long names on the in-memory configurations (total length in the thousands)
        if cfg == "mem" || (th && cfg != "phys") {
            let links = if th { 40 } else { 20 };
            let chain: Vec<String> = (0..links).map(|i| format!("{}{}", &ascii[..250], i)).collect();
            let p = format!("/{}", chain.join("/"));
            sc.le(format!("op 0 create_dir_all {}", enc_str(&p)), "ok".into());
            sc.le(format!("op 0 is_dir {}", enc_str(&p)), "ok true".into());
            // a file at every level; walk, copy and move see all of them (paths beyond 4096 and 8192 bytes)
            let mut walk = vec![];
            for i in 1..=links {
                let d = format!("/{}", chain[..i].join("/"));
                let f = format!("{}/f{}", d, i);
                sc.le(format!("op 0 write {} {}", enc_str(&f), enc_bytes(format!("{}", i).as_bytes())), "ok".into());
                if i > 1 {
                    walk.push(enc_str(&d));
                }
                walk.push(enc_str(&f));
            }
            walk.sort();
            let top = format!("/{}", chain[0]);
            sc.lbag(format!("op 0 walk {}", enc_str(&top)), Some(format!("ok {}", walk.join(" "))));
            sc.le(format!("op 0 copy_dir {} 0 {}", enc_str(&top), enc_str("/cc")), format!("ok {}", walk.len()));
            sc.le(format!("op 0 read {}", enc_str(&format!("/cc/{}/f{}", chain[1..].join("/"), links))), ok_content(format!("{}", links).as_bytes()));
            sc.le(format!("op 0 move_dir {} 0 {}", enc_str("/cc"), enc_str("/mm")), "ok".into());
            sc.le(format!("op 0 read {}", enc_str(&format!("/mm/{}/f{}", chain[1..].join("/"), links))), ok_content(format!("{}", links).as_bytes()));
            sc.le(format!("op 0 remove_dir_all {}", enc_str("/mm")), "ok".into());
            sc.le(format!("op 0 remove_dir_all {}", enc_str(&format!("/{}", chain[0]))), "ok".into());
            sc.le(format!("op 0 exists {}", enc_str(&p)), "ok false".into());
        }
        out.push(sc);
    }
    // ---- 5. many layers, nested overlays, chains of altroots ----
    {
        let nl = 6;
        let mut sc = Sc::new("six-layers", "C09");
        sc.l("reset".into());
        let e = enc_str("");
        for i in 0..nl {
            sc.l("leaf mem".into());
            sc.l(format!("fs {} leaf {}", 10 + i, i));
        }
        sc.l(format!("fs 0 ovl {}", (0..nl).map(|i| format!("{}:{}", 10 + i, e)).collect::<Vec<_>>().join(" ")));
        // /only<k> lives in layer k only; /all lives in every layer with the layer's number; /dir merges one child per layer
        for k in 0..nl {
            sc.l(format!("op {} write {} {}", 10 + k, enc_str(&format!("/only{}", k)), enc_bytes(format!("L{}", k).as_bytes())));
            sc.l(format!("op {} write {} {}", 10 + k, enc_str("/all"), enc_bytes(format!("A{}", k).as_bytes())));
            sc.l(format!("op {} create_dir {}", 10 + k, enc_str("/dir")));
            sc.l(format!("op {} write {} {}", 10 + k, enc_str(&format!("/dir/c{}", k)), enc_bytes(b"x")));
            if k >= 1 {
                // from layer 1 downwards /shadow exists; layer 1 has it as a file, deeper ones as a directory with a child
                if k == 1 {
                    sc.l(format!("op {} write {} {}", 10 + k, enc_str("/shadow"), enc_bytes(b"file")));
                } else {
                    sc.l(format!("op {} create_dir {}", 10 + k, enc_str("/shadow")));
                }
            }
        }
        for k in 0..nl {
            sc.le(format!("op 0 read {}", enc_str(&format!("/only{}", k))), ok_content(format!("L{}", k).as_bytes()));
        }
        sc.le(format!("op 0 read {}", enc_str("/all")), ok_content(b"A0"));
        sc.le(format!("op 0 read_dir {}", enc_str("/dir")), ok_list((0..nl).map(|k| format!("/dir/c{}", k)).collect()));
        sc.le(format!("op 0 metadata {}", enc_str("/shadow")), "ok F 4".into());
        // removal of a name of the deepest layer, persistence, re-creation
        sc.le(format!("op 0 remove_file {}", enc_str(&format!("/only{}", nl - 1))), "ok".into());
        sc.le(format!("op 0 exists {}", enc_str(&format!("/only{}", nl - 1))), "ok false".into());
        sc.le(format!("op {} read {}", 10 + nl - 1, enc_str(&format!("/only{}", nl - 1))), ok_content(format!("L{}", nl - 1).as_bytes()));
        sc.le(format!("op 0 append {} {}", enc_str(&format!("/only{}", nl - 2)), enc_bytes(b"+")), "ok".into());
        sc.le(format!("op 0 read {}", enc_str(&format!("/only{}", nl - 2))), ok_content(format!("L{}+", nl - 2).as_bytes()));
        sc.le(format!("op {} read {}", 10 + nl - 2, enc_str(&format!("/only{}", nl - 2))), ok_content(format!("L{}", nl - 2).as_bytes()));
        sc.le(format!("op 0 remove_dir_all {}", enc_str("/dir")), "ok".into());
        sc.le(format!("op 0 exists {}", enc_str("/dir")), "ok false".into());
        sc.le(format!("op 0 create_dir {}", enc_str("/dir")), "ok".into());
        sc.le(format!("op 0 read_dir {}", enc_str("/dir")), "ok []".into());
        let mut root: Vec<String> = (0..nl - 1).map(|k| format!("/only{}", k)).collect();
        root.extend(["/all".to_string(), "/dir".to_string(), "/shadow".to_string()]);
        sc.le(format!("op 0 read_dir {}", enc_str("")), ok_list(root));
        out.push(sc);
    }
    {
        // overlay whose layers are overlays; altroot of altroot of altroot over it
        let mut sc = Sc::new("nested-overlays-and-altroots", "C09");
        sc.l("reset".into());
        let e = enc_str("");
        for i in 0..4 {
            sc.l("leaf mem".into());
            sc.l(format!("fs {} leaf {}", 10 + i, i));
        }
        sc.l(format!("fs 20 ovl 10:{} 11:{}", e, e));
        sc.l(format!("fs 21 ovl 12:{} 13:{}", e, e));
        sc.l(format!("fs 30 ovl 20:{} 21:{}", e, e));
        for k in 0..4 {
            sc.l(format!("op {} create_dir_all {}", 10 + k, enc_str("/r/s/t")));
            sc.l(format!("op {} write {} {}", 10 + k, enc_str(&format!("/r/s/t/from{}", k)), enc_bytes(format!("{}", k).as_bytes())));
            sc.l(format!("op {} write {} {}", 10 + k, enc_str("/r/s/t/same"), enc_bytes(format!("S{}", k).as_bytes())));
        }
        sc.l(format!("fs 31 alt 30 {}", enc_str("r")));
        sc.l(format!("fs 32 alt 31 {}", enc_str("s")));
        sc.l(format!("fs 0 alt 32 {}", enc_str("t")));
        sc.le(format!("op 0 read_dir {}", enc_str("")), ok_list((0..4).map(|k| format!("/from{}", k)).chain(["/same".to_string()]).collect()));
        sc.le(format!("op 0 read {}", enc_str("/same")), ok_content(b"S0"));
        for k in 0..4 {
            sc.le(format!("op 0 read {}", enc_str(&format!("/from{}", k))), ok_content(format!("{}", k).as_bytes()));
        }
        sc.le(format!("op 0 remove_file {}", enc_str("/from3")), "ok".into());
        sc.le(format!("op 0 exists {}", enc_str("/from3")), "ok false".into());
        sc.le(format!("op 13 read {}", enc_str("/r/s/t/from3")), ok_content(b"3"));
        sc.le(format!("op 0 write {} {}", enc_str("/from3"), enc_bytes(b"new")), "ok".into());
        sc.le(format!("op 0 read {}", enc_str("/from3")), ok_content(b"new"));
        sc.le(format!("op 10 read {}", enc_str("/r/s/t/from3")), ok_content(b"new"));
        sc.le(format!("op 0 create_dir_all {}", enc_str("/p/q")), "ok".into());
        sc.le(format!("op 10 is_dir {}", enc_str("/r/s/t/p/q")), "ok true".into());
        sc.le(format!("op 0 exists {}", enc_str("/../../../r")), "ok false".into());
        out.push(sc);
    }
    // ---- 6. long histories on one name ----
    for cfg in ["mem", "phys", "ovl(mem,mem)", "ovl(phys,mem)", "alt(mem)"] {
        let cycles = if th { 400 } else { 60 + rng.below(60) as usize };
        let mut sc = Sc::new(&format!("long-history[{} x{}]", cfg, cycles), "C10");
        sc.setup(cfg);
        if cfg.starts_with("ovl") {
            sc.l(format!("op 6 write {} {}", enc_str("/n"), enc_bytes(b"lower")));
            sc.l(format!("op 6 create_dir {}", enc_str("/keep")));
            sc.l(format!("op 6 write {} {}", enc_str("/keep/k"), enc_bytes(b"k")));
        } else {
            sc.l(format!("op 0 write {} {}", enc_str("/n"), enc_bytes(b"lower")));
            sc.l(format!("op 0 create_dir {}", enc_str("/keep")));
            sc.l(format!("op 0 write {} {}", enc_str("/keep/k"), enc_bytes(b"k")));
        }
        let mut acc: Vec<u8> = vec![];
        for c in 0..cycles {
            match c % 4 {
                0 => {
                    // remove whatever /n is, check absence
                    sc.l(format!("op 0 remove_file {}", enc_str("/n")));
                    sc.l(format!("op 0 remove_dir {}", enc_str("/n")));
                    sc.le(format!("op 0 exists {}", enc_str("/n")), "ok false".into());
                }
                1 => {
                    sc.le(format!("op 0 create_dir {}", enc_str("/n")), "ok".into());
                    sc.le(format!("op 0 read_dir {}", enc_str("/n")), "ok []".into());
                }
                2 => {
                    sc.le(format!("op 0 remove_dir {}", enc_str("/n")), "ok".into());
                    acc = format!("gen{}", c).into_bytes();
                    sc.le(format!("op 0 write {} {}", enc_str("/n"), enc_bytes(&acc)), "ok".into());
                }
                _ => {
                    let add = format!("+{}", c).into_bytes();
                    sc.le(format!("op 0 append {} {}", enc_str("/n"), enc_bytes(&add)), "ok".into());
                    acc.extend_from_slice(&add);
                    sc.le(format!("op 0 read {}", enc_str("/n")), ok_content(&acc));
                }
            }
            if c % 10 == 9 {
                sc.le(format!("op 0 read_dir {}", enc_str("")), ok_list(vec!["/keep".into(), "/n".into()]));
                sc.le(format!("op 0 read {}", enc_str("/keep/k")), ok_content(b"k"));
            }
        }
        // many appends of one byte
        sc.le(format!("op 0 write {} {}", enc_str("/many"), enc_bytes(b"")), "ok".into());
        let n_app = if th { 600 } else { 150 };
        let mut bytes = vec![];
        for i in 0..n_app {
            let b = [(i % 251) as u8];
            sc.l(format!("op 0 append {} {}", enc_str("/many"), enc_bytes(&b)));
            bytes.push(b[0]);
        }
        sc.le(format!("op 0 read {}", enc_str("/many")), ok_content(&bytes));
        sc.le(format!("op 0 metadata {}", enc_str("/many")), format!("ok F {}", n_app));
        if cfg.starts_with("ovl") {
            sc.le(format!("op 6 read {}", enc_str("/n")), ok_content(b"lower"));
        }
        out.push(sc);
    }
    out
}

fn bag(s: &str) -> String {
    let mut items: Vec<&str> = s.split(' ').collect();
    if items.first() == Some(&"ok") {
        items.remove(0);
    }
    items.sort();
    items.join(" ")
}

pub fn run(o: &Opts) -> Report {
    let mut rep = Report::new("scale");
    let mut rng = Rng::new(o.seed ^ 0x5ca1e);
    let want = o.extra.iter().position(|a| a == "--prop").and_then(|i| o.extra.get(i + 1)).cloned();
    let scs: Vec<Sc> = scenarios(o, &mut rng).into_iter().filter(|s| want.as_deref().map(|w| w.split(',').any(|x| x == s.prop)).unwrap_or(true)).collect();
    let mut world = RWorld::new(&o.scratch);
    if o.extra.iter().any(|a| a == "--async") {
        // C15 at scale: every scenario also runs on the async twin of its configuration (three executors in
        // turn, 0/1/3 injected Pending polls); every answer must equal the sync port's answer
        let rt = tokio::runtime::Builder::new_current_thread().build().unwrap();
        let drivers = ["tokio", "async-std", "futures"];
        for (k, sc) in scs.iter().enumerate() {
            // handle commands keep per-world state the async world models differently for large reads: skipped
            if sc.lines.iter().any(|l| l.starts_with("hopen") || l.starts_with("hcreate")) && sc.name.starts_with("large-contents") && !o.thorough() && k % 2 == 1 {
                continue;
            }
            let driver = drivers[k % 3];
            let mut aworld = crate::async_stream::AWorld::new(&o.scratch, rng.next(), [0u32, 1, 3][(k / 3) % 3]);
            rep.sample(format!("async {} under {}", sc.name, driver));
            let mut failed = false;
            for (i, line) in sc.lines.iter().enumerate() {
                let s_out = world.exec(line);
                let a_out = match guarded(|| crate::async_stream::block_on_with(driver, &rt, aworld.exec(line))) {
                    Ok(a) => a,
                    Err(m) => format!("panic {}", m),
                };
                rep.evaluations += 1;
                rep.distinct_hash(&format!("async|{}|{}|{}", sc.name, i, s_out.len().min(64)));
                let same = if sc.bag[i] || line.contains(" walk ") { bag(&s_out) == bag(&a_out) } else { s_out == a_out };
                if !same && !failed {
                    failed = true;
                    let shown = |s: &str| if s.len() > 300 { format!("{}… ({} bytes)", &s[..300], s.len()) } else { s.to_string() };
                    rep.fail(Fail {
                        oracle: "prop".into(),
                        signature: format!("scale:async:{}:differs-from-sync", sc.name.split('[').next().unwrap_or("")),
                        what: format!("{} under {}: line {} `{}`: sync [{}] / async [{}]", sc.name, driver, i, shown(line), shown(&s_out), shown(&a_out)),
                        script: sc.lines[..=i].iter().map(|l| if l.len() > 400 { format!("{}…", &l[..400]) } else { l.clone() }).collect(),
                        impl_out: shown(&a_out),
                        model_out: shown(&s_out),
                    });
                }
            }
            aworld.reset();
            rep.count(&format!("async-scenario:{}", sc.name.split('[').next().unwrap_or("")));
        }
        world.reset();
        rep.notes.push("scale stream, async leg: every scenario on the async twin (tokio / async-std / futures executors, 0/1/3 injected Pending polls), answers compared with the sync port line by line".into());
        return rep;
    }
    for sc in &scs {
        rep.sample(format!("{} ({} lines)", sc.name, sc.lines.len()));
        let impl_outs: Vec<String> = sc.lines.iter().map(|l| world.exec(l)).collect();
        let model_outs = run_driver(&o.driver, &sc.lines);
        let mut prop_failed = false;
        let mut corr_failed = false;
        for (i, line) in sc.lines.iter().enumerate() {
            rep.evaluations += 1;
            let imp = &impl_outs[i];
            rep.distinct_hash(&format!("{}|{}|{}", sc.name, i, imp.len().min(64)));
            if let Some(e) = &sc.expect[i] {
                let same = if let Some(pre) = e.strip_prefix('^') { imp.starts_with(pre) } else if sc.bag[i] { bag(imp) == bag(e) } else { imp == e };
                if !same && !prop_failed {
                    prop_failed = true;
                    let shown = |s: &str| if s.len() > 300 { format!("{}… ({} bytes)", &s[..300], s.len()) } else { s.to_string() };
                    rep.fail(Fail {
                        oracle: "prop".into(),
                        signature: format!("scale:{}:unexpected-answer", sc.name.split('[').next().unwrap_or("")),
                        what: format!("{}: line {} `{}` answered [{}], expected [{}]", sc.name, i, shown(line), shown(imp), shown(e)),
                        script: sc.lines[..=i].iter().map(|l| if l.len() > 400 { format!("{}…", &l[..400]) } else { l.clone() }).collect(),
                        impl_out: shown(imp),
                        model_out: shown(&model_outs[i]),
                    });
                }
            }
            let m = &model_outs[i];
            let same = if sc.bag[i] || line.contains(" walk ") { bag(imp) == bag(m) } else { imp == m };
            if !same && !corr_failed {
                corr_failed = true;
                let shown = |s: &str| if s.len() > 300 { format!("{}… ({} bytes)", &s[..300], s.len()) } else { s.to_string() };
                rep.fail(Fail {
                    oracle: "corr".into(),
                    signature: format!("scale:{}:model-differs", sc.name.split('[').next().unwrap_or("")),
                    what: format!("{}: line {} `{}`: implementation [{}] / model [{}]", sc.name, i, shown(line), shown(imp), shown(m)),
                    script: sc.lines[..=i].iter().map(|l| if l.len() > 400 { format!("{}…", &l[..400]) } else { l.clone() }).collect(),
                    impl_out: shown(imp),
                    model_out: shown(m),
                });
            }
        }
        rep.count(&format!("scenario:{}", sc.name.split('[').next().unwrap_or("")));
    }
    world.reset();
    rep.notes.push("scale stream: sizes beyond the small universes (contents to 128 KiB / 3 MiB, 33-1025 entries, depth 17-64, components of 255-300 bytes, six layers, nested overlays, histories of 60-400 cycles on one name); CORR on every line, PROP by construction".into());
    rep
}
