//! Stream `handle` (C14, C04, handle part of C13): scripts of read/seek/write/flush/drop on
//! handles obtained from every backend and adapter.
//!   CORR  real handles vs the Lean handle model (RHandle / WHandle)
//!   PROP  real handles vs `std::io::Cursor<Vec<u8>>` executing the same script in-process
//!         (an oracle independent of the Lean model), and file bytes / metadata length after
//!         flush and after drop.
use crate::tree_stream::{build_cfg, Who};
use crate::util::*;
use crate::world::{enc_content, RWorld};
use std::io::{Cursor, Read, Seek, SeekFrom, Write};

const CONFIGS: [&str; 9] = ["mem", "phys", "alt(mem)", "alt(phys)", "ovl(mem,mem)", "ovl(phys,mem)", "ovl(mem,phys)", "ovl(mem,mem,mem)", "ovl(mem,mem,mem,mem)"];

fn content(rng: &mut Rng, thorough: bool) -> Vec<u8> {
    if rng.chance(1, 10) {
        // valid UTF-8 with multi-byte characters straddling the 8 KiB (and 16 KiB) chunk boundary
        let mut v = vec![b'x'; 8191 - rng.below(2)];
        v.extend_from_slice("é日".as_bytes());
        if rng.chance(1, 2) {
            v.extend(std::iter::repeat(b'y').take(8187));
            v.extend_from_slice("ü".as_bytes());
        }
        v.extend_from_slice(b"tail");
        return v;
    }
    let n = match rng.below(12) {
        0 => 0,
        1 => 1,
        2 => 2,
        3 => 8191 + rng.below(3),
        4 if thorough => 65535 + rng.below(3),
        5 if thorough => 100_000 + rng.below(200_000),
        _ => rng.below(40),
    };
    (0..n).map(|i| if rng.chance(1, 9) { 0xff } else { (i % 251) as u8 }).collect()
}

fn enc_io_res<T: ToString>(r: &std::io::Result<T>) -> String {
    match r {
        Ok(v) => {
            let s = v.to_string();
            if s.is_empty() { "ok".into() } else { format!("ok {}", s) }
        }
        Err(_) => "err io -".into(),
    }
}

struct Case {
    cfg: String,
    lines: Vec<(Who, String)>,
    impl_out: Vec<Option<String>>,
    /// expected output per line according to std::io::Cursor / plain byte semantics (PROP)
    expect: Vec<Option<String>>,
    desc: String,
}

fn seek_choice(rng: &mut Rng, len: usize, wide: bool) -> (String, SeekFrom) {
    let small = |rng: &mut Rng| -> i64 { rng.below(len + 4) as i64 - 2 };
    match rng.below(if wide { 12 } else { 6 }) {
        0 => {
            let o = rng.below(len + 4) as u64;
            (format!("start {}", o), SeekFrom::Start(o))
        }
        1 | 2 => {
            let o = small(rng) - (len as i64) / 2;
            (format!("cur {}", o), SeekFrom::Current(o))
        }
        3 | 4 => {
            let o = -small(rng);
            (format!("end {}", o), SeekFrom::End(o))
        }
        5 => (format!("start {}", len), SeekFrom::Start(len as u64)),
        6 => ("cur -1".into(), SeekFrom::Current(-1)),
        7 => (format!("cur {}", i64::MAX), SeekFrom::Current(i64::MAX)),
        8 => (format!("cur {}", i64::MIN), SeekFrom::Current(i64::MIN)),
        9 => (format!("end {}", i64::MIN), SeekFrom::End(i64::MIN)),
        10 => (format!("start {}", u64::MAX), SeekFrom::Start(u64::MAX)),
        _ => (format!("end {}", i64::MAX), SeekFrom::End(i64::MAX)),
    }
}

pub fn run(o: &Opts) -> Report {
    let mut rep = Report::new("handle");
    let mut rng = Rng::new(o.seed ^ 0x4a4d);
    let mut world = RWorld::new(&o.scratch);
    let n_cases = if o.thorough() { 400 } else { 60 };
    let mut cases: Vec<Case> = vec![];
    for cfg_kind in CONFIGS {
        let phys_backed = cfg_kind.contains("phys");
        let reps = if phys_backed { n_cases / 3 } else { n_cases };
        for ci in 0..reps {
            let cfg = build_cfg(cfg_kind, &mut rng);
            let t = cfg.target;
            let mut lines: Vec<(Who, String)> = vec![(Who::Both, "reset".into())];
            for l in &cfg.lines {
                lines.push((l.who, l.text.clone()));
            }
            let mut impl_out: Vec<Option<String>> = vec![];
            let mut expect: Vec<Option<String>> = vec![];
            for (w, l) in &lines {
                impl_out.push(if *w != Who::Model { Some(world.exec(l)) } else { None });
                expect.push(None);
            }
            let mut push = |world: &mut RWorld, lines: &mut Vec<(Who, String)>, impl_out: &mut Vec<Option<String>>, expect: &mut Vec<Option<String>>, l: String, e: Option<String>| {
                impl_out.push(Some(world.exec(&l)));
                lines.push((Who::Both, l));
                expect.push(e);
            };
            let fpath = *rng.pick(&["/f", "/é.bin", "/d/f.txt"][..]);
            if fpath.starts_with("/d/") {
                push(&mut world, &mut lines, &mut impl_out, &mut expect, format!("op {} create_dir {}", t, enc_str("/d")), None);
            }
            let data = content(&mut rng, o.thorough());
            push(&mut world, &mut lines, &mut impl_out, &mut expect, format!("op {} write {} {}", t, enc_str(fpath), enc_bytes(&data)), Some("ok".into()));
            push(&mut world, &mut lines, &mut impl_out, &mut expect, format!("op {} metadata {}", t, enc_str(fpath)), Some(format!("ok F {}", data.len())));
            // read_to_string: the whole content when it is valid UTF-8 (however the bytes are fetched), an error otherwise
            if std::str::from_utf8(&data).is_ok() {
                push(&mut world, &mut lines, &mut impl_out, &mut expect, format!("op {} read_to_string {}", t, enc_str(fpath)), Some(if data.is_empty() { "ok b".into() } else { format!("ok {}", enc_content(&data)) }));
            }
            // ---- read handle script
            push(&mut world, &mut lines, &mut impl_out, &mut expect, format!("hopen 0 {} {}", t, enc_str(fpath)), Some("ok".into()));
            let mut cur = Cursor::new(data.clone());
            let n_ops = 4 + rng.below(if o.thorough() { 36 } else { 16 });
            let mut removed = false;
            let mut desc = vec![];
            for _ in 0..n_ops {
                match rng.below(10) {
                    0..=5 => {
                        let n = *rng.pick(&[0usize, 1, 1, 2, 7, 8192, 65536, 3][..]);
                        let mut buf = vec![0u8; n];
                        let r = cur.read(&mut buf).map(|k| {
                            buf.truncate(k);
                            enc_bytes(&buf)
                        });
                        desc.push(format!("read({})", n));
                        push(&mut world, &mut lines, &mut impl_out, &mut expect, format!("hread 0 {}", n), Some(enc_io_res(&r)));
                    }
                    6 if rng.chance(1, 2) => {
                        // the rest of the file in one call, from wherever the handle stands
                        let mut rest = vec![];
                        let r = cur.read_to_end(&mut rest).map(|_| enc_bytes(&rest));
                        desc.push("read_to_end".into());
                        push(&mut world, &mut lines, &mut impl_out, &mut expect, "hreadall 0".into(), Some(enc_io_res(&r)));
                    }
                    6..=8 => {
                        // offsets >= 2^63 only on in-memory handles (the OS rejects them)
                        let (txt, sf) = seek_choice(&mut rng, data.len(), !phys_backed);
                        let r = cur.seek(sf);
                        desc.push(format!("seek({})", txt));
                        push(&mut world, &mut lines, &mut impl_out, &mut expect, format!("hseek 0 {}", txt), Some(enc_io_res(&r)));
                    }
                    _ => {
                        if !removed && rng.chance(1, 3) {
                            // handle used after its file was removed
                            removed = true;
                            desc.push("remove_file".into());
                            push(&mut world, &mut lines, &mut impl_out, &mut expect, format!("op {} remove_file {}", t, enc_str(fpath)), Some("ok".into()));
                        }
                    }
                }
            }
            push(&mut world, &mut lines, &mut impl_out, &mut expect, "hdrop 0".into(), Some("ok".into()));
            // ---- write sessions on one path: create, then appends / re-creates
            let wpath = *rng.pick(&["/g", "/é.out", "/f"][..]);
            let mut file_bytes: Option<Vec<u8>> = if wpath == fpath && !removed { Some(data.clone()) } else { None };
            // overlays: the path may exist in SEVERAL lower layers with different bytes; the first
            // of them is the one the overlay serves and the one an append must continue
            if cfg_kind.starts_with("ovl(") && wpath != fpath && rng.chance(2, 3) {
                let n_layers = cfg_kind.matches(',').count() + 1;
                let mut first: Option<Vec<u8>> = None;
                for li in 1..n_layers {
                    if n_layers > 2 && li + 1 < n_layers && first.is_none() && rng.chance(1, 3) {
                        continue; // absent from this layer, present further down
                    }
                    let b: Vec<u8> = format!("layer{}:", li).into_bytes().into_iter().chain(content(&mut rng, false).into_iter().take(40)).collect();
                    push(&mut world, &mut lines, &mut impl_out, &mut expect, format!("op {} write {} {}", li, enc_str(wpath), enc_bytes(&b)), Some("ok".into()));
                    if first.is_none() {
                        first = Some(b);
                    }
                }
                if let Some(b) = &first {
                    push(&mut world, &mut lines, &mut impl_out, &mut expect, format!("op {} read {}", t, enc_str(wpath)), Some(format!("ok {}", enc_content(b))));
                }
                file_bytes = first;
            }
            let n_sessions = 1 + rng.below(if o.thorough() { 6 } else { 3 });
            for si in 0..n_sessions {
                let append = file_bytes.is_some() && rng.chance(1, 2);
                let open_line = if append { format!("happend 1 {} {}", t, enc_str(wpath)) } else { format!("hcreate 1 {} {}", t, enc_str(wpath)) };
                push(&mut world, &mut lines, &mut impl_out, &mut expect, open_line, Some("ok".into()));
                let mut wc: Cursor<Vec<u8>> = if append {
                    let mut c = Cursor::new(file_bytes.clone().unwrap());
                    c.seek(SeekFrom::End(0)).unwrap();
                    c
                } else {
                    Cursor::new(vec![])
                };
                desc.push(if append { "append-session".into() } else { "create-session".into() });
                // O_APPEND semantics differ by design: no seeks on physical append handles
                let seeks_ok = !(append && phys_backed);
                let n_w = 1 + rng.below(if o.thorough() { 14 } else { 6 });
                for _ in 0..n_w {
                    match rng.below(8) {
                        0..=4 => {
                            let chunk = content(&mut rng, false);
                            let mut chunk = if chunk.len() > 9000 { chunk[..9000].to_vec() } else { chunk };
                            if phys_backed && chunk.is_empty() {
                                // a zero-length write(2) past the end does not extend a file, while
                                // Cursor<Vec<u8>> pads: outside what the property compares
                                chunk.push(7);
                            }
                            let r = wc.write(&chunk);
                            push(&mut world, &mut lines, &mut impl_out, &mut expect, format!("hwrite 1 {}", enc_bytes(&chunk)), Some(enc_io_res(&r)));
                        }
                        5 | 6 if seeks_ok => {
                            // bounded targets: writing after a seek to 2^60 would allocate the gap
                            let len = wc.get_ref().len();
                            let (txt, sf) = match rng.below(5) {
                                0 => {
                                    let o = rng.below(len + 300) as u64;
                                    (format!("start {}", o), SeekFrom::Start(o))
                                }
                                1 => {
                                    let o = rng.below(40) as i64 - 20;
                                    (format!("cur {}", o), SeekFrom::Current(o))
                                }
                                2 => {
                                    let o = rng.below(40) as i64 - 30;
                                    (format!("end {}", o), SeekFrom::End(o))
                                }
                                3 => ("cur -100000".into(), SeekFrom::Current(-100000)),
                                _ => ("end 0".into(), SeekFrom::End(0)),
                            };
                            let r = wc.seek(sf);
                            push(&mut world, &mut lines, &mut impl_out, &mut expect, format!("hseek 1 {}", txt), Some(enc_io_res(&r)));
                        }
                        _ => {
                            push(&mut world, &mut lines, &mut impl_out, &mut expect, "hflush 1".into(), Some("ok".into()));
                            // data flushed through a still-open handle is visible to new readers
                            push(&mut world, &mut lines, &mut impl_out, &mut expect, format!("op {} read {}", t, enc_str(wpath)), Some(format!("ok {}", enc_content(wc.get_ref()))));
                            // in-memory backends: now and then the file is REPLACED by another complete session
                            // (longer than what this handle has flushed) while this handle stays open; whatever
                            // the handle publishes later — at its next flush, at its drop — is exactly its own
                            // buffer, never a mixture with the other session's bytes
                            if !phys_backed && rng.chance(1, 4) {
                                let mut other: Vec<u8> = (0..(wc.get_ref().len() + 1 + rng.below(12))).map(|i| b'A' + (i % 23) as u8).collect();
                                other.truncate(20_000);
                                push(&mut world, &mut lines, &mut impl_out, &mut expect, format!("op {} write {} {}", t, enc_str(wpath), enc_bytes(&other)), Some("ok".into()));
                                push(&mut world, &mut lines, &mut impl_out, &mut expect, format!("op {} read {}", t, enc_str(wpath)), Some(format!("ok {}", enc_content(&other))));
                                if rng.chance(1, 2) {
                                    let tail: Vec<u8> = vec![b'z'; 1 + rng.below(5)];
                                    let r = wc.write(&tail);
                                    push(&mut world, &mut lines, &mut impl_out, &mut expect, format!("hwrite 1 {}", enc_bytes(&tail)), Some(enc_io_res(&r)));
                                }
                                push(&mut world, &mut lines, &mut impl_out, &mut expect, "hflush 1".into(), Some("ok".into()));
                                push(&mut world, &mut lines, &mut impl_out, &mut expect, format!("op {} read {}", t, enc_str(wpath)), Some(format!("ok {}", enc_content(wc.get_ref()))));
                            }
                            // patch in place right after a flush: seek back k bytes and overwrite exactly
                            // k bytes, so that length AND position are what they were at the flush;
                            // then flush again (or leave it to the drop)
                            let pos = wc.position() as usize;
                            if seeks_ok && pos > 0 && rng.chance(1, 2) {
                                let k = 1 + rng.below(pos.min(8));
                                let r = wc.seek(SeekFrom::Current(-(k as i64)));
                                push(&mut world, &mut lines, &mut impl_out, &mut expect, format!("hseek 1 cur -{}", k), Some(enc_io_res(&r)));
                                let patch: Vec<u8> = (0..k).map(|_| 0x80 | (rng.below(64) as u8)).collect();
                                let r = wc.write(&patch);
                                push(&mut world, &mut lines, &mut impl_out, &mut expect, format!("hwrite 1 {}", enc_bytes(&patch)), Some(enc_io_res(&r)));
                                if rng.chance(1, 2) {
                                    push(&mut world, &mut lines, &mut impl_out, &mut expect, "hflush 1".into(), Some("ok".into()));
                                    push(&mut world, &mut lines, &mut impl_out, &mut expect, format!("op {} read {}", t, enc_str(wpath)), Some(format!("ok {}", enc_content(wc.get_ref()))));
                                }
                            }
                        }
                    }
                }
                push(&mut world, &mut lines, &mut impl_out, &mut expect, "hdrop 1".into(), Some("ok".into()));
                file_bytes = Some(wc.get_ref().clone());
                let fb = file_bytes.as_ref().unwrap();
                // a fresh read with some buffer size returns exactly the bytes; metadata reports the length
                push(&mut world, &mut lines, &mut impl_out, &mut expect, format!("op {} read {}", t, enc_str(wpath)), Some(format!("ok {}", enc_content(fb))));
                push(&mut world, &mut lines, &mut impl_out, &mut expect, format!("op {} metadata {}", t, enc_str(wpath)), Some(format!("ok F {}", fb.len())));
                if si == 0 && rng.chance(1, 2) {
                    // chunked read with a chosen buffer size until 0
                    let bs = *rng.pick(&[1usize, 2, 7, 8192, 65536][..]);
                    if fb.len() / bs < 300 {
                        push(&mut world, &mut lines, &mut impl_out, &mut expect, format!("hopen 2 {} {}", t, enc_str(wpath)), Some("ok".into()));
                        let mut off = 0;
                        loop {
                            let k = bs.min(fb.len() - off);
                            push(&mut world, &mut lines, &mut impl_out, &mut expect, format!("hread 2 {}", bs), Some(format!("ok {}", enc_bytes(&fb[off..off + k]))));
                            off += k;
                            if k == 0 {
                                break;
                            }
                        }
                        push(&mut world, &mut lines, &mut impl_out, &mut expect, "hdrop 2".into(), Some("ok".into()));
                    }
                }
            }
            // directories always report length 0
            push(&mut world, &mut lines, &mut impl_out, &mut expect, format!("op {} metadata s", t), Some("ok D 0".into()));
            if ci < 2 {
                rep.sample(format!("[{}] file of {} bytes: {}", cfg_kind, data.len(), desc.iter().take(14).cloned().collect::<Vec<_>>().join(" ")));
            }
            cases.push(Case { cfg: cfg_kind.to_string(), lines, impl_out, expect, desc: desc.join(" ") });
        }
    }
    world.reset();
    // model side
    let mut batch = vec![];
    for c in &cases {
        for (w, l) in &c.lines {
            if *w != Who::Impl {
                batch.push(l.clone());
            }
        }
    }
    let outs = run_driver(&o.driver, &batch);
    let mut k = 0;
    for c in &cases {
        let mut dead = false;
        for (i, (w, l)) in c.lines.iter().enumerate() {
            let model = if *w != Who::Impl {
                k += 1;
                Some(&outs[k - 1])
            } else {
                None
            };
            if dead || *w != Who::Both {
                continue;
            }
            let imp = c.impl_out[i].as_ref().unwrap();
            let op = l.split(' ').next().unwrap_or("?");
            let script = || c.lines[..=i].iter().map(|(w, l)| format!("{} {}", match w { Who::Both => "B", Who::Model => "M", Who::Impl => "I" }, l)).collect::<Vec<_>>();
            rep.evaluations += 1;
            rep.count(&format!("{}:{}", c.cfg, op));
            rep.distinct_hash(&format!("{}|{}|{}", c.cfg, l, imp));
            // PROP first: std::io::Cursor / byte semantics
            if let Some(e) = &c.expect[i] {
                if imp != e {
                    let sig = if imp == "panic" {
                        format!("{}:{}:panic", backend_class(&c.cfg), op)
                    } else {
                        format!("{}:{}:differs-from-std-cursor", backend_class(&c.cfg), op)
                    };
                    rep.fail(Fail {
                        oracle: "prop".into(),
                        signature: sig,
                        what: format!("[{}] {} : handle returned {} but standard Read/Write/Seek semantics give {} ({})", c.cfg, short(l), short(imp), short(e), c.desc.chars().take(160).collect::<String>()),
                        script: script(),
                        impl_out: imp.clone(),
                        model_out: e.clone(),
                    });
                    dead = true;
                    continue;
                }
            } else if imp == "panic" {
                rep.fail(Fail {
                    oracle: "prop".into(),
                    signature: format!("{}:{}:panic", backend_class(&c.cfg), op),
                    what: format!("[{}] {} panicked", c.cfg, short(l)),
                    script: script(),
                    impl_out: imp.clone(),
                    model_out: String::new(),
                });
                dead = true;
                continue;
            }
            // CORR
            let m = model.unwrap();
            if op != "leaf" && op != "fs" && op != "reset" && crate::tree_stream::project(imp, 0) != crate::tree_stream::project(m, 0) {
                rep.fail(Fail {
                    oracle: "corr".into(),
                    signature: format!("{}:{}:model-differs", backend_class(&c.cfg), op),
                    what: format!("[{}] {} : implementation {} / model {}", c.cfg, short(l), short(imp), short(m)),
                    script: script(),
                    impl_out: imp.clone(),
                    model_out: m.clone(),
                });
                dead = true;
            }
        }
    }
    rep.count_n("corr-lines", batch.len() as u64);
    rep.count_n("cases", cases.len() as u64);
    rep.notes.push(format!("configs {:?}; contents 0,1,2,8191-8193{} bytes; read buffers 0,1,2,3,7,8192,65536; seeks incl. 0, ±1, i64::MIN/MAX, u64::MAX on in-memory handles", CONFIGS, if o.thorough() { ",65535-65537,100k-300k" } else { "" }));
    rep
}

fn backend_class(cfg: &str) -> &'static str {
    if cfg.contains("phys") {
        "phys-backed"
    } else {
        "mem-backed"
    }
}

fn short(s: &str) -> String {
    if s.len() > 90 {
        format!("{}…({} chars)", &s[..80], s.len())
    } else {
        s.to_string()
    }
}
