//! `vh replay --replay FILE`: re-execute the script of a replay / report entry on the real code
//! and on the model, printing both columns.
use crate::util::*;
use crate::world::RWorld;

pub fn extract_script(text: &str) -> Vec<String> {
    // minimal extraction of the "script": [...] array of strings from a replay JSON
    let key = "\"script\"";
    let i = match text.find(key) {
        Some(i) => i,
        None => return vec![],
    };
    let rest = &text[i + key.len()..];
    let a = rest.find('[').unwrap();
    let mut out = vec![];
    let mut cur = String::new();
    let mut in_str = false;
    let mut esc = false;
    for c in rest[a + 1..].chars() {
        if in_str {
            if esc {
                cur.push(c);
                esc = false;
            } else if c == '\\' {
                esc = true;
            } else if c == '"' {
                in_str = false;
                out.push(cur.clone());
                cur.clear();
            } else {
                cur.push(c);
            }
        } else if c == '"' {
            in_str = true;
        } else if c == ']' {
            break;
        }
    }
    out
}

pub fn run(o: &Opts) -> Report {
    let mut rep = Report::new("replay");
    let file = o.replay.clone().expect("--replay FILE required");
    let text = std::fs::read_to_string(&file).expect("cannot read replay file");
    let script = extract_script(&text);
    let mut world = RWorld::new(&o.scratch);
    let mut model_lines = vec![];
    let mut impl_outs = vec![];
    for l in &script {
        let (who, body) = if l.len() > 2 && (l.starts_with("B ") || l.starts_with("M ") || l.starts_with("I ")) { (&l[..1], &l[2..]) } else { ("B", &l[..]) };
        impl_outs.push(if who != "M" { Some(world.exec(body)) } else { None });
        if who != "I" {
            model_lines.push(body.to_string());
        }
    }
    let outs = run_driver(&o.driver, &model_lines);
    let mut k = 0;
    for (i, l) in script.iter().enumerate() {
        let who = if l.starts_with("M ") { "M" } else if l.starts_with("I ") { "I" } else { "B" };
        let m = if who != "I" {
            k += 1;
            outs[k - 1].clone()
        } else {
            String::new()
        };
        let pretty: Vec<String> = l
            .split(' ')
            .map(|t| if t.len() % 2 == 1 && t.starts_with('s') && t[1..].chars().all(|c| c.is_ascii_hexdigit()) { format!("{:?}", dec_str(t)) } else { t.chars().take(24).collect() })
            .collect();
        println!("{:3} {}", i, pretty.join(" "));
        if let Some(a) = &impl_outs[i] {
            let mark = if who == "B" && *a != m { "  <<<" } else { "" };
            println!("      impl : {}{}", a, mark);
        }
        if who != "I" {
            println!("      model: {}", m);
        }
        rep.evaluations += 1;
    }
    // the observation the replay is about: the implementation's answer to the last line
    if let Some(Some(a)) = impl_outs.iter().rev().find(|x| x.is_some()) {
        rep.notes.push(format!("last-impl={}", a));
    }
    rep
}
