mod async_stream;
mod embed_stream;
mod fault_stream;
mod handle_stream;
mod hostile_stream;
mod path_stream;
mod record_stream;
mod replay;
mod sched;
mod sched_stream;
mod tree_stream;
mod util;
mod witness;
mod world;
mod xfer_stream;
mod scale_stream;
mod wrappers;
use util::*;

fn main() {
    let args: Vec<String> = std::env::args().collect();
    if args.len() < 2 {
        eprintln!("usage: vh <stream> [--tier quick|thorough] [--seed N] --driver PATH --out FILE [--scratch DIR]");
        std::process::exit(2);
    }
    let stream = args[1].clone();
    let mut o = Opts {
        tier: std::env::var("VERIF_TIER").unwrap_or_else(|_| "quick".into()),
        seed: std::env::var("VERIF_SEED").ok().and_then(|s| s.parse().ok()).unwrap_or(20260929),
        driver: "/verif/lean/.lake/build/bin/vfsmodel".into(),
        out: String::new(),
        scratch: "/verif/scratch".into(),
        replay: None,
        extra: vec![],
    };
    let mut i = 2;
    while i < args.len() {
        let take = |i: &mut usize| {
            *i += 1;
            args.get(*i).cloned().unwrap_or_default()
        };
        match args[i].as_str() {
            "--tier" => o.tier = take(&mut i),
            "--seed" => o.seed = take(&mut i).parse().unwrap_or(o.seed),
            "--driver" => o.driver = take(&mut i),
            "--out" => o.out = take(&mut i),
            "--scratch" => o.scratch = take(&mut i),
            "--replay" => o.replay = Some(take(&mut i)),
            other => o.extra.push(other.to_string()),
        }
        i += 1;
    }
    // panics are outcomes, not crashes: keep the default hook quiet
    if std::env::var("VH_DEBUG").is_err() {
        std::panic::set_hook(Box::new(|_| {}));
    }
    let t0 = std::time::Instant::now();
    // `--names wo`: the path universe with names ending in the overlay's marker suffix (any stream)
    tree_stream::select_universe(&o.extra);
    let rep = match stream.as_str() {
        "path" => path_stream::run(&o),
        "tree" => tree_stream::run(&o),
        "handle" => handle_stream::run(&o),
        "record" => record_stream::run(&o),
        "embed" => embed_stream::run(&o),
        "fault" => fault_stream::run(&o),
        "sched" => sched_stream::run(&o),
        "hostile" => hostile_stream::run(&o),
        "async" => async_stream::run(&o),
        "xfer" => xfer_stream::run(&o),
        "scale" => scale_stream::run(&o),
        "replay" => replay::run(&o),
        "witness" => witness::run(&o),
        s => {
            eprintln!("unknown stream {}", s);
            std::process::exit(2);
        }
    };
    let mut j = rep.to_json();
    if let J::O(kv) = &mut j {
        kv.push(("wall_s".into(), J::F(t0.elapsed().as_secs_f64())));
        kv.push(("seed".into(), J::N(o.seed as i64)));
        kv.push(("tier".into(), J::s(o.tier.clone())));
    }
    let text = j.render();
    if o.out.is_empty() {
        println!("{}", text);
    } else {
        std::fs::write(&o.out, text).expect("cannot write report");
    }
    eprintln!(
        "stream {}: {} evaluations, {} distinct, {} failures, {:.1}s",
        rep.stream,
        rep.evaluations,
        rep.distinct.len(),
        rep.fails.len(),
        t0.elapsed().as_secs_f64()
    );
}
