//! Stream `async` (C15, async part of C13): one script on a sync filesystem and on its async
//! twin; outcome classes, snapshots, handle results and stream item sequences must be equal —
//! independently of how often futures and streams return Pending (a `PendingFs` wrapper around
//! every async leaf injects `Poll::Pending` at seed-chosen await points and stream polls).
use crate::tree_stream::{build_cfg, gen_op, parse_snap, project, Op, TreeSpec, Who, universe};
use crate::util::*;
use crate::world::{enc_content, enc_list_sorted, enc_res, RWorld};
use async_trait::async_trait;
use futures::{AsyncReadExt, AsyncSeekExt, AsyncWriteExt, Stream, StreamExt};
use std::pin::Pin;
use std::sync::atomic::{AtomicU64, Ordering};
use std::sync::Arc;
use std::task::{Context, Poll};
use std::time::SystemTime;
use vfs::async_vfs::{AsyncAltrootFS, AsyncFileSystem, AsyncMemoryFS, AsyncOverlayFS, AsyncPhysicalFS, AsyncVfsPath, SeekAndRead};
use vfs::{VfsMetadata, VfsResult};

/// returns Pending `n` times (waking itself), then Ready
struct YieldN(u32);
impl std::future::Future for YieldN {
    type Output = ();
    fn poll(mut self: Pin<&mut Self>, cx: &mut Context<'_>) -> Poll<()> {
        if self.0 == 0 {
            Poll::Ready(())
        } else {
            self.0 -= 1;
            cx.waker().wake_by_ref();
            Poll::Pending
        }
    }
}

/// shared pseudo-random source of pending counts
#[derive(Debug)]
pub struct Pends {
    state: AtomicU64,
    max: u32,
    pub injected: AtomicU64,
}
impl Pends {
    fn next(&self) -> u32 {
        if self.max == 0 {
            return 0;
        }
        let mut z = self.state.fetch_add(0x9E37_79B9_7F4A_7C15, Ordering::SeqCst).wrapping_add(0x9E37_79B9_7F4A_7C15);
        z = (z ^ (z >> 30)).wrapping_mul(0xBF58_476D_1CE4_E5B9);
        z = (z ^ (z >> 27)).wrapping_mul(0x94D0_49BB_1331_11EB);
        let k = ((z ^ (z >> 31)) % (self.max as u64 + 1)) as u32;
        self.injected.fetch_add(k as u64, Ordering::SeqCst);
        k
    }
}

struct PendingStream {
    inner: Box<dyn Unpin + Stream<Item = String> + Send>,
    pends: Arc<Pends>,
    left: u32,
    armed: bool,
}
impl Stream for PendingStream {
    type Item = String;
    fn poll_next(mut self: Pin<&mut Self>, cx: &mut Context<'_>) -> Poll<Option<String>> {
        if !self.armed {
            self.left = self.pends.next();
            self.armed = true;
        }
        if self.left > 0 {
            self.left -= 1;
            cx.waker().wake_by_ref();
            return Poll::Pending;
        }
        self.armed = false;
        self.inner.poll_next_unpin(cx)
    }
}

/// forwards to the inner async filesystem after a seed-chosen number of Pending polls
#[derive(Debug)]
pub struct PendingFs {
    inner: Arc<dyn AsyncFileSystem>,
    pends: Arc<Pends>,
}

#[async_trait]
impl AsyncFileSystem for PendingFs {
    async fn read_dir(&self, path: &str) -> VfsResult<Box<dyn Unpin + Stream<Item = String> + Send>> {
        YieldN(self.pends.next()).await;
        let s = self.inner.read_dir(path).await?;
        Ok(Box::new(PendingStream { inner: s, pends: self.pends.clone(), left: 0, armed: false }))
    }
    async fn create_dir(&self, path: &str) -> VfsResult<()> {
        YieldN(self.pends.next()).await;
        self.inner.create_dir(path).await
    }
    async fn open_file(&self, path: &str) -> VfsResult<Box<dyn SeekAndRead + Send + Unpin>> {
        YieldN(self.pends.next()).await;
        self.inner.open_file(path).await
    }
    async fn create_file(&self, path: &str) -> VfsResult<Box<dyn async_std::io::Write + Send + Unpin>> {
        YieldN(self.pends.next()).await;
        self.inner.create_file(path).await
    }
    async fn append_file(&self, path: &str) -> VfsResult<Box<dyn async_std::io::Write + Send + Unpin>> {
        YieldN(self.pends.next()).await;
        self.inner.append_file(path).await
    }
    async fn metadata(&self, path: &str) -> VfsResult<VfsMetadata> {
        YieldN(self.pends.next()).await;
        self.inner.metadata(path).await
    }
    async fn set_creation_time(&self, path: &str, time: SystemTime) -> VfsResult<()> {
        YieldN(self.pends.next()).await;
        self.inner.set_creation_time(path, time).await
    }
    async fn set_modification_time(&self, path: &str, time: SystemTime) -> VfsResult<()> {
        YieldN(self.pends.next()).await;
        self.inner.set_modification_time(path, time).await
    }
    async fn set_access_time(&self, path: &str, time: SystemTime) -> VfsResult<()> {
        YieldN(self.pends.next()).await;
        self.inner.set_access_time(path, time).await
    }
    async fn exists(&self, path: &str) -> VfsResult<bool> {
        YieldN(self.pends.next()).await;
        self.inner.exists(path).await
    }
    async fn remove_file(&self, path: &str) -> VfsResult<()> {
        YieldN(self.pends.next()).await;
        self.inner.remove_file(path).await
    }
    async fn remove_dir(&self, path: &str) -> VfsResult<()> {
        YieldN(self.pends.next()).await;
        self.inner.remove_dir(path).await
    }
    async fn copy_file(&self, src: &str, dest: &str) -> VfsResult<()> {
        YieldN(self.pends.next()).await;
        self.inner.copy_file(src, dest).await
    }
    async fn move_file(&self, src: &str, dest: &str) -> VfsResult<()> {
        YieldN(self.pends.next()).await;
        self.inner.move_file(src, dest).await
    }
    async fn move_dir(&self, src: &str, dest: &str) -> VfsResult<()> {
        YieldN(self.pends.next()).await;
        self.inner.move_dir(src, dest).await
    }
}

/// async twin of `wrappers::GhostFs`
#[derive(Debug)]
pub struct GhostAsyncFs {
    inner: Arc<dyn AsyncFileSystem>,
    dir: String,
    name: String,
}

#[async_trait]
impl AsyncFileSystem for GhostAsyncFs {
    async fn read_dir(&self, path: &str) -> VfsResult<Box<dyn Unpin + Stream<Item = String> + Send>> {
        let s = self.inner.read_dir(path).await?;
        if path == self.dir {
            let mut v: Vec<String> = s.collect().await;
            v.insert(v.len() / 2, self.name.clone());
            Ok(Box::new(futures::stream::iter(v)))
        } else {
            Ok(s)
        }
    }
    async fn create_dir(&self, path: &str) -> VfsResult<()> {
        self.inner.create_dir(path).await
    }
    async fn open_file(&self, path: &str) -> VfsResult<Box<dyn SeekAndRead + Send + Unpin>> {
        self.inner.open_file(path).await
    }
    async fn create_file(&self, path: &str) -> VfsResult<Box<dyn async_std::io::Write + Send + Unpin>> {
        self.inner.create_file(path).await
    }
    async fn append_file(&self, path: &str) -> VfsResult<Box<dyn async_std::io::Write + Send + Unpin>> {
        self.inner.append_file(path).await
    }
    async fn metadata(&self, path: &str) -> VfsResult<VfsMetadata> {
        self.inner.metadata(path).await
    }
    async fn set_creation_time(&self, path: &str, time: SystemTime) -> VfsResult<()> {
        self.inner.set_creation_time(path, time).await
    }
    async fn set_modification_time(&self, path: &str, time: SystemTime) -> VfsResult<()> {
        self.inner.set_modification_time(path, time).await
    }
    async fn set_access_time(&self, path: &str, time: SystemTime) -> VfsResult<()> {
        self.inner.set_access_time(path, time).await
    }
    async fn exists(&self, path: &str) -> VfsResult<bool> {
        self.inner.exists(path).await
    }
    async fn remove_file(&self, path: &str) -> VfsResult<()> {
        self.inner.remove_file(path).await
    }
    async fn remove_dir(&self, path: &str) -> VfsResult<()> {
        self.inner.remove_dir(path).await
    }
    async fn copy_file(&self, src: &str, dest: &str) -> VfsResult<()> {
        self.inner.copy_file(src, dest).await
    }
    async fn move_file(&self, src: &str, dest: &str) -> VfsResult<()> {
        self.inner.move_file(src, dest).await
    }
    async fn move_dir(&self, src: &str, dest: &str) -> VfsResult<()> {
        self.inner.move_dir(src, dest).await
    }
}

/// the async twin of `RWorld`: same protocol lines, async types
pub struct AWorld {
    scratch: std::path::PathBuf,
    leaves: Vec<Arc<dyn AsyncFileSystem>>,
    dirs: Vec<Option<std::path::PathBuf>>,
    roots: Vec<Option<AsyncVfsPath>>,
    rh: Vec<Option<Box<dyn SeekAndRead + Send + Unpin>>>,
    wh: Vec<Option<Box<dyn futures::AsyncWrite + Send + Unpin>>>,
    pends: Arc<Pends>,
    counter: u64,
}

fn set_at<T>(v: &mut Vec<Option<T>>, i: usize, x: Option<T>) {
    while v.len() <= i {
        v.push(None);
    }
    v[i] = x;
}

impl AWorld {
    pub fn new(scratch: &str, seed: u64, max_pending: u32) -> Self {
        AWorld { scratch: scratch.into(), leaves: vec![], dirs: vec![], roots: vec![], rh: vec![], wh: vec![], pends: Arc::new(Pends { state: AtomicU64::new(seed), max: max_pending, injected: AtomicU64::new(0) }), counter: 0 }
    }
    pub fn injected(&self) -> u64 {
        self.pends.injected.load(Ordering::SeqCst)
    }
    pub fn reset(&mut self) {
        self.rh.clear();
        self.wh.clear();
        self.roots.clear();
        self.leaves.clear();
        for d in self.dirs.drain(..).flatten() {
            let _ = std::fs::remove_dir_all(d);
        }
    }
    fn root(&self, i: usize) -> AsyncVfsPath {
        self.roots[i].clone().expect("bad fs id")
    }
    async fn on<T, Fut: std::future::Future<Output = VfsResult<T>>>(&self, fsid: usize, p: &str, f: impl FnOnce(AsyncVfsPath) -> Fut) -> VfsResult<T> {
        let q = self.root(fsid).join(p)?;
        f(q).await
    }
    async fn observe(&self, fsid: usize, p: &str) -> String {
        let ex = match self.on(fsid, p, |q| async move { q.exists().await }).await {
            Ok(true) => "E",
            Ok(false) => "A",
            Err(_) => "X",
        };
        let md = match self.on(fsid, p, |q| async move { q.metadata().await }).await {
            Ok(m) => format!("{} {}", if m.file_type == vfs::VfsFileType::File { "F" } else { "D" }, m.len),
            Err(_) => "-".into(),
        };
        let ls = match self.on(fsid, p, |q| async move { Ok(q.read_dir().await?.map(|c| c.filename()).collect::<Vec<_>>().await) }).await {
            Ok(l) => enc_list_sorted(l),
            Err(_) => "-".into(),
        };
        let rd = match self
            .on(fsid, p, |q| async move {
                let mut h = q.open_file().await?;
                let mut v = vec![];
                h.read_to_end(&mut v).await?;
                Ok(v)
            })
            .await
        {
            Ok(b) => enc_content(&b),
            Err(_) => "-".into(),
        };
        format!("{}={}|{}|{}|{}", enc_str(p), ex, md, ls, rd)
    }

    pub async fn exec(&mut self, line: &str) -> String {
        let toks: Vec<&str> = line.split(' ').filter(|t| !t.is_empty()).collect();
        let us = |s: &str| s.parse::<usize>().expect("bad number");
        match toks.as_slice() {
            ["reset"] => {
                self.reset();
                "ok".into()
            }
            ["leaf", kind] => {
                let n = self.leaves.len();
                let (inner, dir): (Arc<dyn AsyncFileSystem>, _) = if *kind == "mem" {
                    (Arc::new(AsyncMemoryFS::new()), None)
                } else {
                    self.counter += 1;
                    let dir = self.scratch.join(format!("aphys_{}_{}", std::process::id(), self.counter));
                    let _ = std::fs::remove_dir_all(&dir);
                    std::fs::create_dir_all(&dir).unwrap();
                    (Arc::new(AsyncPhysicalFS::new(&dir)), Some(dir))
                };
                self.leaves.push(Arc::new(PendingFs { inner, pends: self.pends.clone() }));
                self.dirs.push(dir);
                format!("ok {}", n)
            }
            ["fs", id, "leaf", l] => {
                let obj = self.leaves[us(l)].clone();
                set_at(&mut self.roots, us(id), Some(AsyncVfsPath::new(PendingFs { inner: obj, pends: Arc::new(Pends { state: AtomicU64::new(0), max: 0, injected: AtomicU64::new(0) }) })));
                "ok".into()
            }
            ["fs", id, "ghost", l, dir, name] => {
                // the ghost sits ABOVE the pending wrapper of the leaf: metadata of the ghost entry
                // first returns Pending (when injected) and then fails
                let obj = self.leaves[us(l)].clone();
                set_at(&mut self.roots, us(id), Some(AsyncVfsPath::new(GhostAsyncFs { inner: obj, dir: dec_str(dir), name: dec_str(name) })));
                "ok".into()
            }
            ["fs", id, "alt", inner, p] => {
                let r = self.root(us(inner)).join(dec_str(p)).expect("bad altroot path");
                set_at(&mut self.roots, us(id), Some(AsyncVfsPath::new(AsyncAltrootFS::new(r))));
                "ok".into()
            }
            ["fs", id, "ovl", layers @ ..] => {
                let ls: Vec<AsyncVfsPath> = layers
                    .iter()
                    .map(|t| {
                        let (a, b) = t.split_once(':').unwrap();
                        self.root(us(a)).join(dec_str(b)).unwrap()
                    })
                    .collect();
                set_at(&mut self.roots, us(id), Some(AsyncVfsPath::new(AsyncOverlayFS::new(&ls))));
                "ok".into()
            }
            ["snap", fsid, paths @ ..] => {
                let mut v = vec![];
                for p in paths {
                    v.push(self.observe(us(fsid), &dec_str(p)).await);
                }
                v.join(" ")
            }
            ["op", fsid, name, args @ ..] => {
                let fsid = us(fsid);
                let a = |i: usize| dec_str(args[i]);
                let unit = |r: VfsResult<()>| enc_res(Ok(r), |_| String::new());
                match (*name, args.len()) {
                    ("create_dir", 1) => unit(self.on(fsid, &a(0), |q| async move { q.create_dir().await }).await),
                    ("create_dir_all", 1) => unit(self.on(fsid, &a(0), |q| async move { q.create_dir_all().await }).await),
                    ("remove_file", 1) => unit(self.on(fsid, &a(0), |q| async move { q.remove_file().await }).await),
                    ("remove_dir", 1) => unit(self.on(fsid, &a(0), |q| async move { q.remove_dir().await }).await),
                    ("remove_dir_all", 1) => unit(self.on(fsid, &a(0), |q| async move { q.remove_dir_all().await }).await),
                    ("set_ctime", 2) => {
                        let t = crate::world::time_of(args[1].parse().unwrap());
                        unit(self.on(fsid, &a(0), |q| async move { q.set_creation_time(t).await }).await)
                    }
                    ("set_mtime", 2) => {
                        let t = crate::world::time_of(args[1].parse().unwrap());
                        unit(self.on(fsid, &a(0), |q| async move { q.set_modification_time(t).await }).await)
                    }
                    ("set_atime", 2) => {
                        let t = crate::world::time_of(args[1].parse().unwrap());
                        unit(self.on(fsid, &a(0), |q| async move { q.set_access_time(t).await }).await)
                    }
                    ("probe_session", 2) => {
                        let b = unhex(&args[1][1..]);
                        enc_res(
                            Ok(self
                                .on(fsid, &a(0), |q| async move {
                                    async fn obs(q: &AsyncVfsPath) -> String {
                                        let len = q.metadata().await.map(|m| m.len.to_string()).unwrap_or_else(|_| "-".into());
                                        let content = match q.open_file().await {
                                            Ok(mut f) => {
                                                let mut v = vec![];
                                                match f.read_to_end(&mut v).await {
                                                    Ok(_) => crate::util::hex(&v),
                                                    Err(_) => "-".into(),
                                                }
                                            }
                                            Err(_) => "-".into(),
                                        };
                                        format!("{}:{}", len, content)
                                    }
                                    let mut h = q.create_file().await?;
                                    let o1 = obs(&q).await;
                                    h.write_all(&b).await?;
                                    let o2 = obs(&q).await;
                                    h.flush().await?;
                                    let o3 = obs(&q).await;
                                    drop(h);
                                    let o4 = obs(&q).await;
                                    // o2 (written, not flushed) is not compared: whether unflushed bytes are visible is the
                                // business of the handle type (std File writes through, async-std File buffers)
                                let _ = o2;
                                Ok(format!("{}|{}|{}", o1, o3, o4))
                                })
                                .await),
                            |s| s,
                        )
                    }
                    ("write", 2) | ("touch", 1) => {
                        let b = if args.len() == 2 { unhex(&args[1][1..]) } else { vec![] };
                        unit(
                            self.on(fsid, &a(0), |q| async move {
                                let mut h = q.create_file().await?;
                                h.write_all(&b).await?;
                                h.flush().await?;
                                drop(h);
                                Ok(())
                            })
                            .await,
                        )
                    }
                    ("append", 2) => {
                        let b = unhex(&args[1][1..]);
                        unit(
                            self.on(fsid, &a(0), |q| async move {
                                let mut h = q.append_file().await?;
                                h.write_all(&b).await?;
                                h.flush().await?;
                                drop(h);
                                Ok(())
                            })
                            .await,
                        )
                    }
                    ("exists", 1) => enc_res(Ok(self.on(fsid, &a(0), |q| async move { q.exists().await }).await), |b| b.to_string()),
                    ("is_file", 1) => enc_res(Ok(self.on(fsid, &a(0), |q| async move { q.is_file().await }).await), |b| b.to_string()),
                    ("is_dir", 1) => enc_res(Ok(self.on(fsid, &a(0), |q| async move { q.is_dir().await }).await), |b| b.to_string()),
                    ("metadata", 1) => enc_res(Ok(self.on(fsid, &a(0), |q| async move { q.metadata().await }).await), |m| format!("{} {}", if m.file_type == vfs::VfsFileType::File { "F" } else { "D" }, m.len)),
                    ("read_dir", 1) => enc_res(Ok(self.on(fsid, &a(0), |q| async move { Ok(q.read_dir().await?.map(|c| c.as_str().to_string()).collect::<Vec<_>>().await) }).await), enc_list_sorted),
                    ("read", 1) => enc_res(
                        Ok(self
                            .on(fsid, &a(0), |q| async move {
                                let mut h = q.open_file().await?;
                                let mut v = vec![];
                                h.read_to_end(&mut v).await?;
                                Ok(v)
                            })
                            .await),
                        |b| enc_content(&b),
                    ),
                    ("read_to_string", 1) => enc_res(Ok(self.on(fsid, &a(0), |q| async move { q.read_to_string().await }).await), |s| enc_content(s.as_bytes())),
                    ("walk", 1) => enc_res(
                        Ok(self
                            .on(fsid, &a(0), |q| async move {
                                let mut items = vec![];
                                let mut w = q.walk_dir().await?;
                                while let Some(it) = w.next().await {
                                    if items.len() > 5000 {
                                        // a traversal of a finite tree that does not end
                                        items.push("!!walk-does-not-terminate".to_string());
                                        break;
                                    }
                                    items.push(match it {
                                        Ok(p) => enc_str(p.as_str()),
                                        Err(e) => format!("!{}:{}", kind_name(e.kind()), if e.path() == PLACEHOLDER { "-".to_string() } else { enc_str(e.path()) }),
                                    });
                                    if items.len() > 100_000 {
                                        break;
                                    }
                                }
                                Ok(items)
                            })
                            .await),
                        |items| items.join(" "),
                    ),
                    ("copy_file", 3) | ("move_file", 3) | ("copy_dir", 3) | ("move_dir", 3) => {
                        let src = self.root(fsid).join(a(0));
                        let dst = self.root(us(args[1])).join(a(2));
                        match (src, dst) {
                            (Ok(s), Ok(d)) => match *name {
                                "copy_file" => unit(s.copy_file(&d).await),
                                "move_file" => unit(s.move_file(&d).await),
                                "copy_dir" => enc_res(Ok(s.copy_dir(&d).await), |n| n.to_string()),
                                _ => unit(s.move_dir(&d).await),
                            },
                            (Err(e), _) | (_, Err(e)) => enc_res::<()>(Ok(Err(e)), |_| String::new()),
                        }
                    }
                    _ => "bad-op".into(),
                }
            }
            ["hopen", hid, fsid, p] => match self.on(us(fsid), &dec_str(p), |q| async move { q.open_file().await }).await {
                Ok(h) => {
                    set_at(&mut self.rh, us(hid), Some(h));
                    "ok".into()
                }
                Err(e) => enc_res::<()>(Ok(Err(e)), |_| String::new()),
            },
            ["hcreate", hid, fsid, p] => match self.on(us(fsid), &dec_str(p), |q| async move { q.create_file().await }).await {
                Ok(h) => {
                    set_at(&mut self.wh, us(hid), Some(h));
                    "ok".into()
                }
                Err(e) => enc_res::<()>(Ok(Err(e)), |_| String::new()),
            },
            ["happend", hid, fsid, p] => match self.on(us(fsid), &dec_str(p), |q| async move { q.append_file().await }).await {
                Ok(h) => {
                    set_at(&mut self.wh, us(hid), Some(h));
                    "ok".into()
                }
                Err(e) => enc_res::<()>(Ok(Err(e)), |_| String::new()),
            },
            ["hwrite", hid, b] => {
                let b = unhex(&b[1..]);
                let h = self.wh[us(hid)].as_mut().expect("no such write handle");
                match h.write_all(&b).await {
                    Ok(()) => format!("ok {}", b.len()),
                    Err(_) => "err io -".into(),
                }
            }
            ["hflush", hid] => {
                let h = self.wh[us(hid)].as_mut().expect("no such write handle");
                match h.flush().await {
                    Ok(()) => "ok".into(),
                    Err(_) => "err io -".into(),
                }
            }
            ["hdrop", hid] if self.wh.get(us(hid)).map(|s| s.is_some()).unwrap_or(false) => {
                let h = self.wh[us(hid)].take();
                drop(h);
                "ok".into()
            }
            ["hread", hid, n] => {
                let h = self.rh[us(hid)].as_mut().expect("no such handle");
                // a read may legally return fewer bytes than asked (async-std's File does after a
                // seek): the data is what is compared, so read until the buffer is full or EOF
                let want = us(n);
                let mut buf = vec![0u8; want];
                let mut got = 0;
                let mut failed = false;
                loop {
                    match h.read(&mut buf[got..]).await {
                        Ok(0) => break,
                        Ok(k) => {
                            got += k;
                            if got == want {
                                break;
                            }
                        }
                        Err(_) => {
                            failed = true;
                            break;
                        }
                    }
                }
                if failed {
                    "err io -".into()
                } else {
                    buf.truncate(got);
                    format!("ok {}", enc_bytes(&buf))
                }
            }
            ["hseek", hid, whence, off] => {
                let sf = match *whence {
                    "start" => std::io::SeekFrom::Start(off.parse().unwrap()),
                    "cur" => std::io::SeekFrom::Current(off.parse().unwrap()),
                    _ => std::io::SeekFrom::End(off.parse().unwrap()),
                };
                let h = self.rh[us(hid)].as_mut().expect("no such handle");
                match h.seek(sf).await {
                    Ok(n) => format!("ok {}", n),
                    Err(_) => "err io -".into(),
                }
            }
            ["hdrop", hid] => {
                set_at(&mut self.rh, us(hid), None);
                "ok".into()
            }
            _ => "bad-op".into(),
        }
    }
}

impl Drop for AWorld {
    fn drop(&mut self) {
        self.reset();
    }
}

pub fn block_on_with<T>(driver: &str, rt: &tokio::runtime::Runtime, f: impl std::future::Future<Output = T>) -> T {
    match driver {
        "tokio" => rt.block_on(f),
        "async-std" => async_std::task::block_on(f),
        _ => futures::executor::block_on(f),
    }
}

pub fn run(o: &Opts) -> Report {
    let mut rep = Report::new("async");
    let mut rng = Rng::new(o.seed ^ 0xa57);
    let rt = tokio::runtime::Builder::new_current_thread().build().unwrap();
    let configs = ["mem", "phys", "alt(mem)", "alt(phys)", "ovl(mem,mem)", "ovl(mem,mem,mem)", "ovl(phys,mem)", "ovl(mem,phys)", "alt(ovl(mem,mem))", "ovl(alt,alt)", "ghost(mem)", "ghost(phys)", "alt(ghost(mem))"];
    let drivers = ["tokio", "async-std", "futures"];
    let (n_runs, n_ops) = if o.thorough() { (27, 50) } else { (9, 36) };
    let ts = TreeSpec { prop: "C15".into(), configs: vec![], corr_level: 1, spec_results: false, spec_snapshots: false, wrong_type_calls: true, root_calls: false, composite_ops: true, time_ops: false, preds: vec![] };
    let uni: String = universe().iter().map(|p| enc_str(p)).collect::<Vec<_>>().join(" ");
    let mut sworld = RWorld::new(&o.scratch);
    let mut total_pend = 0u64;
    let mut model_runs: Vec<(String, Vec<(String, String)>)> = vec![];
    for cfg_kind in configs {
        let phys = cfg_kind.contains("phys");
        let reps = if phys { (n_runs / 2).max(2) } else { n_runs };
        for r in 0..reps {
            let driver = drivers[r % drivers.len()];
            let max_pending = [0u32, 1, 3][(r / drivers.len()) % 3];
            let cfg = if cfg_kind.contains("ghost") {
                // a leaf whose listing of one directory contains a name that nothing else knows
                let gdir = *rng.pick(&["", "/a", "/c", "/a/a"][..]);
                let mk = |t: String| crate::tree_stream::Line { who: Who::Both, text: t, step: usize::MAX, role: "cfg" };
                let mut lines = vec![mk(format!("leaf {}", if cfg_kind.contains("phys") { "phys" } else { "mem" })), mk("fs 0 leaf 0".into())];
                if cfg_kind.starts_with("alt") {
                    lines.push(mk(format!("op 0 create_dir_all {}", enc_str("/r/s"))));
                    lines.push(mk(format!("fs 1 ghost 0 {} {}", enc_str(&format!("/r/s{}", gdir)), enc_str("zz"))));
                    lines.push(mk(format!("fs 2 alt 1 {}", enc_str("/r/s"))));
                } else {
                    lines.push(mk(format!("fs 1 ghost 0 {} {}", enc_str(gdir), enc_str("zz"))));
                }
                crate::tree_stream::Cfg { name: cfg_kind.to_string(), lines, target: if cfg_kind.starts_with("alt") { 2 } else { 1 }, spec: 0, overlay_upper: None, kind: cfg_kind.to_string() }
            } else {
                build_cfg(cfg_kind, &mut rng)
            };
            if let Ok(only) = std::env::var("VH_ONLY") {
                if only != format!("{}:{}", cfg_kind, driver) {
                    continue;
                }
            }
            if std::env::var("VH_DEBUG").is_ok() {
                eprintln!("async run {} {} driver={} pend={}", cfg_kind, r, driver, max_pending);
            }
            let mut aworld = AWorld::new(&o.scratch, rng.next(), max_pending);
            let mut script: Vec<String> = vec!["reset".into()];
            script.extend(cfg.lines.iter().filter(|l| l.who != Who::Model).map(|l| l.text.clone()));
            let mut dead = false;
            let mut ok_lines = 0u64;
            // every line the async port executed, with its answer: replayed afterwards on the Lean model of
            // the async-only code (AsyncOps.lean: `fs N aleaf L` instead of `fs N leaf L`)
            let trace: std::cell::RefCell<Vec<(String, String)>> = std::cell::RefCell::new(vec![]);
            let mut run_line = |sworld: &mut RWorld, aworld: &mut AWorld, line: &str, rep: &mut Report, script_so_far: &Vec<String>, what: &str| -> Option<(String, String)> {
                let s = sworld.exec(line);
                let a = match guarded(|| block_on_with(driver, &rt, aworld.exec(line))) {
                    Ok(a) => {
                        trace.borrow_mut().push((line.to_string(), a.clone()));
                        a
                    }
                    Err(m) => {
                        rep.fail(Fail { oracle: "prop".into(), signature: format!("async:{}:panic:{}", what, driver), what: format!("[{} under {}] {} panicked in the async port: {}", cfg_kind, driver, what, m), script: script_so_far.iter().map(|l| format!("I {}", l)).collect(), impl_out: "panic".into(), model_out: s.clone() });
                        return None;
                    }
                };
                Some((s, a))
            };
            for l in script.clone() {
                if run_line(&mut sworld, &mut aworld, &l, &mut rep, &script, "setup").is_none() {
                    dead = true;
                    break;
                }
            }
            if dead {
                aworld.reset();
                continue;
            }
            let mut snap = parse_snap(&sworld.exec(&format!("snap {} {}", cfg.target, uni)));
            let mut ops_desc = vec![];
            let mut whandle: Option<String> = None;
            let mut retype: Vec<Op> = vec![];
            let mut retyped = false;
            for _ in 0..n_ops {
                if dead {
                    break;
                }
                let mut op: Op = gen_op(&mut rng, &ts, &snap, &cfg);
                // overlays: a FILE at a path that can have children (often served by a lower layer) is now and
                // then replaced by a directory with a child, which is then listed, walked and removed again:
                // the per-layer probes of the listing meet "a path below a file" in the layer that still holds it
                if cfg_kind.contains("ovl") && retype.is_empty() && !retyped && ops_desc.len() < 4 {
                    let uni_all: Vec<&str> = universe().iter().cloned().collect();
                    let cand: Vec<(&str, &str)> = uni_all.iter().cloned().filter(|p| snap.get(*p).map(|o| o.ex == "E" && o.md.starts_with('F')).unwrap_or(false)).filter_map(|p| uni_all.iter().cloned().find(|q| crate::tree_stream::parent_of(q) == p).map(|q| (p, q))).collect();
                    if !cand.is_empty() {
                        retyped = true;
                        let (p, q) = *rng.pick(&cand[..]);
                        let mk = |name: &'static str, path: &str| Op { name, path: path.to_string(), bytes: None, dest: None, time: None };
                        retype = vec![mk("remove_file", p), mk("create_dir", p), mk("create_dir", q), mk("read_dir", q), mk("walk", p), mk("remove_dir", q), mk("remove_dir_all", p)];
                    }
                }
                if !retype.is_empty() {
                    op = retype.remove(0);
                }
                // a write handle kept open across other calls (memory-backed configurations: a std File
                // writes through while an async-std File buffers, so open physical handles are not
                // comparable in between): opened on a universe path, written and flushed now and then,
                // with other calls aimed at its path in between (a second session on the same path,
                // removal, re-creation), dropped at the latest at the end of the history
                if !phys && !cfg_kind.contains("ghost") && retype.is_empty() {
                    let last = ops_desc.len() + 1 == n_ops;
                    if whandle.is_some() && (last || rng.chance(1, 6)) {
                        whandle = None;
                        op = Op { name: "hdrop", path: String::new(), bytes: None, dest: None, time: None };
                    } else if let Some(hp) = whandle.clone() {
                        match rng.below(8) {
                            0 | 1 => op = Op { name: "hwrite", path: String::new(), bytes: Some(crate::tree_stream::random_bytes(&mut rng)), dest: None, time: None },
                            2 => op = Op { name: "hflush", path: String::new(), bytes: None, dest: None, time: None },
                            3 => op = Op { name: "write", path: hp, bytes: Some(crate::tree_stream::random_bytes(&mut rng)), dest: None, time: None },
                            4 => op = Op { name: if rng.chance(1, 2) { "remove_file" } else { "append" }, path: hp, bytes: Some(crate::tree_stream::random_bytes(&mut rng)), dest: None, time: None },
                            _ => {}
                        }
                        if op.name == "remove_file" {
                            op.bytes = None;
                        }
                    } else if !last && rng.chance(1, 7) {
                        let files: Vec<&str> = universe().iter().cloned().filter(|p| !p.is_empty()).collect();
                        let p = rng.pick(&files[..]).to_string();
                        whandle = Some(p.clone());
                        op = Op { name: if rng.chance(1, 2) { "hcreate" } else { "happend" }, path: p, bytes: None, dest: None, time: None };
                    }
                }
                // (an operation chosen for the open handle — its drop in particular — is never replaced below)
                let handle_op = matches!(op.name, "hcreate" | "happend" | "hwrite" | "hflush" | "hdrop");
                if cfg_kind.contains("ovl") && whandle.is_none() && !handle_op && rng.chance(1, 10) {
                    // overlays: recursive removal of a directory that has a non-empty SUB-directory (often one
                    // that exists only in a lower layer): every level must be removed for good in both ports
                    let uni_all: Vec<&str> = universe().iter().cloned().collect();
                    let is = |p: &str, t: char| snap.get(p).map(|o| o.ex == "E" && o.md.starts_with(t)).unwrap_or(false);
                    let deep: Vec<&str> = uni_all.iter().cloned().filter(|p| !p.is_empty() && is(p, 'D') && uni_all.iter().any(|q| crate::tree_stream::parent_of(q) == *p && is(q, 'D') && uni_all.iter().any(|r| crate::tree_stream::parent_of(r) == *q && snap.get(*r).map(|o| o.ex == "E").unwrap_or(false)))).collect();
                    if !deep.is_empty() {
                        op = Op { name: "remove_dir_all", path: rng.pick(&deep[..]).to_string(), bytes: None, dest: None, time: None };
                    }
                }
                if whandle.is_none() && !handle_op && retype.is_empty() && rng.chance(1, 14) {
                    // a time setter now and then: the async in-memory backend has no timestamps and the async
                    // physical one needs a tokio runtime for them, so the answer is compared LENIENTLY (same
                    // class as the sync port, or not-supported); what is judged strictly is that nothing
                    // panics and that the tree (type, length, bytes) is untouched by the call in both ports
                    let exist: Vec<&str> = universe().iter().cloned().filter(|p| !p.is_empty()).collect();
                    let name = *rng.pick(&["set_mtime", "set_atime", "set_ctime"][..]);
                    op = Op { name, path: rng.pick(&exist[..]).to_string(), bytes: None, dest: None, time: Some(*rng.pick(&[0i128, 1_234_567_890_123_456_789, -86_400_500_000_000][..])) };
                }
                if op.name == "write" && rng.chance(1, 2) {
                    // the same session with the file observed while the handle is open (before and
                    // after the write, after the flush, after the drop)
                    op.name = "probe_session";
                }
                if cfg_kind.contains("ghost") && matches!(op.name, "remove_dir_all" | "copy_dir" | "move_dir") {
                    // these abort at the ghost entry; what they did before depends on the listing
                    // order (HashMap), which the two worlds do not share: walk instead
                    op = Op { name: "walk", path: op.path.clone(), bytes: None, dest: None, time: None };
                }
                ops_desc.push(op.describe());
                let line = op.line(cfg.target);
                if std::env::var("VH_DEBUG").is_ok() {
                    eprintln!("  op {}", op.describe());
                }
                script.push(line.clone());
                rep.evaluations += 1;
                match run_line(&mut sworld, &mut aworld, &line, &mut rep, &script, op.name) {
                    None => {
                        dead = true;
                        break;
                    }
                    Some((s, a)) => {
                        if matches!(op.name, "hcreate" | "happend") && !(s == "ok" && a == "ok") {
                            // no handle was obtained (the comparison below still judges the two answers)
                            whandle = None;
                            if (s == "ok") != (a == "ok") {
                                dead = true;
                            }
                        }
                        let same = if op.name == "walk" {
                            let n = |x: &str| {
                                let mut v: Vec<String> = project(x, 1).split(' ').map(|t| t.to_string()).collect();
                                v.sort();
                                v
                            };
                            n(&s) == n(&a)
                        } else if op.name.starts_with("set_") {
                            project(&s, 1) == project(&a, 1) || project(&a, 1).ends_with("notSupported")
                        } else {
                            project(&s, 1) == project(&a, 1)
                        };
                        rep.count(&format!("{}:{}:{}", driver, op.name, project(&a, 0).split(' ').next().unwrap_or("?")));
                        rep.distinct_hash(&format!("{}|{}|{}|{}", cfg_kind, op.name, a, max_pending));
                        if !same {
                            rep.fail(Fail { oracle: "prop".into(), signature: format!("async:{}:result-differs-from-sync", op.name), what: format!("[{} under {}, <= {} pending polls per await] {}: sync {} / async {}", cfg_kind, driver, max_pending, op.describe(), s, a), script: script.iter().map(|l| format!("I {}", l)).collect(), impl_out: a, model_out: s });
                            dead = true;
                            break;
                        }
                        ok_lines += 1;
                    }
                }
                let sl = format!("snap {} {}", cfg.target, uni);
                match run_line(&mut sworld, &mut aworld, &sl, &mut rep, &script, "snapshot") {
                    None => {
                        dead = true;
                    }
                    Some((s, a)) => {
                        if s != a {
                            rep.fail(Fail { oracle: "prop".into(), signature: format!("async:{}:tree-differs-from-sync", op.name), what: format!("[{} under {}] after {}: {}", cfg_kind, driver, op.describe(), crate::tree_stream::first_diff(&a, &s)), script: script.iter().map(|l| format!("I {}", l)).collect(), impl_out: a, model_out: s.clone() });
                            dead = true;
                        }
                        snap = parse_snap(&s);
                    }
                }
            }
            // async read handle against the sync one: same script of reads and seeks
            if !dead {
                let data: Vec<u8> = (0..(rng.below(40) as u8)).collect();
                let f = "/rh.bin";
                let w = format!("op {} write {} {}", cfg.target, enc_str(f), enc_bytes(&data));
                script.push(w.clone());
                let _ = run_line(&mut sworld, &mut aworld, &w, &mut rep, &script, "write");
                let ho = format!("hopen 0 {} {}", cfg.target, enc_str(f));
                script.push(ho.clone());
                if let Some((s, a)) = run_line(&mut sworld, &mut aworld, &ho, &mut rep, &script, "open_file") {
                    if s == "ok" && a == "ok" {
                        for _ in 0..12 {
                            let seeks = ["hseek 0 end 0", "hseek 0 end -1", "hseek 0 cur -1", "hseek 0 cur 1", "hseek 0 end -3", "hseek 0 start 0", "hseek 0 end 2"];
                            let l = match rng.below(3) {
                                // async-std's File reports end-of-file for good after a zero-length read:
                                // a quirk of the runtime's file type, not of the port; not generated there
                                0 => format!("hread 0 {}", if phys { *rng.pick(&[1usize, 2, 7, 64][..]) } else { *rng.pick(&[0usize, 1, 2, 7, 64][..]) }),
                                1 if !phys && rng.chance(1, 3) => {
                                    // positions near the ends of the offset range (in-memory handles): a read
                                    // there returns 0 bytes on the sync handle, whatever the buffer size
                                    rng.pick(&["hseek 0 start 18446744073709551612", "hseek 0 start 18446744073709551615", "hseek 0 start 9223372036854775807", "hseek 0 end 9223372036854775807", "hseek 0 cur 9223372036854775800"][..]).to_string()
                                }
                                1 => format!("hseek 0 start {}", rng.below(data.len() + 3)),
                                _ => rng.pick(&seeks[..]).to_string(),
                            };
                            script.push(l.clone());
                            rep.evaluations += 1;
                            match run_line(&mut sworld, &mut aworld, &l, &mut rep, &script, "handle") {
                                None => break,
                                Some((s, a)) => {
                                    if project(&s, 0) != project(&a, 0) {
                                        rep.fail(Fail { oracle: "prop".into(), signature: format!("async:read-handle:{}", if l.starts_with("hseek") { "seek-differs-from-sync" } else { "read-differs-from-sync" }), what: format!("[{}] file of {} bytes, {}: sync handle {} / async handle {}", cfg_kind, data.len(), l, s, a), script: script.iter().map(|l| format!("I {}", l)).collect(), impl_out: a, model_out: s });
                                        break;
                                    }
                                }
                            }
                        }
                    }
                }
            }
            if r == 0 {
                rep.sample(format!("[{} under {}, pending<= {}] {}", cfg_kind, driver, max_pending, ops_desc.iter().take(8).cloned().collect::<Vec<_>>().join("; ")));
            }
            total_pend += aworld.injected();
            rep.count_n("lines-agreeing", ok_lines);
            aworld.reset();
            if !phys && !cfg_kind.contains("ghost") {
                model_runs.push((format!("{} under {}", cfg_kind, driver), trace.into_inner()));
            }
        }
    }
    sworld.reset();
    // CORR: the async port against the Lean model of the async-only code (memory-backed configurations)
    {
        let mut batch: Vec<String> = vec![];
        let mut index: Vec<(usize, usize)> = vec![]; // (run, line) of every batch line
        for (ri, (_, tr)) in model_runs.iter().enumerate() {
            for (li, (line, _)) in tr.iter().enumerate() {
                let toks: Vec<&str> = line.split(' ').collect();
                let l = if toks.len() == 4 && toks[0] == "fs" && toks[2] == "leaf" {
                    format!("fs {} aleaf {}", toks[1], toks[3])
                } else if toks.len() >= 3 && toks[0] == "op" && toks[2] == "probe_session" {
                    // the driver has no probing session: the same session without the observations in between
                    line.replacen("probe_session", "write", 1)
                } else {
                    line.clone()
                };
                batch.push(l);
                index.push((ri, li));
            }
        }
        if !batch.is_empty() {
            let outs = run_driver(&o.driver, &batch);
            let mut dead_run = usize::MAX;
            for (k, (ri, li)) in index.iter().enumerate() {
                if *ri == dead_run {
                    continue;
                }
                let (desc, tr) = &model_runs[*ri];
                let (line, a) = &tr[*li];
                let m = &outs[k];
                let toks: Vec<&str> = line.split(' ').collect();
                let same = if toks[0] == "snap" {
                    a == m
                } else if toks[0] == "op" && toks.get(2).map(|t| t.starts_with("set_")).unwrap_or(false) {
                    // AsyncMemoryFS has no time setters (trait default NotSupported, as in the model); through
                    // adapters the class may be not-found first: compare failure only
                    a.starts_with("err") == m.starts_with("err")
                } else if toks[0] == "op" && toks.get(2) == Some(&"probe_session") {
                    a.starts_with("err") == m.starts_with("err")
                } else if toks[0] == "op" && toks.get(2) == Some(&"walk") {
                    let n = |x: &str| {
                        let mut v: Vec<String> = project(x, 1).split(' ').map(|t| t.to_string()).collect();
                        v.sort();
                        v
                    };
                    n(a) == n(m)
                } else if toks[0] == "op" {
                    project(a, 1) == project(m, 1)
                } else if toks[0].starts_with('h') {
                    project(a, 0).split(' ').next() == project(m, 0).split(' ').next() && (toks[0] != "hread" && toks[0] != "hseek" || project(a, 0) == project(m, 0))
                } else {
                    true
                };
                rep.evaluations += 1;
                if !same {
                    rep.fail(Fail { oracle: "corr".into(), signature: format!("async:model:{}", if toks[0] == "op" { toks.get(2).cloned().unwrap_or("?") } else { toks[0] }), what: format!("[{}] {}: async implementation {} / Lean model of the async port {}", desc, line.chars().take(120).collect::<String>(), a.chars().take(200).collect::<String>(), m.chars().take(200).collect::<String>()), script: tr[..=*li].iter().map(|(l, _)| format!("B {}", l)).collect(), impl_out: a.clone(), model_out: m.clone() });
                    dead_run = *ri;
                }
            }
            rep.count_n("corr-lines", batch.len() as u64);
        }
    }
    rep.count_n("pending-polls-injected", total_pend);
    rep.notes.push(format!("configs {:?}; executors {:?}; 0/1/3 Pending polls before every await point and every directory-stream item of every async leaf", configs, drivers));
    rep
}
