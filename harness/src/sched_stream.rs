//! Stream `sched` (C16, C17): small concurrent programs on one shared filesystem under the
//! cooperative scheduler of sched.rs; every interleaving at lock-acquisition granularity.
//!   C16 PROP  for each explored schedule, some sequential execution of the same calls that
//!             respects each thread's program order gives the same per-call results and the same
//!             final snapshot (linearizability); the final tree is well-formed; no panic, no stall.
//!   C17 PROP  concurrent create_dir_all calls all return Ok and every requested prefix is a
//!             directory afterwards (memory, altroot and overlay over memory: all schedules;
//!             physical: randomised stress).
//!   CORR      (C16) per schedule: results and final snapshot against the Lean interleaving
//!             model; the labels of the yield points each call passes against the model's regions.
use crate::sched::run_controlled;
use crate::tree_stream::project;
use crate::util::*;
use std::collections::{BTreeMap, BTreeSet};
use std::io::{Read, Write};
use std::sync::{Arc, Mutex};
use vfs::{AltrootFS, MemoryFS, OverlayFS, PhysicalFS, SeekAndWrite, VfsPath};

#[derive(Clone, Debug, PartialEq)]
pub enum Call {
    CreateDir(String),
    /// create_file: opens a write handle kept by the thread (truncates / creates)
    CreateFile(String),
    /// append_file: opens an append handle kept by the thread
    AppendOpen(String),
    /// write_all(bytes) to the thread's open handle, then drop it (publishes)
    WriteDrop(Vec<u8>),
    /// create_file + write_all + drop as ONE unit (the property's reading; see known findings)
    WriteSession(String, Vec<u8>),
    /// append_file + write_all + drop as ONE unit
    AppendSession(String, Vec<u8>),
    RemoveFile(String),
    RemoveDir(String),
    Exists(String),
    Metadata(String),
    ReadDir(String),
    Read(String),
    CreateDirAll(String),
}

impl Call {
    pub fn describe(&self) -> String {
        match self {
            Call::CreateDir(p) => format!("create_dir({})", p),
            Call::CreateFile(p) => format!("create_file({})", p),
            Call::AppendOpen(p) => format!("append_file({})", p),
            Call::WriteDrop(b) => format!("write+drop({:?})", String::from_utf8_lossy(b)),
            Call::WriteSession(p, b) => format!("create_file+write({}, {:?})", p, String::from_utf8_lossy(b)),
            Call::AppendSession(p, b) => format!("append({}, {:?})", p, String::from_utf8_lossy(b)),
            Call::RemoveFile(p) => format!("remove_file({})", p),
            Call::RemoveDir(p) => format!("remove_dir({})", p),
            Call::Exists(p) => format!("exists({})", p),
            Call::Metadata(p) => format!("metadata({})", p),
            Call::ReadDir(p) => format!("read_dir({})", p),
            Call::Read(p) => format!("open+read({})", p),
            Call::CreateDirAll(p) => format!("create_dir_all({})", p),
        }
    }
    /// protocol text for the model driver
    pub fn model_text(&self) -> String {
        match self {
            Call::CreateDir(p) => format!("create_dir {}", enc_str(p)),
            Call::CreateFile(p) => format!("create_file {}", enc_str(p)),
            Call::AppendOpen(p) => format!("append_open {}", enc_str(p)),
            Call::WriteDrop(b) => format!("write_drop {}", enc_bytes(b)),
            Call::WriteSession(p, b) => format!("write_session {} {}", enc_str(p), enc_bytes(b)),
            Call::AppendSession(p, b) => format!("append_session {} {}", enc_str(p), enc_bytes(b)),
            Call::RemoveFile(p) => format!("remove_file {}", enc_str(p)),
            Call::RemoveDir(p) => format!("remove_dir {}", enc_str(p)),
            Call::Exists(p) => format!("exists {}", enc_str(p)),
            Call::Metadata(p) => format!("metadata {}", enc_str(p)),
            Call::ReadDir(p) => format!("read_dir {}", enc_str(p)),
            Call::Read(p) => format!("read {}", enc_str(p)),
            Call::CreateDirAll(p) => format!("create_dir_all {}", enc_str(p)),
        }
    }
}

type Handle = Option<Box<dyn SeekAndWrite + Send>>;

/// execute one call; result projected to ok / err (+ value for observers)
pub fn exec_call(root: &VfsPath, h: &mut Handle, c: &Call) -> String {
    let r = guarded(|| -> vfs::VfsResult<String> {
        Ok(match c {
            Call::CreateDir(p) => {
                root.join(p)?.create_dir()?;
                String::new()
            }
            Call::CreateDirAll(p) => {
                root.join(p)?.create_dir_all()?;
                String::new()
            }
            Call::CreateFile(p) => {
                *h = Some(root.join(p)?.create_file()?);
                String::new()
            }
            Call::AppendOpen(p) => {
                *h = Some(root.join(p)?.append_file()?);
                String::new()
            }
            Call::WriteDrop(b) => match h.take() {
                Some(mut w) => {
                    w.write_all(b)?;
                    drop(w);
                    String::new()
                }
                None => return Err(vfs::VfsError::from(vfs::error::VfsErrorKind::Other("no open handle".into()))),
            },
            Call::WriteSession(p, b) => {
                let mut w = root.join(p)?.create_file()?;
                w.write_all(b)?;
                drop(w);
                String::new()
            }
            Call::AppendSession(p, b) => {
                let mut w = root.join(p)?.append_file()?;
                w.write_all(b)?;
                drop(w);
                String::new()
            }
            Call::RemoveFile(p) => {
                root.join(p)?.remove_file()?;
                String::new()
            }
            Call::RemoveDir(p) => {
                root.join(p)?.remove_dir()?;
                String::new()
            }
            Call::Exists(p) => root.join(p)?.exists()?.to_string(),
            Call::Metadata(p) => {
                let m = root.join(p)?.metadata()?;
                format!("{}{}", if m.file_type == vfs::VfsFileType::File { "F" } else { "D" }, m.len)
            }
            Call::ReadDir(p) => {
                let mut v: Vec<String> = root.join(p)?.read_dir()?.map(|c| c.filename()).collect();
                v.sort();
                v.join(",")
            }
            Call::Read(p) => {
                let mut f = root.join(p)?.open_file()?;
                let mut v = vec![];
                f.read_to_end(&mut v)?;
                hex(&v)
            }
        })
    });
    match r {
        Err(_) => "panic".into(),
        Ok(Ok(v)) => {
            if v.is_empty() {
                "ok".into()
            } else {
                format!("ok:{}", v)
            }
        }
        Ok(Err(_)) => "err".into(),
    }
}

pub const PATHS: [&str; 4] = ["/a", "/a/b", "/c", "/a/b/d"];

/// full snapshot of the shared filesystem over the path universe
/// additional snapshot paths of the program being explored (C17: every prefix of every requested path)
pub static EXTRA_PATHS: Mutex<Vec<String>> = Mutex::new(Vec::new());

pub fn snapshot(root: &VfsPath) -> String {
    let extra: Vec<String> = EXTRA_PATHS.lock().unwrap().clone();
    PATHS
        .iter()
        .map(|p| p.to_string())
        .chain(extra.into_iter())
        .map(|p| {
            let p = &p;
            let q = root.join(p).unwrap();
            let s = match guarded(|| q.metadata()) {
                Ok(Ok(m)) if m.file_type == vfs::VfsFileType::Directory => "D".to_string(),
                Ok(Ok(_)) => {
                    let mut v = vec![];
                    match q.open_file().map(|mut f| f.read_to_end(&mut v)) {
                        Ok(Ok(_)) => format!("F{}", hex(&v)),
                        _ => "F?".into(),
                    }
                }
                Ok(Err(_)) => "A".into(),
                Err(_) => "P".into(),
            };
            format!("{}={}", p, s)
        })
        .collect::<Vec<_>>()
        .join(" ")
}

#[derive(Clone, Debug)]
pub struct Program {
    pub init: Vec<Call>,
    pub threads: Vec<Vec<Call>>,
    pub backend: &'static str,
}

pub fn make_root(backend: &str, scratch: &str, n: &mut u64) -> (VfsPath, Option<std::path::PathBuf>) {
    match backend {
        "mem" => (VfsPath::new(MemoryFS::new()), None),
        "alt(mem)" => {
            let m = VfsPath::new(MemoryFS::new());
            let r = m.join("root").unwrap();
            r.create_dir().unwrap();
            (VfsPath::new(AltrootFS::new(r)), None)
        }
        "ovl(mem,mem)" => {
            let up = VfsPath::new(MemoryFS::new());
            let lo = VfsPath::new(MemoryFS::new());
            lo.join("c").unwrap().create_dir().unwrap();
            (VfsPath::new(OverlayFS::new(&[up, lo])), None)
        }
        "ovl(mem,mem,mem)" => {
            // three layers: /c exists only in the LOWEST one, the middle layer holds /m
            let up = VfsPath::new(MemoryFS::new());
            let mid = VfsPath::new(MemoryFS::new());
            let lo = VfsPath::new(MemoryFS::new());
            mid.join("m").unwrap().create_dir().unwrap();
            lo.join("c").unwrap().create_dir().unwrap();
            (VfsPath::new(OverlayFS::new(&[up, mid, lo])), None)
        }
        "phys" => {
            *n += 1;
            let dir = std::path::PathBuf::from(scratch).join(format!("sched_{}_{}", std::process::id(), n));
            let _ = std::fs::remove_dir_all(&dir);
            std::fs::create_dir_all(&dir).unwrap();
            (VfsPath::new(PhysicalFS::new(&dir)), Some(dir))
        }
        _ => panic!("unknown backend"),
    }
}

pub struct Outcome {
    pub results: Vec<Vec<String>>,
    pub snap: String,
    pub schedule: Vec<usize>,
    pub options: Vec<usize>,
    pub traces: Vec<Vec<String>>,
}

/// run the program once under the given choice function
pub fn run_once(prog: &Program, scratch: &str, n: &mut u64, choose: impl FnMut(usize, &[usize]) -> usize) -> Result<Outcome, String> {
    let (root, dir) = make_root(prog.backend, scratch, n);
    let mut h0: Handle = None;
    for c in &prog.init {
        exec_call(&root, &mut h0, c);
    }
    let results: Arc<Mutex<Vec<Vec<String>>>> = Arc::new(Mutex::new(vec![vec![]; prog.threads.len()]));
    let mut bodies: Vec<Box<dyn FnOnce() + Send>> = vec![];
    for (tid, calls) in prog.threads.iter().enumerate() {
        let root = root.clone();
        let calls = calls.clone();
        let results = results.clone();
        bodies.push(Box::new(move || {
            let mut h: Handle = None;
            for c in &calls {
                let r = exec_call(&root, &mut h, c);
                results.lock().unwrap()[tid].push(r);
            }
            drop(h);
        }));
    }
    let out = run_controlled(bodies, choose);
    let res = match out {
        Ok((schedule, options, traces)) => Ok(Outcome { results: results.lock().unwrap().clone(), snap: snapshot(&root), schedule, options, traces }),
        Err(e) => Err(e),
    };
    if let Some(d) = dir {
        let _ = std::fs::remove_dir_all(d);
    }
    res
}

/// all sequential executions (interleavings of whole calls respecting program order)
pub fn sequential_outcomes(prog: &Program, scratch: &str, n: &mut u64) -> BTreeSet<(Vec<Vec<String>>, String)> {
    let mut out = BTreeSet::new();
    let lens: Vec<usize> = prog.threads.iter().map(|t| t.len()).collect();
    let mut orders: Vec<Vec<usize>> = vec![];
    fn rec(lens: &Vec<usize>, pos: &mut Vec<usize>, cur: &mut Vec<usize>, out: &mut Vec<Vec<usize>>) {
        if (0..lens.len()).all(|i| pos[i] == lens[i]) {
            out.push(cur.clone());
            return;
        }
        for i in 0..lens.len() {
            if pos[i] < lens[i] {
                pos[i] += 1;
                cur.push(i);
                rec(lens, pos, cur, out);
                cur.pop();
                pos[i] -= 1;
            }
        }
    }
    rec(&lens, &mut vec![0; lens.len()], &mut vec![], &mut orders);
    for order in orders {
        let (root, dir) = make_root(prog.backend, scratch, n);
        let mut h0: Handle = None;
        for c in &prog.init {
            exec_call(&root, &mut h0, c);
        }
        let mut hs: Vec<Handle> = prog.threads.iter().map(|_| None).collect();
        let mut pos = vec![0; prog.threads.len()];
        let mut results = vec![vec![]; prog.threads.len()];
        for t in order {
            let c = &prog.threads[t][pos[t]];
            pos[t] += 1;
            let r = exec_call(&root, &mut hs[t], c);
            results[t].push(r);
        }
        drop(hs);
        out.insert((results, snapshot(&root)));
        if let Some(d) = dir {
            let _ = std::fs::remove_dir_all(d);
        }
    }
    out
}

fn wf_snapshot(snap: &str) -> bool {
    let m: BTreeMap<&str, &str> = snap.split(' ').filter_map(|t| t.split_once('=')).collect();
    for (p, v) in &m {
        if *v == "A" {
            continue;
        }
        if let Some(i) = p.rfind('/') {
            let par = &p[..i];
            if !par.is_empty() && m.get(par).map(|x| *x != "D").unwrap_or(false) {
                return false;
            }
        }
    }
    true
}

fn random_call(rng: &mut Rng) -> Vec<Call> {
    let p = rng.pick(&PATHS[..3]).to_string();
    let b = vec![b'x' + rng.below(3) as u8];
    match rng.below(14) {
        0 | 1 => vec![Call::CreateDir(p)],
        2 => vec![Call::CreateFile(p), Call::WriteDrop(b)],
        3 => vec![Call::AppendOpen(p), Call::WriteDrop(b)],
        4 | 5 => vec![Call::RemoveFile(p)],
        6 | 7 => vec![Call::RemoveDir(p)],
        8 => vec![Call::Exists(p)],
        9 => vec![Call::Metadata(p)],
        10 => vec![Call::ReadDir(p)],
        11 => vec![Call::Read(p)],
        12 => vec![Call::CreateDir(p)],
        _ => vec![Call::RemoveDir(p)],
    }
}

fn inits() -> Vec<Vec<Call>> {
    vec![
        vec![],
        vec![Call::CreateDir("/a".into())],
        vec![Call::CreateDir("/a".into()), Call::WriteSession("/a/b".into(), b"0".to_vec())],
        vec![Call::CreateDir("/a".into()), Call::CreateDir("/a/b".into())],
        vec![Call::WriteSession("/c".into(), b"0".to_vec()), Call::CreateDir("/a".into())],
    ]
}

/// explore all schedules of a program by re-execution (DFS over choice points), up to `cap`
pub fn explore(prog: &Program, scratch: &str, n: &mut u64, cap: usize, rng: &mut Rng, mut on: impl FnMut(&Outcome)) -> Result<(usize, bool), String> {
    let mut prefix: Vec<usize> = vec![]; // choice indices
    let mut count = 0;
    let mut complete = true;
    loop {
        let pf = prefix.clone();
        // a stall (no controlled thread reached its next yield point within the scheduler's time limit) is only
        // reported when the SAME schedule stalls again: a deadlock of the code is deterministic under a fixed
        // schedule, a starved thread on a loaded machine is not
        let mut out = run_once(prog, scratch, n, |step, _run| if step < pf.len() { pf[step] } else { 0 });
        for _ in 0..2 {
            if out.is_ok() {
                break;
            }
            out = run_once(prog, scratch, n, |step, _run| if step < pf.len() { pf[step] } else { 0 });
        }
        let out = out?;
        count += 1;
        on(&out);
        // backtrack: choices actually taken = prefix ++ zeros
        let mut taken: Vec<usize> = (0..out.options.len()).map(|i| if i < prefix.len() { prefix[i] } else { 0 }).collect();
        let mut i = taken.len();
        loop {
            if i == 0 {
                return Ok((count, complete));
            }
            i -= 1;
            if taken[i] + 1 < out.options[i] {
                taken[i] += 1;
                taken.truncate(i + 1);
                break;
            }
        }
        prefix = taken;
        if count >= cap {
            complete = false;
            // random schedules beyond the cap
            for _ in 0..(cap / 4).max(10) {
                let mut r = rng.fork();
                let r0 = r.clone();
                let mut out = run_once(prog, scratch, n, |_s, run| r.below(run.len()));
                for _ in 0..2 {
                    if out.is_ok() {
                        break;
                    }
                    let mut r1 = r0.clone();
                    out = run_once(prog, scratch, n, |_s, run| r1.below(run.len()));
                }
                let out = out?;
                count += 1;
                on(&out);
            }
            return Ok((count, complete));
        }
    }
}

pub fn run(o: &Opts) -> Report {
    let prop = o.extra.iter().position(|a| a == "--prop").and_then(|i| o.extra.get(i + 1)).cloned().unwrap_or_else(|| "C16".into());
    let mut rep = Report::new("sched");
    let mut rng = Rng::new(o.seed ^ 0x5c4ed);
    let mut n = 0u64;
    let scratch = o.scratch.clone();
    let mut model_lines: Vec<String> = vec![];
    let mut oconc_cmp: Vec<(Vec<usize>, String)> = vec![];
    let mut oconc_desc: Vec<String> = vec![];
    let mut model_expect: Vec<(String, String)> = vec![]; // (impl output, description)
    // `--prop C03`: the curated race-prone programs and a few generated ones, judged ONLY by C03's clause —
    // no orphan in any state a concurrent history can reach (the tree a schedule ends in is well-formed)
    let c03 = prop == "C03";
    if prop == "C16" || c03 {
        let mut programs: Vec<Program> = vec![];
        // curated race-prone programs (the check-then-act windows of the pre-fix code and the
        // handle protocol)
        let cur = |init: Vec<Call>, threads: Vec<Vec<Call>>| Program { init, threads, backend: "mem" };
        programs.push(cur(vec![Call::CreateDir("/a".into())], vec![vec![Call::CreateDir("/a/b".into())], vec![Call::RemoveDir("/a".into())]]));
        programs.push(cur(vec![Call::CreateDir("/a".into())], vec![vec![Call::CreateFile("/a/b".into()), Call::WriteDrop(b"x".to_vec())], vec![Call::RemoveDir("/a".into())]]));
        programs.push(cur(vec![Call::CreateDir("/a".into())], vec![vec![Call::CreateDir("/a/b".into())], vec![Call::RemoveDir("/a".into()), Call::CreateFile("/a".into()), Call::WriteDrop(b"y".to_vec())]]));
        programs.push(cur(vec![Call::CreateDir("/a".into())], vec![vec![Call::CreateFile("/a/b".into()), Call::WriteDrop(b"x".to_vec())], vec![Call::RemoveFile("/a/b".into()), Call::RemoveDir("/a".into())]]));
        programs.push(cur(vec![Call::CreateDir("/a".into())], vec![vec![Call::RemoveDir("/a".into())], vec![Call::CreateDir("/a/b".into())], vec![Call::Exists("/a/b".into())]]));
        programs.push(cur(vec![Call::CreateDir("/a".into()), Call::CreateDir("/a/b".into())], vec![vec![Call::RemoveDir("/a/b".into()), Call::RemoveDir("/a".into())], vec![Call::CreateDir("/a/b/d".into())]]));
        programs.push(cur(vec![], vec![vec![Call::CreateDir("/a".into()), Call::CreateDir("/a/b".into())], vec![Call::CreateDir("/a".into()), Call::ReadDir("/a".into())]]));
        // the path changes TYPE inside another call's window: a file removed and re-created as a directory
        // with a child while a second remove_file of the same path is in flight
        programs.push(cur(vec![Call::WriteSession("/a".into(), b"0".to_vec())], vec![vec![Call::RemoveFile("/a".into())], vec![Call::RemoveFile("/a".into()), Call::CreateDir("/a".into()), Call::CreateDir("/a/b".into())]]));
        programs.push(cur(vec![Call::CreateDir("/a".into())], vec![vec![Call::RemoveDir("/a".into())], vec![Call::RemoveDir("/a".into()), Call::WriteSession("/a".into(), b"1".to_vec())]]));
        let n_random = if o.thorough() { 120 } else if c03 { 12 } else { 40 };
        let ini = inits();
        for _ in 0..n_random {
            let nt = 2 + rng.below(2);
            let mut threads = vec![];
            for _ in 0..nt {
                let mut calls = vec![];
                let nc = 1 + rng.below(if nt == 3 { 2 } else { 3 });
                for _ in 0..nc {
                    calls.extend(random_call(&mut rng));
                    if calls.len() >= 3 {
                        break;
                    }
                }
                threads.push(calls);
            }
            programs.push(Program { init: rng.pick(&ini[..]).clone(), threads, backend: "mem" });
        }
        // the two known findings of the session protocol, as single-unit programs
        let known_units = vec![
            Program { init: vec![Call::WriteSession("/c".into(), b"old".to_vec())], threads: vec![vec![Call::WriteSession("/c".into(), b"new".to_vec())], vec![Call::Read("/c".into())]], backend: "mem" },
            Program { init: vec![Call::WriteSession("/c".into(), b"".to_vec())], threads: vec![vec![Call::AppendSession("/c".into(), b"x".to_vec())], vec![Call::AppendSession("/c".into(), b"y".to_vec())]], backend: "mem" },
        ];
        let cap = if o.thorough() { 6000 } else { 3000 };
        let known_units = if c03 { vec![] } else { known_units };
        for (pi, prog) in programs.iter().chain(known_units.iter()).enumerate() {
            let unit_program = pi >= programs.len();
            let seq = sequential_outcomes(prog, &scratch, &mut n);
            let desc = format!(
                "init [{}] || {}",
                prog.init.iter().map(|c| c.describe()).collect::<Vec<_>>().join("; "),
                prog.threads.iter().map(|t| t.iter().map(|c| c.describe()).collect::<Vec<_>>().join("; ")).collect::<Vec<_>>().join("  ||  ")
            );
            if pi < 3 {
                rep.sample(desc.clone());
            }
            let mut bad: Option<(String, String, Vec<usize>)> = None;
            let mut distinct: BTreeSet<(Vec<Vec<String>>, String)> = BTreeSet::new();
            let mut first_outcomes: Vec<(Vec<usize>, Vec<Vec<String>>, String, Vec<Vec<String>>)> = vec![];
            let r = explore(prog, &scratch, &mut n, cap, &mut rng, |out| {
                rep.evaluations += 1;
                let key = (out.results.clone(), out.snap.clone());
                // every explored schedule is replayed on the Lean interleaving model (fifth session; before: six per program)
                let fresh = distinct.insert(key.clone());
                if fresh || first_outcomes.len() < 4000 {
                    first_outcomes.push((out.schedule.clone(), out.results.clone(), out.snap.clone(), out.traces.clone()));
                }
                if bad.is_none() {
                    if out.results.iter().flatten().any(|r| r == "panic") {
                        bad = Some(("panic".into(), format!("a call panicked: {:?}", out.results), out.schedule.clone()));
                    } else if !wf_snapshot(&out.snap) {
                        bad = Some(("orphan".into(), format!("final tree is not well-formed: {} (results {:?})", out.snap, out.results), out.schedule.clone()));
                    } else if !seq.contains(&key) {
                        bad = Some(("not-linearizable".into(), format!("results {:?} with final tree [{}] match no sequential execution ({} sequential outcomes)", out.results, out.snap, seq.len()), out.schedule.clone()));
                    }
                }
            });
            match r {
                Err(e) => rep.fail(Fail { oracle: "prop".into(), signature: "mem:stall-or-deadlock".into(), what: format!("{}: {}", desc, e), script: vec![desc.clone()], impl_out: e, model_out: String::new() }),
                Ok((count, complete)) => {
                    rep.count_n("schedules", count as u64);
                    rep.count(if complete { "programs-exhaustive" } else { "programs-capped" });
                    for d in &distinct {
                        rep.distinct_hash(&format!("{}|{:?}", desc, d));
                    }
                }
            }
            if let Some((kind, what, schedule)) = bad {
                let sig = if unit_program {
                    format!("mem:session-as-one-call:{}", if pi == programs.len() { "reader-sees-truncated-file" } else { "lost-append" })
                } else {
                    format!("mem:{}", kind)
                };
                rep.fail(Fail { oracle: "prop".into(), signature: sig, what: format!("{} under schedule {:?}: {}", desc, schedule, what), script: vec![desc.clone(), format!("schedule {:?}", schedule)], impl_out: what.clone(), model_out: format!("{:?}", seq.iter().take(4).collect::<Vec<_>>()) });
            }
            // CORR: a few distinct schedules of this program against the Lean interleaving model
            if !unit_program {
                for (schedule, results, snap, traces) in first_outcomes {
                    model_lines.push("cinit".into());
                    model_expect.push(("ok".into(), String::new()));
                    for c in &prog.init {
                        model_lines.push(format!("cprep {}", c.model_text()));
                        model_expect.push((String::new(), String::new()));
                    }
                    for (t, calls) in prog.threads.iter().enumerate() {
                        for c in calls {
                            model_lines.push(format!("cthread {} {}", t, c.model_text()));
                            model_expect.push((String::new(), String::new()));
                        }
                    }
                    // the schedule in region steps: drop the "start" grants (first grant of each thread)
                    let mut seen = vec![false; prog.threads.len()];
                    let steps: Vec<String> = schedule
                        .iter()
                        .filter(|t| {
                            let first = !seen[**t];
                            seen[**t] = true;
                            !first
                        })
                        .map(|t| t.to_string())
                        .collect();
                    // labels per thread (without "start")
                    let labels: Vec<String> = traces.iter().map(|t| t.iter().filter(|l| *l != "start").map(|l| l.split(':').next().unwrap_or("?").to_string()).collect::<Vec<_>>().join(",")).collect();
                    model_lines.push(format!("crun {}", steps.join(" ")));
                    let imp = format!("{} | {} | {}", results.iter().map(|r| r.join(",")).collect::<Vec<_>>().join(" ; "), snap, labels.join(" ; "));
                    model_expect.push((imp, format!("{} schedule {:?}", desc, schedule)));
                }
            }
        }
    } else {
        // C17: concurrent create_dir_all
        let backends = ["mem", "alt(mem)", "ovl(mem,mem)", "ovl(mem,mem,mem)"];
        let path_sets: Vec<Vec<&str>> = vec![
            vec!["/a", "/a"],
            vec!["/a/b", "/a/b"],
            vec!["/a/b", "/a/c"],
            vec!["/a", "/a/b"],
            vec!["/a/b/d", "/a/b"],
            vec!["/a/b/d", "/a/c"],
            vec!["/c/x", "/c/x"],
            vec!["/a/b", "/c/x"],
            vec!["/a/b", "/a/b", "/a"],
            vec!["/a/b/d", "/a/b/e"],
            // below a directory that (on the overlay) exists only in the lower layer
            vec!["/c/x", "/c/y"],
            vec!["/c/x/p", "/c/y/q"],
            // below a directory of the MIDDLE layer (three-layer overlay), and next to one of the lowest
            vec!["/m/x", "/m/y"],
            vec!["/m/x", "/c/y"],
            // … and after that directory was removed through the overlay (marker present)
            vec!["!/c/x", "/c/y"],
            vec!["!/c", "/c/x"],
        ];
        let cap = if o.thorough() { 10000 } else { 600 };
        for backend in backends {
            for ps in &path_sets {
                if ps.len() == 3 && backend != "mem" && !o.thorough() {
                    continue;
                }
                // "/c!…": the same paths after the lower-layer directory /c was REMOVED through the overlay
                // earlier (not concurrently): a deletion marker is in place when the threads start
                let removed_first = ps[0].starts_with('!');
                if removed_first && !backend.starts_with("ovl") {
                    continue;
                }
                let ps: Vec<&str> = ps.iter().map(|p| p.trim_start_matches('!')).collect();
                let ps = &ps;
                let prog = Program { init: if removed_first { vec![Call::RemoveDir("/c".into())] } else { vec![] }, threads: ps.iter().map(|p| vec![Call::CreateDirAll(p.to_string())]).collect(), backend };
                let desc = format!("[{}]{} {}", backend, if removed_first { " after remove_dir(/c):" } else { "" }, ps.iter().map(|p| format!("create_dir_all({})", p)).collect::<Vec<_>>().join(" || "));
                rep.sample(desc.clone());
                let mut bad: Option<(String, Vec<usize>)> = None;
                // schedules of this program replayed on the small-step model (all of them in the quick tier; bounded in
                // the thorough tier, where 10 000 schedules x 18 path sets x 3 backends would be millions of driver lines)
                let mut replayed = 0usize;
                let replay_cap = 2500usize;
                // every prefix of every requested path, observed after EVERY explored schedule
                let mut prefixes: Vec<String> = vec![];
                for p in ps {
                    let mut cur = String::new();
                    for comp in p[1..].split('/') {
                        cur.push('/');
                        cur.push_str(comp);
                        if !prefixes.contains(&cur) {
                            prefixes.push(cur.clone());
                        }
                    }
                }
                *EXTRA_PATHS.lock().unwrap() = prefixes.clone();
                let r = explore(&prog, &scratch, &mut n, if backend == "ovl(mem,mem,mem)" && !o.thorough() { cap / 2 } else { cap }, &mut rng, |out| {
                    rep.evaluations += 1;
                    rep.distinct_hash(&format!("{}|{:?}", desc, out.schedule));
                    if backend == "alt(mem)" && replayed < replay_cap {
                        replayed += 1;
                        // CORR (small-step model AltrootConc.lean): the same schedule, one token per call of the inner MemoryFS
                        let mut seen = vec![false; ps.len()];
                        let steps: Vec<String> = out
                            .schedule
                            .iter()
                            .filter(|t| {
                                let first = !seen[**t];
                                seen[**t] = true;
                                !first
                            })
                            .map(|t| t.to_string())
                            .collect();
                        let labels: Vec<String> = out.traces.iter().map(|t| t.iter().filter(|l| *l != "start").map(|l| l.split(':').next().unwrap_or("?").to_string()).collect::<Vec<_>>().join(",")).collect();
                        let snap: Vec<String> = prefixes.iter().map(|p| out.snap.split(' ').find(|t| t.starts_with(&format!("{}=", p))).map(|t| t[p.len() + 1..].to_string()).unwrap_or("?".into())).collect();
                        model_lines.push("reset".into());
                        model_lines.push("leaf mem".into());
                        model_lines.push("fs 0 leaf 0".into());
                        model_lines.push(format!("op 0 create_dir {}", enc_str("/root")));
                        model_lines.push(format!("fs 9 alt 0 {}", enc_str("root")));
                        model_lines.push(format!("aconc 0:{} | {} | {}", enc_str("root"), ps.iter().map(|p| enc_str(p)).collect::<Vec<_>>().join(" "), steps.join(" ")));
                        model_lines.push(format!("snap 9 {}", prefixes.iter().map(|p| enc_str(p)).collect::<Vec<_>>().join(" ")));
                        let imp = format!("{} | {} | {}", out.results.iter().map(|r| r.join(",")).collect::<Vec<_>>().join(" ; "), labels.join(" ; "), snap.join(" "));
                        oconc_cmp.push((out.schedule.clone(), imp));
                        oconc_desc.push(desc.clone());
                    }
                    if backend.starts_with("ovl") && replayed < replay_cap {
                        replayed += 1;
                        let three = backend == "ovl(mem,mem,mem)";
                        // CORR (small-step model OverlayConc.lean): the same schedule, one token per layer call
                        let mut seen = vec![false; ps.len()];
                        let steps: Vec<String> = out
                            .schedule
                            .iter()
                            .filter(|t| {
                                let first = !seen[**t];
                                seen[**t] = true;
                                !first
                            })
                            .map(|t| t.to_string())
                            .collect();
                        let labels: Vec<String> = out.traces.iter().map(|t| t.iter().filter(|l| *l != "start").map(|l| l.split(':').next().unwrap_or("?").to_string()).collect::<Vec<_>>().join(",")).collect();
                        let snap: Vec<String> = prefixes.iter().map(|p| out.snap.split(' ').find(|t| t.starts_with(&format!("{}=", p))).map(|t| t[p.len() + 1..].to_string()).unwrap_or("?".into())).collect();
                        model_lines.push("reset".into());
                        model_lines.push("leaf mem".into());
                        model_lines.push("leaf mem".into());
                        model_lines.push("fs 0 leaf 0".into());
                        model_lines.push("fs 1 leaf 1".into());
                        let e = enc_str("");
                        let layers = if three {
                            model_lines.push("leaf mem".into());
                            model_lines.push("fs 2 leaf 2".into());
                            model_lines.push(format!("op 1 create_dir {}", enc_str("/m")));
                            model_lines.push(format!("op 2 create_dir {}", enc_str("/c")));
                            format!("0:{} 1:{} 2:{}", e, e, e)
                        } else {
                            model_lines.push(format!("op 1 create_dir {}", enc_str("/c")));
                            format!("0:{} 1:{}", e, e)
                        };
                        model_lines.push(format!("fs 9 ovl {}", layers));
                        if removed_first {
                            model_lines.push(format!("op 9 remove_dir {}", enc_str("/c")));
                        }
                        model_lines.push(format!("oconc {} | {} | {}", layers, ps.iter().map(|p| enc_str(p)).collect::<Vec<_>>().join(" "), steps.join(" ")));
                        model_lines.push(format!("snap 9 {}", prefixes.iter().map(|p| enc_str(p)).collect::<Vec<_>>().join(" ")));
                        let imp = format!("{} | {} | {}", out.results.iter().map(|r| r.join(",")).collect::<Vec<_>>().join(" ; "), labels.join(" ; "), snap.join(" "));
                        oconc_cmp.push((out.schedule.clone(), imp));
                        oconc_desc.push(desc.clone());
                    }
                    if bad.is_none() {
                        if out.results.iter().flatten().any(|r| r != "ok") {
                            bad = Some((format!("a create_dir_all call did not succeed: {:?}", out.results), out.schedule.clone()));
                        } else if let Some(p) = prefixes.iter().find(|p| !out.snap.split(' ').any(|t| t == format!("{}=D", p))) {
                            bad = Some((format!("every call returned Ok but {} is not a directory afterwards ({})", p, out.snap), out.schedule.clone()));
                        }
                    }
                });
                EXTRA_PATHS.lock().unwrap().clear();
                // every requested prefix is a directory afterwards: checked on a final controlled run
                match r {
                    Err(e) => rep.fail(Fail { oracle: "prop".into(), signature: format!("{}:stall-or-deadlock", backend), what: format!("{}: {}", desc, e), script: vec![desc.clone()], impl_out: e, model_out: String::new() }),
                    Ok((count, complete)) => {
                        rep.count_n("schedules", count as u64);
                        rep.count(if complete { "programs-exhaustive" } else { "programs-capped" });
                    }
                }
                if let Some((what, schedule)) = bad {
                    rep.fail(Fail { oracle: "prop".into(), signature: format!("{}:create_dir_all-fails-concurrently{}", if backend == "mem" { "mem" } else if backend.starts_with("alt") { "alt" } else { "ovl" }, if removed_first { ":below-a-removed-directory" } else { "" }), what: format!("{} under schedule {:?}: {}", desc, schedule, what), script: vec![desc.clone(), format!("schedule {:?}", schedule)], impl_out: what, model_out: String::new() });
                }
            }
        }
        // prefixes are directories: one more pass with random schedules and a final is_dir check
        for backend in backends {
            for ps in &path_sets {
                if ps[0].starts_with('!') {
                    continue;
                }
                let prog = Program { init: vec![], threads: ps.iter().map(|p| vec![Call::CreateDirAll(p.to_string())]).collect(), backend };
                let mut r = rng.fork();
                let (root, _) = make_root(backend, &scratch, &mut n);
                let results: Arc<Mutex<Vec<String>>> = Arc::new(Mutex::new(vec![]));
                let bodies: Vec<Box<dyn FnOnce() + Send>> = prog
                    .threads
                    .iter()
                    .map(|calls| {
                        let root = root.clone();
                        let calls = calls.clone();
                        let results = results.clone();
                        Box::new(move || {
                            let mut h: Handle = None;
                            for c in &calls {
                                let x = exec_call(&root, &mut h, c);
                                results.lock().unwrap().push(x);
                            }
                        }) as Box<dyn FnOnce() + Send>
                    })
                    .collect();
                let _ = run_controlled(bodies, |_s, run| r.below(run.len()));
                rep.evaluations += 1;
                for p in ps {
                    let mut cur = String::new();
                    for comp in p[1..].split('/') {
                        cur.push('/');
                        cur.push_str(comp);
                        if !root.join(&cur).unwrap().is_dir().unwrap_or(false) {
                            rep.fail(Fail { oracle: "prop".into(), signature: format!("{}:prefix-not-a-directory", backend), what: format!("[{}] after concurrent create_dir_all of {:?}, {} is not a directory", backend, ps, cur), script: vec![], impl_out: String::new(), model_out: String::new() });
                        }
                    }
                }
            }
        }
        // physical: randomised stress with free-running threads
        let rounds = if o.thorough() { 400 } else { 60 };
        for round in 0..rounds {
            let ps = rng.pick(&path_sets[..]).clone();
            let (root, dir) = make_root("phys", &scratch, &mut n);
            let barrier = Arc::new(std::sync::Barrier::new(ps.len()));
            let hs: Vec<_> = ps
                .iter()
                .map(|p| {
                    let root = root.clone();
                    let p = p.to_string();
                    let b = barrier.clone();
                    std::thread::spawn(move || {
                        b.wait();
                        root.join(&p).unwrap().create_dir_all().is_ok()
                    })
                })
                .collect();
            let oks: Vec<bool> = hs.into_iter().map(|h| h.join().unwrap_or(false)).collect();
            rep.evaluations += 1;
            rep.count("phys-stress-rounds");
            let mut all_dirs = true;
            for p in &ps {
                all_dirs &= root.join(p).unwrap().is_dir().unwrap_or(false);
            }
            if oks.iter().any(|x| !x) || !all_dirs {
                rep.fail(Fail { oracle: "prop".into(), signature: "phys:create_dir_all-fails-concurrently".into(), what: format!("round {}: concurrent create_dir_all of {:?} on PhysicalFS: results {:?}, all directories: {}", round, ps, oks, all_dirs), script: vec![], impl_out: String::new(), model_out: String::new() });
            }
            if let Some(d) = dir {
                let _ = std::fs::remove_dir_all(d);
            }
        }
    }
    // CORR batch (C17, overlay): the small-step model under every explored schedule
    if model_lines.iter().any(|l| l.starts_with("oconc") || l.starts_with("aconc")) {
        let outs = run_driver(&o.driver, &model_lines);
        let mut compared = 0u64;
        let mut i = 0;
        while i < model_lines.len() {
            if model_lines[i].starts_with("oconc") || model_lines[i].starts_with("aconc") {
                let (schedule, imp) = &oconc_cmp[compared as usize];
                // model: "<results> | <labels>" then the snapshot line
                let m_res = outs[i].split(" | ").next().unwrap_or("").split(" ; ").map(|r| if r == "ok" { "ok" } else if r.starts_with("err") { "err" } else { r }).collect::<Vec<_>>().join(" ; ");
                let m_lab = outs[i].split(" | ").nth(1).unwrap_or("");
                let m_snap: Vec<String> = outs[i + 1]
                    .split(' ')
                    .filter(|t| t.contains('='))
                    .map(|t| {
                        let v = t.split('=').nth(1).unwrap_or("?");
                        if v.starts_with("E|D") { "D".to_string() } else if v.starts_with("A") { "A".to_string() } else { format!("F:{}", v) }
                    })
                    .collect();
                let m = format!("{} | {} | {}", m_res, m_lab, m_snap.join(" "));
                if &m != imp {
                    rep.fail(Fail { oracle: "corr".into(), signature: format!("{}:small-step-model-differs", if model_lines[i].starts_with("aconc") { "alt" } else { "ovl" }), what: format!("{} under schedule {:?}: implementation [{}] / small-step model [{}]", oconc_desc[compared as usize], schedule, imp, m), script: vec![oconc_desc[compared as usize].clone(), format!("schedule {:?}", schedule), model_lines[i].clone()], impl_out: imp.clone(), model_out: m });
                }
                compared += 1;
            }
            i += 1;
        }
        rep.count_n("oconc-schedules-compared", compared);
        model_lines.clear();
    }
    // CORR batch (C16)
    if !model_lines.is_empty() && !c03 {
        let outs = run_driver(&o.driver, &model_lines);
        for ((line, (imp, desc)), m) in model_lines.iter().zip(model_expect.iter()).zip(outs.iter()) {
            if line.starts_with("crun") {
                if imp != m {
                    rep.fail(Fail { oracle: "corr".into(), signature: "mem:interleaving-model-differs".into(), what: format!("{}: implementation [{}] / model [{}]", desc, imp, m), script: vec![desc.clone()], impl_out: imp.clone(), model_out: m.clone() });
                }
            } else if m == "bad-op" {
                rep.fail(Fail { oracle: "corr".into(), signature: "mem:model-rejects-script".into(), what: format!("model driver rejected {:?}", line), script: vec![line.clone()], impl_out: String::new(), model_out: m.clone() });
            }
        }
        rep.count_n("corr-lines", model_lines.len() as u64);
    }
    let _ = project;
    rep.notes.push(format!("property {}: all interleavings at lock-acquisition granularity by re-execution under a cooperative scheduler (cap per program, then random schedules)", prop));
    if c03 {
        rep.fails.retain(|f| f.oracle == "prop" && (f.signature.contains("orphan") || f.signature.contains("panic") || f.signature.contains("stall")));
    }
    rep
}
