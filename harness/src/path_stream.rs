//! Stream `path` (C06): join / parent / filename / extension / eq on the real `VfsPath`
//! (and `AsyncVfsPath`, which shares `PathLike`) against the Lean transliteration (CORR) and
//! against an independent canonical-form predicate and lexical resolver (PROP).
use crate::util::*;
use vfs::async_vfs::{AsyncMemoryFS, AsyncVfsPath};
use vfs::{MemoryFS, VfsPath};

const ALPHA: [char; 5] = ['/', '.', 'a', 'b', 'é'];

/// independent reference: canonical form
pub fn is_canonical(s: &str) -> bool {
    if s.is_empty() {
        return true;
    }
    if !s.starts_with('/') {
        return false;
    }
    s[1..].split('/').all(|c| !c.is_empty() && c != "." && c != "..")
}

/// independent reference: lexical resolution of `arg` against canonical `base`
pub fn resolve_ref(base: &str, arg: &str) -> String {
    let mut stack: Vec<&str> = if arg.starts_with('/') || base.is_empty() {
        vec![]
    } else {
        base[1..].split('/').collect()
    };
    for c in arg.split('/') {
        match c {
            "" | "." => {}
            ".." => {
                stack.pop();
            }
            c => stack.push(c),
        }
    }
    let mut out = String::new();
    for c in stack {
        out.push('/');
        out.push_str(c);
    }
    out
}

fn enc_join_res(r: &Result<vfs::VfsResult<String>, String>) -> String {
    match r {
        Err(_) => "panic".to_string(),
        Ok(Ok(s)) => format!("ok {}", enc_str(s)),
        Ok(Err(e)) => format!(
            "err {} {}",
            kind_name(e.kind()),
            if e.path() == PLACEHOLDER { "-".to_string() } else { enc_str(e.path()) }
        ),
    }
}

struct Case {
    line: String,
    imp: String,
    base: String,
    arg: String,
}

fn exhaustive_args(max_len: usize) -> Vec<String> {
    let mut all = vec![String::new()];
    let mut frontier = vec![String::new()];
    for _ in 0..max_len {
        let mut next = Vec::with_capacity(frontier.len() * ALPHA.len());
        for s in &frontier {
            for c in ALPHA {
                let mut t = s.clone();
                t.push(c);
                next.push(t);
            }
        }
        all.extend(next.iter().cloned());
        frontier = next;
    }
    all
}

fn random_arg(rng: &mut Rng, max: usize) -> String {
    let pieces = [
        "/", "/", "/", ".", "..", "../", "./", "a", "b", "ab", "a.b", ".a", "a.", "é", "日本", "..a", "...",
        " ", "\\", "c.tar.gz", "//", "/./", "/../", "\u{0}", "_wo", ".whiteout",
    ];
    let n = rng.below(max) + 1;
    let mut s = String::new();
    for _ in 0..n {
        s.push_str(*rng.pick(&pieces[..]));
        if s.len() > 64 {
            break;
        }
    }
    s
}

pub fn run(o: &Opts) -> Report {
    let mut rep = Report::new("path");
    let mut rng = Rng::new(o.seed);
    let root = VfsPath::new(MemoryFS::new());
    let other_root = VfsPath::new(MemoryFS::new());
    let aroot = AsyncVfsPath::new(AsyncMemoryFS::new());
    let other_aroot = AsyncVfsPath::new(AsyncMemoryFS::new());
    let bases = ["", "/a", "/a/b", "/a.b/é", "/a/b/..c"];
    let max_len = if o.thorough() { 8 } else { 6 };
    let mut cases: Vec<Case> = vec![];

    let mut do_join = |rep: &mut Report, cases: &mut Vec<Case>, base: &str, arg: &str| {
        let b = root.join(base).expect("canonical base must join");
        assert_eq!(b.as_str(), base, "base {:?} is not a fixed point of join", base);
        let r = guarded(|| b.join(arg).map(|p| p.as_str().to_string()));
        let imp = enc_join_res(&r);
        // async twin shares PathLike: must answer identically
        let ab = aroot.join(base).unwrap();
        let ar = guarded(|| ab.join(arg).map(|p| p.as_str().to_string()));
        let aimp = enc_join_res(&ar);
        let line = format!("join {} {}", enc_str(base), enc_str(arg));
        if aimp != imp {
            rep.fail(Fail {
                oracle: "prop".into(),
                signature: "async-join-differs".into(),
                what: format!("AsyncVfsPath::join({:?},{:?}) = {} but VfsPath gives {}", base, arg, aimp, imp),
                script: vec![line.clone()],
                impl_out: aimp,
                model_out: imp.clone(),
            });
        }
        // PROP: the statement of C06 evaluated on the implementation alone
        let trailing = arg.len() > 1 && arg.ends_with('/');
        let mut bad: Option<(String, String)> = None;
        match &r {
            Err(m) => bad = Some(("join-panics".into(), format!("join panicked: {}", m))),
            Ok(Err(e)) => {
                if !trailing {
                    bad = Some(("join-rejects-valid".into(), format!("join rejected an argument without trailing slash: {}", e)));
                } else if kind_name(e.kind()) != "invalidPath" {
                    bad = Some(("join-wrong-error-kind".into(), format!("trailing-slash join reported {}", kind_name(e.kind()))));
                }
                rep.count("join:err");
            }
            Ok(Ok(s)) => {
                if trailing {
                    bad = Some(("join-accepts-trailing-slash".into(), format!("join accepted trailing slash, returned {:?}", s)));
                } else if !is_canonical(s) {
                    bad = Some(("join-not-canonical".into(), format!("result {:?} is not canonical", s)));
                } else if *s != resolve_ref(base, arg) && !arg.is_empty() {
                    bad = Some(("join-not-resolution".into(), format!("result {:?} but lexical resolution is {:?}", s, resolve_ref(base, arg))));
                } else if arg.is_empty() && s != base {
                    bad = Some(("join-empty-not-identity".into(), format!("join(\"\") returned {:?}", s)));
                }
                rep.count(if s.is_empty() { "join:ok-root" } else { "join:ok" });
                if arg.contains("..") {
                    rep.count("join:with-dotdot");
                }
            }
        }
        if let Some((sig, what)) = bad {
            rep.fail(Fail {
                oracle: "prop".into(),
                signature: sig,
                what: format!("base={:?} arg={:?}: {}", base, arg, what),
                script: vec![line.clone()],
                impl_out: imp.clone(),
                model_out: String::new(),
            });
        }
        rep.evaluations += 1;
        rep.distinct_hash(&imp);
        cases.push(Case { line, imp, base: base.to_string(), arg: arg.to_string() });
    };

    // 1. exhaustive small scope
    let args = exhaustive_args(max_len);
    for base in bases {
        for arg in &args {
            do_join(&mut rep, &mut cases, base, arg);
        }
    }
    rep.exhaustive = true;
    rep.notes.push(format!(
        "exhaustive: every argument of length <= {} over {:?} against bases {:?}",
        max_len, ALPHA, bases
    ));
    // 2. random long arguments against random canonical bases
    let n_random = if o.thorough() { 400_000 } else { 40_000 };
    let comps = ["a", "b", "ab", "a.b", "é", "日本", ".a", "..a", "c.tar.gz", "x y"];
    for i in 0..n_random {
        let depth = rng.below(5);
        let mut base = String::new();
        for _ in 0..depth {
            base.push('/');
            base.push_str(*rng.pick(&comps[..]));
        }
        let arg = random_arg(&mut rng, 10);
        if i < 3 {
            rep.sample(format!("join({:?}, {:?})", base, arg));
        }
        do_join(&mut rep, &mut cases, &base, &arg);
    }
    rep.sample(format!("join({:?}, {:?}) -> {}", cases[777].base, cases[777].arg, cases[777].imp));

    // parent / filename / extension on every distinct successful result
    let mut results: std::collections::BTreeSet<String> = Default::default();
    for c in &cases {
        if let Some(t) = c.imp.strip_prefix("ok ") {
            results.insert(dec_str(t));
        }
    }
    let mut lines: Vec<String> = cases.iter().map(|c| c.line.clone()).collect();
    let mut imps: Vec<String> = cases.iter().map(|c| c.imp.clone()).collect();
    for r in &results {
        // a join RESULT must itself be a valid (canonical) argument: joining it onto the root gives it back
        let p = match guarded(|| root.join(r)) {
            Ok(Ok(p)) => p,
            other => {
                rep.fail(Fail {
                    oracle: "prop".into(),
                    signature: "join-result-not-canonical".into(),
                    what: format!("a join returned {:?}, which is not a canonical path: joining it onto the root {}", r, if other.is_err() { "panics" } else { "is rejected as invalid" }),
                    script: vec![format!("join {} {}", enc_str(""), enc_str(r))],
                    impl_out: r.clone(),
                    model_out: String::new(),
                });
                continue;
            }
        };
        if p.as_str() != r {
            rep.fail(Fail {
                oracle: "prop".into(),
                signature: "canonical-not-fixed-point".into(),
                what: format!("join(root, {:?}) = {:?}", r, p.as_str()),
                script: vec![format!("join s {}", enc_str(r))],
                impl_out: p.as_str().into(),
                model_out: r.clone(),
            });
        }
        let par = guarded(|| p.parent().as_str().to_string());
        let fname = guarded(|| p.filename());
        let ext = guarded(|| p.extension());
        let ap = match guarded(|| aroot.join(r)) {
            Ok(Ok(ap)) => ap,
            _ => {
                rep.fail(Fail { oracle: "prop".into(), signature: "async-join-result-not-canonical".into(), what: format!("AsyncVfsPath: joining the join result {:?} onto the root is rejected or panics", r), script: vec![format!("join {} {}", enc_str(""), enc_str(r))], impl_out: r.clone(), model_out: String::new() });
                continue;
            }
        };
        let same_async = guarded(|| (ap.parent().as_str().to_string(), ap.filename(), ap.extension()));
        // equality, root() and is_root() of the async path type (its own PartialEq impl): same instance
        // and same string, never across instances, also for derived roots
        {
            let other_aroot = other_aroot.clone();
            let ok = guarded(|| {
                let twin = aroot.join(r).unwrap();
                let foreign = other_aroot.join(r).unwrap();
                let mut good = ap == twin && ap != foreign && ap.root() == aroot && ap.root() != other_aroot && ap.is_root() == r.is_empty() && ap.root().is_root();
                let (mut a, mut b) = (ap.clone(), foreign.clone());
                for _ in 0..64 {
                    if a == b || a.as_str() != b.as_str() {
                        good = false;
                    }
                    if a.is_root() {
                        good = good && a == aroot && b == other_aroot && a != other_aroot;
                        break;
                    }
                    a = a.parent();
                    b = b.parent();
                }
                good
            });
            if ok != Ok(true) {
                rep.fail(Fail { oracle: "prop".into(), signature: "async-equality-wrong".into(), what: format!("AsyncVfsPath {:?}: == / root() / is_root() are not (same instance, same string){}", r, if ok.is_err() { " (panicked)" } else { "" }), script: vec![format!("parent {}", enc_str(r))], impl_out: format!("{:?}", ok), model_out: String::new() });
            }
        }
        lines.push(format!("parent {}", enc_str(r)));
        imps.push(par.as_ref().map(|s| enc_str(s)).unwrap_or("panic".into()));
        lines.push(format!("filename {}", enc_str(r)));
        imps.push(fname.as_ref().map(|s| enc_str(s)).unwrap_or("panic".into()));
        lines.push(format!("extension {}", enc_str(r)));
        imps.push(match &ext {
            Ok(None) => "none".into(),
            Ok(Some(e)) => format!("some {}", enc_str(e)),
            Err(_) => "panic".into(),
        });
        rep.evaluations += 3;
        // PROP: laws of C06 on the implementation alone
        if let (Ok(par), Ok(fname), Ok(ext)) = (&par, &fname, &ext) {
            let mut bad = None;
            if let Ok((apar, afname, aext)) = &same_async {
                if apar != par || afname != fname || aext != ext {
                    bad = Some(("async-parent-filename-extension-differs", format!("async {:?}", same_async)));
                }
            } else {
                bad = Some(("async-panics", "async parent/filename/extension panicked".to_string()));
            }
            if r.is_empty() {
                if !p.is_root() || !par.is_empty() || !fname.is_empty() {
                    bad = Some(("root-not-root", format!("root: is_root={} parent={:?} filename={:?}", p.is_root(), par, fname)));
                }
            } else {
                let idx = r.rfind('/').unwrap();
                if p.is_root() {
                    bad = Some(("nonroot-is-root", "is_root on a non-root".into()));
                }
                if *par != r[..idx] || *fname != r[idx + 1..] {
                    bad = Some(("parent-filename-wrong", format!("parent={:?} filename={:?}", par, fname)));
                }
                // the parent of join(p, name) is p; filename is name
                if let Ok(j) = p.parent().join(fname) {
                    if j != p {
                        bad = Some(("parent-join-filename-not-identity", format!("parent.join(filename) = {:?}", j.as_str())));
                    }
                }
                let expect_ext = match fname.rfind('.') {
                    Some(i) if i > 0 => Some(fname[i + 1..].to_string()),
                    _ => None,
                };
                if *ext != expect_ext {
                    bad = Some(("extension-wrong", format!("extension={:?} expected {:?}", ext, expect_ext)));
                }
            }
            // equality: same instance + same string
            if p != root.join(r).unwrap() || p == other_root.join(r).unwrap() || p.root() != root {
                bad = Some(("equality-wrong", "== is not (same instance, same string)".into()));
            }
            // the same for DERIVED paths: roots obtained by root() and by climbing parent() to the
            // top, and every ancestor on the way, on the two instances — equal strings, different
            // instances, never equal; and equal to their twins on the own instance
            {
                let q = other_root.join(r).unwrap();
                let (mut a, mut b) = (p.clone(), q.clone());
                let mut steps = 0;
                loop {
                    if a == b || a.as_str() != b.as_str() || a.root() == b.root() || a.root() == other_root || b.root() == root || a.root() != root || b.root() != other_root {
                        bad = Some(("equality-wrong-derived", format!("after {} parent() steps: paths of two different filesystem instances compare equal (or a root() differs from the instance's root)", steps)));
                        break;
                    }
                    if a.is_root() {
                        if a != root || b != other_root || a == other_root {
                            bad = Some(("equality-wrong-derived", "a root reached by parent() is not == the instance's own root only".into()));
                        }
                        break;
                    }
                    a = a.parent();
                    b = b.parent();
                    steps += 1;
                }
            }
            if let Some((sig, what)) = bad {
                rep.fail(Fail {
                    oracle: "prop".into(),
                    signature: sig.into(),
                    what: format!("path {:?}: {}", r, what),
                    script: vec![format!("parent {}", enc_str(r))],
                    impl_out: format!("{:?} {:?} {:?}", par, fname, ext),
                    model_out: String::new(),
                });
            }
        } else {
            rep.fail(Fail {
                oracle: "prop".into(),
                signature: "parent-filename-extension-panics".into(),
                what: format!("path {:?}", r),
                script: vec![format!("parent {}", enc_str(r))],
                impl_out: "panic".into(),
                model_out: String::new(),
            });
        }
    }
    rep.count_n("distinct-result-paths", results.len() as u64);

    // chains of join/parent/root (random), compared step by step with the reference resolver
    let n_chains = if o.thorough() { 100_000 } else { 10_000 };
    for _ in 0..n_chains {
        let mut p = root.clone();
        let mut expect = String::new();
        let len = rng.below(8) + 1;
        let mut trace = vec![];
        for _ in 0..len {
            match rng.below(6) {
                0 => {
                    p = p.parent();
                    expect = match expect.rfind('/') {
                        Some(i) => expect[..i].to_string(),
                        None => String::new(),
                    };
                    trace.push("parent".to_string());
                }
                1 => {
                    if rng.chance(1, 4) {
                        p = p.root();
                        expect = String::new();
                        trace.push("root".to_string());
                    }
                }
                _ => {
                    let arg = random_arg(&mut rng, 4);
                    trace.push(format!("join({:?})", arg));
                    match guarded(|| p.join(&arg)) {
                        Ok(Ok(q)) => {
                            expect = if arg.is_empty() { expect } else { resolve_ref(&expect, &arg) };
                            p = q;
                        }
                        Ok(Err(_)) => {}
                        Err(_) => {
                            expect = "<panic>".into();
                        }
                    }
                }
            }
            if p.as_str() != expect {
                rep.fail(Fail {
                    oracle: "prop".into(),
                    signature: "chain-diverges".into(),
                    what: format!("chain {:?}: got {:?}, lexical resolution {:?}", trace, p.as_str(), expect),
                    script: trace.clone(),
                    impl_out: p.as_str().into(),
                    model_out: expect.clone(),
                });
                break;
            }
        }
        rep.evaluations += 1;
        rep.count("chain");
    }

    // CORR: implementation vs the Lean model, line by line
    let outs = run_driver(&o.driver, &lines);
    for ((line, imp), model) in lines.iter().zip(imps.iter()).zip(outs.iter()) {
        if imp != model {
            let op = line.split(' ').next().unwrap_or("?");
            rep.fail(Fail {
                oracle: "corr".into(),
                signature: format!("{}-model-differs", op),
                what: format!(
                    "{}: implementation {} / model {} (args: {:?})",
                    op,
                    imp,
                    model,
                    line.split(' ').skip(1).map(dec_str).collect::<Vec<_>>()
                ),
                script: vec![line.clone()],
                impl_out: imp.clone(),
                model_out: model.clone(),
            });
        }
    }
    rep.count_n("corr-lines", lines.len() as u64);
    rep
}
