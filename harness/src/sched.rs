//! Cooperative scheduler for the `verif-hooks` yield points: at most one controlled thread runs
//! at a time; the controller decides which thread passes its next lock acquisition.
use std::cell::Cell;
use std::sync::{Arc, Condvar, Mutex};
use std::time::Duration;

thread_local! {
    static TID: Cell<Option<usize>> = Cell::new(None);
}

#[derive(Default)]
struct State {
    /// thread allowed to leave its yield point
    turn: Option<usize>,
    /// label at which each controlled thread is parked
    parked: Vec<Option<String>>,
    finished: Vec<bool>,
    /// a controlled thread is currently running between two yield points
    running: bool,
    /// labels passed by each thread, in order (conformance with the model's region lists)
    trace: Vec<Vec<String>>,
}

pub struct Ctl {
    st: Mutex<State>,
    cv: Condvar,
}

impl Ctl {
    pub fn new(n: usize) -> Arc<Ctl> {
        Arc::new(Ctl {
            st: Mutex::new(State { turn: None, parked: vec![None; n], finished: vec![false; n], running: false, trace: vec![vec![]; n] }),
            cv: Condvar::new(),
        })
    }
    /// called (through the hook) by a controlled thread that reached a yield point
    pub fn park(&self, label: &str) {
        let tid = match TID.with(|t| t.get()) {
            Some(t) => t,
            None => return, // not a controlled thread (controller, snapshots)
        };
        let mut st = self.st.lock().unwrap();
        st.parked[tid] = Some(label.to_string());
        st.running = false;
        self.cv.notify_all();
        while st.turn != Some(tid) {
            st = self.cv.wait(st).unwrap();
        }
        st.turn = None;
        st.parked[tid] = None;
        st.trace[tid].push(label.to_string());
        st.running = true;
    }
    pub fn enter(&self, tid: usize) {
        TID.with(|t| t.set(Some(tid)));
        self.park("start");
    }
    pub fn finish(&self) {
        let tid = TID.with(|t| t.get()).unwrap();
        let mut st = self.st.lock().unwrap();
        st.finished[tid] = true;
        st.running = false;
        self.cv.notify_all();
        TID.with(|t| t.set(None));
    }
    /// controller: wait until no controlled thread is running; returns the runnable thread ids,
    /// or Err on a stall (a thread blocked on a lock held by a parked thread, i.e. a deadlock)
    pub fn quiescent(&self) -> Result<Vec<usize>, String> {
        let mut st = self.st.lock().unwrap();
        let n = st.parked.len();
        loop {
            let all_settled = !st.running && (0..n).all(|i| st.finished[i] || st.parked[i].is_some());
            if all_settled && st.turn.is_none() {
                return Ok((0..n).filter(|i| !st.finished[*i]).collect());
            }
            let (g, to) = self.cv.wait_timeout(st, Duration::from_secs(30)).unwrap();
            st = g;
            if to.timed_out() {
                return Err(format!("stall: parked={:?} finished={:?} running={}", st.parked, st.finished, st.running));
            }
        }
    }
    pub fn grant(&self, tid: usize) {
        let mut st = self.st.lock().unwrap();
        st.turn = Some(tid);
        st.running = true;
        self.cv.notify_all();
    }
    pub fn label_of(&self, tid: usize) -> Option<String> {
        self.st.lock().unwrap().parked[tid].clone()
    }
    pub fn trace(&self) -> Vec<Vec<String>> {
        self.st.lock().unwrap().trace.clone()
    }
}

/// One controlled execution. `threads[i]` is the body of thread i; `choose(step, runnable)`
/// picks the index into `runnable` of the thread that proceeds. Returns the schedule taken (as
/// thread ids), the number of options at each decision, and the per-thread label traces.
pub fn run_controlled(
    threads: Vec<Box<dyn FnOnce() + Send>>,
    mut choose: impl FnMut(usize, &[usize]) -> usize,
) -> Result<(Vec<usize>, Vec<usize>, Vec<Vec<String>>), String> {
    let n = threads.len();
    let ctl = Ctl::new(n);
    let hook_ctl = ctl.clone();
    vfs::verif_hooks::install(Some(Arc::new(move |label: &str| hook_ctl.park(label))));
    let mut handles = vec![];
    for (tid, body) in threads.into_iter().enumerate() {
        let c = ctl.clone();
        handles.push(std::thread::spawn(move || {
            c.enter(tid);
            let r = std::panic::catch_unwind(std::panic::AssertUnwindSafe(body));
            c.finish();
            r.is_ok()
        }));
    }
    let mut schedule = vec![];
    let mut options = vec![];
    let mut err = None;
    loop {
        match ctl.quiescent() {
            Ok(runnable) => {
                if runnable.is_empty() {
                    break;
                }
                let k = choose(schedule.len(), &runnable).min(runnable.len() - 1);
                options.push(runnable.len());
                schedule.push(runnable[k]);
                ctl.grant(runnable[k]);
            }
            Err(e) => {
                err = Some(e);
                break;
            }
        }
    }
    vfs::verif_hooks::install(None);
    if let Some(e) = err {
        // threads are stuck: leak them (the process reports and exits)
        return Err(e);
    }
    for h in handles {
        let _ = h.join();
    }
    Ok((schedule, options, ctl.trace()))
}
