//! Wrappers written against the public `FileSystem` trait (no hooks needed): they sit between
//! an adapter and its inner layer, exactly where the properties' `observe_at` entries put them.
use std::sync::atomic::{AtomicBool, AtomicI64, Ordering};
use std::sync::{Arc, Mutex};
use std::time::SystemTime;
use vfs::error::VfsErrorKind;
use vfs::{FileSystem, SeekAndRead, SeekAndWrite, VfsError, VfsMetadata, VfsResult};

/// A shareable handle to one filesystem value, so that the same leaf can be reached both
/// through a wrapper and directly.
#[derive(Debug, Clone)]
pub struct SharedFs(pub Arc<dyn FileSystem>);

macro_rules! forward {
    ($self:ident, $inner:expr, $pre:expr) => {
        fn read_dir(&$self, path: &str) -> VfsResult<Box<dyn Iterator<Item = String> + Send>> {
            $pre("readDir", path, "")?;
            $inner.read_dir(path)
        }
        fn create_dir(&$self, path: &str) -> VfsResult<()> {
            $pre("createDir", path, "")?;
            $inner.create_dir(path)
        }
        fn open_file(&$self, path: &str) -> VfsResult<Box<dyn SeekAndRead + Send>> {
            $pre("openFile", path, "")?;
            $inner.open_file(path)
        }
        fn create_file(&$self, path: &str) -> VfsResult<Box<dyn SeekAndWrite + Send>> {
            $pre("createFile", path, "")?;
            $inner.create_file(path)
        }
        fn append_file(&$self, path: &str) -> VfsResult<Box<dyn SeekAndWrite + Send>> {
            $pre("appendFile", path, "")?;
            $inner.append_file(path)
        }
        fn metadata(&$self, path: &str) -> VfsResult<VfsMetadata> {
            $pre("metadata", path, "")?;
            $inner.metadata(path)
        }
        fn set_creation_time(&$self, path: &str, time: SystemTime) -> VfsResult<()> {
            $pre("setCreationTime", path, "")?;
            $inner.set_creation_time(path, time)
        }
        fn set_modification_time(&$self, path: &str, time: SystemTime) -> VfsResult<()> {
            $pre("setModificationTime", path, "")?;
            $inner.set_modification_time(path, time)
        }
        fn set_access_time(&$self, path: &str, time: SystemTime) -> VfsResult<()> {
            $pre("setAccessTime", path, "")?;
            $inner.set_access_time(path, time)
        }
        fn exists(&$self, path: &str) -> VfsResult<bool> {
            $pre("exists_", path, "")?;
            $inner.exists(path)
        }
        fn remove_file(&$self, path: &str) -> VfsResult<()> {
            $pre("removeFile", path, "")?;
            $inner.remove_file(path)
        }
        fn remove_dir(&$self, path: &str) -> VfsResult<()> {
            $pre("removeDir", path, "")?;
            $inner.remove_dir(path)
        }
        fn copy_file(&$self, src: &str, dest: &str) -> VfsResult<()> {
            $pre("copyFile", src, dest)?;
            $inner.copy_file(src, dest)
        }
        fn move_file(&$self, src: &str, dest: &str) -> VfsResult<()> {
            $pre("moveFile", src, dest)?;
            $inner.move_file(src, dest)
        }
        fn move_dir(&$self, src: &str, dest: &str) -> VfsResult<()> {
            $pre("moveDir", src, dest)?;
            $inner.move_dir(src, dest)
        }
    };
}

impl FileSystem for SharedFs {
    forward!(self, self.0, |_m: &str, _p: &str, _q: &str| -> VfsResult<()> { Ok(()) });
}

#[derive(Debug, Clone)]
pub struct LogEntry {
    pub tag: usize,
    pub method: &'static str,
    pub path: String,
    pub path2: String,
}

pub type Log = Arc<Mutex<Vec<LogEntry>>>;

pub fn is_mutating(method: &str) -> bool {
    !matches!(method, "readDir" | "openFile" | "metadata" | "exists_")
}

/// Records (tag, method, path) of every trait call, then forwards.
#[derive(Debug)]
pub struct RecordingFs {
    pub tag: usize,
    pub inner: Arc<dyn FileSystem>,
    pub log: Log,
}

fn leak(s: &str) -> &'static str {
    match s {
        "readDir" => "readDir",
        "createDir" => "createDir",
        "openFile" => "openFile",
        "createFile" => "createFile",
        "appendFile" => "appendFile",
        "metadata" => "metadata",
        "setCreationTime" => "setCreationTime",
        "setModificationTime" => "setModificationTime",
        "setAccessTime" => "setAccessTime",
        "exists_" => "exists_",
        "removeFile" => "removeFile",
        "removeDir" => "removeDir",
        "copyFile" => "copyFile",
        "moveFile" => "moveFile",
        "moveDir" => "moveDir",
        _ => "other",
    }
}

impl FileSystem for RecordingFs {
    forward!(self, self.inner, |m: &str, p: &str, q: &str| -> VfsResult<()> {
        self.log.lock().unwrap().push(LogEntry {
            tag: self.tag,
            method: leak(m),
            path: p.to_string(),
            path2: q.to_string(),
        });
        Ok(())
    });
}

/// Fault plan shared by all `FaultFs` wrappers of a world: the (k+1)-th call fails.
#[derive(Debug, Default)]
pub struct FaultPlan {
    /// < 0: disarmed
    pub countdown: AtomicI64,
    pub fired: AtomicBool,
    pub calls: AtomicI64,
}
impl FaultPlan {
    pub fn new() -> Self {
        FaultPlan { countdown: AtomicI64::new(-1), fired: AtomicBool::new(false), calls: AtomicI64::new(0) }
    }
    pub fn arm(&self, k: Option<u64>) {
        self.countdown.store(k.map(|k| k as i64).unwrap_or(-1), Ordering::SeqCst);
        self.fired.store(false, Ordering::SeqCst);
        self.calls.store(0, Ordering::SeqCst);
    }
}

/// Fails the k-th trait call with an injected I/O error (the inner filesystem is not reached).
#[derive(Debug)]
pub struct FaultFs {
    pub inner: Arc<dyn FileSystem>,
    pub plan: Arc<FaultPlan>,
}

impl FileSystem for FaultFs {
    forward!(self, self.inner, |_m: &str, _p: &str, _q: &str| -> VfsResult<()> {
        self.plan.calls.fetch_add(1, Ordering::SeqCst);
        let c = self.plan.countdown.load(Ordering::SeqCst);
        if c == 0 {
            self.plan.countdown.store(-1, Ordering::SeqCst);
            self.plan.fired.store(true, Ordering::SeqCst);
            return Err(VfsError::from(VfsErrorKind::IoError(std::io::Error::new(
                std::io::ErrorKind::Other,
                "injected fault",
            ))));
        } else if c > 0 {
            self.plan.countdown.store(c - 1, Ordering::SeqCst);
        }
        Ok(())
    });
}

/// Lists one extra name in one directory that no other call knows about: what a directory looks
/// like when an entry disappears between the listing and the next call on it (walk_dir then gets
/// an error from `metadata` for an entry it was just told about).
#[derive(Debug)]
pub struct GhostFs {
    pub inner: Arc<dyn FileSystem>,
    pub dir: String,
    pub name: String,
}

impl FileSystem for GhostFs {
    fn read_dir(&self, path: &str) -> VfsResult<Box<dyn Iterator<Item = String> + Send>> {
        let it = self.inner.read_dir(path)?;
        if path == self.dir {
            let mut v: Vec<String> = it.collect();
            v.insert(v.len() / 2, self.name.clone());
            Ok(Box::new(v.into_iter()))
        } else {
            Ok(it)
        }
    }
    fn create_dir(&self, path: &str) -> VfsResult<()> {
        self.inner.create_dir(path)
    }
    fn open_file(&self, path: &str) -> VfsResult<Box<dyn SeekAndRead + Send>> {
        self.inner.open_file(path)
    }
    fn create_file(&self, path: &str) -> VfsResult<Box<dyn SeekAndWrite + Send>> {
        self.inner.create_file(path)
    }
    fn append_file(&self, path: &str) -> VfsResult<Box<dyn SeekAndWrite + Send>> {
        self.inner.append_file(path)
    }
    fn metadata(&self, path: &str) -> VfsResult<VfsMetadata> {
        self.inner.metadata(path)
    }
    fn set_creation_time(&self, path: &str, time: SystemTime) -> VfsResult<()> {
        self.inner.set_creation_time(path, time)
    }
    fn set_modification_time(&self, path: &str, time: SystemTime) -> VfsResult<()> {
        self.inner.set_modification_time(path, time)
    }
    fn set_access_time(&self, path: &str, time: SystemTime) -> VfsResult<()> {
        self.inner.set_access_time(path, time)
    }
    fn exists(&self, path: &str) -> VfsResult<bool> {
        self.inner.exists(path)
    }
    fn remove_file(&self, path: &str) -> VfsResult<()> {
        self.inner.remove_file(path)
    }
    fn remove_dir(&self, path: &str) -> VfsResult<()> {
        self.inner.remove_dir(path)
    }
    fn copy_file(&self, src: &str, dest: &str) -> VfsResult<()> {
        self.inner.copy_file(src, dest)
    }
    fn move_file(&self, src: &str, dest: &str) -> VfsResult<()> {
        self.inner.move_file(src, dest)
    }
    fn move_dir(&self, src: &str, dest: &str) -> VfsResult<()> {
        self.inner.move_dir(src, dest)
    }
}
