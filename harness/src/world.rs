//! The real-code executor of the line protocol: builds the same world the Lean driver builds
//! (leaves, adapters, wrappers) out of the real `vfs` types and executes the same op lines,
//! printing observations in the driver's format.
use crate::util::*;
use crate::wrappers::*;
use std::io::{Read, Seek, SeekFrom, Write};
use std::path::PathBuf;
use std::sync::{Arc, Mutex};
use std::time::{Duration, SystemTime, UNIX_EPOCH};
use vfs::{AltrootFS, FileSystem, MemoryFS, OverlayFS, PhysicalFS, SeekAndRead, SeekAndWrite, VfsFileType, VfsPath, VfsResult};

pub struct RWorld {
    pub scratch: PathBuf,
    pub leaves: Vec<Arc<dyn FileSystem>>,
    pub leaf_dirs: Vec<Option<PathBuf>>,
    pub roots: Vec<Option<VfsPath>>,
    /// the trait object behind each root (for wrappers)
    pub fs_objs: Vec<Option<Arc<dyn FileSystem>>>,
    pub rh: Vec<Option<Box<dyn SeekAndRead + Send>>>,
    pub wh: Vec<Option<Box<dyn SeekAndWrite + Send>>>,
    pub log: Log,
    pub plan: Arc<FaultPlan>,
    counter: u64,
}

pub fn checksum(b: &[u8]) -> u64 {
    let mut h: u64 = 7;
    for x in b {
        h = (h * 31 + *x as u64) % 4294967296;
    }
    h
}
pub fn enc_content(b: &[u8]) -> String {
    if b.len() <= 48 {
        enc_bytes(b)
    } else {
        format!("B{}:{}", b.len(), checksum(b))
    }
}
pub fn enc_list_sorted(mut l: Vec<String>) -> String {
    l.sort();
    format!("[{}]", l.iter().map(|s| enc_str(s)).collect::<Vec<_>>().join(","))
}
fn enc_type(t: VfsFileType) -> &'static str {
    match t {
        VfsFileType::File => "F",
        VfsFileType::Directory => "D",
    }
}
/// timestamps: total NANOSECONDS relative to the unix epoch ("at<n>", n may be negative), except
/// for values within 5 years of the wall clock, which are whatever "now" was ("now")
fn enc_ts(t: Option<SystemTime>) -> String {
    match t {
        None => "unset".into(),
        Some(t) => {
            let n = nanos_of(t);
            let now = nanos_of(SystemTime::now());
            if (n - now).abs() < 5 * 365 * 86_400 * 1_000_000_000i128 {
                "now".into()
            } else {
                format!("at{}", n)
            }
        }
    }
}
pub fn nanos_of(t: SystemTime) -> i128 {
    match t.duration_since(UNIX_EPOCH) {
        Ok(d) => d.as_nanos() as i128,
        Err(e) => -(e.duration().as_nanos() as i128),
    }
}
/// the time value of the protocol: nanoseconds relative to the epoch
pub fn time_of(t: i128) -> SystemTime {
    let d = Duration::new((t.unsigned_abs() / 1_000_000_000) as u64, (t.unsigned_abs() % 1_000_000_000) as u32);
    if t >= 0 {
        UNIX_EPOCH + d
    } else {
        UNIX_EPOCH - d
    }
}

pub fn enc_res<T>(r: Result<VfsResult<T>, String>, f: impl FnOnce(T) -> String) -> String {
    match r {
        Err(_) => "panic".into(),
        Ok(Ok(v)) => {
            let p = f(v);
            if p.is_empty() {
                "ok".into()
            } else {
                format!("ok {}", p)
            }
        }
        Ok(Err(e)) => {
            // the Display text (error.rs) shows the same path the accessor returns: "<context> for '<path>': <kind>"
            let shown = format!("{}", e);
            let display_ok = shown.contains(&format!("for '{}'", e.path()));
            format!(
                "err {} {}",
                kind_name(e.kind()),
                if e.path() == PLACEHOLDER {
                    "-".to_string()
                } else if !display_ok {
                    enc_str("/DISPLAY-TEXT-SHOWS-ANOTHER-PATH")
                } else {
                    enc_str(e.path())
                }
            )
        }
    }
}
fn enc_io<T>(r: Result<std::io::Result<T>, String>, f: impl FnOnce(T) -> String) -> String {
    match r {
        Err(_) => "panic".into(),
        Ok(Ok(v)) => {
            let p = f(v);
            if p.is_empty() {
                "ok".into()
            } else {
                format!("ok {}", p)
            }
        }
        Ok(Err(_)) => "err io -".into(),
    }
}

fn set_at<T>(v: &mut Vec<Option<T>>, i: usize, x: Option<T>) {
    while v.len() <= i {
        v.push(None);
    }
    v[i] = x;
}

impl RWorld {
    pub fn new(scratch: &str) -> Self {
        RWorld {
            scratch: PathBuf::from(scratch),
            leaves: vec![],
            leaf_dirs: vec![],
            roots: vec![],
            fs_objs: vec![],
            rh: vec![],
            wh: vec![],
            log: Arc::new(Mutex::new(vec![])),
            plan: Arc::new(FaultPlan::new()),
            counter: 0,
        }
    }
    pub fn reset(&mut self) {
        self.rh.clear();
        // a handle whose drop panics must not take the harness down: streams drop the handles they
        // care about explicitly (hdrop) and see the panic there
        for h in self.wh.drain(..).flatten() {
            let _ = guarded(move || drop(h));
        }
        self.roots.clear();
        self.fs_objs.clear();
        self.leaves.clear();
        for d in self.leaf_dirs.drain(..).flatten() {
            let _ = std::fs::remove_dir_all(d);
        }
        self.log.lock().unwrap().clear();
        self.plan.arm(None);
    }
    fn root(&self, i: usize) -> Option<VfsPath> {
        self.roots.get(i).cloned().flatten()
    }
    fn add_fs(&mut self, id: usize, obj: Arc<dyn FileSystem>) {
        set_at(&mut self.fs_objs, id, Some(obj.clone()));
        set_at(&mut self.roots, id, Some(VfsPath::new(SharedFs(obj))));
    }
    fn on_path<T>(&self, fsid: usize, p: &str, f: impl FnOnce(&VfsPath) -> VfsResult<T>) -> Result<VfsResult<T>, String> {
        let root = self.root(fsid).expect("bad fs id");
        guarded(|| {
            let q = root.join(p)?;
            f(&q)
        })
    }

    pub fn observe(&self, fsid: usize, p: &str) -> String {
        let ex = match self.on_path(fsid, p, |q| q.exists()) {
            Ok(Ok(true)) => "E",
            Ok(Ok(false)) => "A",
            Ok(Err(_)) => "X",
            Err(_) => "P",
        };
        let md = match self.on_path(fsid, p, |q| q.metadata()) {
            Ok(Ok(m)) => format!("{} {}", enc_type(m.file_type), m.len),
            Ok(Err(_)) => "-".into(),
            Err(_) => "P".into(),
        };
        let ls = match self.on_path(fsid, p, |q| Ok(q.read_dir()?.map(|c| c.filename()).collect::<Vec<_>>())) {
            Ok(Ok(l)) => enc_list_sorted(l),
            Ok(Err(_)) => "-".into(),
            Err(_) => "P".into(),
        };
        let rd = match self.on_path(fsid, p, |q| {
            let mut h = q.open_file()?;
            let mut v = vec![];
            h.read_to_end(&mut v)?;
            Ok(v)
        }) {
            Ok(Ok(b)) => enc_content(&b),
            Ok(Err(_)) => "-".into(),
            Err(_) => "P".into(),
        };
        format!("{}={}|{}|{}|{}", enc_str(p), ex, md, ls, rd)
    }

    /// observation without opening the file (opening stamps the access time on the memory backend)
    pub fn observe_m(&self, fsid: usize, p: &str) -> String {
        let full = self.observe_parts(fsid, p);
        format!("{}={}|{}|{}|-", enc_str(p), full.0, full.1, full.2)
    }
    fn observe_parts(&self, fsid: usize, p: &str) -> (String, String, String) {
        let ex = match self.on_path(fsid, p, |q| q.exists()) {
            Ok(Ok(true)) => "E",
            Ok(Ok(false)) => "A",
            Ok(Err(_)) => "X",
            Err(_) => "P",
        };
        let md = match self.on_path(fsid, p, |q| q.metadata()) {
            Ok(Ok(m)) => format!("{} {}", enc_type(m.file_type), m.len),
            Ok(Err(_)) => "-".into(),
            Err(_) => "P".into(),
        };
        let ls = match self.on_path(fsid, p, |q| Ok(q.read_dir()?.map(|c| c.filename()).collect::<Vec<_>>())) {
            Ok(Ok(l)) => enc_list_sorted(l),
            Ok(Err(_)) => "-".into(),
            Err(_) => "P".into(),
        };
        (ex.to_string(), md, ls)
    }

    pub fn observe_t(&self, fsid: usize, p: &str) -> String {
        let md = match self.on_path(fsid, p, |q| q.metadata()) {
            Ok(Ok(m)) => format!("{} {} c={} m={}", enc_type(m.file_type), m.len, enc_ts(m.created), enc_ts(m.modified)),
            Ok(Err(_)) => "-".into(),
            Err(_) => "P".into(),
        };
        let rd = match self.on_path(fsid, p, |q| {
            let mut h = q.open_file()?;
            let mut v = vec![];
            h.read_to_end(&mut v)?;
            Ok(v)
        }) {
            Ok(Ok(b)) => enc_content(&b),
            Ok(Err(_)) => "-".into(),
            Err(_) => "P".into(),
        };
        format!("{}={}|{}", enc_str(p), md, rd)
    }

    fn op_unit(&self, fsid: usize, p: &str, f: impl FnOnce(&VfsPath) -> VfsResult<()>) -> String {
        enc_res(self.on_path(fsid, p, f), |_| String::new())
    }

    fn op2<T>(&self, fsid: usize, p: &str, dfs: usize, d: &str, f: impl FnOnce(&VfsPath, &VfsPath) -> VfsResult<T>, enc: impl FnOnce(T) -> String) -> String {
        let r1 = self.root(fsid).expect("bad fs id");
        let r2 = self.root(dfs).expect("bad fs id");
        enc_res(
            guarded(|| {
                let a = r1.join(p)?;
                let b = r2.join(d)?;
                f(&a, &b)
            }),
            enc,
        )
    }

    /// execute one protocol line on the real code
    pub fn exec(&mut self, line: &str) -> String {
        let toks: Vec<&str> = line.split(' ').filter(|t| !t.is_empty()).collect();
        let us = |s: &str| s.parse::<usize>().expect("bad number");
        match toks.as_slice() {
            ["reset"] => {
                self.reset();
                "ok".into()
            }
            ["leaf", kind] => {
                let n = self.leaves.len();
                if *kind == "mem" {
                    self.leaves.push(Arc::new(MemoryFS::new()));
                    self.leaf_dirs.push(None);
                } else {
                    self.counter += 1;
                    let dir = self.scratch.join(format!("phys_{}_{}", std::process::id(), self.counter));
                    let _ = std::fs::remove_dir_all(&dir);
                    std::fs::create_dir_all(&dir).expect("cannot create scratch dir");
                    self.leaves.push(Arc::new(PhysicalFS::new(&dir)));
                    self.leaf_dirs.push(Some(dir));
                }
                format!("ok {}", n)
            }
            ["fs", id, "leaf", l] => {
                let obj = self.leaves[us(l)].clone();
                self.add_fs(us(id), obj);
                "ok".into()
            }
            ["fs", id, "ghost", l, dir, name] => {
                let obj = self.leaves[us(l)].clone();
                self.add_fs(us(id), Arc::new(crate::wrappers::GhostFs { inner: obj, dir: dec_str(dir), name: dec_str(name) }));
                "ok".into()
            }
            ["fs", id, "alt", inner, p] => {
                let r = self.root(us(inner)).expect("bad fs id").join(dec_str(p)).expect("bad altroot path");
                self.add_fs(us(id), Arc::new(AltrootFS::new(r)));
                "ok".into()
            }
            ["fs", id, "ovl", layers @ ..] => {
                let ls: Vec<VfsPath> = layers
                    .iter()
                    .map(|t| {
                        let (a, b) = t.split_once(':').expect("bad layer");
                        self.root(us(a)).expect("bad fs id").join(dec_str(b)).expect("bad layer path")
                    })
                    .collect();
                self.add_fs(us(id), Arc::new(OverlayFS::new(&ls)));
                "ok".into()
            }
            ["fs", id, "rec", tag, inner] => {
                let obj = self.fs_objs[us(inner)].clone().expect("bad fs id");
                self.add_fs(us(id), Arc::new(RecordingFs { tag: us(tag), inner: obj, log: self.log.clone() }));
                "ok".into()
            }
            ["fs", id, "fault", inner] => {
                let obj = self.fs_objs[us(inner)].clone().expect("bad fs id");
                self.add_fs(us(id), Arc::new(FaultFs { inner: obj, plan: self.plan.clone() }));
                "ok".into()
            }
            ["setfault", k] => {
                self.plan.arm(if *k == "none" { None } else { Some(k.parse().unwrap()) });
                "ok".into()
            }
            ["fired"] => {
                if self.plan.fired.load(std::sync::atomic::Ordering::SeqCst) { "fired".into() } else { "not-fired".into() }
            }
            ["clearlog"] => {
                self.log.lock().unwrap().clear();
                "ok".into()
            }
            ["log"] => self
                .log
                .lock()
                .unwrap()
                .iter()
                .map(|e| format!("{}:Vfs.Method.{}:{}", e.tag, e.method, enc_str(&e.path)))
                .collect::<Vec<_>>()
                .join(" "),
            ["snapt", fsid, paths @ ..] => paths.iter().map(|p| self.observe_t(us(fsid), &dec_str(p))).collect::<Vec<_>>().join(" "),
            ["snapm", fsid, paths @ ..] => paths.iter().map(|p| self.observe_m(us(fsid), &dec_str(p))).collect::<Vec<_>>().join(" "),
            ["snap", fsid, paths @ ..] => paths.iter().map(|p| self.observe(us(fsid), &dec_str(p))).collect::<Vec<_>>().join(" "),
            ["op", fsid, name, args @ ..] => {
                let fsid = us(fsid);
                let a = |i: usize| dec_str(args[i]);
                match (*name, args.len()) {
                    ("create_dir", 1) => self.op_unit(fsid, &a(0), |q| q.create_dir()),
                    ("create_dir_all", 1) => self.op_unit(fsid, &a(0), |q| q.create_dir_all()),
                    ("remove_file", 1) => self.op_unit(fsid, &a(0), |q| q.remove_file()),
                    ("remove_dir", 1) => self.op_unit(fsid, &a(0), |q| q.remove_dir()),
                    ("remove_dir_all", 1) => self.op_unit(fsid, &a(0), |q| q.remove_dir_all()),
                    ("probe_session", 2) => {
                        // create_file; observe; write; observe; flush; observe; drop; observe
                        let b = unhex(&args[1][1..]);
                        enc_res(
                            self.on_path(fsid, &a(0), |q| {
                                let obs = |q: &VfsPath| -> String {
                                    let len = q.metadata().map(|m| m.len.to_string()).unwrap_or_else(|_| "-".into());
                                    let content = q.open_file().and_then(|mut f| { let mut v = vec![]; f.read_to_end(&mut v)?; Ok(v) }).map(|v| crate::util::hex(&v)).unwrap_or_else(|_| "-".into());
                                    format!("{}:{}", len, content)
                                };
                                let mut h = q.create_file()?;
                                let o1 = obs(q);
                                h.write_all(&b)?;
                                let o2 = obs(q);
                                h.flush()?;
                                let o3 = obs(q);
                                drop(h);
                                let o4 = obs(q);
                                // o2 (written, not flushed) is not compared: whether unflushed bytes are visible is the
                                // business of the handle type (std File writes through, async-std File buffers)
                                let _ = o2;
                                Ok(format!("{}|{}|{}", o1, o3, o4))
                            }),
                            |s| s,
                        )
                    }
                    ("write", 2) => {
                        let b = unhex(&args[1][1..]);
                        self.op_unit(fsid, &a(0), |q| {
                            let mut h = q.create_file()?;
                            h.write_all(&b)?;
                            drop(h);
                            Ok(())
                        })
                    }
                    ("touch", 1) => self.op_unit(fsid, &a(0), |q| {
                        let h = q.create_file()?;
                        drop(h);
                        Ok(())
                    }),
                    ("append", 2) => {
                        let b = unhex(&args[1][1..]);
                        self.op_unit(fsid, &a(0), |q| {
                            let mut h = q.append_file()?;
                            h.write_all(&b)?;
                            drop(h);
                            Ok(())
                        })
                    }
                    ("exists", 1) => enc_res(self.on_path(fsid, &a(0), |q| q.exists()), |b| b.to_string()),
                    ("is_file", 1) => enc_res(self.on_path(fsid, &a(0), |q| q.is_file()), |b| b.to_string()),
                    ("is_dir", 1) => enc_res(self.on_path(fsid, &a(0), |q| q.is_dir()), |b| b.to_string()),
                    ("metadata", 1) => enc_res(self.on_path(fsid, &a(0), |q| q.metadata()), |m| format!("{} {}", enc_type(m.file_type), m.len)),
                    ("metadata_t", 1) => enc_res(self.on_path(fsid, &a(0), |q| q.metadata()), |m| {
                        format!("{} {} c={} m={} a={}", enc_type(m.file_type), m.len, enc_ts(m.created), enc_ts(m.modified), enc_ts(m.accessed))
                    }),
                    ("read_dir", 1) => enc_res(
                        self.on_path(fsid, &a(0), |q| Ok(q.read_dir()?.map(|c| c.as_str().to_string()).collect::<Vec<_>>())),
                        enc_list_sorted,
                    ),
                    ("read", 1) => enc_res(
                        self.on_path(fsid, &a(0), |q| {
                            let mut h = q.open_file()?;
                            let mut v = vec![];
                            h.read_to_end(&mut v)?;
                            Ok(v)
                        }),
                        |b| enc_content(&b),
                    ),
                    ("read_to_string", 1) => enc_res(self.on_path(fsid, &a(0), |q| q.read_to_string()), |s| enc_content(s.as_bytes())),
                    ("walk", 1) => enc_res(
                        self.on_path(fsid, &a(0), |q| {
                            let mut items = vec![];
                            for it in q.walk_dir()? {
                                items.push(match it {
                                    Ok(p) => enc_str(p.as_str()),
                                    Err(e) => format!(
                                        "!{}:{}",
                                        kind_name(e.kind()),
                                        if e.path() == PLACEHOLDER { "-".to_string() } else { enc_str(e.path()) }
                                    ),
                                });
                                if items.len() > 200_000 {
                                    break;
                                }
                            }
                            Ok(items)
                        }),
                        |items| items.join(" "),
                    ),
                    ("set_ctime", 2) => self.op_unit(fsid, &a(0), |q| q.set_creation_time(time_of(args[1].parse().unwrap()))),
                    ("set_mtime", 2) => self.op_unit(fsid, &a(0), |q| q.set_modification_time(time_of(args[1].parse().unwrap()))),
                    ("set_atime", 2) => self.op_unit(fsid, &a(0), |q| q.set_access_time(time_of(args[1].parse().unwrap()))),
                    ("copy_file", 3) => self.op2(fsid, &a(0), us(args[1]), &a(2), |s, d| s.copy_file(d), |_| String::new()),
                    ("move_file", 3) => self.op2(fsid, &a(0), us(args[1]), &a(2), |s, d| s.move_file(d), |_| String::new()),
                    ("copy_dir", 3) => self.op2(fsid, &a(0), us(args[1]), &a(2), |s, d| s.copy_dir(d), |n| n.to_string()),
                    ("move_dir", 3) => self.op2(fsid, &a(0), us(args[1]), &a(2), |s, d| s.move_dir(d), |_| String::new()),
                    _ => "bad-op".into(),
                }
            }
            ["hopen", hid, fsid, p] => match self.on_path(us(fsid), &dec_str(p), |q| q.open_file()) {
                Ok(Ok(h)) => {
                    set_at(&mut self.rh, us(hid), Some(h));
                    "ok".into()
                }
                other => enc_res(other.map(|r| r.map(|_| ())), |_| String::new()),
            },
            ["hcreate", hid, fsid, p] => match self.on_path(us(fsid), &dec_str(p), |q| q.create_file()) {
                Ok(Ok(h)) => {
                    set_at(&mut self.wh, us(hid), Some(h));
                    "ok".into()
                }
                other => enc_res(other.map(|r| r.map(|_| ())), |_| String::new()),
            },
            ["happend", hid, fsid, p] => match self.on_path(us(fsid), &dec_str(p), |q| q.append_file()) {
                Ok(Ok(h)) => {
                    set_at(&mut self.wh, us(hid), Some(h));
                    "ok".into()
                }
                other => enc_res(other.map(|r| r.map(|_| ())), |_| String::new()),
            },
            ["hread", hid, n] => {
                let n = us(n);
                let h = self.rh[us(hid)].as_mut().expect("no such read handle");
                enc_io(
                    guarded(|| {
                        let mut buf = vec![0u8; n];
                        let k = h.read(&mut buf)?;
                        buf.truncate(k);
                        Ok(buf)
                    }),
                    |b| enc_bytes(&b),
                )
            }
            ["hreadall", hid] => {
                let h = self.rh[us(hid)].as_mut().expect("no such read handle");
                enc_io(
                    guarded(|| {
                        let mut buf = vec![];
                        h.read_to_end(&mut buf)?;
                        Ok(buf)
                    }),
                    |b| enc_bytes(&b),
                )
            }
            ["hseek", hid, whence, off] => {
                let sf = match *whence {
                    "start" => SeekFrom::Start(off.parse().unwrap()),
                    "cur" => SeekFrom::Current(off.parse().unwrap()),
                    _ => SeekFrom::End(off.parse().unwrap()),
                };
                let i = us(hid);
                if let Some(Some(h)) = self.rh.get_mut(i) {
                    enc_io(guarded(|| h.seek(sf)), |n| n.to_string())
                } else {
                    let h = self.wh[i].as_mut().expect("no such handle");
                    enc_io(guarded(|| h.seek(sf)), |n| n.to_string())
                }
            }
            ["hwrite", hid, b] => {
                let b = unhex(&b[1..]);
                let h = self.wh[us(hid)].as_mut().expect("no such write handle");
                enc_io(guarded(|| h.write(&b)), |n| n.to_string())
            }
            ["hflush", hid] => {
                let h = self.wh[us(hid)].as_mut().expect("no such write handle");
                enc_io(guarded(|| h.flush()), |_| String::new())
            }
            ["hdrop", hid] => {
                let i = us(hid);
                if let Some(slot) = self.wh.get_mut(i) {
                    if let Some(h) = slot.take() {
                        return match guarded(move || drop(h)) {
                            Ok(()) => "ok".into(),
                            Err(_) => "panic".into(),
                        };
                    }
                }
                if let Some(slot) = self.rh.get_mut(i) {
                    *slot = None;
                }
                "ok".into()
            }
            _ => "bad-op".into(),
        }
    }
}

impl Drop for RWorld {
    fn drop(&mut self) {
        self.reset();
    }
}
