//! Stream `tree`: path-API histories on a configuration (mem, phys, altroot, overlay, stackings)
//! with a full observable snapshot after every step.
//!   CORR  real code vs code-shaped Lean model (same config, same ops)
//!   PROP  real code vs the property: the reference tree `Spec` (a model-only twin started from
//!         the abstract content) and predicates evaluated on the implementation's own observations.
use crate::util::*;
use crate::world::RWorld;
use std::collections::{BTreeMap, BTreeSet};

#[derive(Clone, Copy, PartialEq, Debug)]
pub enum Who {
    Both,
    Model,
    Impl,
}

#[derive(Clone, Debug)]
pub struct Line {
    pub who: Who,
    pub text: String,
    /// step index this line belongs to (usize::MAX for configuration lines)
    pub step: usize,
    /// "op" | "snap" | "walk" | "specop" | "specsnap" | "cfg" | other tags
    pub role: &'static str,
}

// "/c/日本": a name whose first character is above U+00FF (three-byte UTF-8), next to the Latin-1 "é"
pub const UNIVERSE_DEFAULT: [&str; 10] = ["", "/a", "/ab", "/a.b", "/a/a", "/a/é", "/a/a/b", "/c", "/c/d", "/c/日本"];
/// variant with names that end in the overlay's marker suffix. An entry `x_wo` NEXT TO an entry `x`
/// is the reserved-name clash the properties set aside (the marker file of `x` and the marker
/// directory of a directory `x_wo` are the same path); names ending in `_wo` without such a
/// sibling are ordinary names and must work.
pub const UNIVERSE_WO: [&str; 10] = ["", "/a", "/ab", "/a.b", "/a/a", "/a/e_wo", "/a/a/b", "/c", "/c/d_wo", "/c/日_wo"];
/// variant with sibling names that extend a directory's name by a character sorting below '/'
/// ('.', '-'), above it ('0') and by a letter: prefix scans, range scans and sorted-map
/// neighbourhood tests over a directory's key go wrong exactly here
pub const UNIVERSE_SIB: [&str; 10] = ["", "/a", "/a.b", "/a-", "/a0", "/a/a", "/a/a/b", "/a.b/x", "/a0/x", "/c"];
/// variant with odd but valid component names: leading dots ("..d", "...", ".h" are ordinary
/// names, only "." and ".." navigate), the marker suffix INSIDE a name ("net_work" next to "net",
/// "a_wo_b"), a space
pub const UNIVERSE_ODD: [&str; 10] = ["", "/a", "/a/..d", "/a/..d/...", "/net_work", "/net", "/a/a_wo_b", "/.h", "/c", "/c/ x"];
static UNIVERSE_VARIANT: std::sync::atomic::AtomicUsize = std::sync::atomic::AtomicUsize::new(0);
/// the fixed path universe of this process (chosen once from the command line: `--names wo`)
pub fn universe() -> &'static [&'static str; 10] {
    match UNIVERSE_VARIANT.load(std::sync::atomic::Ordering::Relaxed) {
        1 => &UNIVERSE_WO,
        2 => &UNIVERSE_SIB,
        3 => &UNIVERSE_ODD,
        _ => &UNIVERSE_DEFAULT,
    }
}
/// `--names wo|sib|odd` (any stream): the path universe of this process
pub fn select_universe(extra: &[String]) {
    match extra.iter().position(|a| a == "--names").and_then(|i| extra.get(i + 1)).map(|s| s.as_str()) {
        Some("wo") => set_universe_variant(1),
        Some("sib") => set_universe_variant(2),
        Some("odd") => set_universe_variant(3),
        _ => {}
    }
}
pub fn set_universe_variant(v: usize) {
    UNIVERSE_VARIANT.store(v, std::sync::atomic::Ordering::Relaxed);
}

/// the strings inside the bracketed lists (`[s<hex>,s<hex>]`) of an answer: listing names, walk paths
pub fn listed_names(text: &str) -> Vec<String> {
    let mut out = vec![];
    let mut rest = text;
    while let Some(i) = rest.find('[') {
        let after = &rest[i + 1..];
        let j = after.find(']').unwrap_or(after.len());
        for tok in after[..j].split(',') {
            let tok = tok.trim();
            if tok.len() >= 1 && tok.starts_with('s') && tok[1..].bytes().all(|b| b.is_ascii_hexdigit()) {
                out.push(dec_str(tok));
            }
        }
        rest = &after[j..];
    }
    out
}

pub fn parent_of(p: &str) -> String {
    match p.rfind('/') {
        Some(i) => p[..i].to_string(),
        None => String::new(),
    }
}
pub fn name_of(p: &str) -> String {
    match p.rfind('/') {
        Some(i) => p[i + 1..].to_string(),
        None => p.to_string(),
    }
}

/// abstract content used to pre-populate layers: path -> None (dir) | Some(bytes)
pub type Content = BTreeMap<String, Option<Vec<u8>>>;

pub fn random_bytes(rng: &mut Rng) -> Vec<u8> {
    if rng.chance(1, 14) {
        // VALID UTF-8 whose multi-byte characters straddle the 8 KiB chunk boundary (and 16 KiB): what
        // read_to_string must return whole, however the bytes are fetched
        let mut v = vec![b'x'; 8191 - rng.below(2)];
        v.extend_from_slice("é日".as_bytes());
        if rng.chance(1, 2) {
            v.extend(std::iter::repeat(b'y').take(8187));
            v.extend_from_slice("ü".as_bytes());
        }
        v.extend_from_slice(b"tail");
        return v;
    }
    let n = match rng.below(10) {
        0 => 0,
        1 => 1,
        2 => 49 + rng.below(40),
        3 => 8191 + rng.below(3),
        _ => rng.below(12),
    };
    let mut v = Vec::with_capacity(n);
    for _ in 0..n {
        v.push(match rng.below(8) {
            0 => 0xff,
            1 => 0,
            2 => 0xc3,
            _ => b'a' + rng.below(26) as u8,
        });
    }
    v
}

/// a global type assignment for the universe (so that layers never disagree on the type of a
/// path) and per-layer parent-closed subsets of it
pub fn gen_layers(rng: &mut Rng, n_layers: usize, populate_upper: bool) -> Vec<Content> {
    let mut is_dir: BTreeMap<&str, bool> = BTreeMap::new();
    for p in universe().iter().skip(1) {
        let has_child = universe().iter().any(|q| parent_of(q) == **p && !q.is_empty());
        // mostly directories where the universe has children below, but sometimes a FILE there: a
        // lower-layer file with universe paths below it is where "calls below a file" meet an adapter
        is_dir.insert(p, if has_child { rng.chance(4, 5) } else { rng.chance(1, 3) });
    }
    let mut layers = vec![];
    for li in 0..n_layers {
        let mut c = Content::new();
        let density = if li == 0 && !populate_upper { 0 } else { 1 + rng.below(3) };
        for p in universe().iter().skip(1) {
            let par = parent_of(p);
            let par_ok = par.is_empty() || matches!(c.get(&par), Some(None));
            if par_ok && density > 0 && rng.below(4) < density {
                if is_dir[p] {
                    c.insert(p.to_string(), None);
                } else {
                    c.insert(p.to_string(), Some(random_bytes(rng)));
                }
            }
        }
        layers.push(c);
    }
    // now and then ONE disagreement on the type of a path, of the only kind the union view gives a
    // meaning to: a FILE in a lower layer at a path that is a DIRECTORY in some layer above it (the
    // file is shadowed; the directories above AND BELOW it still merge their children). The
    // opposite order — a directory with children below a file — would show entries under a file in
    // the unchanged code already and stays outside the generated domain.
    if n_layers >= 3 && rng.chance(1, 3) {
        // the full sandwich, built on purpose: a top-level directory p that is a directory in layer
        // i0, a file in layer j > i0 and a directory WITH a child in layer k > j
        let tops: Vec<&str> = universe().iter().skip(1).cloned().filter(|p| parent_of(p).is_empty() && is_dir[*p] && universe().iter().any(|q| parent_of(q) == **p)).collect();
        if !tops.is_empty() {
            let p = *rng.pick(&tops[..]);
            let child = universe().iter().find(|q| parent_of(q) == p).unwrap().to_string();
            let k = 2 + rng.below(n_layers - 2);
            let j = 1 + rng.below(k - 1);
            let i0 = rng.below(j);
            let below = format!("{}/", p);
            for li in [i0, j, k] {
                if !matches!(layers[li].get(p), Some(None)) || li == j {
                    let doomed: Vec<String> = layers[li].keys().filter(|q| q.starts_with(&below)).cloned().collect();
                    for q in doomed {
                        layers[li].remove(&q);
                    }
                }
            }
            layers[i0].insert(p.to_string(), None);
            layers[j].insert(p.to_string(), Some(random_bytes(rng)));
            layers[k].insert(p.to_string(), None);
            if !layers[k].contains_key(&child) {
                // with the type every other layer gives this path
                let v = if is_dir[child.as_str()] { None } else { Some(random_bytes(rng)) };
                layers[k].insert(child, v);
            }
        }
    } else if n_layers >= 2 && rng.chance(1, 3) {
        let dirs: Vec<&str> = universe().iter().skip(1).cloned().filter(|p| is_dir[p]).collect();
        if !dirs.is_empty() {
            let p = *rng.pick(&dirs[..]);
            if let Some(i0) = layers.iter().position(|c| matches!(c.get(p), Some(None))) {
                if i0 + 1 < n_layers {
                    let j = i0 + 1 + rng.below(n_layers - i0 - 1);
                    let below = format!("{}/", p);
                    let doomed: Vec<String> = layers[j].keys().filter(|k| k.starts_with(&below)).cloned().collect();
                    for k in doomed {
                        layers[j].remove(&k);
                    }
                    let par = parent_of(p);
                    if par.is_empty() || matches!(layers[j].get(&par), Some(None)) {
                        layers[j].insert(p.to_string(), Some(random_bytes(rng)));
                    }
                }
            }
        }
    }
    layers
}

/// first-layer-wins union
pub fn union(layers: &[Content]) -> Content {
    let mut u = Content::new();
    for l in layers {
        for (k, v) in l {
            u.entry(k.clone()).or_insert_with(|| v.clone());
        }
    }
    u
}

pub fn populate_lines(fs: usize, c: &Content, who: Who) -> Vec<Line> {
    // BTreeMap order is lexicographic, so parents come first
    let mut out = vec![];
    let mut keys: Vec<&String> = c.keys().collect();
    keys.sort_by_key(|k| k.matches('/').count());
    for k in keys {
        let text = match &c[k] {
            None => format!("op {} create_dir {}", fs, enc_str(k)),
            Some(b) => format!("op {} write {} {}", fs, enc_str(k), enc_bytes(b)),
        };
        out.push(Line { who, text, step: usize::MAX, role: "cfg" });
    }
    out
}

pub struct Cfg {
    pub name: String,
    pub lines: Vec<Line>,
    /// filesystem under test
    pub target: usize,
    /// model-only reference tree (a `phys` leaf of the driver holding the abstract content)
    pub spec: usize,
    /// is the target an overlay (for finding guards) and the fs id of its upper layer
    pub overlay_upper: Option<usize>,
    pub kind: String,
}

fn cfg_line(who: Who, s: String) -> Line {
    Line { who, text: s, step: usize::MAX, role: "cfg" }
}

/// Build a configuration. Leaves and fs ids are allocated sequentially so that driver and real
/// world agree. `kind` is one of the catalogue names.
pub fn build_cfg(kind: &str, rng: &mut Rng) -> Cfg {
    build_cfg_at(kind, rng, 0, 0, true).0
}

/// like `build_cfg`, with the leaf and filesystem ids starting at the given numbers (so that
/// several configurations can live in one world); returns the next free ids
pub fn build_cfg_at(kind: &str, rng: &mut Rng, leaf0: usize, fs0: usize, with_spec: bool) -> (Cfg, usize, usize) {
    let mut lines: Vec<Line> = vec![];
    let mut n_leaf = leaf0;
    let mut n_fs = fs0;
    let mut new_leaf = |lines: &mut Vec<Line>, k: &str, who: Who| -> usize {
        lines.push(cfg_line(who, format!("leaf {}", k)));
        n_leaf += 1;
        n_leaf - 1
    };
    let mut new_fs = |lines: &mut Vec<Line>, rest: String, who: Who| -> usize {
        let id = n_fs;
        n_fs += 1;
        lines.push(cfg_line(who, format!("fs {} {}", id, rest)));
        id
    };
    // roots that repeat the leading components of the paths the caller will use (/a, /a/a, /c …): an
    // inner path then looks like a descendant of the outer one
    let alt_roots = ["", "/r", "/r/s", "/r/s/t.u", "/a", "/a/a", "/c/d"];
    let mut overlay_upper = None;
    let target;
    let mut abstract_content = Content::new();
    // helper closures cannot borrow both; build by explicit matching
    let leaf_kind = |k: &str| if k.contains("phys") { "phys" } else { "mem" };
    match kind {
        "mem" | "phys" => {
            let l = new_leaf(&mut lines, kind, Who::Both);
            target = new_fs(&mut lines, format!("leaf {}", l), Who::Both);
        }
        "alt(mem)" | "alt(phys)" | "alt(alt(mem))" => {
            let l = new_leaf(&mut lines, leaf_kind(kind), Who::Both);
            let base = new_fs(&mut lines, format!("leaf {}", l), Who::Both);
            let p = *rng.pick(&alt_roots[..]);
            // some content outside the altroot, to notice escapes
            lines.push(Line { who: Who::Both, text: format!("op {} create_dir_all {}", base, enc_str("/outside/x")), step: usize::MAX, role: "cfg" });
            if !p.is_empty() {
                lines.push(Line { who: Who::Both, text: format!("op {} create_dir_all {}", base, enc_str(p)), step: usize::MAX, role: "cfg" });
            }
            let a1 = new_fs(&mut lines, format!("alt {} {}", base, enc_str(p)), Who::Both);
            if kind == "alt(alt(mem))" {
                lines.push(Line { who: Who::Both, text: format!("op {} create_dir_all {}", a1, enc_str("/q")), step: usize::MAX, role: "cfg" });
                target = new_fs(&mut lines, format!("alt {} {}", a1, enc_str("/q")), Who::Both);
            } else {
                target = a1;
                if p.is_empty() {
                    abstract_content.insert("/outside".into(), None);
                    abstract_content.insert("/outside/x".into(), None);
                }
            }
        }
        k if k.starts_with("ovl") || k.starts_with("alt(ovl") => {
            // ovl(mem,mem) ovl(mem,mem,mem) ovl(phys,mem) ovl(mem,phys) ovl(mem) ovl(alt,alt)
            // ovl(ovl,mem) alt(ovl(mem,mem))
            let spec: Vec<&str> = match k {
                "ovl(mem)" => vec!["mem"],
                "ovl(mem,mem)" | "alt(ovl(mem,mem))" | "ovl(alt,alt)" | "ovl(sub,sub)" | "ovl(ovl,mem)" => vec!["mem", "mem"],
                "ovl(mem,mem,mem)" => vec!["mem", "mem", "mem"],
                "ovl(mem,mem,mem,mem)" => vec!["mem", "mem", "mem", "mem"],
                "ovl(phys,mem)" => vec!["phys", "mem"],
                "ovl(mem,phys)" => vec!["mem", "phys"],
                "ovl(phys,phys)" => vec!["phys", "phys"],
                _ => panic!("unknown config {}", k),
            };
            let pop_upper = rng.chance(1, 2);
            let contents = gen_layers(rng, spec.len(), pop_upper);
            let mut layer_fs = vec![];
            let mut sub_args: Vec<String> = vec![];
            for (i, lk) in spec.iter().enumerate() {
                let l = new_leaf(&mut lines, lk, Who::Both);
                let f = new_fs(&mut lines, format!("leaf {}", l), Who::Both);
                if k == "ovl(sub,sub)" {
                    // the layers are SUB-DIRECTORY paths of the two filesystems (no altroot in between):
                    // "root of the layer" and "root of the filesystem the layer lives on" differ
                    let base = if i == 0 { "/layers/up" } else { "/low" };
                    lines.push(Line { who: Who::Both, text: format!("op {} create_dir_all {}", f, enc_str(base)), step: usize::MAX, role: "cfg" });
                    let shifted: Content = contents[i].iter().map(|(key, v)| (format!("{}{}", base, key), v.clone())).collect();
                    lines.extend(populate_lines(f, &shifted, Who::Both));
                    sub_args.push(format!("{}:{}", f, enc_str(base)));
                    layer_fs.push(f);
                } else if k == "ovl(alt,alt)" {
                    lines.push(Line { who: Who::Both, text: format!("op {} create_dir_all {}", f, enc_str("/lay")), step: usize::MAX, role: "cfg" });
                    let a = new_fs(&mut lines, format!("alt {} {}", f, enc_str("/lay")), Who::Both);
                    lines.extend(populate_lines(a, &contents[i], Who::Both));
                    layer_fs.push(a);
                } else {
                    lines.extend(populate_lines(f, &contents[i], Who::Both));
                    layer_fs.push(f);
                }
            }
            abstract_content = union(&contents);
            let layer_args: Vec<String> = if k == "ovl(sub,sub)" { sub_args.clone() } else { layer_fs.iter().map(|f| format!("{}:s", f)).collect() };
            if k == "ovl(ovl,mem)" {
                // inner overlay over the first two layers' leaves, outer over (inner, extra empty mem)
                let inner = new_fs(&mut lines, format!("ovl {}", layer_args.join(" ")), Who::Both);
                let l = new_leaf(&mut lines, "mem", Who::Both);
                let f = new_fs(&mut lines, format!("leaf {}", l), Who::Both);
                target = new_fs(&mut lines, format!("ovl {}:s {}:s", inner, f), Who::Both);
                overlay_upper = Some(inner);
            } else {
                let o = new_fs(&mut lines, format!("ovl {}", layer_args.join(" ")), Who::Both);
                overlay_upper = Some(layer_fs[0]);
                if k == "alt(ovl(mem,mem))" {
                    // altroot at the overlay's root: same abstract content
                    target = new_fs(&mut lines, format!("alt {} s", o), Who::Both);
                } else {
                    target = o;
                }
            }
        }
        _ => panic!("unknown config {}", kind),
    }
    // the reference tree: a model-only phys leaf holding the abstract content
    let mut spec = usize::MAX;
    if with_spec {
        let sl = new_leaf(&mut lines, "phys", Who::Model);
        spec = new_fs(&mut lines, format!("leaf {}", sl), Who::Model);
        lines.extend(populate_lines(spec, &abstract_content, Who::Model));
    }
    (Cfg { name: kind.to_string(), lines, target, spec, overlay_upper, kind: kind.to_string() }, n_leaf, n_fs)
}

#[derive(Clone, Debug)]
pub struct Op {
    pub name: &'static str,
    pub path: String,
    pub bytes: Option<Vec<u8>>,
    pub dest: Option<String>,
    pub time: Option<i128>,
}
impl Op {
    pub fn line(&self, fs: usize) -> String {
        // write handles kept open across other calls ("handles used after their file was removed")
        match self.name {
            "hcreate" | "happend" => return format!("{} {} {} {}", self.name, 100 + fs, fs, enc_str(&self.path)),
            "hwrite" => return format!("hwrite {} {}", 100 + fs, enc_bytes(self.bytes.as_ref().unwrap())),
            "hdrop" => return format!("hdrop {}", 100 + fs),
            "hflush" => return format!("hflush {}", 100 + fs),
            _ => {}
        }
        let mut s = format!("op {} {} {}", fs, self.name, enc_str(&self.path));
        if let Some(b) = &self.bytes {
            s.push(' ');
            s.push_str(&enc_bytes(b));
        }
        if let Some(d) = &self.dest {
            s.push_str(&format!(" {} {}", fs, enc_str(d)));
        }
        if let Some(t) = self.time {
            s.push_str(&format!(" {}", t));
        }
        s
    }
    pub fn describe(&self) -> String {
        match (&self.bytes, &self.dest) {
            (Some(b), _) => format!("{}({:?}, {} bytes)", self.name, self.path, b.len()),
            (_, Some(d)) => format!("{}({:?} -> {:?})", self.name, self.path, d),
            _ => format!("{}({:?})", self.name, self.path),
        }
    }
    pub fn is_primitive_mutator(&self) -> bool {
        matches!(self.name, "create_dir" | "write" | "touch" | "append" | "remove_file" | "remove_dir")
    }
    pub fn is_observer(&self) -> bool {
        matches!(self.name, "exists" | "metadata" | "is_file" | "is_dir" | "read_dir" | "read" | "read_to_string" | "walk" | "metadata_t")
    }
}

/// parsed observation of one path
#[derive(Clone, Debug, PartialEq)]
pub struct Obs {
    pub ex: String,
    pub md: String,
    pub ls: String,
    pub rd: String,
}
pub fn parse_snap(s: &str) -> BTreeMap<String, Obs> {
    let mut m = BTreeMap::new();
    for item in s.split(' ').filter(|t| !t.is_empty()) {
        if let Some((k, v)) = item.split_once('=') {
            // metadata contains a space ("D 0"): re-join happens below
            m.insert(k.to_string(), v.to_string());
        }
    }
    // the naive split breaks "D 0"; parse properly instead
    let mut out = BTreeMap::new();
    let mut cur_key: Option<String> = None;
    let mut cur_val = String::new();
    for tok in s.split(' ') {
        if tok.starts_with('s') && tok.contains('=') {
            if let Some(k) = cur_key.take() {
                out.insert(k, cur_val.clone());
            }
            let (k, v) = tok.split_once('=').unwrap();
            cur_key = Some(dec_str(k));
            cur_val = v.to_string();
        } else {
            cur_val.push(' ');
            cur_val.push_str(tok);
        }
    }
    if let Some(k) = cur_key.take() {
        out.insert(k, cur_val);
    }
    drop(m);
    out.into_iter()
        .map(|(k, v)| {
            let parts: Vec<&str> = v.split('|').collect();
            let g = |i: usize| parts.get(i).unwrap_or(&"?").to_string();
            (k, Obs { ex: g(0), md: g(1), ls: g(2), rd: g(3) })
        })
        .collect()
}
pub fn parse_list(ls: &str) -> Option<Vec<String>> {
    if !ls.starts_with('[') {
        return None;
    }
    let inner = &ls[1..ls.len() - 1];
    if inner.is_empty() {
        return Some(vec![]);
    }
    Some(inner.split(',').map(dec_str).collect())
}

/// projection of an operation result for comparison. level 0: ok/err; 1: + class; 2: + path
pub fn project(res: &str, level: u8) -> String {
    let toks: Vec<&str> = res.split(' ').collect();
    match toks[0] {
        "err" => match level {
            0 => "err".into(),
            1 => format!("err {}", class_of(toks.get(1).unwrap_or(&"?"))),
            _ => format!("err {} {}", class_of(toks.get(1).unwrap_or(&"?")), toks.get(2).unwrap_or(&"-")),
        },
        _ => res.to_string(),
    }
}

pub struct Step {
    pub op: Op,
    pub impl_res: String,
    pub model_res: String,
    pub spec_res: String,
    pub impl_snap: String,
    pub model_snap: String,
    pub spec_snap: String,
    pub impl_walk: String,
    pub model_walk: String,
}

pub struct Scenario {
    pub cfg: Cfg,
    pub ops: Vec<Op>,
}

/// what a property check wants from the tree stream
pub struct TreeSpec {
    pub prop: String,
    pub configs: Vec<&'static str>,
    /// CORR projection level of operation results
    pub corr_level: u8,
    /// compare with the reference tree (PROP): results (ok/err + named classes) and snapshots
    pub spec_results: bool,
    pub spec_snapshots: bool,
    pub wrong_type_calls: bool,
    pub root_calls: bool,
    pub composite_ops: bool,
    pub time_ops: bool,
    pub preds: Vec<&'static str>,
}

impl TreeSpec {
    /// write handles kept open across other calls are generated for the properties whose
    /// quantifier has no handle exclusion
    pub fn stale_handles(&self) -> bool {
        matches!(self.prop.as_str(), "C03" | "C05" | "C13" | "C19")
    }
}

const NAMED_CLASSES: [&str; 3] = ["notFound", "fileExists", "dirExists"];

fn typ_of(snap: &BTreeMap<String, Obs>, p: &str) -> char {
    match snap.get(p) {
        Some(o) if o.ex == "E" => {
            if o.md.starts_with('D') {
                'D'
            } else if o.md.starts_with('F') {
                'F'
            } else {
                '?'
            }
        }
        _ => 'A',
    }
}

/// state-aware generator of the next operation; `snap` is the implementation's last snapshot
pub fn gen_op(rng: &mut Rng, ts: &TreeSpec, snap: &BTreeMap<String, Obs>, cfg: &Cfg) -> Op {
    let uni: Vec<&str> = universe().iter().cloned().filter(|p| ts.root_calls || !p.is_empty()).collect();
    // emptying: now and then remove an existing leaf entry (a file, or a directory without existing
    // children) with the right call, so that directories become empty again after overwrites and
    // re-creations and their removal is exercised in that state
    if rng.chance(1, 12) {
        // overwrite an existing file (create_file over a file)
        let files: Vec<&str> = uni.iter().cloned().filter(|p| typ_of(snap, p) == 'F').collect();
        if !files.is_empty() {
            let p = *rng.pick(&files[..]);
            return Op { name: "write", path: p.to_string(), bytes: Some(random_bytes(rng)), dest: None, time: None };
        }
    }
    if rng.chance(1, 9) {
        let leaves: Vec<&str> = uni
            .iter()
            .cloned()
            .filter(|p| !p.is_empty() && typ_of(snap, p) != 'A' && !uni.iter().any(|q| parent_of(q) == *p && typ_of(snap, q) != 'A'))
            .collect();
        if !leaves.is_empty() {
            let p = *rng.pick(&leaves[..]);
            let name = if typ_of(snap, p) == 'D' { "remove_dir" } else { "remove_file" };
            return Op { name, path: p.to_string(), bytes: None, dest: None, time: None };
        }
    }
    for _attempt in 0..200 {
        let mut choices: Vec<(&'static str, u32)> = vec![
            ("create_dir", 6),
            ("write", 7),
            ("append", 4),
            ("remove_file", 4),
            ("remove_dir", 4),
            ("touch", 1),
            ("exists", 1),
            ("metadata", 1),
            ("read_dir", 1),
            ("read", 1),
            ("is_file", 1),
            ("is_dir", 1),
        ];
        if ts.composite_ops {
            choices.extend_from_slice(&[
                ("create_dir_all", 3),
                ("remove_dir_all", 3),
                ("copy_file", 2),
                ("move_file", 2),
                ("copy_dir", 2),
                ("move_dir", 2),
                ("read_to_string", 1),
                ("walk", 1),
            ]);
        }
        if ts.time_ops {
            choices.extend_from_slice(&[("set_mtime", 5), ("set_atime", 5), ("set_ctime", 5), ("metadata_t", 6)]);
        }
        let total: u32 = choices.iter().map(|c| c.1).sum();
        let mut r = rng.below(total as usize) as u32;
        let mut name = choices[0].0;
        for (n, w) in &choices {
            if r < *w {
                name = n;
                break;
            }
            r -= w;
        }
        // the operand is chosen from the implementation's current state: mostly a path on which the
        // call's precondition holds (so that successful calls of every kind are frequent and the tree
        // grows deep enough for the recursive operations), often a near miss (the one clause of the
        // precondition that fails: occupied target, missing target in an existing directory, NON-EMPTY
        // directory for remove_dir, wrong type), sometimes anything
        let has_child = |p: &str| uni.iter().any(|q| parent_of(q) == p && !q.is_empty() && typ_of(snap, q) != 'A');
        let par_is_dir = |p: &str| p.is_empty() || typ_of(snap, &parent_of(p)) == 'D';
        let class_of = |p: &str| -> u8 {
            // 0 = precondition holds, 1 = near miss, 2 = far
            let t = typ_of(snap, p);
            match name {
                "create_dir" => if !par_is_dir(p) { 2 } else if t == 'A' { 0 } else { 1 },
                "create_dir_all" => if t == 'A' { 0 } else { 1 },
                "write" | "touch" => if !par_is_dir(p) { 2 } else if t == 'D' { 1 } else { 0 },
                "append" | "read" | "read_to_string" | "remove_file" | "copy_file" | "move_file" => if t == 'F' { 0 } else if par_is_dir(p) { 1 } else { 2 },
                "remove_dir" => if t == 'D' && !has_child(p) { 0 } else if t == 'D' || par_is_dir(p) { 1 } else { 2 },
                "read_dir" | "walk" | "remove_dir_all" => if t == 'D' { 0 } else if par_is_dir(p) { 1 } else { 2 },
                "copy_dir" | "move_dir" => if t == 'D' && has_child(p) { 0 } else if t == 'D' { 1 } else { 2 },
                "set_mtime" | "set_atime" | "set_ctime" | "metadata_t" => if t != 'A' { 0 } else if par_is_dir(p) { 1 } else { 2 },
                _ => if t != 'A' { 0 } else { 1 },
            }
        };
        let want = match rng.below(10) { 0..=5 => 0u8, 6..=8 => 1, _ => 2 };
        let pool: Vec<&str> = uni.iter().cloned().filter(|p| class_of(p) == want).collect();
        let p = if pool.is_empty() || rng.chance(1, 8) { rng.pick(&uni[..]).to_string() } else { rng.pick(&pool[..]).to_string() };
        let t = typ_of(snap, &p);
        let par_t = if p.is_empty() { 'D' } else { typ_of(snap, &parent_of(&p)) };
        // type discipline of C01 (unless wrong-type calls are wanted): file ops on non-dirs,
        // dir ops on non-files; bias towards valid calls but keep failing ones (missing target,
        // occupied target, missing parent)
        let wrong_type = match name {
            "write" | "touch" | "append" | "remove_file" | "read" | "read_to_string" | "copy_file" | "move_file" => t == 'D',
            "remove_dir" | "read_dir" | "walk" | "copy_dir" | "move_dir" | "remove_dir_all" => t == 'F',
            _ => false,
        };
        // C01 (and its adapter parts C07, C09): "target has the right type" is a precondition of the
        // contract, so a PRIMITIVE call of the wrong type is in scope (it must fail and change
        // nothing); only transfers with a wrong-type source and remove_dir_all of a file are left
        // unspecified
        let prim_wrong_ok = matches!(ts.prop.as_str(), "C01" | "C07" | "C09") && matches!(name, "write" | "touch" | "append" | "remove_file" | "read" | "read_to_string" | "remove_dir" | "read_dir" | "walk") && rng.chance(1, 2);
        if wrong_type && !ts.wrong_type_calls && !prim_wrong_ok {
            continue;
        }
        // calls below a file or below a missing directory: allowed, but rarer; below a FILE they
        // are kept more often (a failed call there must not turn the file into a directory — the
        // overlay's parent materialisation is where that went wrong, finding O10)
        if (par_t == 'A' && rng.chance(2, 3)) || (par_t == 'F' && rng.chance(1, 3)) {
            continue;
        }
        if p.is_empty() && matches!(name, "create_dir" | "write" | "touch" | "append" | "remove_file" | "remove_dir" | "remove_dir_all" | "move_dir" | "move_file" | "copy_file") && !ts.root_calls {
            continue;
        }
        // guards of the open known findings (DESIGN.md §7): the generator never produces them,
        // their witnesses are replayed separately
        if cfg.overlay_upper.is_some() && name == "remove_file" && t == 'D' {
            continue; // O3
        }
        // C03 / C13 (unrestricted domain): file transfers are aimed at a NON-EMPTY DIRECTORY now and then
        let (p, t) = if matches!(name, "copy_file" | "move_file") && matches!(ts.prop.as_str(), "C03" | "C13") && rng.chance(1, 3) {
            let dirs: Vec<&str> = uni.iter().cloned().filter(|q| !q.is_empty() && typ_of(snap, q) == 'D' && has_child(q)).collect();
            if dirs.is_empty() { (p, t) } else { (rng.pick(&dirs[..]).to_string(), 'D') }
        } else {
            (p, t)
        };
        let mut op = Op { name, path: p.clone(), bytes: None, dest: None, time: None };
        match name {
            "write" | "append" => op.bytes = Some(random_bytes(rng)),
            "copy_file" | "move_file" | "copy_dir" | "move_dir" => {
                let free: Vec<&str> = uni.iter().cloned().filter(|d| typ_of(snap, d) == 'A' && !d.is_empty() && typ_of(snap, &parent_of(d)) == 'D').collect();
                let d = if !free.is_empty() && rng.chance(3, 5) { rng.pick(&free[..]).to_string() } else { rng.pick(&uni[..]).to_string() };
                // destination outside the source subtree (documented non-termination otherwise)
                if d == p || d.starts_with(&format!("{}/", p)) || p.is_empty() {
                    continue;
                }
                if !ts.root_calls && d.is_empty() {
                    continue;
                }
                // transfer source of the wrong type is outside the domain
                let dir_op = name.ends_with("_dir");
                if (dir_op && t != 'D') || (!dir_op && t != 'F') {
                    // C03 / C13 quantify over the unrestricted domain ("every call on every path, including
                    // file calls on directories"): there a transfer whose source exists with the WRONG type is
                    // generated too (move_file / copy_file of a directory, copy_dir / move_dir of a file);
                    // the other properties leave such transfers unspecified
                    let unrestricted = matches!(ts.prop.as_str(), "C03" | "C13") && t != 'A' && rng.chance(3, 4);
                    if !unrestricted && !(ts.wrong_type_calls && t == 'A') && t != 'A' {
                        continue;
                    }
                    if unrestricted {
                        op.dest = Some(d);
                        return op;
                    }
                    // missing source: outside C11's statement too (copy_dir creates the
                    // destination first); keep it rare and only for the file transfers
                    // (C02's lock-step comparison of the two backends has no such reservation: whatever a
                    // failed copy_dir / move_dir of a missing source leaves behind, both must leave the same)
                    if (dir_op && !(ts.prop == "C02" && rng.chance(1, 2))) || (!dir_op && rng.chance(3, 4)) {
                        continue;
                    }
                }
                op.dest = Some(d);
            }
            "set_mtime" | "set_atime" | "set_ctime" => {
                // nanoseconds relative to the epoch: the epoch itself, one nanosecond around it,
                // sub-second parts before and after the epoch, whole seconds, far past and future.
                // On physical backends only what the host file system represents (ext4: 1901..2446).
                const S: i128 = 1_000_000_000;
                let common: [i128; 12] = [0, 1, -1, S, 86_400 * S, 1_000_000_000 * S, 1_234_567_890 * S + 123_456_789, 999_999_999 * S + 999_999_999, -S - 1, -86_400 * S - S / 2, -2_000_000_000 * S + 7, 14_000_000_000 * S + 250_000_000];
                let far: [i128; 3] = [100_000_000_000 * S + 5, -100_000_000_000 * S - 5, -(S / 4)];
                op.time = Some(if !cfg.name.contains("phys") && rng.chance(1, 5) { *rng.pick(&far[..]) } else { *rng.pick(&common[..]) });
                // often one of two fixed values, so that one entry gets the SAME value in two different fields
                // (set earlier in another field): the fields are independent, equal values must not confuse a setter
                if rng.chance(1, 3) {
                    op.time = Some(*rng.pick(&[86_400 * S, 1_234_567_890 * S + 123_456_789][..]));
                }
            }
            _ => {}
        }
        return op;
    }
    Op { name: "exists", path: "/a".into(), bytes: None, dest: None, time: None }
}

fn walk_universe() -> String {
    universe().iter().map(|p| enc_str(p)).collect::<Vec<_>>().join(" ")
}

/// Run one scenario on the real code, producing the script (with model-only twins) and the
/// implementation's outputs, generating operations on the fly from the implementation's state.
pub struct Run {
    pub cfg_name: String,
    pub lines: Vec<Line>,
    pub impl_out: Vec<Option<String>>,
    pub ops: Vec<Op>,
    pub overlay: bool,
}

pub fn run_impl(world: &mut RWorld, cfg: Cfg, ts: &TreeSpec, rng: &mut Rng, n_ops: usize, fixed_ops: Option<Vec<Op>>) -> Run {
    let mut lines = vec![Line { who: Who::Both, text: "reset".into(), step: usize::MAX, role: "cfg" }];
    lines.extend(cfg.lines.iter().cloned());
    if ts.preds.contains(&"time-roundtrip") {
        if let Some(up) = cfg.overlay_upper {
            // C19 on overlays: entries of the lower layer get explicit, distinct timestamps (set
            // directly on the layer), so that "the other timestamps are left alone" and "adapters
            // report the timestamps of the entry they serve" are observable for lower-layer entries
            let lower = if cfg.kind == "ovl(alt,alt)" { up + 2 } else { up + 1 };
            for (k, p) in universe().iter().enumerate().skip(1) {
                let t0 = 3_000_000_000_000_000_000i128 + (k as i128) * 1_000_000_007;
                lines.push(Line { who: Who::Both, text: format!("op {} set_atime {} {}", lower, enc_str(p), t0 + 1), step: usize::MAX, role: "cfg" });
                lines.push(Line { who: Who::Both, text: format!("op {} set_mtime {} {}", lower, enc_str(p), t0 + 2), step: usize::MAX, role: "cfg" });
            }
        }
    }
    let uni = walk_universe();
    // C19: the snapshots must not open files (MemoryFS::open_file stamps the access time, which
    // would make "the other timestamps are left alone" unobservable for the access time)
    let snapc = if ts.preds.contains(&"time-roundtrip") { "snapm" } else { "snap" };
    let mut impl_out: Vec<Option<String>> = vec![];
    for l in &lines {
        impl_out.push(if l.who != Who::Model { Some(world.exec(&l.text)) } else { None });
    }
    let mut push = |world: &mut RWorld, lines: &mut Vec<Line>, impl_out: &mut Vec<Option<String>>, l: Line| -> Option<String> {
        let o = if l.who != Who::Model { Some(world.exec(&l.text)) } else { None };
        lines.push(l);
        impl_out.push(o.clone());
        o
    };
    // initial snapshot (step 0 = before any op)
    let s0 = push(world, &mut lines, &mut impl_out, Line { who: Who::Both, text: format!("{} {} {}", snapc, cfg.target, uni), step: 0, role: "snap" }).unwrap();
    push(world, &mut lines, &mut impl_out, Line { who: Who::Model, text: format!("{} {} {}", snapc, cfg.spec, uni), step: 0, role: "specsnap" });
    push(world, &mut lines, &mut impl_out, Line { who: Who::Both, text: format!("op {} walk s", cfg.target), step: 0, role: "walk" });
    let mut snap = parse_snap(&s0);
    let mut ops = vec![];
    let total = fixed_ops.as_ref().map(|v| v.len()).unwrap_or(n_ops);
    let mut handle_open = false;
    let mut handle_path = String::new();
    let mut follow_up: Option<Op> = None;
    for i in 0..total {
        let op = match &fixed_ops {
            Some(v) => v[i].clone(),
            None => {
                if handle_open && i + 1 == total {
                    // the history always ends with the drop of a still-open handle, so that its
                    // effect (and a panic in it) is observed
                    handle_open = false;
                    Op { name: "hdrop", path: String::new(), bytes: None, dest: None, time: None }
                } else if ts.stale_handles() && !handle_open && rng.chance(1, 7) {
                    // mostly on paths that can get children, so that the path can change type
                    // and gain entries while the handle is open
                    let p = if rng.chance(2, 3) { rng.pick(&["/a", "/c", "/a/a"][..]).to_string() } else { rng.pick(&universe()[1..]).to_string() };
                    handle_open = true;
                    handle_path = p.clone();
                    Op { name: if rng.chance(1, 2) { "hcreate" } else { "happend" }, path: p, bytes: None, dest: None, time: None }
                } else if handle_open && rng.chance(1, 2) {
                    // operations aimed at the path of the open handle: remove it, re-create it with
                    // the other type, put something below it
                    let hp = handle_path.clone();
                    let child = universe().iter().find(|q| parent_of(q) == hp).map(|q| q.to_string());
                    if ts.time_ops && rng.chance(1, 2) {
                        // C19: a timestamp set on the file while the handle is open must survive the
                        // handle's later flush/drop (for the creation and access time; the publication
                        // itself stamps the modification time)
                        let name = *rng.pick(&["set_ctime", "set_mtime", "set_atime"][..]);
                        let t = *rng.pick(&[0i128, 1_000_000_000, 1_234_567_890_123_456_789, -86_400_500_000_000][..]);
                        ops.push(Op { name, path: hp.clone(), bytes: None, dest: None, time: Some(t) });
                        let op = ops.pop().unwrap();
                        op
                    } else {
                    match rng.below(6) {
                        0 | 1 => Op { name: "remove_file", path: hp, bytes: None, dest: None, time: None },
                        2 | 3 => Op { name: "create_dir", path: hp, bytes: None, dest: None, time: None },
                        4 => match child {
                            Some(c) => Op { name: if rng.chance(1, 2) { "create_dir" } else { "touch" }, path: c, bytes: None, dest: None, time: None },
                            None => Op { name: "remove_dir", path: hp, bytes: None, dest: None, time: None },
                        },
                        _ => {
                            // never the root: the property sets removal of the root itself aside
                            let par = parent_of(&hp);
                            Op { name: "remove_dir", path: if par.is_empty() { hp } else { par }, bytes: None, dest: None, time: None }
                        }
                    }
                    }
                } else if handle_open && rng.chance(1, 4) {
                    Op { name: "hwrite", path: String::new(), bytes: Some(random_bytes(rng)), dest: None, time: None }
                } else if handle_open && rng.chance(1, 4) {
                    handle_open = false;
                    Op { name: "hdrop", path: String::new(), bytes: None, dest: None, time: None }
                } else if let Some(f) = follow_up.take() {
                    f
                } else {
                    let g = gen_op(rng, ts, &snap, &cfg);
                    // a setter is often followed by the setter of ANOTHER field on the same entry with the
                    // SAME value: the fields are independent, equal values in two fields must not confuse it
                    if matches!(g.name, "set_mtime" | "set_atime" | "set_ctime") && rng.chance(1, 2) {
                        let other = match g.name {
                            "set_mtime" => "set_atime",
                            "set_atime" => "set_mtime",
                            _ => *rng.pick(&["set_mtime", "set_atime"][..]),
                        };
                        follow_up = Some(Op { name: other, path: g.path.clone(), bytes: None, dest: None, time: g.time });
                    }
                    g
                }
            }
        };
        // physical backends: an open handle follows its inode through unlink and rename, while the
        // model addresses the file by path; while a handle is open nothing on its path (or on an
        // ancestor) is removed, renamed or re-created there — what the host does to open, unlinked
        // files is the host's business (memory-backed configurations keep the full treatment)
        let op = if handle_open && cfg.name.contains("phys") && !op.is_observer() && !matches!(op.name, "hwrite" | "hdrop" | "hcreate" | "happend") && (ancestors_or_descendants(&op.path, &handle_path) || op.dest.as_ref().map(|d| ancestors_or_descendants(d, &handle_path)).unwrap_or(false)) {
            Op { name: "exists", path: op.path.clone(), bytes: None, dest: None, time: None }
        } else {
            op
        };
        let step = i + 1;
        // timestamps before/after: setters, and (C19) append, which must preserve the creation time
        // … and (C19) the publication of a write handle that was kept open across other calls (time
        // setters among them): flush/drop must leave the creation time the entry has NOW
        let handle_pub = ts.preds.contains(&"time-roundtrip") && matches!(op.name, "hdrop" | "hwrite") && !handle_path.is_empty();
        let is_setter = op.name.starts_with("set_") || (ts.preds.contains(&"time-roundtrip") && op.name == "append") || handle_pub;
        let tpath = if handle_pub { handle_path.clone() } else { op.path.clone() };
        if is_setter {
            // metadata is read before any content (content reads perturb the access time)
            push(world, &mut lines, &mut impl_out, Line { who: Who::Both, text: format!("op {} metadata_t {}", cfg.target, enc_str(&tpath)), step, role: "tbefore" });
        }
        let opres = push(world, &mut lines, &mut impl_out, Line { who: Who::Both, text: op.line(cfg.target), step, role: "op" });
        if matches!(op.name, "hcreate" | "happend") && opres.as_deref() != Some("ok") {
            handle_open = false;
        }
        if is_setter {
            push(world, &mut lines, &mut impl_out, Line { who: Who::Both, text: format!("op {} metadata_t {}", cfg.target, enc_str(&tpath)), step, role: "tafter" });
        }
        push(world, &mut lines, &mut impl_out, Line { who: Who::Model, text: op.line(cfg.spec), step, role: "specop" });
        let s = push(world, &mut lines, &mut impl_out, Line { who: Who::Both, text: format!("{} {} {}", snapc, cfg.target, uni), step, role: "snap" }).unwrap();
        push(world, &mut lines, &mut impl_out, Line { who: Who::Model, text: format!("{} {} {}", snapc, cfg.spec, uni), step, role: "specsnap" });
        push(world, &mut lines, &mut impl_out, Line { who: Who::Both, text: format!("op {} walk s", cfg.target), step, role: "walk" });
        snap = parse_snap(&s);
        ops.push(op);
    }
    Run { cfg_name: cfg.name.clone(), lines, impl_out, ops, overlay: cfg.overlay_upper.is_some() }
}

fn ancestors_or_descendants(a: &str, b: &str) -> bool {
    a == b || a.starts_with(&format!("{}/", b)) || b.starts_with(&format!("{}/", a)) || a.is_empty() || b.is_empty()
}

/// Evaluate CORR and PROP on one executed scenario, given the model outputs for its lines.
pub fn judge(run: &Run, model_out: &[String], ts: &TreeSpec, rep: &mut Report) {
    // index lines by (step, role)
    let mut by: BTreeMap<(usize, &str), usize> = BTreeMap::new();
    for (i, l) in run.lines.iter().enumerate() {
        if l.step != usize::MAX {
            by.insert((l.step, l.role), i);
        }
    }
    let script_upto = |idx: usize| -> Vec<String> {
        run.lines[..=idx]
            .iter()
            .map(|l| format!("{} {}", match l.who { Who::Both => "B", Who::Model => "M", Who::Impl => "I" }, l.text))
            .collect()
    };
    // configuration lines must agree too (pre-population is part of the history)
    for (i, l) in run.lines.iter().enumerate() {
        if l.step == usize::MAX && l.who == Who::Both {
            let a = run.impl_out[i].as_ref().unwrap();
            if project(a, 0) != project(&model_out[i], 0) {
                rep.fail(Fail {
                    oracle: "corr".into(),
                    signature: format!("{}:setup", run.cfg_name),
                    what: format!("[{}] setup line {:?}: implementation {} / model {}", run.cfg_name, l.text, a, model_out[i]),
                    script: script_upto(i),
                    impl_out: a.clone(),
                    model_out: model_out[i].clone(),
                });
                return;
            }
        }
    }
    let n_steps = run.ops.len();
    let mut prev_snap: Option<String> = by.get(&(0, "snap")).map(|i| run.impl_out[*i].clone().unwrap());
    // the reference tree is only comparable while it describes the same tree (after a call
    // whose effect the contract leaves unspecified, e.g. remove_dir_all on a file, it may not)
    let mut spec_alive = true;
    for step in 0..=n_steps {
        let snap_i = by[&(step, "snap")];
        let impl_snap = run.impl_out[snap_i].as_ref().unwrap();
        let model_snap = &model_out[snap_i];
        let spec_snap = &model_out[by[&(step, "specsnap")]];
        let walk_i = by[&(step, "walk")];
        let impl_walk = run.impl_out[walk_i].as_ref().unwrap();
        let (opname, opdesc, impl_res, model_res, spec_res, op) = if step > 0 {
            let oi = by[&(step, "op")];
            let op = &run.ops[step - 1];
            (op.name, op.describe(), run.impl_out[oi].clone().unwrap(), model_out[oi].clone(), model_out[by[&(step, "specop")]].clone(), Some(op))
        } else {
            ("init", "initial state".to_string(), "ok".into(), "ok".into(), "ok".into(), None)
        };
        rep.evaluations += 1;
        rep.count(&format!("{}:{}:{}", run.cfg_name, opname, project(&impl_res, 1)));
        rep.distinct_hash(&format!("{}|{}|{}|{}", run.cfg_name, opname, project(&impl_res, 1), impl_snap));
        let snap = parse_snap(impl_snap);
        let target_type = op.map(|o| prev_snap.as_ref().map(|s| typ_of(&parse_snap(s), &o.path)).unwrap_or('?')).unwrap_or('-');
        let mk = |oracle: &str, sig: String, what: String, imp: &str, model: &str| Fail {
            oracle: oracle.into(),
            signature: sig,
            what: format!("[{}] step {} {}: {}", run.cfg_name, step, opdesc, what),
            script: script_upto(walk_i),
            impl_out: imp.to_string(),
            model_out: model.to_string(),
        };
        let mut diverged = false;
        // ---- CORR
        let same_res = if opname == "walk" {
            // listing order is a HashMap/HashSet iteration order: compare as multisets (the order
            // predicate "directories before their contents" is evaluated separately)
            sorted_items(&project(&impl_res, ts.corr_level)) == sorted_items(&project(&model_res, ts.corr_level))
        } else if opname == "metadata_t" && run.cfg_name.contains("phys") {
            // the host updates timestamps on its own (observers touch atime): compare type and length
            let cut = |s: &str| s.split(' ').take(3).collect::<Vec<_>>().join(" ");
            cut(&project(&impl_res, ts.corr_level)) == cut(&project(&model_res, ts.corr_level))
        } else {
            project(&impl_res, ts.corr_level) == project(&model_res, ts.corr_level)
        };
        if step > 0 && !same_res {
            rep.fail(mk("corr", format!("{}:{}:result", kind_class(&run.cfg_name), opname), format!("result: implementation {} / model {}", impl_res, model_res), &impl_res, &model_res));
            diverged = true;
        }
        if impl_snap != model_snap {
            rep.fail(mk("corr", format!("{}:{}:snapshot", kind_class(&run.cfg_name), opname), format!("snapshot differs: {}", first_diff(impl_snap, model_snap)), impl_snap, model_snap));
            diverged = true;
        }
        if ts.preds.contains(&"walk") && *impl_walk != model_out[walk_i] && sorted_items(impl_walk) != sorted_items(&model_out[walk_i]) {
            rep.fail(mk("corr", format!("{}:{}:walk", kind_class(&run.cfg_name), opname), "walk items differ".into(), impl_walk, &model_out[walk_i]));
        }
        // ---- PROP: reference tree
        let mut prop_div = false;
        if step > 0 && ts.spec_results && spec_alive && !opname.starts_with("set_") {
            let a = project(&impl_res, 0);
            let b = project(&spec_res, 0);
            let ok_a = !a.starts_with("err");
            let ok_b = !b.starts_with("err");
            if impl_res == "panic" {
                // reported by the no-panic predicate
            } else if ok_a != ok_b {
                rep.fail(mk(
                    "prop",
                    format!("{}:{}:target={}:{}", kind_class(&run.cfg_name), opname, target_type, if ok_a { "succeeds-but-contract-fails" } else { "fails-but-contract-succeeds" }),
                    format!("implementation {} but the abstract tree contract says {}", impl_res, spec_res),
                    &impl_res,
                    &spec_res,
                ));
                prop_div = true;
            } else if !ok_a {
                let ca = project(&impl_res, 1);
                let cb = project(&spec_res, 1);
                let named = NAMED_CLASSES.iter().any(|c| cb.ends_with(c));
                // a class is required only for: target missing from an existing directory
                // (notFound) and occupied create_dir (fileExists / dirExists)
                let parent_is_dir = op.map(|o| o.path.is_empty() || prev_snap.as_ref().map(|s| typ_of(&parse_snap(s), &parent_of(&o.path)) == 'D').unwrap_or(false)).unwrap_or(false);
                let applies = named && parent_is_dir && op.map(|o| o.dest.is_none()).unwrap_or(false) && (opname != "create_dir_all");
                if applies && ca != cb {
                    rep.fail(mk("prop", format!("{}:{}:class", kind_class(&run.cfg_name), opname), format!("error class {} but the contract requires {}", ca, cb), &impl_res, &spec_res));
                }
            } else if op.map(|o| o.is_observer()).unwrap_or(false) && impl_res != spec_res && opname != "walk" && opname != "metadata_t" {
                rep.fail(mk("prop", format!("{}:{}:value", kind_class(&run.cfg_name), opname), format!("returned {} but the abstract tree gives {}", impl_res, spec_res), &impl_res, &spec_res));
            } else if opname == "copy_dir" && impl_res != spec_res {
                rep.fail(mk("prop", format!("{}:copy_dir:count", kind_class(&run.cfg_name)), format!("returned {} but the abstract tree gives {}", impl_res, spec_res), &impl_res, &spec_res));
            }
        }
        if !ts.spec_snapshots && impl_snap != spec_snap && spec_alive {
            spec_alive = false;
            rep.count("reference-tree-left-behind-after-unspecified-call");
        }
        if ts.spec_snapshots && !prop_div && impl_snap != spec_snap {
            rep.fail(mk(
                "prop",
                format!("{}:{}:target={}:tree-differs", kind_class(&run.cfg_name), opname, target_type),
                format!("observable tree differs from the abstract tree: {}", first_diff(impl_snap, spec_snap)),
                impl_snap,
                spec_snap,
            ));
            prop_div = true;
        }
        // ---- PROP: predicates on the implementation's own observations
        if step > 0 && ts.preds.contains(&"failed-unchanged") {
            if impl_res.starts_with("err") && op.unwrap().is_primitive_mutator() {
                if let Some(p) = &prev_snap {
                    if p != impl_snap {
                        rep.fail(mk("prop", format!("{}:{}:failed-call-changed-tree", kind_class(&run.cfg_name), opname), format!("failed call changed the tree: {}", first_diff(p, impl_snap)), impl_snap, p));
                    }
                }
            }
        }
        if step > 0 && ts.preds.contains(&"observer-pure") && op.unwrap().is_observer() {
            if let Some(p) = &prev_snap {
                if p != impl_snap {
                    rep.fail(mk("prop", format!("{}:{}:observer-changed-tree", kind_class(&run.cfg_name), opname), first_diff(p, impl_snap), impl_snap, p));
                }
            }
        }
        if ts.preds.contains(&"no-panic") {
            if impl_res == "panic" || impl_snap.contains("=P|") || impl_snap.contains("|P") || impl_walk == "panic" {
                rep.fail(mk("prop", format!("{}:{}:target={}:panic", kind_class(&run.cfg_name), opname, target_type), "a call panicked".into(), &impl_res, ""));
            }
        }
        if ts.preds.contains(&"wf") {
            // root is an existing directory; every existing path has a directory parent
            for (p, o) in &snap {
                if p.is_empty() {
                    if !(o.ex == "E" && o.md.starts_with('D')) {
                        rep.fail(mk("prop", format!("{}:{}:root-not-a-directory", kind_class(&run.cfg_name), opname), format!("root observed as {:?}", o), impl_snap, ""));
                    }
                    continue;
                }
                if o.ex == "E" && typ_of(&snap, &parent_of(p)) != 'D' {
                    rep.fail(mk(
                        "prop",
                        format!("{}:{}:target={}:orphan", kind_class(&run.cfg_name), opname, target_type),
                        format!("{:?} exists but its parent is {}", p, match typ_of(&snap, &parent_of(p)) { 'A' => "absent", 'F' => "a file", _ => "unknown" }),
                        impl_snap,
                        "",
                    ));
                    break;
                }
            }
            // every existing path is reached by walk_dir(root)
            if let Some(items) = impl_walk.strip_prefix("ok") {
                let walked: BTreeSet<String> = items.split(' ').filter(|t| t.starts_with('s')).map(dec_str).collect();
                for (p, o) in &snap {
                    if !p.is_empty() && o.ex == "E" && !walked.contains(p) {
                        rep.fail(mk("prop", format!("{}:{}:target={}:unreachable", kind_class(&run.cfg_name), opname, target_type), format!("{:?} exists but walk_dir(root) does not reach it", p), impl_walk, ""));
                        break;
                    }
                }
            }
        }
        if ts.preds.contains(&"consistent") {
            for (p, o) in &snap {
                let t = typ_of(&snap, p);
                let mut bad: Option<String> = None;
                if !p.is_empty() {
                    let par = parent_of(p);
                    if let Some(po) = snap.get(&par) {
                        if let Some(l) = parse_list(&po.ls) {
                            let cnt = l.iter().filter(|n| **n == name_of(p)).count();
                            if (o.ex == "E") != (cnt == 1) {
                                bad = Some(format!("exists={} but parent lists its name {} time(s)", o.ex, cnt));
                            }
                        } else if o.ex == "E" {
                            bad = Some("exists but its parent cannot be listed".into());
                        }
                    }
                }
                if let Some(l) = parse_list(&o.ls) {
                    if t != 'D' {
                        bad = Some(format!("can be listed but is {}", t));
                    }
                    if l.iter().any(|n| n.contains('/') || n.is_empty()) {
                        bad = Some("listing contains a name that is not bare".into());
                    }
                    let set: BTreeSet<&String> = l.iter().collect();
                    if set.len() != l.len() {
                        bad = Some("listing contains a duplicate".into());
                    }
                } else if t == 'D' {
                    bad = Some("is a directory but cannot be listed".into());
                }
                if (o.rd != "-") != (t == 'F') {
                    bad = Some(format!("type {} but read gives {}", t, if o.rd == "-" { "an error" } else { "bytes" }));
                }
                if t == 'F' {
                    // metadata length equals the number of bytes read
                    let len: Option<usize> = o.md.split(' ').nth(1).and_then(|x| x.parse().ok());
                    let rlen = if let Some(b) = o.rd.strip_prefix('b') { Some(b.len() / 2) } else { o.rd.strip_prefix('B').and_then(|x| x.split(':').next().and_then(|n| n.parse().ok())) };
                    if len != rlen {
                        bad = Some(format!("metadata length {:?} but {:?} bytes read", len, rlen));
                    }
                }
                if t == 'D' && !o.md.ends_with(" 0") {
                    bad = Some(format!("directory reports metadata {}", o.md));
                }
                if o.ex == "A" && (o.md != "-" || o.ls != "-" || o.rd != "-") {
                    bad = Some("absent but metadata/listing/read succeed".into());
                }
                if let Some(b) = bad {
                    rep.fail(mk("prop", format!("{}:{}:target={}:observers-disagree", kind_class(&run.cfg_name), opname, target_type), format!("{:?}: {}", p, b), impl_snap, ""));
                    break;
                }
            }
            // walk: every descendant once, directories before their contents
            if let Some(items) = impl_walk.strip_prefix("ok") {
                let seq: Vec<String> = items.split(' ').filter(|t| t.starts_with('s')).map(dec_str).collect();
                let mut seen = BTreeSet::new();
                for it in &seq {
                    let par = parent_of(it);
                    if !par.is_empty() && !seen.contains(&par) {
                        rep.fail(mk("prop", format!("{}:{}:walk-order", kind_class(&run.cfg_name), opname), format!("walk yields {:?} before its directory", it), impl_walk, ""));
                        break;
                    }
                    if !seen.insert(it.clone()) {
                        rep.fail(mk("prop", format!("{}:{}:walk-duplicate", kind_class(&run.cfg_name), opname), format!("walk yields {:?} twice", it), impl_walk, ""));
                        break;
                    }
                }
                for (p, o) in &snap {
                    if !p.is_empty() && o.ex == "E" && typ_of(&snap, &parent_of(p)) == 'D' && !seen.contains(p) {
                        // only if all ancestors exist (otherwise wf reports it)
                        let mut q = parent_of(p);
                        let mut chain_ok = true;
                        while !q.is_empty() {
                            if typ_of(&snap, &q) != 'D' {
                                chain_ok = false;
                            }
                            q = parent_of(&q);
                        }
                        if chain_ok {
                            rep.fail(mk("prop", format!("{}:{}:walk-incomplete", kind_class(&run.cfg_name), opname), format!("walk misses {:?}", p), impl_walk, ""));
                            break;
                        }
                    }
                }
            }
        }
        if ts.preds.contains(&"hidden-markers") {
            // every name a listing or a walk delivers: never ".whiteout", and a name ending in the marker
            // suffix only if the path universe itself has an entry of that name (the `wo`/`odd` universes)
            let leaked = |text: &str| -> bool {
                listed_names(text).iter().any(|n| {
                    let base = name_of(n);
                    base == ".whiteout" || n.contains("/.whiteout") || (base.ends_with("_wo") && !universe().iter().any(|u| name_of(u) == base))
                })
            };
            if leaked(&impl_snap) || leaked(&impl_walk) {
                rep.fail(mk("prop", format!("{}:{}:marker-visible", kind_class(&run.cfg_name), opname), "overlay bookkeeping (.whiteout / *_wo) is visible in the overlay's namespace".into(), impl_snap, ""));
            }
        }
        if step > 0 && ts.preds.contains(&"time-roundtrip") && opname == "append" && impl_res == "ok" && !run.cfg_name.contains("phys") {
            if let (Some(bi), Some(ai)) = (by.get(&(step, "tbefore")), by.get(&(step, "tafter"))) {
                let before = run.impl_out[*bi].clone().unwrap();
                let after = run.impl_out[*ai].clone().unwrap();
                let get = |s: &str, f: &str| s.split(' ').find(|t| t.starts_with(f)).map(|t| t[2..].to_string());
                if before != model_out[*bi] || after != model_out[*ai] {
                    rep.fail(mk("corr", format!("{}:{}:timestamps", kind_class(&run.cfg_name), opname), format!("metadata with timestamps: implementation {} -> {} / model {} -> {}", before, after, model_out[*bi], model_out[*ai]), &after, &model_out[*ai]));
                }
                if before.starts_with("ok F") && get(&before, "c=") != get(&after, "c=") {
                    rep.fail(mk("prop", format!("{}:append:creation-time-changed", kind_class(&run.cfg_name)), format!("appending changed the creation time: {} -> {}", before, after), &after, &before));
                }
            }
        }
        if step > 0 && ts.preds.contains(&"time-roundtrip") && matches!(opname, "hdrop" | "hwrite") && !run.cfg_name.contains("phys") {
            if let (Some(bi), Some(ai)) = (by.get(&(step, "tbefore")), by.get(&(step, "tafter"))) {
                let before = run.impl_out[*bi].clone().unwrap();
                let after = run.impl_out[*ai].clone().unwrap();
                let get = |s: &str, f: &str| s.split(' ').find(|t| t.starts_with(f)).map(|t| t[2..].to_string());
                if before != model_out[*bi] || after != model_out[*ai] {
                    rep.fail(mk("corr", format!("{}:{}:timestamps", kind_class(&run.cfg_name), opname), format!("metadata with timestamps around the handle's publication: implementation {} -> {} / model {} -> {}", before, after, model_out[*bi], model_out[*ai]), &after, &model_out[*ai]));
                }
                if before.starts_with("ok F") && after.starts_with("ok F") && get(&before, "c=") != get(&after, "c=") {
                    rep.fail(mk("prop", format!("{}:{}:creation-time-changed", kind_class(&run.cfg_name), opname), format!("the write handle's {} changed the creation time of its file: {} -> {}", if opname == "hdrop" { "drop" } else { "write" }, before, after), &after, &before));
                }
            }
        }
        if step > 0 && ts.preds.contains(&"time-roundtrip") && opname.starts_with("set_") {
            if let (Some(bi), Some(ai)) = (by.get(&(step, "tbefore")), by.get(&(step, "tafter"))) {
                let before = run.impl_out[*bi].clone().unwrap();
                let after = run.impl_out[*ai].clone().unwrap();
                let o = op.unwrap();
                let field = match opname { "set_ctime" => "c=", "set_mtime" => "m=", _ => "a=" };
                let get = |s: &str, f: &str| s.split(' ').find(|t| t.starts_with(f)).map(|t| t[2..].to_string());
                let phys_backed = run.cfg_name.contains("phys");
                let lower_only = run.overlay && before.starts_with("ok") && impl_res.starts_with("err") && project(&impl_res, 1).ends_with("notFound");
                // CORR on timestamps (in-memory backed configurations: the host stamps times itself)
                if !phys_backed && (before != model_out[*bi] || after != model_out[*ai]) {
                    rep.fail(mk("corr", format!("{}:{}:timestamps", kind_class(&run.cfg_name), opname), format!("metadata with timestamps: implementation {} -> {} / model {} -> {}", before, after, model_out[*bi], model_out[*ai]), &after, &model_out[*ai]));
                }
                if impl_res == "ok" {
                    let want = format!("at{}", o.time.unwrap_or(0));
                    let mut bad = None;
                    if get(&after, field) != Some(want.clone()) {
                        bad = Some(format!("{} reports {:?} after setting {}", field, get(&after, field), want));
                    }
                    for f in ["c=", "m=", "a="] {
                        if f != field && get(&after, f) != get(&before, f) {
                            bad = Some(format!("setting {} changed {} from {:?} to {:?}", field, f, get(&before, f), get(&after, f)));
                        }
                    }
                    let head = |s: &str| s.split(' ').take(3).collect::<Vec<_>>().join(" ");
                    if head(&before) != head(&after) {
                        bad = Some(format!("type/length changed: {} -> {}", head(&before), head(&after)));
                    }
                    if let Some(p) = &prev_snap {
                        if p != impl_snap {
                            bad = Some(format!("setter changed the tree: {}", first_diff(p, impl_snap)));
                        }
                    }
                    if let Some(b) = bad {
                        rep.fail(mk("prop", format!("{}:{}:timestamp-roundtrip", kind_class(&run.cfg_name), opname), b, &after, &before));
                    }
                } else if impl_res.starts_with("err") {
                    if before.starts_with("ok") && !project(&impl_res, 1).ends_with("notSupported") {
                        rep.fail(mk(
                            "prop",
                            format!("{}:{}:{}", kind_class(&run.cfg_name), opname, if lower_only { "lower-only-entry-not-found" } else { "refused-not-as-notSupported" }),
                            format!("the entry exists ({}) but the setter failed with {} instead of not-supported", before, impl_res),
                            &impl_res,
                            &before,
                        ));
                    }
                    if before != after {
                        rep.fail(mk("prop", format!("{}:{}:failed-setter-changed-metadata", kind_class(&run.cfg_name), opname), format!("{} -> {}", before, after), &after, &before));
                    }
                }
            }
        }
        if step > 0 && ts.preds.contains(&"error-path") && impl_res.starts_with("err") {
            let toks: Vec<&str> = impl_res.split(' ').collect();
            let path = toks.get(2).cloned().unwrap_or("-");
            let o = op.unwrap();
            if path == "-" && opname == "read" && toks.get(1) == Some(&"io") {
                // the harness's own read_to_end on an opened handle failed (std::io::Error of the
                // handle, e.g. File::open on a directory succeeds on Linux): not a VfsError
            } else if path == "-" {
                rep.fail(mk("prop", format!("{}:{}:error-path-placeholder", kind_class(&run.cfg_name), opname), "error carries the unfilled placeholder path".into(), &impl_res, ""));
            } else {
                let ep = dec_str(path);
                let okp = ancestors_or_descendants(&ep, &o.path) && (ep.len() <= o.path.len() || ep.starts_with(&o.path)) || o.dest.as_ref().map(|d| ancestors_or_descendants(&ep, d)).unwrap_or(false);
                if !okp {
                    rep.fail(mk("prop", format!("{}:{}:error-path-foreign", kind_class(&run.cfg_name), opname), format!("error path {:?} is not the caller's path, destination, ancestor or descendant", ep), &impl_res, ""));
                }
            }
        }
        prev_snap = Some(impl_snap.clone());
        if diverged || prop_div {
            // after a divergence later steps compare different states: stop judging this run
            rep.count("runs-cut-after-divergence");
            return;
        }
    }
}

pub fn kind_class(cfg: &str) -> &'static str {
    if cfg.starts_with("ovl") || cfg.contains("ovl") {
        "ovl"
    } else if cfg.starts_with("alt") {
        "alt"
    } else if cfg == "phys" {
        "phys"
    } else {
        "mem"
    }
}

fn sorted_items(w: &str) -> Vec<String> {
    let mut v: Vec<String> = w.split(' ').map(|s| s.to_string()).collect();
    v.sort();
    v
}

pub fn first_diff(a: &str, b: &str) -> String {
    let pa = parse_snap(a);
    let pb = parse_snap(b);
    for (k, v) in &pa {
        match pb.get(k) {
            Some(w) if w == v => {}
            Some(w) => return format!("{:?}: {}|{}|{}|{} vs {}|{}|{}|{}", k, v.ex, v.md, short_list(&v.ls), v.rd, w.ex, w.md, short_list(&w.ls), w.rd),
            None => return format!("{:?} missing on one side", k),
        }
    }
    "?".into()
}
fn short_list(ls: &str) -> String {
    match parse_list(ls) {
        Some(l) => format!("{:?}", l),
        None => ls.to_string(),
    }
}

pub fn tree_spec_for(prop: &str) -> TreeSpec {
    let all_cfgs = vec![
        "mem", "phys", "alt(mem)", "alt(phys)", "alt(alt(mem))", "ovl(mem)", "ovl(mem,mem)", "ovl(mem,mem,mem)", "ovl(phys,mem)", "ovl(mem,phys)",
        "alt(ovl(mem,mem))", "ovl(alt,alt)", "ovl(sub,sub)", "ovl(ovl,mem)",
    ];
    let ovl_cfgs = vec!["ovl(mem)", "ovl(mem,mem)", "ovl(mem,mem,mem)", "ovl(mem,mem,mem,mem)", "ovl(phys,mem)", "ovl(mem,phys)", "ovl(phys,phys)", "ovl(sub,sub)", "ovl(ovl,mem)"];
    match prop {
        "C01" => TreeSpec {
            prop: prop.into(),
            configs: all_cfgs,
            corr_level: 1,
            spec_results: true,
            spec_snapshots: true,
            wrong_type_calls: false,
            root_calls: false,
            composite_ops: true,
            time_ops: false,
            preds: vec!["failed-unchanged"],
        },
        "C02" => TreeSpec {
            prop: prop.into(),
            configs: vec!["mem", "phys"],
            corr_level: 1,
            spec_results: true,
            spec_snapshots: true,
            wrong_type_calls: true,
            root_calls: false,
            composite_ops: true,
            time_ops: false,
            preds: vec!["failed-unchanged"],
        },
        "C03" => TreeSpec {
            prop: prop.into(),
            configs: all_cfgs,
            corr_level: 0,
            spec_results: false,
            spec_snapshots: false,
            wrong_type_calls: true,
            root_calls: false,
            composite_ops: true,
            time_ops: false,
            preds: vec!["wf"],
        },
        "C05" => TreeSpec {
            prop: prop.into(),
            configs: all_cfgs,
            corr_level: 0,
            spec_results: false,
            spec_snapshots: false,
            wrong_type_calls: true,
            root_calls: false,
            composite_ops: true,
            time_ops: false,
            preds: vec!["consistent", "walk"],
        },
        "C07" => TreeSpec {
            prop: prop.into(),
            configs: vec!["alt(mem)", "alt(phys)", "alt(alt(mem))", "alt(ovl(mem,mem))"],
            corr_level: 1,
            spec_results: true,
            spec_snapshots: true,
            wrong_type_calls: false,
            root_calls: false,
            composite_ops: true,
            time_ops: false,
            preds: vec!["failed-unchanged"],
        },
        "C09" => TreeSpec {
            prop: prop.into(),
            configs: ovl_cfgs,
            corr_level: 1,
            spec_results: true,
            spec_snapshots: true,
            wrong_type_calls: false,
            root_calls: false,
            composite_ops: true,
            time_ops: false,
            preds: vec!["failed-unchanged"],
        },
        "C10" => TreeSpec {
            prop: prop.into(),
            configs: vec!["ovl(mem,mem)", "ovl(mem,mem,mem)", "ovl(mem,mem,mem,mem)", "ovl(phys,mem)", "ovl(mem,phys)", "ovl(sub,sub)", "ovl(alt,alt)", "alt(ovl(mem,mem))", "ovl(ovl,mem)"],
            corr_level: 0,
            spec_results: false,
            spec_snapshots: true,
            wrong_type_calls: false,
            root_calls: false,
            composite_ops: true,
            time_ops: false,
            preds: vec!["hidden-markers"],
        },
        "C19" => TreeSpec {
            prop: prop.into(),
            configs: vec!["mem", "phys", "alt(mem)", "alt(phys)", "ovl(mem,mem)", "ovl(phys,mem)", "ovl(mem,phys)", "alt(ovl(mem,mem))", "ovl(alt,alt)"],
            corr_level: 0,
            spec_results: false,
            spec_snapshots: false,
            wrong_type_calls: false,
            root_calls: false,
            composite_ops: false,
            time_ops: true,
            preds: vec!["time-roundtrip"],
        },
        "C11" => TreeSpec {
            prop: prop.into(),
            configs: vec!["mem", "phys", "alt(mem)", "alt(phys)", "ovl(mem,mem)", "ovl(phys,mem)", "ovl(mem,phys)", "alt(ovl(mem,mem))"],
            corr_level: 0,
            spec_results: true,
            spec_snapshots: true,
            wrong_type_calls: false,
            root_calls: false,
            composite_ops: true,
            time_ops: false,
            preds: vec![],
        },
        "C12" => TreeSpec {
            prop: prop.into(),
            configs: all_cfgs,
            corr_level: 2,
            spec_results: true,
            spec_snapshots: false,
            wrong_type_calls: true,
            root_calls: false,
            composite_ops: true,
            time_ops: true,
            preds: vec!["error-path"],
        },
        "C13" => TreeSpec {
            prop: prop.into(),
            configs: all_cfgs,
            corr_level: 0,
            spec_results: false,
            spec_snapshots: false,
            wrong_type_calls: true,
            root_calls: true,
            composite_ops: true,
            time_ops: true,
            preds: vec!["no-panic"],
        },
        _ => panic!("tree stream has no specification for {}", prop),
    }
}

pub fn run(o: &Opts) -> Report {
    let prop = o.extra.iter().position(|a| a == "--prop").and_then(|i| o.extra.get(i + 1)).cloned().unwrap_or_else(|| "C01".into());
    select_universe(&o.extra);
    let ts = tree_spec_for(&prop);
    let mut rep = Report::new("tree");
    let mut rng = Rng::new(o.seed ^ 0x7ee);
    let mut world = RWorld::new(&o.scratch);
    let (n_runs, n_ops) = if o.thorough() { (60, 60) } else { (20, 36) };
    let mut runs: Vec<Run> = vec![];
    if prop == "C02" {
        // lock-step: the SAME operation sequence on the real MemoryFS and the real PhysicalFS;
        // direct differential, no model involved in this oracle
        let pairs = if o.thorough() { 120 } else { 40 };
        for r in 0..pairs {
            let cfg_m = build_cfg("mem", &mut rng);
            let run_m = run_impl(&mut world, cfg_m, &ts, &mut rng, n_ops, None);
            let cfg_p = build_cfg("phys", &mut rng);
            let run_p = run_impl(&mut world, cfg_p, &ts, &mut rng, n_ops, Some(run_m.ops.clone()));
            // compare the two implementations line by line (same script shape)
            let mut step_ops = run_m.ops.iter();
            let mut cur: Option<&Op> = None;
            for (i, l) in run_m.lines.iter().enumerate() {
                if l.who == Who::Model || l.step == usize::MAX {
                    continue;
                }
                if l.role == "op" {
                    cur = step_ops.next();
                }
                let a = run_m.impl_out[i].as_ref().unwrap();
                let b = run_p.impl_out[i].as_ref().unwrap();
                rep.evaluations += 1;
                let opname = cur.map(|o| o.name).unwrap_or("init");
                let desc = cur.map(|o| o.describe()).unwrap_or_default();
                let differs = match l.role {
                    "op" => {
                        let (pa, pb) = (project(a, 0), project(b, 0));
                        let okd = pa.starts_with("err") != pb.starts_with("err");
                        // not-found / already-exists classes must agree when either side names one
                        // for a target whose parent is a directory (checked by the reference-tree
                        // oracle); here: whenever BOTH fail with a named class they must be equal
                        let (ca, cb) = (project(a, 1), project(b, 1));
                        let named = |c: &str| NAMED_CLASSES.iter().any(|n| c.ends_with(n));
                        okd || (named(&ca) && named(&cb) && ca != cb) || (!pa.starts_with("err") && cur.map(|o| o.is_observer()).unwrap_or(false) && opname != "walk" && a != b)
                    }
                    "snap" => a != b,
                    _ => false,
                };
                if differs {
                    rep.fail(Fail {
                        oracle: "prop".into(),
                        signature: format!("mem-vs-phys:{}:{}", opname, l.role),
                        what: format!("history {} step {} {}: MemoryFS {} / PhysicalFS {}", r, l.step, desc, if l.role == "snap" { first_diff(a, b) } else { a.clone() }, if l.role == "snap" { String::new() } else { b.clone() }),
                        script: run_m.lines[..=i].iter().filter(|x| x.who != Who::Model).map(|x| format!("I {}", x.text)).collect(),
                        impl_out: a.clone(),
                        model_out: b.clone(),
                    });
                    break;
                }
            }
            if r == 0 {
                rep.sample(format!("[mem|phys lock-step] {}", run_m.ops.iter().take(10).map(|o| o.describe()).collect::<Vec<_>>().join("; ")));
            }
            runs.push(run_m);
            runs.push(run_p);
        }
    }
    for cfg_kind in &ts.configs {
        if prop == "C02" {
            break;
        }
        let phys = cfg_kind.contains("phys");
        let reps = if phys { (n_runs / 3).max(3) } else { n_runs };
        for r in 0..reps {
            let cfg = build_cfg(cfg_kind, &mut rng);
            let run = run_impl(&mut world, cfg, &ts, &mut rng, n_ops, None);
            if r == 0 && runs.len() < 40 {
                rep.sample(format!("[{}] {}", cfg_kind, run.ops.iter().take(8).map(|o| o.describe()).collect::<Vec<_>>().join("; ")));
            }
            runs.push(run);
        }
    }
    world.reset();
    // model side: one driver batch
    let mut batch: Vec<String> = vec![];
    let mut offsets = vec![];
    for run in &runs {
        offsets.push(batch.len());
        for l in &run.lines {
            if l.who != Who::Impl {
                batch.push(l.text.clone());
            }
        }
    }
    let outs = run_driver(&o.driver, &batch);
    for (ri, run) in runs.iter().enumerate() {
        let mut model_out = Vec::with_capacity(run.lines.len());
        let mut k = offsets[ri];
        for l in &run.lines {
            if l.who != Who::Impl {
                model_out.push(outs[k].clone());
                k += 1;
            } else {
                model_out.push(String::new());
            }
        }
        judge(run, &model_out, &ts, &mut rep);
    }
    rep.count_n("corr-lines", batch.len() as u64);
    rep.count_n("scenarios", runs.len() as u64);
    rep.notes.push(format!("property {}: configs {:?}, {} ops per history, predicates {:?}", prop, ts.configs, n_ops, ts.preds));
    rep
}
