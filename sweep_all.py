#!/usr/bin/env python3
"""Runs every stream of every property for several seeds on the current tree (no Lean build) and
prints the failures that are not listed known findings. usage: sweep_all.py <tier> <seed>..."""
import json, os, subprocess, sys
sys.path.insert(0, os.path.dirname(os.path.abspath(__file__)))
from checkcfg import PROPS
V = os.path.dirname(os.path.abspath(__file__))
tier = sys.argv[1]; seeds = sys.argv[2:]
known = [k for k in json.load(open(os.path.join(V, "known_findings.json")))["findings"] if k["status"] == "open"]
sigs = set(s for k in known for s in k.get("signatures", []))
sc = os.path.join(V, "scratch", "sweep_all"); os.makedirs(sc, exist_ok=True)
done = set(); bad = 0
for pid, cfg in sorted(PROPS.items()):
    for stream, extra in cfg["streams"]:
        key = (stream, tuple(extra))
        if key in done: continue
        done.add(key)
        for seed in seeds:
            out = os.path.join(sc, "r.json")
            if os.path.exists(out): os.remove(out)
            p = subprocess.run([os.path.join(V, "harness/target/debug/vh"), stream, "--tier", tier, "--seed", seed, "--driver", os.path.join(V, "lean/.lake/build/bin/vfsmodel"), "--out", out, "--scratch", sc] + list(extra), stdout=subprocess.PIPE, stderr=subprocess.STDOUT, text=True, cwd=os.path.join(V, "harness"))
            if not os.path.exists(out):
                print("CRASH", pid, stream, extra, seed, p.returncode, p.stdout[-300:]); bad += 1; continue
            r = json.load(open(out))
            fs = [f for f in r["fails"] if f["signature"] not in sigs]
            print("%s %s %s seed=%s evals=%d fails=%d" % (pid, stream, " ".join(extra), seed, r["evaluations"], len(fs)), flush=True)
            for f in fs[:4]:
                bad += 1
                print("   ", f["oracle"], f["signature"], "|", f["what"][:400])
print("SWEEP-DONE bad=%d" % bad)
