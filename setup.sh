#!/bin/sh
# Run once after a fresh restore (offline): build the Lean library (all proofs), the model
# driver and the Rust harness from files on disk.
set -e
cd "$(dirname "$0")"
export CARGO_NET_OFFLINE=true
(cd lean && lake build VfsModel VfsModel.Adapters VfsModel.AsyncWalk VfsModel.Audit VfsModel.Basic VfsModel.Conc VfsModel.Embedded VfsModel.Fs VfsModel.Handle VfsModel.Leaf VfsModel.Path VfsModel.PathOps VfsModel.Proofs.AltrootLemmas VfsModel.Proofs.FMapLemmas VfsModel.Proofs.Faithful VfsModel.Proofs.Hoare VfsModel.Proofs.LeafFrame VfsModel.Proofs.MemInv VfsModel.Proofs.MemPath VfsModel.Proofs.MemRun VfsModel.Proofs.NoPanic VfsModel.Proofs.OverlayLemmas VfsModel.Proofs.PathLemmas VfsModel.Proofs.PhysLemmas VfsModel.Proofs.PhysPath VfsModel.Proofs.PreservesOps VfsModel.Proofs.TransferLemmas VfsModel.Props.C01 VfsModel.Props.C02 VfsModel.Props.C03 VfsModel.Props.C04 VfsModel.Props.C05 VfsModel.Props.C06 VfsModel.Props.C07 VfsModel.Props.C08 VfsModel.Props.C09 VfsModel.Props.C10 VfsModel.Props.C11 VfsModel.Props.C12 VfsModel.Props.C13 VfsModel.Props.C14 VfsModel.Props.C15 VfsModel.Props.C18 VfsModel.Props.C19 VfsModel.Props.C20 vfsmodel)
[ -f harness/Cargo.lock ] || cp /repo/Cargo.lock harness/Cargo.lock
(cd harness && cargo build --offline)
mkdir -p evidence replays
echo "setup done"
