#!/bin/sh
# Run once after a fresh restore (offline): build the Lean library (all proofs), the model
# driver and the Rust harness from files on disk.
set -e
cd "$(dirname "$0")"
export CARGO_NET_OFFLINE=true
(cd lean && lake build VfsModel VfsModel.Audit vfsmodel)
[ -f harness/Cargo.lock ] || cp /repo/Cargo.lock harness/Cargo.lock
(cd harness && cargo build --offline)
mkdir -p evidence replays
echo "setup done"
