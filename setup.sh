#!/bin/sh
# Run once after a fresh restore (offline): build the Lean library (all proofs), the model
# driver and the Rust harness from files on disk.
set -e
cd "$(dirname "$0")"
export CARGO_NET_OFFLINE=true
# every module by name (no single root imports all: two lemma files define lemmas of the same name)
(cd lean && lake build $(find VfsModel -name '*.lean' | sed 's/\.lean$//; s#/#.#g' | sort) VfsModel vfsmodel)
[ -f harness/Cargo.lock ] || cp /repo/Cargo.lock harness/Cargo.lock
(cd harness && cargo build --offline)
mkdir -p evidence replays
echo "setup done"
