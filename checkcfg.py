"""Per-property configuration of ./check: Lean module with the property theorems, namespace to
audit, harness streams (name, extra args) and the texts that go into the evidence file."""

COMMON_ASSUME = [
    "the hand-written Lean model corresponds to /repo only as far as the correspondence streams explore (exhaustive small scope + seeded random); the theorems themselves are unbounded",
]

PROPS = {
    "C06": {
        "module": "VfsModel.Props.C06",
        "namespace": "Vfs.C06",
        "required_theorems": ["join_total", "join_err_iff", "join_resolve", "join_canonical",
                              "join_assoc", "parent_join_name", "parent_canonical", "eq_iff"],
        "streams": [("path", [])],
        "rule": "path stream: every join argument of length <= 6 (quick) / 8 (thorough) over {'/','.','a','b','é'} against 5 canonical bases (exhaustive), "
                "plus seeded random arguments (<= 64 bytes, multi-byte, '..', '//', reserved names) against random canonical bases of depth <= 4, "
                "parent/filename/extension on every distinct result, random join/parent/root chains; a case is distinct by its (outcome, result string)",
        "modelled_not_verified": ["str::rfind/split/rsplitn/starts_with/ends_with are modelled by list functions (beforeLast/afterLast/splitOnC)",
                                  "Arc::ptr_eq is modelled as equality of a filesystem id"],
        "assumptions": COMMON_ASSUME + ["strings are modelled as lists of Unicode scalar values; the code only searches for the one-byte characters '/' and '.'"],
        "explanation": "theorems: join is total, errs iff trailing slash (InvalidPath), equals lexical resolution, preserves canonical form, is associative, "
                       "parent/filename invert join; tie: the Rust PathLike functions and the Lean transliteration are run on the same inputs and compared line by line",
    },
    "C14": {
        "module": "VfsModel.Props.C14",
        "namespace": "Vfs.C14",
        "required_theorems": ["read_is_cursor", "read_no_panic", "read_past_end", "seek_is_cursor", "seek_no_panic",
                              "write_length", "write_at", "write_before", "write_after", "write_at_end", "publish_exact"],
        "streams": [("handle", [])],
        "rule": "handle stream: per backend/adapter configuration (mem, phys, alt(mem), alt(phys), ovl(mem,mem), ovl(phys,mem), ovl(mem,phys)) files of 0/1/2/8191-8193 (thorough: 65535-65537, 100k-300k) bytes; "
                "scripts of 4-40 read(n)/seek calls with n in {0,1,2,3,7,8192,65536} and offsets incl. 0, +-1, i64::MIN, i64::MAX, u64::MAX (>= 2^63 on in-memory handles only), handle used after remove_file; "
                "1-6 write sessions per path (create / append) with writes, bounded seeks, flush and drop; every return value compared with std::io::Cursor and with the Lean model; a case is distinct by (config, request, answer)",
        "modelled_not_verified": ["std::io::Cursor<Vec<u8>> is modelled by cursorRead/cursorSeek/cursorWrite (its documented behaviour); WritableFile IS a Cursor in the Rust code",
                                  "std::fs::File handles of PhysicalFS and Cursor handles of EmbeddedFS are assumptions checked only by the stream",
                                  "a Vec is shorter than 2^64 bytes (hypothesis content.length < 2^64 of the read theorems)"],
        "assumptions": COMMON_ASSUME + ["seek on physical append handles is not compared (O_APPEND differs by design)", "zero-length writes past the end are not issued on physical handles (write(2) does not extend, Cursor pads)"],
        "explanation": "theorems: ReadableFile.read/seek = std cursor call by call for all contents/positions/offsets, never panic; cursor write laws (length, placement, zero-fill, tail kept, append at end); publish exact. tie: handle stream (CORR vs model, PROP vs std::io::Cursor in-process)",
    },
    "C04": {
        "module": "VfsModel.Props.C04",
        "namespace": "Vfs.C04",
        "required_theorems": ["reader_chunks", "reader_whole_file", "create_session_exact", "append_session_exact",
                              "flush_publishes", "metadata_len", "dir_len_zero", "copy_is_identity"],
        "streams": [("handle", [])],
        "rule": "same handle stream as C14: after every flush and every drop the file is re-read (fresh handle, whole and in chunks of 1/2/7/8192/65536 bytes) and metadata().len compared with the bytes std::io::Cursor prescribes; session sequences create/append on one path; directories report 0",
        "modelled_not_verified": ["std::io::copy is modelled as read_to_end + write_all", "PhysicalFS file bytes live in the host file system (assumption, compared by the stream)"],
        "assumptions": COMMON_ASSUME,
        "explanation": "theorems: chunked reads with any buffer sizes concatenate to the content; create session buffers exactly the bytes; append continues at the end; flush/drop publish exactly the buffer and a later reader sees it; metadata len; directories 0; io::copy identity",
    },
    "C08": {
        "module": "VfsModel.Props.C08",
        "namespace": "Vfs.C08",
        "required_theorems": ["overlay_all_preserve", "overlay_observers_pure", "lower_leaf_unchanged", "lower_leaf_unchanged_alt",
                              "lower_log_unchanged", "observers_log_clean"],
        "streams": [("record", ["--prop", "C08"])],
        "rule": "record stream: overlays with 2-4 layers over memory and physical leaves, altroot layers and a nested overlay as upper layer, pre-populated layers (types consistent across layers), "
                "a recording FileSystem wrapper around every layer; histories of 25 (quick) / 50 (thorough) path-API calls incl. wrong-type, failing, composite and time-setting calls; after every call the recorded "
                "(layer, method, path) list and a deep snapshot (type, bytes, creation and modification time) of every lower layer; a case is distinct by (config, op, result, recorded calls)",
        "modelled_not_verified": ["MemoryFS::open_file stamps the access time of the entry it serves (inside the layer, like the OS for a physical file): snapshots and the SameLeaf invariant ignore the access time",
                                  "the theorem is about the model's Overlay.fs; it is tied to src/impls/overlay.rs by comparing results, snapshots and the multiset of recorded trait calls per operation"],
        "assumptions": COMMON_ASSUME + ["layers whose filesystem value is the upper layer's are reached through the upper layer (hypothesis `same`); distinct layers live on distinct leaves in the concrete corollary"],
        "explanation": "theorems (for arbitrary inner filesystems and an arbitrary world invariant): every overlay method preserves what the upper layer's methods and the lower layers' OBSERVER methods preserve, "
                       "so nothing but observers is ever called on a lower layer; overlay observers preserve what the layers' observers preserve; instances: lower leaves unchanged (any number of layers, also under an altroot), no mutating call in the log of a lower recorder",
    },
    "C07": {
        "module": "VfsModel.Props.C07",
        "namespace": "Vfs.C07",
        "required_theorems": ["altroot_path_append", "join_never_escapes", "joins_never_escape", "altroot_exact_createDir", "altroot_exact_readDir",
                              "altroot_exact_copyFile", "physical_get_path_confined", "altroot_confined", "altroot_confined_log",
                              "altroot_confined_strict", "altroot_confined_nested", "raw_call_escapes"],
        "streams": [("record", ["--prop", "C07"]), ("tree", ["--prop", "C07"])],
        "rule": "record stream: altroot over a recorded underlying filesystem (memory, physical, overlay, altroot of altroot), altroot directory P of depth 0-3, content outside P; histories of 25/50 calls, one in five with a hostile path expression ('..' chains, absolute segments, '//'); "
                "per call: every recorded (method, path) of the underlying filesystem, deep snapshot of the underlying tree inside and outside P, the altroot's own snapshot. tree stream: the same histories on altroot configurations against the model and the reference tree re-rooted at P",
        "modelled_not_verified": ["PathBuf::join is modelled by pathBufJoin (relative argument appended, absolute argument replaces)", "symlinks are outside the property"],
        "assumptions": COMMON_ASSUME + ["reading recorded in DESIGN.md 6.0: the parent probe (exists+metadata, never a mutation) of VfsPath::create_dir/create_file on the altroot's own root looks at the directory chain P consists of; it is not counted as reading outside P (LogBelow's second disjunct)"],
        "explanation": "theorems: AltrootFS::path appends (canonical P, q); no join argument whatsoever escapes; each altroot method IS the VfsPath operation on P++q (equal state transformers); the only paths that reach the underlying filesystem have P as component-wise prefix (for every invariant, for the call log, nested altroots); PhysicalFS::get_path appends canonical paths to the host root; raw non-canonical trait calls do escape (why canonicity is needed)",
    },
    "C20": {
        "module": "VfsModel.Props.C20",
        "namespace": "Vfs.C20",
        "required_theorems": ["faultGate_faithful", "faultFS_faithful", "pathops_faithful", "transfers_faithful", "walk_faithful", "composites_faithful",
                              "altroot_faithful", "overlay_faithful", "stack_faithful", "ok_implies_no_fault", "fired_implies_io_error",
                              "fired_implies_no_panic", "existsSwallowing_not_faithful"],
        "streams": [("fault", [])],
        "rule": "fault stream: 11 configurations (plain memory/physical, altroot, overlays with the fault wrapper around the upper layer, a lower layer, or all layers, altroot over overlay); per scenario 2-11 fault-free prefix operations, "
                "then one operation (3 of 4 scenarios: create_dir_all, remove_dir_all, copy_file, move_file, copy_dir, move_dir, walk_dir, read_to_string) re-executed from scratch for EVERY k in 0..=number of underlying calls of the fault-free run, and once without fault; "
                "a probe is distinct by (config, op, k, result, snapshot)",
        "modelled_not_verified": ["the injected error is an IoError of kind Other; real I/O errors of other kinds behave like it only as far as no handler matches on them (the handlers match DirectoryExists, NotSupported, FileNotFound)",
                                  "HashMap/HashSet iteration order decides which call is the k-th in operations that iterate a listing: for those probes only the property-level facts are compared with the model"],
        "assumptions": COMMON_ASSUME,
        "explanation": "theorems: compositional calculus FaithfulIO (a fault that fires during m comes out as the injected error: not ok, not a panic, not a swallowed kind) for every VfsPath operation over arbitrary faithful filesystems, altroot, overlay (any layers, any nesting), walk items; the pre-fix OverlayFS::exists is refuted. tie: fault-injecting wrapper on the real code for every call position",
    },
    "C03": {
        "module": "VfsModel.Props.C03",
        "namespace": "Vfs.C03",
        "required_theorems": ["init_wf", "prim_wf", "history_wf", "listed_by_parent", "reachable", "write_on_dir_refused", "unchecked_remove_file_breaks_wf"],
        "streams": [("tree", ["--prop", "C03"])],
        "rule": "tree stream: seeded histories of 30 (quick) / 60 (thorough) path-API calls on 13 configurations (mem, phys, altroot over each at depth 0-3, altroot of altroot, overlays with 1-3 layers over memory and physical layers with independently pre-populated, type-consistent layers, altroot over overlay, overlay over altroots, overlay over overlay); operations generated from the implementation's current state (valid, failing, missing-parent calls; names a, ab, a.b, é, nested); after EVERY call a full observable snapshot (exists, metadata, read_dir, open+read of each of 9 universe paths) and walk_dir of the root; each run is mirrored by the Lean model and by a model-only reference tree holding the abstract content; a case is distinct by (config, op, result class, snapshot)" + "; for C03: calls of the WRONG type for their target are generated on purpose; predicate per step: root is a directory, exists(p) implies parent(p) is a directory, walk_dir(root) reaches every existing path",
        "modelled_not_verified": ["PhysicalFS keeps a tree because the host file system does (assumption); altroot and overlay store nothing themselves: their view is compared on every step by the stream, the leaves they write to are covered by the theorem",
                                  "composite operations are sequences of the primitives covered by prim_wf, except create_dir_all which calls the backend's create_dir directly (covered by the stream)"],
        "assumptions": COMMON_ASSUME + ["write sessions are atomic (no call touches a path while a write handle to it is open: excluded by the property)", "removal of the root itself is set aside by the property"],
        "explanation": "theorems: WF (root is a directory, every other key has a directory parent) is preserved by every path-layer primitive over the in-memory leaf for EVERY path string and with no type restriction, hence by every finite history from the initial state; every entry of a WF map is listed by its parent and reachable from the root; the pre-fix remove_file is refuted",
    },
    "C05": {
        "module": "VfsModel.Props.C05",
        "namespace": "Vfs.C05",
        "required_theorems": ["readDir_is_children", "listing_nodup", "exists_iff_listed_once", "isDir_iff_listable", "isFile_iff_readable",
                              "listed_names_bare", "metadata_iff_exists", "absent_all_fail", "merge_nodup", "merge_mem"],
        "streams": [("tree", ["--prop", "C05"])],
        "rule": "tree stream: seeded histories of 30 (quick) / 60 (thorough) path-API calls on 13 configurations (mem, phys, altroot over each at depth 0-3, altroot of altroot, overlays with 1-3 layers over memory and physical layers with independently pre-populated, type-consistent layers, altroot over overlay, overlay over altroots, overlay over overlay); operations generated from the implementation's current state (valid, failing, missing-parent calls; names a, ab, a.b, é, nested); after EVERY call a full observable snapshot (exists, metadata, read_dir, open+read of each of 9 universe paths) and walk_dir of the root; each run is mirrored by the Lean model and by a model-only reference tree holding the abstract content; a case is distinct by (config, op, result class, snapshot)" + "; for C05: predicate per step and universe path: exists iff the parent lists the name exactly once, directory iff listable, file iff readable with metadata length = bytes read, names bare, absent paths fail every observer; walk_dir yields each descendant once and every directory before its contents",
        "modelled_not_verified": ["walk_dir's order/completeness is decided by the stream's predicate on the real iterator; no Lean theorem about WalkDirIterator is claimed here (partial)"],
        "assumptions": COMMON_ASSUME,
        "explanation": "theorems on the in-memory map: the string-prefix scan of read_dir lists exactly the bare names n with p/n a key (siblings a/ab/a.b cannot leak), no name twice, exists iff listed once, directory iff listable, file iff readable, metadata iff exists, absent paths fail all observers with not-found; the overlay's merge is duplicate-free and exact",
    },
    "C12": {
        "module": "VfsModel.Props.C12",
        "namespace": "Vfs.C12",
        "required_theorems": ["metadata_err", "createDir_err", "createDirAll_err", "copyFile_err", "moveDir_err", "removeDirAll_err", "readDir_err",
                              "join_trailing_slash_invalid", "mem_missing", "phys_missing", "mem_createDir_occupied", "mem_defaults"],
        "streams": [("tree", ["--prop", "C12"])],
        "rule": "tree stream: seeded histories of 30 (quick) / 60 (thorough) path-API calls on 13 configurations (mem, phys, altroot over each at depth 0-3, altroot of altroot, overlays with 1-3 layers over memory and physical layers with independently pre-populated, type-consistent layers, altroot over overlay, overlay over altroots, overlay over overlay); operations generated from the implementation's current state (valid, failing, missing-parent calls; names a, ab, a.b, é, nested); after EVERY call a full observable snapshot (exists, metadata, read_dir, open+read of each of 9 universe paths) and walk_dir of the root; each run is mirrored by the Lean model and by a model-only reference tree holding the abstract content; a case is distinct by (config, op, result class, snapshot)" + "; for C12: every failing call (wrong-type calls, composite and time-setting operations included): VfsError::path() must be the caller's path, its destination, an ancestor or a descendant in the caller's namespace and never the placeholder; class rules against the reference tree; error class AND path compared with the model",
        "modelled_not_verified": ["Display text of errors is not modelled; the placeholder is detected through path()"],
        "assumptions": COMMON_ASSUME + ["VfsPath::exists does not relabel: the label theorems for create_dir/create_file/is_file/is_dir assume the backend's exists never fails (true of all fault-free leaves, proved for leafFS/embedded/altroot)"],
        "explanation": "theorems: for an ARBITRARY backend (whatever label it puts on its errors) every error of a single-path VfsPath operation carries exactly the caller's path, of create_dir_all a prefix of it, of remove_dir_all the path or a descendant, of copy/move operations the source path; trailing-slash join is InvalidPath; defaults are NotSupported; missing entries are FileNotFound on both leaf models; occupied create_dir reports the occupant",
    },
    "C18": {
        "module": "VfsModel.Props.C18",
        "namespace": "Vfs.C18",
        "required_theorems": ["embedded_readonly", "observers_pure", "observers_no_panic", "has_new", "children_sound", "children_complete",
                              "file_visible", "dir_visible", "root_exists", "root_is_dir", "absent"],
        "streams": [("embed", [])],
        "rule": "embed stream (exhaustive over its path set): fixture folder with nested, dotted, multi-byte and prefix-sharing names; path set = every embedded file, every implied directory, the root, and for each of them a sibling, a prefix, an extension of the name and two deeper paths (also below files); all observers + walk_dir from every directory compared with PhysicalFS on the same folder and with the Lean model; 13 mutators on every path",
        "modelled_not_verified": ["rust-embed (RustEmbed::iter / get) provides the file list and bytes; timestamps of embedded files are not compared"],
        "assumptions": COMMON_ASSUME,
        "explanation": "theorems for EVERY file list: the directory map built by EmbeddedFS::new contains exactly the directory prefixes of the file paths and lists exactly their next components, without duplicates; files visible with their bytes and length; directories length 0, not openable; root exists and behaves like any directory; absent paths fail all observers; every mutator is NotSupported and changes nothing",
    },
    "C19": {
        "module": "VfsModel.Props.C19",
        "namespace": "Vfs.C19",
        "required_theorems": ["set_roundtrip_created", "set_roundtrip_modified", "set_roundtrip_accessed", "set_absent", "setters_commute_on_distinct_fields",
                              "publish_keeps_created_accessed", "append_session_keeps_created", "create_file_resets", "phys_setCreationTime_notSupported",
                              "world_setModificationTime", "overlay_setters", "altroot_setters", "embedded_setters"],
        "streams": [("tree", ["--prop", "C19"])],
        "rule": "tree stream with time operations on 9 configurations (memory, physical, altroot and overlay over them, stackings): histories of 30/60 calls mixing set_creation/modification/access_time (values 0, 1, 86400, 999999999, 1e9, 1234567890 s), writes, appends, removals; metadata with all three timestamps is read immediately before and after every setter (before any content read); on in-memory backed configurations the timestamps are also compared with the model",
        "modelled_not_verified": ["the host file system stamps physical timestamps itself: physical metadata is compared by the property predicate only (set value reported, other fields unchanged)", "sub-second values are not generated by this stream (whole seconds within the range the host round-trips)"],
        "assumptions": COMMON_ASSUME,
        "explanation": "theorems on the in-memory model: each setter round-trips its field exactly and leaves the other two, type, length, bytes and all other entries alone; absent path is not-found without change; setters on distinct fields commute; flush/append keep creation and access time; create_file resets; physical creation time is NotSupported without change; overlay setters act on write_path, altroot setters on the translated path, embedded is NotSupported",
    },
}
