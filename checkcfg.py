"""Per-property configuration of ./check: Lean module with the property theorems, namespace to
audit, harness streams (name, extra args) and the texts that go into the evidence file."""

COMMON_ASSUME = [
    "the hand-written Lean model corresponds to /repo only as far as the correspondence streams explore (exhaustive small scope + seeded random); the theorems themselves are unbounded",
]

PROPS = {
    "C06": {
        "module": "VfsModel.Props.C06",
        "namespace": "Vfs.C06",
        "required_theorems": ["join_total", "join_err_iff", "join_resolve", "join_canonical",
                              "join_assoc", "parent_join_name", "parent_canonical", "eq_iff"],
        "streams": [("path", [])],
        "rule": "path stream: every join argument of length <= 6 (quick) / 8 (thorough) over {'/','.','a','b','é'} against 5 canonical bases (exhaustive), "
                "plus seeded random arguments (<= 64 bytes, multi-byte, '..', '//', reserved names) against random canonical bases of depth <= 4, "
                "parent/filename/extension on every distinct result, random join/parent/root chains; a case is distinct by its (outcome, result string)",
        "modelled_not_verified": ["str::rfind/split/rsplitn/starts_with/ends_with are modelled by list functions (beforeLast/afterLast/splitOnC)",
                                  "Arc::ptr_eq is modelled as equality of a filesystem id"],
        "assumptions": COMMON_ASSUME + ["strings are modelled as lists of Unicode scalar values; the code only searches for the one-byte characters '/' and '.'"],
        "explanation": "theorems: join is total, errs iff trailing slash (InvalidPath), equals lexical resolution, preserves canonical form, is associative, "
                       "parent/filename invert join; tie: the Rust PathLike functions and the Lean transliteration are run on the same inputs and compared line by line",
    },
}
