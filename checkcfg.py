"""Per-property configuration of ./check: Lean module with the property theorems, namespace to
audit, harness streams (name, extra args) and the texts that go into the evidence file."""

COMMON_ASSUME = [
    "the hand-written Lean model corresponds to /repo only as far as the correspondence streams explore (exhaustive small scope + seeded random); the theorems themselves are unbounded",
]

PROPS = {
    "C06": {
        "module": "VfsModel.Props.C06",
        "namespace": "Vfs.C06",
        "required_theorems": ["join_total", "join_err_iff", "join_resolve", "join_canonical",
                              "join_assoc", "parent_join_name", "parent_canonical", "eq_iff"],
        "streams": [("path", [])],
        "rule": "path stream: every join argument of length <= 6 (quick) / 8 (thorough) over {'/','.','a','b','é'} against 5 canonical bases (exhaustive), "
                "plus seeded random arguments (<= 64 bytes, multi-byte, '..', '//', reserved names) against random canonical bases of depth <= 4, "
                "parent/filename/extension on every distinct result, random join/parent/root chains; a case is distinct by its (outcome, result string)",
        "modelled_not_verified": ["str::rfind/split/rsplitn/starts_with/ends_with are modelled by list functions (beforeLast/afterLast/splitOnC)",
                                  "Arc::ptr_eq is modelled as equality of a filesystem id"],
        "assumptions": COMMON_ASSUME + ["strings are modelled as lists of Unicode scalar values; the code only searches for the one-byte characters '/' and '.'"],
        "explanation": "theorems: join is total, errs iff trailing slash (InvalidPath), equals lexical resolution, preserves canonical form, is associative, "
                       "parent/filename invert join; tie: the Rust PathLike functions and the Lean transliteration are run on the same inputs and compared line by line",
    },
    "C14": {
        "module": "VfsModel.Props.C14",
        "namespace": "Vfs.C14",
        "required_theorems": ["read_is_cursor", "read_no_panic", "read_past_end", "seek_is_cursor", "seek_no_panic",
                              "write_length", "write_at", "write_before", "write_after", "write_at_end", "publish_exact"],
        "streams": [("handle", [])],
        "rule": "handle stream: per backend/adapter configuration (mem, phys, alt(mem), alt(phys), ovl(mem,mem), ovl(phys,mem), ovl(mem,phys)) files of 0/1/2/8191-8193 (thorough: 65535-65537, 100k-300k) bytes; "
                "scripts of 4-40 read(n)/seek calls with n in {0,1,2,3,7,8192,65536} and offsets incl. 0, +-1, i64::MIN, i64::MAX, u64::MAX (>= 2^63 on in-memory handles only), handle used after remove_file; "
                "1-6 write sessions per path (create / append) with writes, bounded seeks, flush and drop; every return value compared with std::io::Cursor and with the Lean model; a case is distinct by (config, request, answer)",
        "modelled_not_verified": ["std::io::Cursor<Vec<u8>> is modelled by cursorRead/cursorSeek/cursorWrite (its documented behaviour); WritableFile IS a Cursor in the Rust code",
                                  "std::fs::File handles of PhysicalFS and Cursor handles of EmbeddedFS are assumptions checked only by the stream",
                                  "a Vec is shorter than 2^64 bytes (hypothesis content.length < 2^64 of the read theorems)"],
        "assumptions": COMMON_ASSUME + ["seek on physical append handles is not compared (O_APPEND differs by design)", "zero-length writes past the end are not issued on physical handles (write(2) does not extend, Cursor pads)"],
        "explanation": "theorems: ReadableFile.read/seek = std cursor call by call for all contents/positions/offsets, never panic; cursor write laws (length, placement, zero-fill, tail kept, append at end); publish exact. tie: handle stream (CORR vs model, PROP vs std::io::Cursor in-process)",
    },
    "C04": {
        "module": "VfsModel.Props.C04",
        "namespace": "Vfs.C04",
        "required_theorems": ["reader_chunks", "reader_whole_file", "create_session_exact", "append_session_exact",
                              "flush_publishes", "metadata_len", "dir_len_zero", "copy_is_identity"],
        "streams": [("handle", [])],
        "rule": "same handle stream as C14: after every flush and every drop the file is re-read (fresh handle, whole and in chunks of 1/2/7/8192/65536 bytes) and metadata().len compared with the bytes std::io::Cursor prescribes; session sequences create/append on one path; directories report 0",
        "modelled_not_verified": ["std::io::copy is modelled as read_to_end + write_all", "PhysicalFS file bytes live in the host file system (assumption, compared by the stream)"],
        "assumptions": COMMON_ASSUME,
        "explanation": "theorems: chunked reads with any buffer sizes concatenate to the content; create session buffers exactly the bytes; append continues at the end; flush/drop publish exactly the buffer and a later reader sees it; metadata len; directories 0; io::copy identity",
    },
    "C08": {
        "module": "VfsModel.Props.C08",
        "namespace": "Vfs.C08",
        "required_theorems": ["overlay_all_preserve", "overlay_observers_pure", "lower_leaf_unchanged", "lower_leaf_unchanged_alt",
                              "lower_log_unchanged", "observers_log_clean"],
        "streams": [("record", ["--prop", "C08"])],
        "rule": "record stream: overlays with 2-4 layers over memory and physical leaves, altroot layers and a nested overlay as upper layer, pre-populated layers (types consistent across layers), "
                "a recording FileSystem wrapper around every layer; histories of 25 (quick) / 50 (thorough) path-API calls incl. wrong-type, failing, composite and time-setting calls; after every call the recorded "
                "(layer, method, path) list and a deep snapshot (type, bytes, creation and modification time) of every lower layer; a case is distinct by (config, op, result, recorded calls)",
        "modelled_not_verified": ["MemoryFS::open_file stamps the access time of the entry it serves (inside the layer, like the OS for a physical file): snapshots and the SameLeaf invariant ignore the access time",
                                  "the theorem is about the model's Overlay.fs; it is tied to src/impls/overlay.rs by comparing results, snapshots and the multiset of recorded trait calls per operation"],
        "assumptions": COMMON_ASSUME + ["layers whose filesystem value is the upper layer's are reached through the upper layer (hypothesis `same`); distinct layers live on distinct leaves in the concrete corollary"],
        "explanation": "theorems (for arbitrary inner filesystems and an arbitrary world invariant): every overlay method preserves what the upper layer's methods and the lower layers' OBSERVER methods preserve, "
                       "so nothing but observers is ever called on a lower layer; overlay observers preserve what the layers' observers preserve; instances: lower leaves unchanged (any number of layers, also under an altroot), no mutating call in the log of a lower recorder",
    },
    "C07": {
        "module": "VfsModel.Props.C07",
        "namespace": "Vfs.C07",
        "required_theorems": ["altroot_path_append", "join_never_escapes", "joins_never_escape", "altroot_exact_createDir", "altroot_exact_readDir",
                              "altroot_exact_copyFile", "physical_get_path_confined", "altroot_confined", "altroot_confined_log",
                              "altroot_confined_strict", "altroot_confined_nested", "raw_call_escapes"],
        "streams": [("record", ["--prop", "C07"]), ("tree", ["--prop", "C07"])],
        "rule": "record stream: altroot over a recorded underlying filesystem (memory, physical, overlay, altroot of altroot), altroot directory P of depth 0-3, content outside P; histories of 25/50 calls, one in five with a hostile path expression ('..' chains, absolute segments, '//'); "
                "per call: every recorded (method, path) of the underlying filesystem, deep snapshot of the underlying tree inside and outside P, the altroot's own snapshot. tree stream: the same histories on altroot configurations against the model and the reference tree re-rooted at P",
        "modelled_not_verified": ["PathBuf::join is modelled by pathBufJoin (relative argument appended, absolute argument replaces)", "symlinks are outside the property"],
        "assumptions": COMMON_ASSUME + ["reading recorded in DESIGN.md 6.0: the parent probe (exists+metadata, never a mutation) of VfsPath::create_dir/create_file on the altroot's own root looks at the directory chain P consists of; it is not counted as reading outside P (LogBelow's second disjunct)"],
        "explanation": "theorems: AltrootFS::path appends (canonical P, q); no join argument whatsoever escapes; each altroot method IS the VfsPath operation on P++q (equal state transformers); the only paths that reach the underlying filesystem have P as component-wise prefix (for every invariant, for the call log, nested altroots); PhysicalFS::get_path appends canonical paths to the host root; raw non-canonical trait calls do escape (why canonicity is needed)",
    },
    "C20": {
        "module": "VfsModel.Props.C20",
        "namespace": "Vfs.C20",
        "required_theorems": ["faultGate_faithful", "faultFS_faithful", "pathops_faithful", "transfers_faithful", "walk_faithful", "composites_faithful",
                              "altroot_faithful", "overlay_faithful", "stack_faithful", "ok_implies_no_fault", "fired_implies_io_error",
                              "fired_implies_no_panic", "existsSwallowing_not_faithful"],
        "streams": [("fault", [])],
        "rule": "fault stream: 11 configurations (plain memory/physical, altroot, overlays with the fault wrapper around the upper layer, a lower layer, or all layers, altroot over overlay); per scenario 2-11 fault-free prefix operations, "
                "then one operation (3 of 4 scenarios: create_dir_all, remove_dir_all, copy_file, move_file, copy_dir, move_dir, walk_dir, read_to_string) re-executed from scratch for EVERY k in 0..=number of underlying calls of the fault-free run, and once without fault; "
                "a probe is distinct by (config, op, k, result, snapshot)",
        "modelled_not_verified": ["the injected error is an IoError of kind Other; real I/O errors of other kinds behave like it only as far as no handler matches on them (the handlers match DirectoryExists, NotSupported, FileNotFound)",
                                  "HashMap/HashSet iteration order decides which call is the k-th in operations that iterate a listing: for those probes only the property-level facts are compared with the model"],
        "assumptions": COMMON_ASSUME,
        "explanation": "theorems: compositional calculus FaithfulIO (a fault that fires during m comes out as the injected error: not ok, not a panic, not a swallowed kind) for every VfsPath operation over arbitrary faithful filesystems, altroot, overlay (any layers, any nesting), walk items; the pre-fix OverlayFS::exists is refuted. tie: fault-injecting wrapper on the real code for every call position",
    },
}
