#!/usr/bin/env python3
"""Regenerates the generated blocks of DESIGN.md (between BEGIN/END markers) from the files the
checks themselves use: checkcfg.py (theorems, streams, rules, assumptions), manifest_texts.py
(levels), known_findings.json and seeded/ (patch metadata + MATRIX.txt)."""
import json, os, re, sys
sys.path.insert(0, os.path.dirname(os.path.abspath(__file__)))
from checkcfg import PROPS
from manifest_texts import TEXTS

V = os.path.dirname(os.path.abspath(__file__))
props = {json.loads(l)["id"]: json.loads(l) for l in open(os.path.join(V, "properties.jsonl"))}


def per_property():
    out = []
    for pid in sorted(PROPS):
        c = PROPS[pid]; t = TEXTS[pid]
        out.append("### %s — %s\n" % (pid, props[pid]["title"]))
        out.append("* **Level claimed.** %s\n" % t["level"])
        out.append("* **Theorems** (`lean/%s.lean`, namespace `%s`; the check fails if one of these names is missing or depends on an axiom outside the allow-list): %s.\n"
                   % (c["module"].replace(".", "/"), c["namespace"], ", ".join("`%s`" % x for x in c["required_theorems"])))
        out.append("* **What they say.** %s\n" % c["explanation"])
        out.append("* **Tie to the code** (streams: %s). %s\n" % (", ".join("`vh %s %s`" % (s, " ".join(a)) for s, a in c["streams"]), c["rule"]))
        out.append("* **Modelled, not verified.** %s\n" % "; ".join(c["modelled_not_verified"]))
        out.append("* **Assumptions.** %s\n" % "; ".join(c["assumptions"][1:] or ["none beyond the common one (§8)"]))
        out.append("")
    return "\n".join(out)


def findings():
    k = json.load(open(os.path.join(V, "known_findings.json")))["findings"]
    out = ["| id | status | properties | commit | what |", "|---|---|---|---|---|"]
    for f in k:
        out.append("| %s | %s | %s | %s | %s |" % (f["id"], f["status"], " ".join(f["properties"]), f.get("commit") or "—", f["what"].replace("|", "\\|")))
    return "\n".join(out)


def seeds():
    needs = json.load(open(os.path.join(V, "seeded", "needs.json")))
    # later rounds keep their description in seeded/<id>/meta.json
    for sid in sorted(os.listdir(os.path.join(V, "seeded"))):
        mp = os.path.join(V, "seeded", sid, "meta.json")
        if sid not in needs and os.path.exists(mp):
            m = json.load(open(mp))
            if m.get("change"):
                needs[sid] = {"change": m["change"], "needs": m.get("needs_to_manifest", "")}
    matrix = {}
    mp = os.path.join(V, "seeded", "MATRIX.txt")
    if os.path.exists(mp):
        for l in open(mp):
            parts = l.split()
            if len(parts) >= 3:
                matrix.setdefault(parts[0], []).append((parts[1], " ".join(parts[2:])))
    out = ["| seeded change | property | what was changed | what it needs to manifest | checks run → result |", "|---|---|---|---|---|"]
    for sid in sorted(needs):
        n = needs[sid]
        res = "; ".join("%s: %s" % (p, r) for p, r in matrix.get(sid, [])) or "(not evaluated yet)"
        out.append("| `seeded/%s` | %s | %s | %s | %s |" % (sid, sid.split("_")[1], n["change"].replace("|", "\\|"), n["needs"].replace("|", "\\|"), res))
    return "\n".join(out)


BLOCKS = {"PER-PROPERTY": per_property, "FINDINGS": findings, "SEEDS": seeds}


def main():
    p = os.path.join(V, "DESIGN.md")
    s = open(p).read()
    for name, fn in BLOCKS.items():
        b, e = "<!-- BEGIN GENERATED %s -->" % name, "<!-- END GENERATED %s -->" % name
        if b not in s or e not in s:
            print("marker %s missing" % name); continue
        i, j = s.index(b) + len(b), s.index(e)
        s = s[:i] + "\n" + fn() + "\n" + s[j:]
    open(p, "w").write(s)
    # also write seeded/<id>/meta.json additions
    needs = json.load(open(os.path.join(V, "seeded", "needs.json")))
    for sid, n in needs.items():
        mp = os.path.join(V, "seeded", sid, "meta.json")
        if not os.path.exists(mp):
            continue
        m = json.load(open(mp))
        m["change"] = n["change"]; m["needs_to_manifest"] = n["needs"]
        cp = os.path.join(V, "seeded", sid, "checks.txt")
        if os.path.exists(cp):
            m["checks_run_with_the_change_applied"] = [l.strip()[:200] for l in open(cp) if l.startswith("== ") or l.startswith("VIOLATION")]
        json.dump(m, open(mp, "w"), indent=1)
    print("DESIGN.md regenerated")


main()
