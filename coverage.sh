#!/bin/bash
# coverage.sh [tier] — how much of /repo/src the correspondence streams actually execute.
# Supporting tool (not a check, not a proof): the Lean theorems transfer to the Rust code only
# where the streams run that code next to the model, so code the streams never reach is code the
# tie does not cover. Builds the harness with source-based coverage (nightly toolchain, its own
# llvm-tools), runs every stream of every property once, and writes
#   coverage/summary.json   per source file: regions/lines covered, list of uncovered line ranges
#   coverage/uncovered.txt  the uncovered lines with their text (test modules excluded)
# Scratch output lives under /verif/scratch/cov and is removed at the end.
set -eu
cd "$(dirname "$0")"
V=$(pwd)
tier=${1:-quick}
export CARGO_NET_OFFLINE=true
LLVM=/root/.rustup/toolchains/nightly-x86_64-unknown-linux-gnu/lib/rustlib/x86_64-unknown-linux-gnu/bin
T=$V/scratch/cov
rm -rf "$T"; mkdir -p "$T/prof" "$T/scratch" coverage
(cd harness && LLVM_PROFILE_FILE="$T/buildprof-%p.profraw" RUSTFLAGS="-C instrument-coverage" cargo build --offline --target-dir "$T/target" 2>&1 | tail -2)
VH=$T/target/debug/vh
python3 - "$tier" "$VH" "$T" <<'PY'
import os, subprocess, sys
sys.path.insert(0, "/verif")
from checkcfg import PROPS
tier, vh, T = sys.argv[1:]
done = set()
for pid, cfg in sorted(PROPS.items()):
    for stream, extra in cfg["streams"]:
        key = (stream, tuple(extra))
        if key in done:
            continue
        done.add(key)
        env = dict(os.environ, LLVM_PROFILE_FILE="%s/prof/%s-%d-%%p.profraw" % (T, stream, len(done)))
        p = subprocess.run([vh, stream, "--tier", tier, "--driver", "/verif/lean/.lake/build/bin/vfsmodel",
                            "--out", T + "/r.json", "--scratch", T + "/scratch"] + list(extra),
                           cwd="/verif/harness", env=env, stdout=subprocess.PIPE, stderr=subprocess.STDOUT, text=True)
        print(pid, stream, " ".join(extra), "rc=%d" % p.returncode, p.stdout.strip().splitlines()[-1:] , flush=True)
PY
"$LLVM/llvm-profdata" merge -sparse "$T"/prof/*.profraw -o "$T/all.profdata"
"$LLVM/llvm-cov" export "$VH" -instr-profile="$T/all.profdata" -format=text \
   -ignore-filename-regex='(/\.cargo/|/rustc/|/verif/harness/)' > "$T/cov.json"
python3 - "$T/cov.json" <<'PY'
import json, sys, re
d = json.load(open(sys.argv[1]))
summary = {}; out = []
for f in d["data"][0]["files"]:
    name = f["filename"]
    if not name.startswith("/repo/src"):
        continue
    if "test_macros" in name:
        continue
    lines = open(name).read().split("\n")
    # first line of the #[cfg(test)] module: everything after it is test code
    cut = len(lines) + 1
    for i, l in enumerate(lines):
        if l.strip() == "#[cfg(test)]" and i + 1 < len(lines) and lines[i + 1].lstrip().startswith("mod "):
            cut = i + 1; break
    # segments: [line, col, count, hasCount, isRegionEntry, isGap]
    cov = {}
    segs = f["segments"]
    for a, b in zip(segs, segs[1:] + [None]):
        if not a[3] or a[5]:
            continue
        l0 = a[0]; l1 = b[0] if b else a[0]
        for ln in range(l0, l1 + 1):
            if ln == l1 and b and b[1] == 1 and l1 != l0:
                continue
            if ln >= cut:
                continue
            c = cov.get(ln)
            cov[ln] = max(c, a[2]) if c is not None else a[2]
    unc = sorted(l for l, c in cov.items() if c == 0 and lines[l - 1].strip() not in ("", "}", "{", "})", "});", "};", "}?;", ")", ");"))
    ranges = []
    for l in unc:
        if ranges and l == ranges[-1][1] + 1:
            ranges[-1][1] = l
        else:
            ranges.append([l, l])
    tot = len([l for l in cov]);
    summary[name] = {"lines_with_code": tot, "lines_never_executed": len(unc), "uncovered_ranges": ranges}
    for a, b in ranges:
        for l in range(a, b + 1):
            out.append("%s:%d: %s" % (name, l, lines[l - 1]))
json.dump(summary, open("/verif/coverage/summary.json", "w"), indent=1)
open("/verif/coverage/uncovered.txt", "w").write("\n".join(out) + "\n")
for n, s in sorted(summary.items()):
    print("%-45s code lines %4d  never executed %4d" % (n, s["lines_with_code"], s["lines_never_executed"]))
PY
rm -rf "$T"
