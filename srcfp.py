#!/usr/bin/env python3
"""
Source fingerprints of /repo/src (supporting tool of ./check; it decides nothing by itself).

The Lean model is hand-written: each model function transliterates a Rust function. Two facts
about the SOURCE are recorded for the tree the theorems and the correspondence were built
against, and re-computed on every run:

  1. fingerprints.json    per function (file::impl::fn) a hash of its comment-free,
                          whitespace-normalised text. A function whose hash differs from the
                          recorded one is code the correspondence has not been run against yet
                          in this form: ./check then ESCALATES the streams of the properties that
                          depend on that file (more seeds, same oracles) — it spends its effort
                          where the code changed. No alarm is raised from a fingerprint alone.

  2. port_residuals.json  the async port (src/async_vfs/**) is, function by function, either a
                          line-by-line port of its sync twin or a structurally different function
                          with its own Lean model (table in lean/VfsModel/Props/C15Async.lean).
                          For every function that exists on both sides the RESIDUAL is recorded:
                          the token diff between the sync text and the async text after deleting
                          the async noise (`async`, `.await`, `Async` prefixes, `#[async_trait]`,
                          `&*`). "The sync model function IS the model of the async function" is
                          exactly the claim "the residual is the recorded one". A changed
                          residual (one side changed without the other) is reported to ./check
                          C15 as a drifted correspondence, which escalates the async stream and
                          names the function if no failing input is found.

usage: srcfp.py record | status [--json]
"""
import difflib, hashlib, json, os, re, sys

VERIF = os.path.dirname(os.path.abspath(__file__))
REPO = os.environ.get("VERIF_REPO", "/repo")
FP = os.path.join(VERIF, "fingerprints.json")
RES = os.path.join(VERIF, "port_residuals.json")

FILES = ["src/path.rs", "src/filesystem.rs", "src/error.rs", "src/impls/memory.rs", "src/impls/physical.rs",
         "src/impls/altroot.rs", "src/impls/overlay.rs", "src/impls/embedded.rs",
         "src/async_vfs/path.rs", "src/async_vfs/filesystem.rs", "src/async_vfs/impls/memory.rs",
         "src/async_vfs/impls/physical.rs", "src/async_vfs/impls/altroot.rs", "src/async_vfs/impls/overlay.rs"]
PAIRS = [("src/path.rs", "src/async_vfs/path.rs"), ("src/filesystem.rs", "src/async_vfs/filesystem.rs"),
         ("src/impls/memory.rs", "src/async_vfs/impls/memory.rs"), ("src/impls/physical.rs", "src/async_vfs/impls/physical.rs"),
         ("src/impls/altroot.rs", "src/async_vfs/impls/altroot.rs"), ("src/impls/overlay.rs", "src/async_vfs/impls/overlay.rs")]

# which properties' streams exercise a file (coarse, by construction of the streams)
FILE_PROPS = {
    "src/path.rs": ["C01", "C02", "C03", "C04", "C05", "C06", "C07", "C08", "C09", "C10", "C11", "C12", "C13", "C19", "C20"],
    "src/filesystem.rs": ["C01", "C12", "C19"],
    "src/error.rs": ["C12", "C01"],
    "src/impls/memory.rs": ["C01", "C02", "C03", "C04", "C05", "C11", "C12", "C13", "C14", "C19"],
    "src/impls/physical.rs": ["C01", "C02", "C04", "C05", "C07", "C11", "C12", "C13", "C14", "C19"],
    "src/impls/altroot.rs": ["C01", "C03", "C05", "C07", "C11", "C12", "C13", "C20"],
    "src/impls/overlay.rs": ["C01", "C03", "C04", "C05", "C08", "C09", "C10", "C11", "C12", "C13", "C19", "C20"],
    "src/impls/embedded.rs": ["C18", "C13"],
}
for f in FILES:
    if f.startswith("src/async_vfs"):
        FILE_PROPS[f] = ["C15", "C13"]


def strip(text):
    """remove comments (line, doc, block) and string-insensitive whitespace runs; cut at the test module"""
    lines = text.split("\n")
    for i, l in enumerate(lines):
        if l.strip() == "#[cfg(test)]" and i + 1 < len(lines) and lines[i + 1].lstrip().startswith("mod "):
            lines = lines[:i]
            break
    out = []
    in_block = 0
    for l in lines:
        res = ""
        i = 0
        in_str = False
        while i < len(l):
            if in_block:
                if l.startswith("*/", i):
                    in_block -= 1; i += 2
                elif l.startswith("/*", i):
                    in_block += 1; i += 2
                else:
                    i += 1
                continue
            c = l[i]
            if in_str:
                res += c
                if c == "\\" and i + 1 < len(l):
                    res += l[i + 1]; i += 2; continue
                if c == '"':
                    in_str = False
                i += 1; continue
            if c == '"':
                in_str = True; res += c; i += 1; continue
            if l.startswith("//", i):
                break
            if l.startswith("/*", i):
                in_block += 1; i += 2; continue
            res += c; i += 1
        out.append(res)
    return "\n".join(out)


def functions(path):
    """{qualified name: normalised text} for every `fn` with a body in the non-test part of the file"""
    src = strip(open(os.path.join(REPO, path), encoding="utf-8").read())
    fns = {}
    # impl headers with their brace ranges
    impls = []
    for m in re.finditer(r"\bimpl\b[^{;]*\{", src):
        head = re.sub(r"\s+", " ", m.group(0)[:-1]).strip()
        end = match_brace(src, m.end() - 1)
        impls.append((m.start(), end, head))
    for m in re.finditer(r"\bfn\s+([A-Za-z_][A-Za-z0-9_]*)", src):
        # find the opening brace of the body (or ';' for a declaration)
        i = m.end()
        depth_par = 0
        while i < len(src):
            c = src[i]
            if c in "(<[":
                depth_par += 1
            elif c in ")>]":
                # '->' contains '>' : do not count it
                if not (c == ">" and src[i - 1] == "-"):
                    depth_par -= 1
            elif c == ";" and depth_par <= 0:
                i = -1; break
            elif c == "{" and depth_par <= 0:
                break
            i += 1
        if i < 0 or i >= len(src):
            continue
        end = match_brace(src, i)
        # start at the beginning of the line holding `fn` (keeps `pub async` etc.)
        ls = src.rfind("\n", 0, m.start()) + 1
        text = src[ls:end + 1]
        owner = ""
        for (a, b, head) in impls:
            if a < m.start() < b:
                owner = head
        name = (owner + "::" if owner else "") + m.group(1)
        k = name; n = 2
        while k in fns:
            k = "%s#%d" % (name, n); n += 1
        fns[k] = re.sub(r"\s+", " ", text).strip()
    return fns


def match_brace(src, i):
    depth = 0
    in_str = False
    in_chr = False
    while i < len(src):
        c = src[i]
        if in_str:
            if c == "\\":
                i += 2; continue
            if c == '"':
                in_str = False
        elif c == '"':
            in_str = True
        elif c == "'" and re.match(r"'(\\.|[^\\'])'", src[i:i + 4]):
            i += len(re.match(r"'(\\.|[^\\'])'", src[i:i + 4]).group(0)); continue
        elif c == "{":
            depth += 1
        elif c == "}":
            depth -= 1
            if depth == 0:
                return i
        i += 1
    return len(src) - 1


def h(s):
    return hashlib.sha256(s.encode()).hexdigest()[:16]


def fingerprints():
    out = {}
    for f in FILES:
        p = os.path.join(REPO, f)
        if not os.path.exists(p):
            continue
        for k, t in functions(f).items():
            out["%s::%s" % (f, k)] = h(t)
    return out


NOISE = [(r"\.await\b", ""), (r"\basync\s+move\b", ""), (r"\basync\b", ""), (r"#\[async_trait\]", ""), (r"#\[async_recursion\]", ""),
         (r"\bAsync(?=[A-Z])", ""), (r"&\*", "&"), (r"\bSend\s*\+\s*", ""), (r"\s+", " ")]


def denoise(t):
    for a, b in NOISE:
        t = re.sub(a, b, t)
    return t.strip()


def short(name):
    # `impl FileSystem for MemoryFS::read_dir` and `impl AsyncFileSystem for AsyncMemoryFS::read_dir` must meet
    return denoise(name.replace("::", " :: ")).replace(" :: ", "::")


def residuals():
    out = {}
    for s, a in PAIRS:
        if not (os.path.exists(os.path.join(REPO, s)) and os.path.exists(os.path.join(REPO, a))):
            continue
        fs = {short(k): v for k, v in functions(s).items()}
        fa = {short(k): v for k, v in functions(a).items()}
        for k in sorted(set(fs) & set(fa)):
            ts = re.findall(r"[A-Za-z_0-9]+|[^\sA-Za-z_0-9]", denoise(fs[k]))
            ta = re.findall(r"[A-Za-z_0-9]+|[^\sA-Za-z_0-9]", denoise(fa[k]))
            d = [l for l in difflib.unified_diff(ts, ta, lineterm="", n=0) if not l.startswith(("---", "+++", "@@"))]
            out["%s::%s" % (a, k)] = {"tokens_differing": len(d), "residual": h("\n".join(d))}
        out["%s::<only-async>" % a] = sorted(set(fa) - set(fs))
        out["%s::<only-sync>" % a] = sorted(set(fs) - set(fa))
    return out


def status():
    """returns dict: changed (list of function keys), files, props (to escalate), port_drift (list)"""
    rec = json.load(open(FP)) if os.path.exists(FP) else {}
    now = fingerprints()
    changed = sorted(k for k in set(rec) | set(now) if rec.get(k) != now.get(k))
    files = sorted(set(k.split("::")[0] for k in changed))
    props = sorted(set(p for f in files for p in FILE_PROPS.get(f, [])))
    recr = json.load(open(RES)) if os.path.exists(RES) else {}
    nowr = residuals()
    drift = sorted(k for k in set(recr) | set(nowr) if recr.get(k) != nowr.get(k))
    if drift:
        props = sorted(set(props) | {"C15"})
    return {"changed_functions": changed, "files": files, "escalate": props, "port_drift": drift,
            "functions": len(now), "port_pairs": len([k for k in nowr if "<only" not in k])}


if __name__ == "__main__":
    cmd = sys.argv[1] if len(sys.argv) > 1 else "status"
    if cmd == "record":
        json.dump(fingerprints(), open(FP, "w"), indent=0, sort_keys=True)
        json.dump(residuals(), open(RES, "w"), indent=0, sort_keys=True)
        st = status()
        print("recorded %d functions, %d sync/async pairs" % (st["functions"], st["port_pairs"]))
    else:
        st = status()
        print(json.dumps(st, indent=1) if "--json" in sys.argv else
              "functions=%d changed=%d files=%s escalate=%s port_drift=%s" % (st["functions"], len(st["changed_functions"]), st["files"], st["escalate"], st["port_drift"]))
