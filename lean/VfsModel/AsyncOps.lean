/-
  The functions of the async port (src/async_vfs/**) whose code is NOT a line-by-line port of
  their sync twin, as model functions next to the sync ones. (The classification of every function
  of the port is the table at the head of VfsModel/Props/C15Async.lean.)

    `AMem.*`, `aleafFS`        AsyncMemoryFS (src/async_vfs/impls/memory.rs): entries without
                               timestamps; `open_file` under the read lock, no access time;
                               `metadata` answers `None` three times; no time setters (trait
                               defaults: NotSupported); handles of type `AWHandle`
    `VPath.ioCopyFlushDrop`, `VPath.copyFileA`, `VPath.moveFileA`
                               `async_std::io::copy` flushes the writer when the reader is
                               exhausted (async-std-1.12.0 src/io/copy.rs:73-76), `std::io::copy`
                               does not: the destination is published by that flush AND by the drop
    `Overlay.insertAll`, `Overlay.removeMarks`, `Overlay.mergeListingsA`, `Overlay.readDirA`
                               AsyncOverlayFS::read_dir (src/async_vfs/impls/overlay.rs:93-131):
                               the two `for` loops are `while let Some(..) = stream.next().await`
                               loops, one `HashSet::insert` / `remove` per item
    `ListStream.*`             a fused stream of items with a pending oracle
                               (`futures::stream::iter`, `.map(..)` over it, async-std `ReadDir`)
                               and the `while let` loop over it
    `APhys.blockingIo`, `APhys.setTime`
                               AsyncPhysicalFS::set_modification_time / set_access_time run the
                               `filetime` call through `blocking_io` (physical.rs:39-62), which
                               answers NotSupported when there is no tokio runtime
  Await-level semantics: an M-action stands for a future driven to completion; what a `Pending`
  poll can do is modelled at the poll level (`AWHandle.pollFlush`, `ListStream.pollNext`,
  `AsyncWalk.pollNext`) and proved unobservable there.

  Core-only imports, total computable definitions.
-/
import VfsModel.AsyncHandle
import VfsModel.Adapters
namespace Vfs

/-! ### AsyncMemoryFS -/
namespace AMem

/-- `AsyncMemoryFsImpl::new` (memory.rs:352-365) -/
def init : FMap := [([], adirEntry)]

/-- `read_dir` (230-237): `list_dir` (57-86) is the sync `list_dir` verbatim -/
def readDir (m : FMap) (path : Str) : Res (List Str) := Mem.readDir m path

/-- `create_dir` (239-261) -/
def createDir (m : FMap) (path : Str) : Res Unit × FMap :=
  match Mem.ensureHasParent m path with       -- 241; `ensure_has_parent` (43-54) verbatim
  | .ok _ =>
    match m.find? path with
    | some e => (if e.ftype = .file then fail .fileExists else fail .dirExists, m)
    | none => (.ok (), m.insert path adirEntry)
  | .err k p => (.err k p, m)
  | .panic => (.panic, m)

/-- `open_file` (263-271): read lock, the map is not touched -/
def openFile (m : FMap) (path : Str) : Res RHandle :=
  match m.find? path with
  | none => fail .fileNotFound
  | some e => if e.ftype ≠ .file then fail .other else .ok { content := e.content, pos := 0 }

/-- `create_file` (273-293), the map part -/
def createFile (m : FMap) (path : Str) : Res Unit × FMap :=
  match Mem.ensureHasParent m path with
  | .ok _ =>
    match m.find? path with
    | some e =>
      if e.ftype = .dir then (fail .other, m) else (.ok (), m.insert path (afileEntry []))
    | none => (.ok (), m.insert path (afileEntry []))
  | .err k p => (.err k p, m)
  | .panic => (.panic, m)

/-- `append_file` (295-307): the initial buffer; the cursor is moved to its end (300) -/
def appendFile (m : FMap) (path : Str) : Res Bytes := Mem.appendFile m path

/-- `metadata` (309-320) -/
def metadata (m : FMap) (path : Str) : Res Meta :=
  match m.find? path with
  | none => fail .fileNotFound
  | some e => .ok { ftype := e.ftype, len := e.content.length,
                    created := .unset, modified := .unset, accessed := .unset }

/-- `exists` (322-324) -/
def exists_ (m : FMap) (path : Str) : Bool := m.contains path

/-- `remove_file` (326-332): verbatim -/
def removeFile (m : FMap) (path : Str) : Res Unit × FMap := Mem.removeFile m path

/-- `remove_dir` (334-344): verbatim -/
def removeDir (m : FMap) (path : Str) : Res Unit × FMap := Mem.removeDir m path

/-- `create_file` on leaf `i` of the world, with the writer it returns (287-292) -/
def createFileH (i : Nat) (path : Str) : World → Res AWHandle × World := fun w =>
  match w.leaf? i with
  | none => (.panic, w)
  | some l =>
    let (r, f) := createFile l.files path
    (r.map fun _ => { leaf := i, key := path, buf := [], pos := 0 }, w.setLeafFiles i f)

/-- `append_file` on leaf `i` of the world, with the writer it returns (299-306) -/
def appendFileH (i : Nat) (path : Str) : World → Res AWHandle × World := fun w =>
  match w.leaf? i with
  | none => (.panic, w)
  | some l =>
    ((appendFile l.files path).map fun b => { leaf := i, key := path, buf := b, pos := b.length }, w)

end AMem

/-- AsyncMemoryFS over leaf `i` as a record of the trait. The record type fixes the writer type
to the sync `WHandle`: the writers returned here stand for the `AWHandle` with the same fields
(`AWHandle.toSync`); their async behaviour is `AWHandle.poll*`, not `WHandle.*`. -/
def aleafFS (i : Nat) : FS where
  readDir p := onLeaf i fun l => (AMem.readDir l.files p, l.files)
  createDir p := onLeaf i fun l => AMem.createDir l.files p
  openFile p := onLeaf i fun l => (AMem.openFile l.files p, l.files)
  createFile p := onLeaf i fun l =>
    let (r, f) := AMem.createFile l.files p
    (r.map fun _ => { leaf := i, key := p, kind := .memFile, buf := [], pos := 0 }, f)
  appendFile p := onLeaf i fun l =>
    ((AMem.appendFile l.files p).map fun b =>
      { leaf := i, key := p, kind := .memFile, buf := b, pos := b.length }, l.files)
  metadata p := onLeaf i fun l => (AMem.metadata l.files p, l.files)
  -- no `set_*_time` in the impl block: the trait defaults (async_vfs/filesystem.rs:41-51)
  setCreationTime _ _ := M.failK .notSupported
  setModificationTime _ _ := M.failK .notSupported
  setAccessTime _ _ := M.failK .notSupported
  exists_ p := onLeaf i fun l => (.ok (AMem.exists_ l.files p), l.files)
  removeFile p := onLeaf i fun l => AMem.removeFile l.files p
  removeDir p := onLeaf i fun l => AMem.removeDir l.files p
  copyFile _ _ := M.failK .notSupported
  moveFile _ _ := M.failK .notSupported
  moveDir _ _ := M.failK .notSupported

/-! ### a fused stream with a pending oracle, and the `while let Some(x) = s.next().await` loop -/
namespace ListStream

/-- `poll_next` of a stream that still has the items `s` to deliver: `none` = `Pending` -/
def pollNext {α} (s : List α) (o : List Bool) : Option (Option α) × List α × List Bool :=
  let (pend, o) := askA o
  if pend then (none, s, o)
  else
    match s with
    | [] => (some none, [], o)
    | x :: rest => (some (some x), rest, o)

/-- `while let Some(x) = s.next().await { acc = body acc x }` polled at most `fuel` times:
`none` = the loop has not finished yet -/
def drain {α β} (body : β → α → β) : Nat → β → List α → List Bool → Option β
  | 0, _, _, _ => none
  | fuel + 1, acc, s, o =>
    match pollNext s o with
    | (none, s', o') => drain body fuel acc s' o'
    | (some none, _, _) => some acc
    | (some (some x), s', o') => drain body fuel (body acc x) s' o'

end ListStream

/-! ### AsyncOverlayFS::read_dir -/
namespace Overlay

/-- overlay.rs:109-112: `while let Some(path) = path_stream.next().await
{ entries.insert(path.filename()); }` -/
def insertAll : List VPath → List Str → List Str
  | [], acc => acc
  | c :: rest, acc =>
    insertAll rest (if filenameInternal c.path ∈ acc then acc else acc ++ [filenameInternal c.path])

/-- overlay.rs:122-128: `while let Some(path) = path_stream.next().await { if filename.ends_with
("_wo") { entries.remove(&filename[..filename.len() - 3]); } }` -/
def removeMarks : List VPath → List Str → List Str
  | [], acc => acc
  | m :: rest, acc =>
    match stripWo (filenameInternal m.path) with
    | some n => removeMarks rest (acc.filter fun x => x ≠ n)
    | none => removeMarks rest acc

/-- overlay.rs:106-114 -/
def mergeListingsA (actual : Str) : List VPath → List Str → M (List Str)
  | [], acc => pure acc
  | l :: rest, acc => do
    let lp ← M.ret (l.join actual)
    let isd ← lp.isDir
    if isd then do
      let cs ← lp.readDir
      mergeListingsA actual rest (insertAll cs acc)
    else mergeListingsA actual rest acc

/-- `AsyncOverlayFS::read_dir` (overlay.rs:93-131) -/
def readDirA (layers : List VPath) (p : Str) : M (List Str) := do
  let rp ← readPath layers p                               -- 98
  let ex ← rp.exists_                                      -- 99
  if !ex then M.failK .fileNotFound
  else do
    let isd ← rp.isDir                                     -- 102
    if !isd then M.failK .other
    else do
      let entries ← mergeListingsA (if p ≠ [] then tail1 p else p) layers []   -- 105-114
      let entries := if p = [] then entries.filter (fun n => n ≠ woDir) else entries  -- 115-118
      let wp ← M.ret ((writeLayer layers).join (woDir ++ p))                  -- 120
      let wex ← wp.exists_                                                    -- 121
      if wex then do
        let marks ← wp.readDir                                                -- 122
        pure (removeMarks marks entries)                                      -- 123-128
      else pure entries

end Overlay

/-! ### AsyncVfsPath::copy_file / move_file: `async_std::io::copy` -/
namespace VPath

/-- `async_std::io::copy(&mut src, &mut dest)` (src/io/copy.rs:70-86: fill_buf / poll_write until
the reader is exhausted, THEN `poll_flush` of the writer), after which both handles are dropped -/
def ioCopyFlushDrop (src : RHandle) (dst : WHandle) (selfPath : Str) : M Unit := do
  let bytes ← M.withPath selfPath (M.ret src.readToEnd.1)
  let (_, h') ← dst.write bytes
  h'.flush
  h'.drop

/-- `AsyncVfsPath::copy_file` (async_vfs/path.rs:784-830) -/
def copyFileA (src dst : VPath) : M Unit :=
  M.withPath src.path (do
    if (← dst.exists_) then M.failAt .other src.path
    else
      let fast ← (if src.fsId = dst.fsId then M.attempt (src.fs.copyFile src.path dst.path)
                  else pure (fail .notSupported))
      match fast with
      | .ok _ => pure ()
      | .panic => M.ret .panic
      | .err k p =>
        if k ≠ .notSupported then M.ret (.err k p)
        else
          let r ← src.openFile
          let w ← dst.createFile
          ioCopyFlushDrop r w src.path)

/-- `AsyncVfsPath::move_file` (async_vfs/path.rs:849-897): the destination is flushed inside
`io::copy`, the source is removed, the destination handle is dropped at the end of the block -/
def moveFileA (src dst : VPath) : M Unit :=
  M.withPath src.path (do
    if (← dst.exists_) then M.failAt .other dst.path
    else
      let fast ← (if src.fsId = dst.fsId then M.attempt (src.fs.moveFile src.path dst.path)
                  else pure (fail .notSupported))
      match fast with
      | .ok _ => pure ()
      | .panic => M.ret .panic
      | .err k p =>
        if k ≠ .notSupported then M.ret (.err k p)
        else
          let r ← src.openFile
          let w ← dst.createFile
          let bytes ← M.withPath src.path (M.ret r.readToEnd.1)
          let (_, h') ← w.write bytes
          h'.flush
          let res ← M.attempt src.removeFile
          h'.drop
          M.ret res)

end VPath

/-! ### AsyncPhysicalFS time setters -/
namespace APhys

/-- `blocking_io` (async_vfs/impls/physical.rs:39-62): with a tokio runtime the closure runs
(`spawn_blocking`, join errors aside); without one the answer is NotSupported and nothing runs -/
def blockingIo (tokio : Bool) (f : FMap → Res Unit × FMap) (m : FMap) : Res Unit × FMap :=
  if tokio then f m else (fail .notSupported, m)

/-- `set_modification_time` / `set_access_time` (physical.rs:137-151) -/
def setTime (tokio : Bool) (upd : Entry → Entry) (m : FMap) (path : Str) : Res Unit × FMap :=
  blockingIo tokio (fun m => Phys.setTime upd m path) m

end APhys

end Vfs
