/-
  Interleaving model of `OverlayFS` for `create_dir_all` (C17 for the overlay).

  GRANULARITY. One atomic step = one call of a `FileSystem` TRAIT METHOD of a layer's filesystem
  (`exists`, `metadata`, `create_dir`, `remove_file` of `layer.fs`): for `MemoryFS` these are the
  calls that C16 shows linearizable. Everything the overlay (src/impls/overlay.rs) and the
  `VfsPath` layer (src/path.rs) do between two such calls is thread-local. This is FINER than
  "one step per `VfsPath` primitive": `VfsPath::create_dir` on the write layer is three steps
  (`exists(parent)`, `metadata(parent)`, `fs.create_dir`), `VfsPath::is_dir` two, and
  `VfsPath::create_dir_all` on the write layer one step per prefix.

  PRESENTATION. A free monad `Prog α` over the layer calls: a program is either finished
  (`done r`, `r : Res α`) or a layer call together with the continuation that receives the call's
  outcome.  `Prog.run` interprets a program as a state transformer of the world (`M α`): all its
  calls one after the other; `Prog.step1` performs exactly the next call.  The overlay code for
  `create_dir_all` is written a second time in `Prog` (`OConc.createDirAll`), line by line after
  Adapters.lean / PathOps.lean; Props/C17OverlayConc.lean proves
  `(OConc.createDirAll layers p).run = VPath.createDirAll ⟨Overlay.fs layers, id, p⟩`
  for ARBITRARY layers, and that stepping one thread alone to completion computes `Prog.run`.

  `createDirOld` is the code before the repair of finding O11 (create in the write layer, then the
  non-tolerant `clear_whiteout`; `DirectoryExists` of the write layer returned at once).

  A system is the world plus one program per thread; `step s tid` lets thread `tid` perform its
  next layer call; a schedule is a list of thread ids (Conc.lean style).
-/
import VfsModel.Adapters
namespace Vfs.OConc
open Vfs Vfs.Overlay

/-- a program over layer calls; the continuation receives the outcome of the call -/
inductive Prog (α : Type) : Type where
  | done (r : Res α)
  | exists_ (fs : FS) (p : Str) (k : Res Bool → Prog α)
  | metadata (fs : FS) (p : Str) (k : Res Meta → Prog α)
  | createDir (fs : FS) (p : Str) (k : Res Unit → Prog α)
  | removeFile (fs : FS) (p : Str) (k : Res Unit → Prog α)

namespace Prog

/-- sequencing on the OUTCOME (for `match result { … }`) -/
def bindR {α β} : Prog α → (Res α → Prog β) → Prog β
  | .done r, f => f r
  | .exists_ fs p k, f => .exists_ fs p fun r => (k r).bindR f
  | .metadata fs p k, f => .metadata fs p fun r => (k r).bindR f
  | .createDir fs p k, f => .createDir fs p fun r => (k r).bindR f
  | .removeFile fs p k, f => .removeFile fs p fun r => (k r).bindR f

/-- `?`: errors and panics end the program -/
def lift {α β} (f : α → Prog β) : Res α → Prog β
  | .ok a => f a
  | .err k p => .done (.err k p)
  | .panic => .done .panic

instance : Monad Prog where
  pure a := .done (.ok a)
  bind m f := m.bindR (lift f)

def ret {α} (r : Res α) : Prog α := .done r
def failK {α} (k : ErrKind) : Prog α := .done (fail k)

/-- all calls of the program, one after the other -/
def run {α} : Prog α → M α
  | .done r, w => (r, w)
  | .exists_ fs p k, w => (k (fs.exists_ p w).1).run (fs.exists_ p w).2
  | .metadata fs p k, w => (k (fs.metadata p w).1).run (fs.metadata p w).2
  | .createDir fs p k, w => (k (fs.createDir p w).1).run (fs.createDir p w).2
  | .removeFile fs p k, w => (k (fs.removeFile p w).1).run (fs.removeFile p w).2

/-- exactly the next call -/
def step1 {α} : Prog α → World → Prog α × World
  | .done r, w => (.done r, w)
  | .exists_ fs p k, w => (k (fs.exists_ p w).1, (fs.exists_ p w).2)
  | .metadata fs p k, w => (k (fs.metadata p w).1, (fs.metadata p w).2)
  | .createDir fs p k, w => (k (fs.createDir p w).1, (fs.createDir p w).2)
  | .removeFile fs p k, w => (k (fs.removeFile p w).1, (fs.removeFile p w).2)

/-- the outcome of a finished program -/
def result? {α} : Prog α → Option (Res α)
  | .done r => some r
  | _ => none

def label {α} : Prog α → String
  | .done _ => "done" | .exists_ .. => "exists" | .metadata .. => "metadata"
  | .createDir .. => "create_dir" | .removeFile .. => "remove_file"

/-- number of calls the program makes from the world `w` when it runs alone -/
def callsFrom {α} : Prog α → World → Nat
  | .done _, _ => 0
  | .exists_ fs p k, w => (k (fs.exists_ p w).1).callsFrom (fs.exists_ p w).2 + 1
  | .metadata fs p k, w => (k (fs.metadata p w).1).callsFrom (fs.metadata p w).2 + 1
  | .createDir fs p k, w => (k (fs.createDir p w).1).callsFrom (fs.createDir p w).2 + 1
  | .removeFile fs p k, w => (k (fs.removeFile p w).1).callsFrom (fs.removeFile p w).2 + 1

end Prog

open Prog

/-! ### the `VfsPath` primitives the overlay invokes on layer paths (src/path.rs) -/

/-- `VfsPath::exists` -/
def vExists (q : VPath) : Prog Bool := .exists_ q.fs q.path .done

/-- `VfsPath::metadata` -/
def vMetadata (q : VPath) : Prog Meta := .metadata q.fs q.path fun r => .done (r.withPath q.path)

/-- `get_parent` -/
def vGetParent (q : VPath) : Prog Unit := do
  let par := q.parent
  if !(← vExists par) then ret (.err .other (some q.path))
  else
    let md ← vMetadata par
    if md.ftype ≠ .dir then ret (.err .other (some q.path)) else pure ()

/-- `VfsPath::create_dir` -/
def vCreateDir (q : VPath) : Prog Unit := do
  vGetParent q
  .createDir q.fs q.path fun r => .done (r.withPath q.path)

/-- the loop of `create_dir_all` over the prefixes, with `mk` as the filesystem's `create_dir` -/
def cdaLoop (mk : Str → Prog Unit) : List Str → Prog Unit
  | [] => pure ()
  | d :: rest => (mk d).bindR fun
    | .ok _ => cdaLoop mk rest
    | .err .dirExists _ => cdaLoop mk rest
    | .err k _ => .done (.err k (some d))
    | .panic => .done .panic

/-- `VfsPath::create_dir_all` over a filesystem whose `create_dir` is `mk` -/
def cdaWith (mk : Str → Prog Unit) (p : Str) : Prog Unit :=
  if p = [] then pure () else cdaLoop mk (VPath.dirPrefixes p)

/-- `VfsPath::create_dir_all` on a layer path -/
def vCreateDirAll (q : VPath) : Prog Unit := cdaWith (fun d => .createDir q.fs d .done) q.path

/-- `VfsPath::is_dir` -/
def vIsDir (q : VPath) : Prog Bool := do
  if !(← vExists q) then pure false
  else
    let md ← vMetadata q
    pure (md.ftype = .dir)

/-- `VfsPath::remove_file` -/
def vRemoveFile (q : VPath) : Prog Unit := .removeFile q.fs q.path fun r => .done (r.withPath q.path)

/-! ### the overlay (src/impls/overlay.rs), after Adapters.lean -/

def firstExisting (p : Str) : List VPath → Prog (Option VPath)
  | [] => pure none
  | l :: rest => do
    let lp ← ret (l.join (tail1 p))
    if (← vExists lp) then pure (some lp) else firstExisting p rest

/-- `read_path` -/
def readPath (layers : List VPath) (p : Str) : Prog VPath :=
  if p = [] then pure (writeLayer layers)
  else do
    let wo ← ret (whiteoutPath layers p)
    let marked ← vExists wo
    if marked then failK .fileNotFound
    else do
      let found ← firstExisting p layers
      match found with
      | some lp => pure lp
      | none => do
        let rp ← ret ((writeLayer layers).join (tail1 p))
        let ex ← vExists rp
        if !ex then failK .fileNotFound else pure rp

/-- `exists` -/
def oexists (layers : List VPath) (p : Str) : Prog Bool := do
  let wo ← ret (whiteoutPath layers p)
  let marked ← vExists wo
  if marked then pure false
  else (readPath layers p).bindR fun
    | .ok q => vExists q
    | .err .fileNotFound _ => .done (.ok false)
    | .err k pth => .done (.err k pth)
    | .panic => .done .panic

/-- `ensure_has_parent` -/
def ensureHasParent (layers : List VPath) (p : Str) : Prog Unit :=
  if '/' ∈ p then do
    let ex ← oexists layers (parentInternal p)
    if ex then do
      let rp ← readPath layers (parentInternal p)
      let isd ← vIsDir rp
      if isd then do
        let wp ← ret (writePath layers (parentInternal p))
        vCreateDirAll wp
      else failK .other
    else failK .other
  else failK .other

/-- `clear_whiteout` before the repair (still used by `create_file`) -/
def clearWhiteout (layers : List VPath) (p : Str) : Prog Unit := do
  let wo ← ret (whiteoutPath layers p)
  let ex ← vExists wo
  if ex then vRemoveFile wo else pure ()

/-- `clear_whiteout` of the repaired code: a marker that vanished is not an error -/
def clearWhiteoutT (layers : List VPath) (p : Str) : Prog Unit := do
  let wo ← ret (whiteoutPath layers p)
  let ex ← vExists wo
  if ex then (vRemoveFile wo).bindR fun
    | .err .fileNotFound _ => .done (.ok ())
    | r => .done r
  else pure ()

/-- `create_dir` up to the call into the write layer; `tail` is what happens from there -/
def createDirHead (layers : List VPath) (p : Str) (tail : VPath → Prog Unit) : Prog Unit := do
  ensureHasParent layers p
  let ex ← oexists layers p
  if ex then do
    let q ← readPath layers p
    let md ← vMetadata q
    failK (if md.ftype = .file then .fileExists else .dirExists)
  else do
    let wp ← ret (writePath layers p)
    tail wp

/-- `create_dir` (repaired: finding O11) -/
def createDir (layers : List VPath) (p : Str) : Prog Unit :=
  createDirHead layers p fun wp =>
    (vCreateDir wp).bindR fun
      | .ok () => clearWhiteoutT layers p
      | .err .dirExists pth => (clearWhiteoutT layers p).bindR fun
        | .ok () => .done (.err .dirExists pth)
        | .err k pth' => .done (.err k pth')
        | .panic => .done .panic
      | .err k pth => .done (.err k pth)
      | .panic => .done .panic

/-- `create_dir` BEFORE the repair of O11: `self.write_path(path)?.create_dir()?;
self.clear_whiteout(path)` -/
def createDirOld (layers : List VPath) (p : Str) : Prog Unit :=
  createDirHead layers p fun wp => do
    vCreateDir wp
    clearWhiteout layers p

/-- `create_dir_all` on the overlay path `p`: `VfsPath::create_dir_all` over `OverlayFS` -/
def createDirAll (layers : List VPath) (p : Str) : Prog Unit := cdaWith (createDir layers) p

/-- the same over the pre-repair `create_dir` -/
def createDirAllOld (layers : List VPath) (p : Str) : Prog Unit := cdaWith (createDirOld layers) p

/-! ### threads, schedules -/

structure Sys where
  world : World
  /-- the rest of each thread's program; `done r`: the thread has returned `r` -/
  threads : List (Prog Unit)

/-- thread `tid` performs its next layer call (nothing happens when it has finished) -/
def step (s : Sys) (tid : Nat) : Sys :=
  match s.threads[tid]? with
  | none => s
  | some t => { world := (t.step1 s.world).2, threads := s.threads.set tid (t.step1 s.world).1 }

def run (s : Sys) (schedule : List Nat) : Sys := schedule.foldl step s

def Sys.results (s : Sys) : List (Option (Res Unit)) := s.threads.map Prog.result?

def Sys.finished (s : Sys) : Bool := s.threads.all fun t => t.result?.isSome

/-- the system whose thread `i` calls `create_dir_all(paths[i])` on the overlay -/
def initSys (layers : List VPath) (w : World) (paths : List Str) : Sys :=
  { world := w, threads := paths.map (createDirAll layers) }

def initSysOld (layers : List VPath) (w : World) (paths : List Str) : Sys :=
  { world := w, threads := paths.map (createDirAllOld layers) }

/-! ### schedules of two threads, enumerated -/

/-- ALL interleavings of `a` steps of thread 0 with `b` steps of thread 1 (structural in the
fuel, so that it evaluates in the kernel) -/
def interleavingsF : Nat → Nat → Nat → List (List Nat)
  | 0, _, _ => []
  | _ + 1, 0, b => [List.replicate b 1]
  | _ + 1, a + 1, 0 => [List.replicate (a + 1) 0]
  | f + 1, a + 1, b + 1 =>
    (interleavingsF f a (b + 1)).map (0 :: ·) ++ (interleavingsF f (a + 1) b).map (1 :: ·)

def interleavings (a b : Nat) : List (List Nat) := interleavingsF (a + b + 1) a b

/-- all schedules of the shape 0^i 1^j 0^(a-i) 1^(b-j) and 1^j 0^i 1^(b-j) 0^(a-i): every way
of preempting each thread at most once -/
def preemptOnce (a b : Nat) : List (List Nat) :=
  (List.range (a + 1)).flatMap fun i => (List.range (b + 1)).flatMap fun j =>
    [List.replicate i 0 ++ List.replicate j 1 ++ List.replicate (a - i) 0 ++ List.replicate (b - j) 1,
     List.replicate j 1 ++ List.replicate i 0 ++ List.replicate (b - j) 1 ++ List.replicate (a - i) 0]

end Vfs.OConc
