/-
  File handles.
  * `Cursor*`    — `std::io::Cursor<Vec<u8>>` as specified by std (the reference contract of C14).
  * `MemReader`  — `ReadableFile` of src/impls/memory.rs, code-shaped, panic sites explicit.
  * `WHandle` operations on the world: `WritableFile` (buffer published on flush/drop) and the
    two `std::fs::File` write modes used by PhysicalFS.
-/
import VfsModel.Fs
namespace Vfs

inductive SeekFrom where
  | start (o : Nat)
  | cur (o : Int)
  | fromEnd (o : Int)
  deriving DecidableEq, Repr, Inhabited

def u64Max : Nat := 2 ^ 64

/-- std's `Cursor::seek`: `base.checked_add_signed(offset)`, error on negative / overflow -/
def cursorSeek (len pos : Nat) : SeekFrom → Res Nat
  | .start o => .ok o
  | .cur o =>
    if 0 ≤ (pos : Int) + o ∧ (pos : Int) + o < (u64Max : Int) then .ok ((pos : Int) + o).toNat
    else fail .io
  | .fromEnd o =>
    if 0 ≤ (len : Int) + o ∧ (len : Int) + o < (u64Max : Int) then .ok ((len : Int) + o).toNat
    else fail .io

/-- std's `Cursor::read`: the bytes from `min(pos, len)`, at most `n` -/
def cursorRead (content : Bytes) (pos n : Nat) : Bytes := (content.drop pos).take n

/-- zero-fill `buf` up to `pos` -/
def padTo (buf : Bytes) (pos : Nat) : Bytes := buf ++ List.replicate (pos - buf.length) 0

/-- std's `Cursor<Vec<u8>>::write`: zero-fill up to `pos`, overwrite, extend -/
def cursorWrite (buf : Bytes) (pos : Nat) (bs : Bytes) : Bytes :=
  (padTo buf pos).take pos ++ bs ++ (padTo buf pos).drop (pos + bs.length)

namespace RHandle

/-- `ReadableFile::len`: bytes left, `saturating_sub` -/
def remaining (r : RHandle) : Nat := r.content.length - r.pos

/-- `cmp::min(buf.len(), self.len() as usize)` -/
def amt (r : RHandle) (n : Nat) : Nat := min n r.remaining

/-- `ReadableFile::read` with a buffer of `n` bytes -/
def read (r : RHandle) (n : Nat) : Res Bytes × RHandle :=
  if r.bad then (fail .io, r)
  else if r.amt n = 0 then (.ok [], r)
  -- slice `content[pos .. pos+amt]` out of range, or `position += amt` overflowing
  else if r.pos + r.amt n > r.content.length ∨ r.pos + r.amt n ≥ u64Max then (.panic, r)
  else (.ok ((r.content.drop r.pos).take (r.amt n)), { r with pos := r.pos + r.amt n })

/-- the target of a relative seek, `None` on a negative or overflowing position -/
def seekTarget (base : Nat) (o : Int) : Option Nat :=
  if (base : Int) + o < 0 ∨ (base : Int) + o ≥ (u64Max : Int) then none
  else some ((base : Int) + o).toNat

/-- `ReadableFile::seek` -/
def seek (r : RHandle) (s : SeekFrom) : Res Nat × RHandle :=
  if r.bad then (fail .io, r) else
  match s with
  | .start o => (.ok o, { r with pos := o })
  | .cur o =>
    match seekTarget r.pos o with
    | none => (fail .io, r)
    | some t => (.ok t, { r with pos := t })
  | .fromEnd o =>
    match seekTarget r.content.length o with
    | none => (fail .io, r)
    | some t => (.ok t, { r with pos := t })

/-- `read_to_end` from the current position -/
def readToEnd (r : RHandle) : Res Bytes × RHandle :=
  if r.bad then (fail .io, r) else
  (.ok (r.content.drop r.pos), { r with pos := max r.pos r.content.length })

end RHandle

/-- `WritableFile::flush`: publish the buffer under the destination key — only while the file
still exists (a handle whose file was removed, or replaced by a directory, publishes nothing,
like writes to an unlinked file) -/
def memPublish (files : FMap) (key : Str) (buf : Bytes) : FMap :=
  match files.find? key with
  | some e =>
    if e.ftype = .file then
      files.insert key { ftype := .file, content := buf, created := e.created, modified := .now,
                         accessed := e.accessed }
    else files
  | none => files

namespace WHandle

def fileLen (h : WHandle) (w : World) : Nat :=
  match h.kind with
  | .memFile => h.buf.length
  | _ => match w.leaf? h.leaf with
    | some l => match l.files.find? h.key with
      | some e => e.content.length
      | none => 0
    | none => 0

/-- `Write::write(buf)`; returns the number of bytes written -/
def write (h : WHandle) (bs : Bytes) : M (Nat × WHandle) := fun w =>
  match h.kind with
  | .memFile =>
    (.ok (bs.length, { h with buf := cursorWrite h.buf h.pos bs, pos := h.pos + bs.length }), w)
  | .physCreate =>
    match w.leaf? h.leaf with
    | some l => match l.files.find? h.key with
      | some e =>
        -- a zero-length write(2) changes nothing (no zero-fill)
        let e' := if bs = [] then e
                  else { e with content := cursorWrite e.content h.pos bs, modified := .now }
        (.ok (bs.length, { h with pos := h.pos + bs.length }),
          w.setLeafFiles h.leaf (l.files.insert h.key e'))
      | none => (.ok (bs.length, { h with pos := h.pos + bs.length }), w)
    | none => (.ok (bs.length, h), w)
  | .physAppend =>
    match w.leaf? h.leaf with
    | some l => match l.files.find? h.key with
      | some e =>
        let e' := { e with content := e.content ++ bs, modified := .now }
        (.ok (bs.length, { h with pos := e'.content.length }),
          w.setLeafFiles h.leaf (l.files.insert h.key e'))
      | none => (.ok (bs.length, h), w)
    | none => (.ok (bs.length, h), w)

/-- `Seek::seek` on a write handle -/
def seek (h : WHandle) (s : SeekFrom) : M (Nat × WHandle) := fun w =>
  match cursorSeek (h.fileLen w) h.pos s with
  | .ok n => (.ok (n, { h with pos := n }), w)
  | .err k p => (.err k p, w)
  | .panic => (.panic, w)

/-- `Write::flush` -/
def flush (h : WHandle) : M Unit := fun w =>
  match h.kind with
  | .memFile =>
    match w.leaf? h.leaf with
    | some l => (.ok (), w.setLeafFiles h.leaf (memPublish l.files h.key h.buf))
    | none => (.ok (), w)
  | _ => (.ok (), w)

/-- `Drop` -/
def drop (h : WHandle) : M Unit := flush h

/-- `write_all` then drop: one completed write session -/
def writeAllAndDrop (h : WHandle) (bs : Bytes) : M Unit := do
  let (_, h') ← write h bs
  drop h'

end WHandle

end Vfs
