/-
  Small-step model of concurrent `create_dir_all` calls on a path of an AltrootFS (model file,
  core-only imports): the programs of OverlayConc.lean's `Prog` for `AltrootFS::create_dir`
  (`self.path(d)?.create_dir()`, src/impls/altroot.rs) under `VfsPath::create_dir_all`'s prefix loop.
  Executed by the driver (`aconc`) next to the real code under every explored schedule; the object
  of `C17.altroot_create_dir_all_concurrent` (Props/C17AltrootConc.lean, tie: Props/C17AltrootTie.lean).
-/
import VfsModel.OverlayConc
namespace Vfs.OConc
open Vfs Prog

/-- `AltrootFS::create_dir(d)`: translate the path, then the inner `VfsPath::create_dir` in small steps -/
def altMk (root : VPath) (d : Str) : Prog Unit := do
  let q ← Prog.ret (Altroot.path root d)
  vCreateDir q

/-- `VfsPath::create_dir_all` on the path `p` of `AltrootFS::new(root)` -/
def altCreateDirAll (root : VPath) (p : Str) : Prog Unit := cdaWith (altMk root) p

/-- thread `i` calls `create_dir_all(paths[i])` on the altroot -/
def initSysAlt (root : VPath) (w : World) (paths : List Str) : Sys :=
  { world := w, threads := paths.map (altCreateDirAll root) }

end Vfs.OConc
