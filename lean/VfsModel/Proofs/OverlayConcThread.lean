/-
  Lemmas for Props/C17OverlayConc.lean, part D: ONE thread running the overlay's `create_dir_all`
  under interference (`Evolve`): specifications (`WP`, Proofs/OverlayConcCalc.lean) of every
  function of VfsModel/OverlayConc.lean over n memory layers, each with a STABLE postcondition:
  `sp_firstLow`, `sp_firstExisting`, `sp_readPath`, `sp_oexists`, `sp_oexists_root`,
  `sp_readIsDir`, `sp_mkdirs`, `sp_ensureHasParent`, `sp_vCreateDir`, `sp_clearT`,
  `sp_createDir`, `sp_cdaLoop`, `sp_createDirAll`.
-/
import VfsModel.Proofs.OverlayConcInv
set_option linter.unusedVariables false
set_option linter.unusedSimpArgs false
namespace Vfs.OConc
open Vfs Vfs.Overlay Prog

theorem ret_ok_bind {α β} (a : α) (f : α → Prog β) : (Prog.ret (.ok a) >>= f) = f a := rfl
theorem pure_bind' {α β} (a : α) (f : α → Prog β) : ((pure a : Prog α) >>= f) = f a := rfl
theorem lift_ok {α β} (f : α → Prog β) (a : α) : Prog.lift f (.ok a) = f a := rfl
theorem lift_err {α β} (f : α → Prog β) (k : ErrKind) (p : Option Str) :
    Prog.lift f (.err k p) = .done (.err k p) := rfl

/-! ### `firstPath` without a world -/

theorem firstPath_some' {p : Str} {q : VPath} : ∀ {is ids : List Nat} {ms : List FMap},
    firstPath p is ids ms = some q →
    ∃ k i id m, FirstAt ms p k m ∧ is[k]? = some i ∧ ids[k]? = some id ∧
      q = { fs := leafFS i, fsId := id, path := p }
  | [], _, _, h => by simp [firstPath] at h
  | _ :: _, [], _, h => by simp [firstPath] at h
  | _ :: _, _ :: _, [], h => by simp [firstPath] at h
  | i :: is, id :: ids, m :: ms, h => by
    unfold firstPath at h
    by_cases h1 : m.contains p = true
    · rw [if_pos h1] at h
      injection h with h
      exact ⟨0, i, id, m, ⟨rfl, h1, fun j _ hj => by omega⟩, rfl, rfl, h.symm⟩
    · rw [if_neg h1] at h
      obtain ⟨k, i', id', m', hf, hi, hid, hq'⟩ := firstPath_some' h
      refine ⟨k + 1, i', id', m', ⟨by simpa using hf.get, hf.has, ?_⟩, by simpa using hi,
        by simpa using hid, hq'⟩
      intro j mj hj hmj
      cases j with
      | zero =>
        simp at hmj; subst hmj
        have : m.contains p = false := by simpa using h1
        unfold FMap.contains at this
        cases hfp : m.find? p <;> simp_all
      | succ j => exact hf.before j mj (by omega) (by simpa using hmj)

theorem firstPath_none' {p : Str} : ∀ {is ids : List Nat} {ms : List FMap},
    firstPath p is ids ms = none → is.length = ids.length → is.length = ms.length →
    ∀ m ∈ ms, m.find? p = none
  | [], _, ms, _, _, h2 => by
    cases ms with
    | nil => simp
    | cons _ _ => simp at h2
  | _ :: _, [], _, _, h1, _ => by simp at h1
  | _ :: _, _ :: _, [], _, _, h2 => by simp at h2
  | i :: is, id :: ids, m :: ms, h, h1, h2 => by
    unfold firstPath at h
    by_cases hc : m.contains p = true
    · rw [if_pos hc] at h; cases h
    · rw [if_neg hc] at h
      intro m' hm'
      rcases List.mem_cons.1 hm' with rfl | hm'
      · have : m'.contains p = false := by simpa using hc
        unfold FMap.contains at this
        cases hfp : m'.find? p <;> simp_all
      · exact firstPath_none' h (by simpa using h1) (by simpa using h2) m' hm'

section thread
variable {u idu : Nat} {is ids : List Nat} {ms : List FMap} {paths : List (List Str)}

/-- `WP` for the evolution relation of Proofs/OverlayConcInv.lean -/
abbrev W (u idu : Nat) (is ids : List Nat) (ms : List FMap) (paths : List (List Str)) {α}
    (t : Prog α) (Q : Res α → FMap → Prop) (mu : FMap) : Prop :=
  WP u idu is ids ms (Evolve paths) t Q mu

theorem eR : ∀ m, Evolve paths m m := Evolve.refl
theorem eT (hp : PathsOK paths) : ∀ a b c, Evolve paths a b → Evolve paths b c → Evolve paths a c :=
  fun _ _ _ => Evolve.trans hp

/-! ### the rules, in the shape the programs have -/

theorem W_done {α} (r : Res α) (Q : Res α → FMap → Prop) (mu : FMap)
    (h : ∀ mu', Evolve paths mu mu' → Q r mu') : W u idu is ids ms paths (.done r) Q mu :=
  WP_done r Q mu h

theorem W_pure {α} (a : α) (Q : Res α → FMap → Prop) (mu : FMap)
    (h : ∀ mu', Evolve paths mu mu' → Q (.ok a) mu') : W u idu is ids ms paths (pure a) Q mu :=
  WP_done _ Q mu h

theorem W_vExists_u {β} (id : Nat) (p : Str) (g : Res Bool → Prog β) (Q : Res β → FMap → Prop)
    (mu : FMap)
    (h : ∀ mu', Evolve paths mu mu' → W u idu is ids ms paths (g (.ok (mu'.contains p))) Q mu') :
    W u idu is ids ms paths ((vExists { fs := leafFS u, fsId := id, path := p }).bindR g) Q mu :=
  WP_exists_u eR p _ Q mu h

theorem W_vExists_low {β} (j i : Nat) (m : FMap) (hi : is[j]? = some i) (hm : ms[j]? = some m)
    (id : Nat) (p : Str) (g : Res Bool → Prog β) (Q : Res β → FMap → Prop) (mu : FMap)
    (h : ∀ mu', Evolve paths mu mu' → W u idu is ids ms paths (g (.ok (m.contains p))) Q mu') :
    W u idu is ids ms paths ((vExists { fs := leafFS i, fsId := id, path := p }).bindR g) Q mu :=
  WP_exists_low eR j i m hi hm p _ Q mu h

theorem W_vMetadata_u {β} (id : Nat) (p : Str) (g : Res Meta → Prog β) (Q : Res β → FMap → Prop)
    (mu : FMap)
    (h : ∀ mu', Evolve paths mu mu' →
      W u idu is ids ms paths (g ((Mem.metadata mu' p).withPath p)) Q mu') :
    W u idu is ids ms paths ((vMetadata { fs := leafFS u, fsId := id, path := p }).bindR g) Q mu :=
  WP_metadata_u eR p _ Q mu h

theorem W_vMetadata_low {β} (j i : Nat) (m : FMap) (hi : is[j]? = some i) (hm : ms[j]? = some m)
    (id : Nat) (p : Str) (g : Res Meta → Prog β) (Q : Res β → FMap → Prop) (mu : FMap)
    (h : ∀ mu', Evolve paths mu mu' →
      W u idu is ids ms paths (g ((Mem.metadata m p).withPath p)) Q mu') :
    W u idu is ids ms paths ((vMetadata { fs := leafFS i, fsId := id, path := p }).bindR g) Q mu :=
  WP_metadata_low eR j i m hi hm p _ Q mu h

variable (hp : PathsOK paths) (hl1 : is.length = ids.length) (hl2 : is.length = ms.length)

include hp in
theorem W_bind {α β} (m : Prog α) (f : α → Prog β) (P : Res α → FMap → Prop)
    (Q : Res β → FMap → Prop) (mu : FMap) (hm : W u idu is ids ms paths m P mu)
    (hf : ∀ r mu', Evolve paths mu mu' → P r mu' →
      W u idu is ids ms paths (Prog.lift f r) Q mu') :
    W u idu is ids ms paths (m >>= f) Q mu :=
  WP_bind eR (eT hp) m f P Q mu hm hf

include hp in
theorem W_bindR {α β} (m : Prog α) (f : Res α → Prog β) (P : Res α → FMap → Prop)
    (Q : Res β → FMap → Prop) (mu : FMap) (hm : W u idu is ids ms paths m P mu)
    (hf : ∀ r mu', Evolve paths mu mu' → P r mu' → W u idu is ids ms paths (f r) Q mu') :
    W u idu is ids ms paths (m.bindR f) Q mu :=
  WP_bindR eR (eT hp) m f P Q mu hm hf

/-! ### `firstExisting` -/

include hl1 hl2 in
/-- over the lower layers (which never change) `firstExisting` computes `firstPath` -/
theorem sp_firstLow (cs : List Str) (hne : cs ≠ []) (hcs : ∀ c ∈ cs, GoodComp c) :
    ∀ (n o : Nat) (mu : FMap), is.length - o = n →
      W u idu is ids ms paths (OConc.firstExisting (renderC cs) (layersN (is.drop o) (ids.drop o)))
        (fun r _ => r = .ok (firstPath (renderC cs) (is.drop o) (ids.drop o) (ms.drop o))) mu := by
  intro n
  induction n with
  | zero =>
    intro o mu ho
    have h1 : is.drop o = [] := List.drop_eq_nil_iff.2 (by omega)
    rw [h1]
    exact W_pure _ _ _ (fun _ _ => rfl)
  | succ n ih =>
    intro o mu ho
    have ho1 : o < is.length := by omega
    have ho2 : o < ids.length := by omega
    have ho3 : o < ms.length := by omega
    rw [List.drop_eq_getElem_cons ho1, List.drop_eq_getElem_cons ho2, List.drop_eq_getElem_cons ho3]
    unfold layersN OConc.firstExisting firstPath
    rw [join_leafRoot _ _ cs hne hcs, ret_ok_bind]
    refine W_vExists_low o is[o] ms[o] (List.getElem?_eq_getElem ho1) (List.getElem?_eq_getElem ho3)
      _ _ _ _ _ (fun mu1 h1 => ?_)
    rw [lift_ok]
    by_cases hc : ms[o].contains (renderC cs) = true
    · rw [if_pos hc, if_pos hc]
      exact W_pure _ _ _ (fun _ _ => rfl)
    · rw [if_neg hc, if_neg hc]
      exact ih (o + 1) mu1 (by omega)

/-- the lower layers hold a directory at `q`, if anything -/
def LowDir (ms : List FMap) (q : Str) : Prop := ∀ e, firstN ms q = some e → e.ftype = .dir

include hp hl1 hl2 in
/-- `firstExisting` over all layers: the write layer's path when the write layer has `q` at the
moment of its probe; otherwise `firstPath` over the lower layers — and if `q` was unmarked, what
the lower layers hold at `q` is a directory -/
theorem sp_firstExisting (cs : List Str) (hne : cs ≠ []) (hcs : ∀ c ∈ cs, GoodComp c)
    (hq : Req paths (renderC cs)) (mu : FMap) (g : GI ms paths mu) :
    W u idu is ids ms paths (OConc.firstExisting (renderC cs) (layersN (u :: is) (idu :: ids)))
      (fun r mu' =>
        (r = .ok (some { fs := leafFS u, fsId := idu, path := renderC cs }) ∧
          mu'.contains (renderC cs) = true) ∨
        (r = .ok (firstPath (renderC cs) is ids ms) ∧
          (mu.contains (marker (renderC cs)) = false → LowDir ms (renderC cs)))) mu := by
  unfold layersN OConc.firstExisting
  rw [join_leafRoot _ _ cs hne hcs, ret_ok_bind]
  refine W_vExists_u _ _ _ _ _ (fun mu1 h1 => ?_)
  rw [lift_ok]
  by_cases hc : mu1.contains (renderC cs) = true
  · rw [if_pos hc]
    exact W_pure _ _ _ (fun mu2 h2 => Or.inl ⟨rfl, h2.contains_req hp hq hc⟩)
  · rw [if_neg hc]
    have hlow : mu.contains (marker (renderC cs)) = false → LowDir ms (renderC cs) := by
      intro hm
      have hm1 := h1.unmarked hp hq.head hm
      rcases (g.evolve hp h1).low _ hq with h | h | h
      · rw [hm1] at h; cases h
      · exact absurd h hc
      · exact h
    have := sp_firstLow (u := u) (idu := idu) (paths := paths) hl1 hl2 cs hne hcs _ 0 mu1 rfl
    simp only [List.drop_zero] at this
    exact WP_mono _ _ _ _ (fun r mu' hr => Or.inr ⟨hr, hlow⟩) this

/-! ### `read_path` -/

/-- what `read_path(q)` returns: `q` unmarked, and the path of a layer that holds `q` — the write
layer, or the first lower layer that has it, as a directory -/
def Found (u idu : Nat) (is ids : List Nat) (ms : List FMap) (q : Str) (lp : VPath) (mu : FMap) :
    Prop :=
  mu.contains (marker q) = false ∧
  ((lp = { fs := leafFS u, fsId := idu, path := q } ∧ mu.contains q = true) ∨
   (∃ j i id m e, is[j]? = some i ∧ ids[j]? = some id ∧ lp = { fs := leafFS i, fsId := id, path := q } ∧
      FirstAt ms q j m ∧ m.find? q = some e ∧ e.ftype = .dir))

include hp in
theorem Found.evolve {q : Str} {lp : VPath} {mu mu' : FMap} (h : Found u idu is ids ms q lp mu)
    (hq : Req paths q) (he : Evolve paths mu mu') : Found u idu is ids ms q lp mu' := by
  obtain ⟨hm, h⟩ := h
  refine ⟨he.unmarked hp hq.head hm, ?_⟩
  rcases h with ⟨h1, h2⟩ | h
  · exact Or.inl ⟨h1, he.contains_req hp hq h2⟩
  · exact Or.inr h

theorem Found.visDir {q : Str} {lp : VPath} {mu : FMap} (h : Found u idu is ids ms q lp mu)
    (hq : Req paths q) (g : GI ms paths mu) : VisDir ms mu q := by
  obtain ⟨hm, h⟩ := h
  refine ⟨hm, ?_⟩
  rcases h with ⟨_, h2⟩ | ⟨j, i, id, m, e, _, _, _, hf, he, hd⟩
  · obtain ⟨e, he⟩ := (FMap.contains_iff _ _).1 h2
    exact ⟨e, by simp [firstN, he], g.dirs q hq e he⟩
  · rcases Option.eq_none_or_eq_some (mu.find? q) with h0 | ⟨e0, h0⟩
    · exact ⟨e, by simp [firstN, h0, firstN_of_firstAt hf, he], hd⟩
    · exact ⟨e0, by simp [firstN, h0], g.dirs q hq e0 h0⟩

include hp hl1 hl2 in
theorem sp_readPath (cs : List Str) (hne : cs ≠ []) (hcs : ∀ c ∈ cs, GoodComp c)
    (hq : Req paths (renderC cs)) (mu : FMap) (g : GI ms paths mu) :
    W u idu is ids ms paths (OConc.readPath (layersN (u :: is) (idu :: ids)) (renderC cs))
      (fun r mu' =>
        (∃ lp, r = .ok lp ∧ Found u idu is ids ms (renderC cs) lp mu') ∨
        (r = .err .fileNotFound none ∧ ¬ VisDir ms mu (renderC cs))) mu := by
  unfold OConc.readPath
  rw [if_neg (renderC_ne_nil hne), whiteoutPath_layersN cs hne hcs, ret_ok_bind]
  refine W_vExists_u _ _ _ _ _ (fun mu1 h1 => ?_)
  rw [lift_ok]
  by_cases hm : mu1.contains (marker (renderC cs)) = true
  · rw [if_pos hm]
    refine W_done _ _ _ (fun mu2 h2 => Or.inr ⟨rfl, ?_⟩)
    intro hv
    have := (hv.evolve hp hq h1).1
    rw [hm] at this; cases this
  · rw [if_neg hm]
    have hm1 : mu1.contains (marker (renderC cs)) = false := by simpa using hm
    have g1 := g.evolve hp h1
    refine W_bind hp _ _ _ _ _ (sp_firstExisting hp hl1 hl2 cs hne hcs hq mu1 g1) ?_
    rintro r mu2 h2 (⟨rfl, hc⟩ | ⟨rfl, hlow⟩)
    · rw [lift_ok]
      refine W_pure _ _ _ (fun mu3 h3 => Or.inl ⟨_, rfl, ?_⟩)
      exact ⟨(h2.trans hp h3).unmarked hp hq.head hm1, Or.inl ⟨rfl, h3.contains_req hp hq hc⟩⟩
    · rw [lift_ok]
      have hlow := hlow hm1
      cases hfp : firstPath (renderC cs) is ids ms with
      | some lp =>
        obtain ⟨j, i, id, m, hf, hi, hid, rfl⟩ := firstPath_some' hfp
        obtain ⟨e, he⟩ := (FMap.contains_iff _ _).1 hf.has
        have hd : e.ftype = .dir := hlow e (by rw [firstN_of_firstAt hf, he])
        refine W_pure _ _ _ (fun mu3 h3 => Or.inl ⟨_, rfl, ?_⟩)
        exact ⟨(h2.trans hp h3).unmarked hp hq.head hm1, Or.inr ⟨j, i, id, m, e, hi, hid, rfl, hf, he, hd⟩⟩
      | none =>
        have hnone := firstPath_none' hfp hl1 hl2
        show W u idu is ids ms paths (Prog.ret _ >>= _) _ _
        rw [writeLayer_layersN, join_leafRoot _ _ cs hne hcs, ret_ok_bind]
        refine W_vExists_u _ _ _ _ _ (fun mu3 h3 => ?_)
        rw [lift_ok]
        by_cases hc : mu3.contains (renderC cs) = true
        · simp only [hc, Bool.not_true, Bool.false_eq_true, ↓reduceIte]
          refine W_pure _ _ _ (fun mu4 h4 => Or.inl ⟨_, rfl, ?_⟩)
          exact ⟨((h2.trans hp h3).trans hp h4).unmarked hp hq.head hm1,
            Or.inl ⟨rfl, h4.contains_req hp hq hc⟩⟩
        · have hc' : mu3.contains (renderC cs) = false := by simpa using hc
          simp only [hc', Bool.not_false, ↓reduceIte]
          refine W_done _ _ _ (fun mu4 h4 => Or.inr ⟨rfl, ?_⟩)
          intro hv
          obtain ⟨_, e, he, _⟩ := hv.evolve hp hq ((h1.trans hp h2).trans hp h3)
          have h0 : mu3.find? (renderC cs) = none := by
            unfold FMap.contains at hc'
            cases hfp : mu3.find? (renderC cs) <;> simp_all
          simp only [firstN, h0, Option.none_or] at he
          rw [(firstN_none_iff ms _).2 hnone] at he
          cases he

/-! ### `exists` -/

include hp hl1 hl2 in
/-- `exists(q)`, `q` a requested prefix: an answer; `true` only if `q` is a directory of the view
from now on; and `true` if it was one before -/
theorem sp_oexists (cs : List Str) (hne : cs ≠ []) (hcs : ∀ c ∈ cs, GoodComp c)
    (hq : Req paths (renderC cs)) (mu : FMap) (g : GI ms paths mu) :
    W u idu is ids ms paths (OConc.oexists (layersN (u :: is) (idu :: ids)) (renderC cs))
      (fun r mu' => ∃ b, r = .ok b ∧ (b = true → VisDir ms mu' (renderC cs)) ∧
        (VisDir ms mu (renderC cs) → b = true)) mu := by
  unfold OConc.oexists
  rw [whiteoutPath_layersN cs hne hcs, ret_ok_bind]
  refine W_vExists_u _ _ _ _ _ (fun mu1 h1 => ?_)
  rw [lift_ok]
  by_cases hm : mu1.contains (marker (renderC cs)) = true
  · rw [if_pos hm]
    refine W_pure _ _ _ (fun mu2 h2 => ⟨false, rfl, by simp, ?_⟩)
    intro hv
    have := (hv.evolve hp hq h1).1
    rw [hm] at this; cases this
  · rw [if_neg hm]
    have g1 := g.evolve hp h1
    refine W_bindR hp _ _ _ _ _ (sp_readPath hp hl1 hl2 cs hne hcs hq mu1 g1) ?_
    rintro r mu2 h2 (⟨lp, rfl, hf⟩ | ⟨rfl, hnv⟩)
    · have g2 := g1.evolve hp h2
      have fin : ∀ mu3, Evolve paths mu2 mu3 → ∀ mu4, Evolve paths mu3 mu4 →
          ∃ b, (Res.ok true : Res Bool) = .ok b ∧ (b = true → VisDir ms mu4 (renderC cs)) ∧
            (VisDir ms mu (renderC cs) → b = true) := by
        intro mu3 h3 mu4 h4
        exact ⟨true, rfl, fun _ => ((hf.evolve hp hq h3).evolve hp hq h4).visDir hq
          ((g2.evolve hp h3).evolve hp h4), fun _ => rfl⟩
      obtain ⟨hm2, ⟨rfl, hc⟩ | ⟨j, i, id, m, e, hi, hid, rfl, hfa, he, hd⟩⟩ := hf
      · show W u idu is ids ms paths ((vExists _).bindR Prog.done) _ _
        refine W_vExists_u _ _ _ _ _ (fun mu3 h3 => ?_)
        rw [h3.contains_req hp hq hc]
        exact W_done _ _ _ (fun mu4 h4 => fin mu3 h3 mu4 h4)
      · obtain ⟨mj, hmj⟩ : ∃ mj, ms[j]? = some mj := ⟨m, hfa.get⟩
        show W u idu is ids ms paths ((vExists _).bindR Prog.done) _ _
        refine W_vExists_low j i m hi hfa.get _ _ _ _ _ (fun mu3 h3 => ?_)
        rw [hfa.has]
        exact W_done _ _ _ (fun mu4 h4 => fin mu3 h3 mu4 h4)
    · refine W_done _ _ _ (fun mu3 h3 => ⟨false, rfl, by simp, ?_⟩)
      intro hv
      exact absurd (hv.evolve hp hq h1) hnv

/-- `exists("")` answers `true` -/
theorem sp_oexists_root (mu : FMap) (g : GI ms paths mu) (hp : PathsOK paths) :
    W u idu is ids ms paths (OConc.oexists (layersN (u :: is) (idu :: ids)) [])
      (fun r _ => r = .ok true) mu := by
  unfold OConc.oexists
  rw [whiteoutPath_root _ rfl, writeLayer_layersN, ret_ok_bind]
  refine W_vExists_u _ _ _ _ _ (fun mu1 h1 => ?_)
  rw [lift_ok, (g.evolve hp h1).noRootMark]
  simp only [Bool.false_eq_true, ↓reduceIte]
  show W u idu is ids ms paths ((vExists _).bindR Prog.done) _ _
  rw [writeLayer_layersN]
  refine W_vExists_u _ _ _ _ _ (fun mu2 h2 => ?_)
  obtain ⟨e, he, _⟩ := ((g.evolve hp h1).evolve hp h2).root
  rw [contains_of_find he]
  exact W_done _ _ _ (fun _ _ => rfl)

/-! ### `is_dir` on what `read_path` returned -/

/-- `k` is not the marker of a requested prefix (so its entry in the write layer persists) -/
def NotMk (paths : List (List Str)) (k : Str) : Prop := ∀ q, Req paths q → k ≠ marker q

theorem NotMk.root : NotMk paths [] := fun q _ => nil_ne_marker q

include hp in
theorem NotMk.req {q : Str} (hq : Req paths q) : NotMk paths q :=
  fun q' hq' => hq.ne_marker_req hp hq'

theorem IsDirU.evolve {k : Str} {mu mu' : FMap} (hd : IsDirU mu k) (hk : NotMk paths k)
    (h : Evolve paths mu mu') : IsDirU mu' k := by
  obtain ⟨e, he, hd⟩ := hd
  exact ⟨e, h.keeps' hk he, hd⟩

theorem metadata_of_find {m : FMap} {p : Str} {e : Entry} (h : m.find? p = some e) :
    (Mem.metadata m p).withPath p = .ok e.meta := by
  simp [Mem.metadata, h, Res.withPath]

theorem sp_vIsDir_u (id : Nat) (p : Str) (hk : NotMk paths p) (mu : FMap) (hd : IsDirU mu p) :
    W u idu is ids ms paths (vIsDir { fs := leafFS u, fsId := id, path := p })
      (fun r _ => r = .ok true) mu := by
  unfold vIsDir
  refine W_vExists_u _ _ _ _ _ (fun mu1 h1 => ?_)
  obtain ⟨e1, he1, _⟩ := hd.evolve hk h1
  rw [lift_ok, contains_of_find he1]
  simp only [Bool.not_true, Bool.false_eq_true, ↓reduceIte]
  refine W_vMetadata_u _ _ _ _ _ (fun mu2 h2 => ?_)
  obtain ⟨e2, he2, hd2⟩ := (hd.evolve hk h1).evolve hk h2
  rw [metadata_of_find he2, lift_ok]
  refine W_pure _ _ _ (fun _ _ => ?_)
  simp [Entry.meta, hd2]

theorem sp_vIsDir_low (j i : Nat) (m : FMap) (hi : is[j]? = some i) (hm : ms[j]? = some m)
    (id : Nat) (p : Str) (e : Entry) (he : m.find? p = some e) (hd : e.ftype = .dir) (mu : FMap) :
    W u idu is ids ms paths (vIsDir { fs := leafFS i, fsId := id, path := p })
      (fun r _ => r = .ok true) mu := by
  unfold vIsDir
  refine W_vExists_low j i m hi hm _ _ _ _ _ (fun mu1 h1 => ?_)
  rw [lift_ok, contains_of_find he]
  simp only [Bool.not_true, Bool.false_eq_true, ↓reduceIte]
  refine W_vMetadata_low j i m hi hm _ _ _ _ _ (fun mu2 h2 => ?_)
  rw [metadata_of_find he, lift_ok]
  refine W_pure _ _ _ (fun _ _ => ?_)
  simp [Entry.meta, hd]

include hp in
theorem sp_vIsDir_found {q : Str} {lp : VPath} (hq : Req paths q) (mu : FMap) (g : GI ms paths mu)
    (hf : Found u idu is ids ms q lp mu) :
    W u idu is ids ms paths (vIsDir lp) (fun r _ => r = .ok true) mu := by
  obtain ⟨_, ⟨rfl, hc⟩ | ⟨j, i, id, m, e, hi, hid, rfl, hfa, he, hd⟩⟩ := hf
  · obtain ⟨e, he⟩ := (FMap.contains_iff _ _).1 hc
    exact sp_vIsDir_u _ _ (NotMk.req hp hq) mu ⟨e, he, g.dirs q hq e he⟩
  · exact sp_vIsDir_low j i m hi hfa.get _ _ e he hd mu

/-! ### `create_dir_all` on the write layer -/

theorem W_createDir_u {α} (p : Str) (k : Res Unit → Prog α) (Q : Res α → FMap → Prop) (mu : FMap)
    (h : ∀ mu', Evolve paths mu mu' → Evolve paths mu' (Mem.createDir mu' p).2 ∧
      W u idu is ids ms paths (k (Mem.createDir mu' p).1) Q (Mem.createDir mu' p).2) :
    W u idu is ids ms paths (.createDir (leafFS u) p k) Q mu :=
  WP_createDir_u p k Q mu h

theorem W_removeFile_u {α} (p : Str) (k : Res Unit → Prog α) (Q : Res α → FMap → Prop) (mu : FMap)
    (h : ∀ mu', Evolve paths mu mu' → Evolve paths mu' (Mem.removeFile mu' p).2 ∧
      W u idu is ids ms paths (k (Mem.removeFile mu' p).1) Q (Mem.removeFile mu' p).2) :
    W u idu is ids ms paths (.removeFile (leafFS u) p k) Q mu :=
  WP_removeFile_u p k Q mu h

include hp in
/-- the loop of `create_dir_all` on the write layer, one `MemoryFS::create_dir` per prefix, under
interference: every prefix ends up a directory of the write layer -/
theorem sp_mkLoop (rest : List Str) : ∀ (pre : List Str) (mu : FMap),
    NotMk paths (renderC pre) → (∀ c ∈ pre ++ rest, '/' ∉ c) →
    (∀ k ∈ chain pre rest, Req paths k) → GI ms paths mu → IsDirU mu (renderC pre) →
    W u idu is ids ms paths (cdaLoop (fun d => Prog.createDir (leafFS u) d Prog.done) (chain pre rest))
      (fun r mu' => r = .ok () ∧ IsDirU mu' (renderC (pre ++ rest))) mu := by
  induction rest with
  | nil =>
    intro pre mu hk _ _ _ hd
    simp only [chain, cdaLoop, List.append_nil]
    exact W_pure _ _ _ (fun mu1 h1 => ⟨rfl, hd.evolve hk h1⟩)
  | cons c rest ih =>
    intro pre mu hk hsl hreq g hd
    simp only [chain, cdaLoop]
    have hd0 : Req paths (renderC (pre ++ [c])) := hreq _ (by simp [chain])
    have hsl' : ∀ x ∈ pre ++ [c], '/' ∉ x := fun x hx => hsl x (by
      simp only [List.mem_append, List.mem_cons, List.mem_singleton, List.not_mem_nil,
        or_false] at hx ⊢
      rcases hx with hx | hx
      · exact Or.inl hx
      · exact Or.inr (Or.inl hx))
    have hpar : parentInternal (renderC (pre ++ [c])) = renderC pre := by
      rw [parentInternal_renderC _ hsl', List.dropLast_concat]
    refine W_createDir_u _ _ _ _ (fun mu1 h1 => ?_)
    have g1 := g.evolve hp h1
    obtain ⟨hres, hnow⟩ := createDir_spec mu1 (renderC (pre ++ [c])) (slash_mem_renderC (by simp))
      (by rw [hpar]; exact hd.evolve hk h1) (g1.dirs _ hd0)
    have hev := evolve_createDir (paths := paths) mu1 hd0
    refine ⟨hev, ?_⟩
    have hnext : W u idu is ids ms paths
        (cdaLoop (fun d => Prog.createDir (leafFS u) d Prog.done) (chain (pre ++ [c]) rest))
        (fun r mu' => r = .ok () ∧ IsDirU mu' (renderC (pre ++ c :: rest)))
        (Mem.createDir mu1 (renderC (pre ++ [c]))).2 := by
      have := ih (pre ++ [c]) _ (NotMk.req hp hd0)
        (fun x hx => hsl x (by simpa [List.append_assoc] using hx))
        (fun k hk' => hreq k (by simp [chain, hk'])) (g1.evolve hp hev) hnow
      simpa [List.append_assoc] using this
    rcases hres with hres | hres <;> rw [hres] <;> exact hnext

include hp in
theorem sp_mkdirs (ds : List Str) (hds : ∀ c ∈ ds, GoodComp c)
    (hreq : ∀ k ∈ chain [] ds, Req paths k) (mu : FMap) (g : GI ms paths mu) :
    W u idu is ids ms paths (vCreateDirAll { fs := leafFS u, fsId := idu, path := renderC ds })
      (fun r mu' => r = .ok () ∧ IsDirU mu' (renderC ds)) mu := by
  unfold vCreateDirAll cdaWith
  by_cases hne : ds = []
  · subst hne
    simp only [renderC_nil, ↓reduceIte]
    exact W_pure _ _ _ (fun mu1 h1 => ⟨rfl, (g.evolve hp h1).root⟩)
  · simp only [if_neg (renderC_ne_nil hne), dirPrefixes_renderC ds (good_noSlash hds)]
    have := sp_mkLoop (u := u) (idu := idu) (is := is) (ids := ids) hp ds [] mu NotMk.root
      (by simpa using good_noSlash hds) hreq g (by simpa using g.root)
    simpa using this

/-! ### `ensure_has_parent` -/

/-- the parent of the next prefix: the root, or a requested prefix that is a directory of the view -/
def ParentOK (ms : List FMap) (paths : List (List Str)) (ds : List Str) (mu : FMap) : Prop :=
  ds = [] ∨ (Req paths (renderC ds) ∧ VisDir ms mu (renderC ds))

include hp hl1 hl2 in
theorem sp_ensureHasParent (ds : List Str) (n : Str) (hds : ∀ c ∈ ds, GoodComp c) (hn : GoodComp n)
    (hreq : ∀ k ∈ chain [] ds, Req paths k) (mu : FMap) (g : GI ms paths mu)
    (hpar : ParentOK ms paths ds mu) :
    W u idu is ids ms paths (OConc.ensureHasParent (layersN (u :: is) (idu :: ids)) (renderC (ds ++ [n])))
      (fun r mu' => r = .ok () ∧ IsDirU mu' (renderC ds)) mu := by
  unfold OConc.ensureHasParent
  rw [if_pos (slash_mem_renderC (by simp)), parent_snoc ds n hds hn]
  rcases hpar with rfl | ⟨hq, hv⟩
  · simp only [renderC_nil]
    refine W_bind hp _ _ _ _ _ (sp_oexists_root mu g hp) ?_
    rintro r mu1 h1 rfl
    rw [lift_ok]
    simp only [↓reduceIte]
    have g1 := g.evolve hp h1
    have hrp : OConc.readPath (layersN (u :: is) (idu :: ids)) [] = pure (writeLayer (layersN (u :: is) (idu :: ids))) := by
      unfold OConc.readPath; rfl
    rw [hrp, pure_bind', writeLayer_layersN]
    refine W_bind hp _ _ _ _ _ (sp_vIsDir_u _ _ NotMk.root mu1 g1.root) ?_
    rintro r mu2 h2 rfl
    rw [lift_ok]
    simp only [↓reduceIte]
    have g2 := g1.evolve hp h2
    rw [writePath_root, writeLayer_layersN, ret_ok_bind]
    exact sp_mkdirs hp [] (by simp) (by simp [chain]) mu2 g2
  · have hne : ds ≠ [] := by
      intro h0; subst h0
      have := hq.head; simp at this
    refine W_bind hp _ _ _ _ _ (sp_oexists hp hl1 hl2 ds hne hds hq mu g) ?_
    rintro r mu1 h1 ⟨b, rfl, _, hb⟩
    have hb := hb hv
    subst hb
    rw [lift_ok]
    simp only [↓reduceIte]
    have g1 := g.evolve hp h1
    have hv1 := hv.evolve hp hq h1
    refine W_bind hp _ _ _ _ _ (sp_readPath hp hl1 hl2 ds hne hds hq mu1 g1) ?_
    rintro r mu2 h2 (⟨lp, rfl, hf⟩ | ⟨_, hnv⟩)
    · rw [lift_ok]
      have g2 := g1.evolve hp h2
      refine W_bind hp _ _ _ _ _ (sp_vIsDir_found hp hq mu2 g2 hf) ?_
      rintro r mu3 h3 rfl
      rw [lift_ok]
      simp only [↓reduceIte]
      have g3 := g2.evolve hp h3
      rw [writePath_layersN_any ds hds, ret_ok_bind]
      exact sp_mkdirs hp ds hds hreq mu3 g3
    · exact absurd hv1 hnv

/-! ### `VfsPath::create_dir` on the write layer; the marker -/

include hp in
theorem sp_vCreateDir (ds : List Str) (n : Str) (hds : ∀ c ∈ ds, GoodComp c) (hn : GoodComp n)
    (hq : Req paths (renderC (ds ++ [n]))) (hk : NotMk paths (renderC ds)) (mu : FMap)
    (g : GI ms paths mu) (hd : IsDirU mu (renderC ds)) :
    W u idu is ids ms paths (vCreateDir { fs := leafFS u, fsId := idu, path := renderC (ds ++ [n]) })
      (fun r mu' => (r = .ok () ∨ r = .err .dirExists (some (renderC (ds ++ [n])))) ∧
        IsDirU mu' (renderC (ds ++ [n]))) mu := by
  have hpi := parent_snoc ds n hds hn
  unfold vCreateDir vGetParent
  simp only [VPath.parent, VPath.withStr, hpi]
  rw [Prog.bind_def, Prog.bind_def]
  show W u idu is ids ms paths (((vExists _).bindR _).bindR _) _ _
  -- reassociate: the probe first
  refine WP_exists_u eR _ _ _ _ (fun mu1 h1 => ?_)
  obtain ⟨e1, he1, _⟩ := hd.evolve hk h1
  rw [contains_of_find he1]
  simp only [Prog.bindR, Prog.lift, Bool.not_true, Bool.false_eq_true, ↓reduceIte]
  show W u idu is ids ms paths (Prog.metadata _ _ _) _ _
  refine WP_metadata_u eR _ _ _ _ (fun mu2 h2 => ?_)
  have hd2 := (hd.evolve hk h1).evolve hk h2
  obtain ⟨e2, he2, hdd2⟩ := hd2
  have hmd : Mem.metadata mu2 (renderC ds) = .ok e2.meta := by simp [Mem.metadata, he2]
  rw [hmd]
  simp only [Prog.bindR, Prog.lift, Res.withPath, Entry.meta, hdd2, ne_eq, not_true_eq_false,
    ↓reduceIte]
  show W u idu is ids ms paths (Prog.createDir _ _ _) _ _
  refine W_createDir_u _ _ _ _ (fun mu3 h3 => ?_)
  have g3 := ((g.evolve hp h1).evolve hp h2).evolve hp h3
  have hd3 : IsDirU mu3 (renderC ds) := IsDirU.evolve ⟨e2, he2, hdd2⟩ hk h3
  obtain ⟨hres, hnow⟩ := createDir_spec mu3 (renderC (ds ++ [n])) (slash_mem_renderC (by simp))
    (by rw [hpi]; exact hd3) (g3.dirs _ hq)
  refine ⟨evolve_createDir mu3 hq, ?_⟩
  refine W_done _ _ _ (fun mu4 h4 => ⟨?_, hnow.evolve (NotMk.req hp hq) h4⟩)
  rcases hres with hres | hres <;> rw [hres] <;> simp [Res.withPath]

include hp in
/-- the tolerant `clear_whiteout`: returns `Ok`, and the marker is gone for good -/
theorem sp_clearT (cs : List Str) (hne : cs ≠ []) (hcs : ∀ c ∈ cs, GoodComp c)
    (hq : Req paths (renderC cs)) (mu : FMap) (g : GI ms paths mu) (hd : IsDirU mu (renderC cs)) :
    W u idu is ids ms paths (OConc.clearWhiteoutT (layersN (u :: is) (idu :: ids)) (renderC cs))
      (fun r mu' => r = .ok () ∧ mu'.contains (marker (renderC cs)) = false ∧
        IsDirU mu' (renderC cs)) mu := by
  have hk := NotMk.req hp hq
  unfold OConc.clearWhiteoutT
  rw [whiteoutPath_layersN cs hne hcs, ret_ok_bind]
  refine W_vExists_u _ _ _ _ _ (fun mu1 h1 => ?_)
  rw [lift_ok]
  by_cases hm : mu1.contains (marker (renderC cs)) = true
  · rw [if_pos hm]
    show W u idu is ids ms paths (Prog.removeFile _ _ _) _ _
    refine W_removeFile_u _ _ _ _ (fun mu2 h2 => ?_)
    have g2 := (g.evolve hp h1).evolve hp h2
    have hd2 := (hd.evolve (NotMk.req hp hq) h1).evolve (NotMk.req hp hq) h2
    refine ⟨evolve_removeMarker hp mu2 hq hd2, ?_⟩
    rcases Option.eq_none_or_eq_some (mu2.find? (marker (renderC cs))) with hf | ⟨e, hf⟩
    · simp only [Mem.removeFile, hf, fail, Prog.bindR, Res.withPath]
      exact W_done _ _ _ (fun mu3 h3 => ⟨rfl, h3.unmarked hp hq.head (contains_of_none hf),
        hd2.evolve hk h3⟩)
    · have hfile := g2.markFile _ hq e hf
      simp only [Mem.removeFile, hf, hfile, ne_eq, not_true_eq_false, ↓reduceIte, Prog.bindR,
        Res.withPath]
      have hd2' : IsDirU (mu2.erase (marker (renderC cs))) (renderC cs) := by
        obtain ⟨e', he', hd'⟩ := hd2
        exact ⟨e', by rw [FMap.find?_erase_ne _ _ _ (hk _ hq)]; exact he', hd'⟩
      refine W_done _ _ _ (fun mu3 h3 => ⟨rfl, h3.unmarked hp hq.head ?_, hd2'.evolve hk h3⟩)
      unfold FMap.contains
      rw [FMap.find?_erase_self]; rfl
  · rw [if_neg hm]
    have hm1 : mu1.contains (marker (renderC cs)) = false := by simpa using hm
    exact W_pure _ _ _ (fun mu2 h2 => ⟨rfl, h2.unmarked hp hq.head hm1,
      (hd.evolve hk h1).evolve hk h2⟩)

/-! ### `create_dir` of the overlay -/

include hp hl1 hl2 in
/-- **`OverlayFS::create_dir` on the next prefix, under interference**: when the parent is the
root or a directory of the view, the call returns `Ok` or `DirectoryExists`, and from then on the
prefix is a directory of the view -/
theorem sp_createDir (ds : List Str) (n : Str) (hds : ∀ c ∈ ds, GoodComp c) (hn : GoodComp n)
    (hq : Req paths (renderC (ds ++ [n]))) (hreq : ∀ k ∈ chain [] ds, Req paths k) (mu : FMap)
    (g : GI ms paths mu) (hpar : ParentOK ms paths ds mu) :
    W u idu is ids ms paths (OConc.createDir (layersN (u :: is) (idu :: ids)) (renderC (ds ++ [n])))
      (fun r mu' => (r = .ok () ∨ ∃ pth, r = .err .dirExists pth) ∧
        VisDir ms mu' (renderC (ds ++ [n]))) mu := by
  have hcs := good_snoc hds hn
  have hne : ds ++ [n] ≠ [] := by simp
  have hkp : NotMk paths (renderC ds) := by
    rcases hpar with rfl | ⟨hqp, _⟩
    · exact NotMk.root
    · exact NotMk.req hp hqp
  unfold OConc.createDir OConc.createDirHead
  refine W_bind hp _ _ _ _ _ (sp_ensureHasParent hp hl1 hl2 ds n hds hn hreq mu g hpar) ?_
  rintro r mu1 h1 ⟨rfl, hd1⟩
  rw [lift_ok]
  have g1 := g.evolve hp h1
  refine W_bind hp _ _ _ _ _ (sp_oexists hp hl1 hl2 _ hne hcs hq mu1 g1) ?_
  rintro r mu2 h2 ⟨b, rfl, hb, _⟩
  rw [lift_ok]
  have g2 := g1.evolve hp h2
  cases b with
  | true =>
    simp only [↓reduceIte]
    have hv2 := hb rfl
    refine W_bind hp _ _ _ _ _ (sp_readPath hp hl1 hl2 _ hne hcs hq mu2 g2) ?_
    rintro r mu3 h3 (⟨lp, rfl, hf⟩ | ⟨_, hnv⟩)
    · rw [lift_ok]
      have g3 := g2.evolve hp h3
      have fin : ∀ (e : Entry), e.ftype = .dir → ∀ mu4, Evolve paths mu3 mu4 →
          W u idu is ids ms paths
            (Prog.lift (fun md : Meta => (Prog.failK (if md.ftype = .file then .fileExists else .dirExists) : Prog Unit))
              (Res.ok e.meta))
            (fun r mu' => (r = .ok () ∨ ∃ pth, r = .err .dirExists pth) ∧
              VisDir ms mu' (renderC (ds ++ [n]))) mu4 := by
        intro e hd mu4 h4
        rw [lift_ok]
        simp only [Entry.meta, hd, reduceCtorEq, ↓reduceIte, Prog.failK, fail]
        exact W_done _ _ _ (fun mu5 h5 => ⟨Or.inr ⟨_, rfl⟩,
          ((hf.evolve hp hq h4).evolve hp hq h5).visDir hq ((g3.evolve hp h4).evolve hp h5)⟩)
      obtain ⟨_, ⟨rfl, hc⟩ | ⟨j, i, id, m, e, hi, hid, rfl, hfa, he, hd⟩⟩ := hf
      · rw [Prog.bind_def]
        refine W_vMetadata_u _ _ _ _ _ (fun mu4 h4 => ?_)
        obtain ⟨e4, he4⟩ := (FMap.contains_iff _ _).1 (h4.contains_req hp hq hc)
        rw [metadata_of_find he4]
        exact fin e4 ((g3.evolve hp h4).dirs _ hq e4 he4) mu4 h4
      · rw [Prog.bind_def]
        refine W_vMetadata_low j i m hi hfa.get _ _ _ _ _ (fun mu4 h4 => ?_)
        rw [metadata_of_find he]
        exact fin e hd mu4 h4
    · exact absurd hv2 hnv
  | false =>
    simp only [Bool.false_eq_true, ↓reduceIte]
    rw [writePath_layersN _ hne hcs, ret_ok_bind]
    have hd2 := hd1.evolve hkp h2
    refine W_bindR hp _ _ _ _ _ (sp_vCreateDir hp ds n hds hn hq hkp mu2 g2 hd2) ?_
    rintro r mu3 h3 ⟨hr, hd3⟩
    have g3 := g2.evolve hp h3
    rcases hr with rfl | rfl
    · show W u idu is ids ms paths (OConc.clearWhiteoutT _ _) _ _
      refine WP_mono _ _ _ _ ?_ (sp_clearT hp _ hne hcs hq mu3 g3 hd3)
      rintro r mu4 ⟨hr, hm, hd4⟩
      exact ⟨Or.inl hr, VisDir.of_upper hm hd4⟩
    · show W u idu is ids ms paths ((OConc.clearWhiteoutT _ _).bindR _) _ _
      refine W_bindR hp _ _ _ _ _ (sp_clearT hp _ hne hcs hq mu3 g3 hd3) ?_
      rintro r mu4 h4 ⟨rfl, hm, hd4⟩
      exact W_done _ _ _ (fun mu5 h5 => ⟨Or.inr ⟨_, rfl⟩,
        (VisDir.of_upper hm hd4).evolve hp hq h5⟩)

/-! ### `create_dir_all` on the overlay -/

theorem take_succ_snoc' (cs : List Str) (k : Nat) (hk : k < cs.length) :
    cs.take (k + 1) = cs.take k ++ [cs[k]] := by
  rw [List.take_add_one, List.getElem?_eq_getElem hk]; rfl

/-- the non-empty prefixes of `cs` up to length `k` are directories of the n-layer view -/
def VisUpTo (ms : List FMap) (cs : List Str) (k : Nat) (mu : FMap) : Prop :=
  ∀ j, 1 ≤ j → j ≤ k → VisDir ms mu (renderC (cs.take j))

include hp in
theorem VisUpTo.evolve {cs : List Str} (hcs : cs ∈ paths) {k : Nat} (hk : k ≤ cs.length)
    {mu mu' : FMap} (h : VisUpTo ms cs k mu) (he : Evolve paths mu mu') : VisUpTo ms cs k mu' :=
  fun j h1 h2 => (h j h1 h2).evolve hp (Req.take hcs h1 (by omega)) he

include hp hl1 hl2 in
/-- the loop of `create_dir_all` over the prefixes `k+1 …` of a requested path -/
theorem sp_cdaLoop (cs : List Str) (hcs : cs ∈ paths) : ∀ (n k : Nat) (mu : FMap),
    cs.length - k = n → k ≤ cs.length → GI ms paths mu → VisUpTo ms cs k mu →
    W u idu is ids ms paths
      (cdaLoop (OConc.createDir (layersN (u :: is) (idu :: ids))) (chain (cs.take k) (cs.drop k)))
      (fun r mu' => r = .ok () ∧ VisUpTo ms cs cs.length mu') mu := by
  intro n
  induction n with
  | zero =>
    intro k mu hn hk g hv
    have hkl : k = cs.length := by omega
    subst hkl
    simp only [List.drop_length, chain, cdaLoop]
    exact W_pure _ _ _ (fun mu1 h1 => ⟨rfl, hv.evolve hp hcs (Nat.le_refl _) h1⟩)
  | succ n ih =>
    intro k mu hn hk g hv
    have hlt : k < cs.length := by omega
    have hgood := (hp cs hcs).1
    rw [List.drop_eq_getElem_cons hlt]
    simp only [chain, cdaLoop]
    have htk := take_succ_snoc' cs k hlt
    have hq : Req paths (renderC (cs.take k ++ [cs[k]])) := by
      rw [← htk]; exact Req.take hcs (by omega) (by omega)
    have hpar : ParentOK ms paths (cs.take k) mu := by
      by_cases h0 : k = 0
      · left; subst h0; rfl
      · right; exact ⟨Req.take hcs (by omega) hk, hv k (by omega) (Nat.le_refl _)⟩
    refine W_bindR hp _ _ _ _ _
      (sp_createDir hp hl1 hl2 (cs.take k) cs[k] (fun c hc => hgood c (List.mem_of_mem_take hc))
        (hgood _ (List.getElem_mem hlt)) hq (Req.chain hcs hk) mu g hpar) ?_
    rintro r mu1 h1 ⟨hr, hvis⟩
    have hnext : W u idu is ids ms paths
        (cdaLoop (OConc.createDir (layersN (u :: is) (idu :: ids)))
          (chain (cs.take k ++ [cs[k]]) (cs.drop (k + 1))))
        (fun r mu' => r = .ok () ∧ VisUpTo ms cs cs.length mu') mu1 := by
      rw [← htk]
      refine ih (k + 1) mu1 (by omega) (by omega) (g.evolve hp h1) ?_
      intro j hj1 hj2
      by_cases hjk : j ≤ k
      · exact (hv j hj1 hjk).evolve hp (Req.take hcs hj1 (by omega)) h1
      · have : j = k + 1 := by omega
        subst this
        rw [htk]; exact hvis
    rcases hr with rfl | ⟨pth, rfl⟩
    · exact hnext
    · exact hnext

include hp hl1 hl2 in
/-- **one thread under interference**: `create_dir_all(p)` on the overlay, `p` a requested path,
started in a state satisfying the global invariant, with all other threads (and itself) changing
the write layer only by `Evolve`: returns `Ok`, and from then on every non-empty prefix of `p` is
a directory of the n-layer view -/
theorem sp_createDirAll (cs : List Str) (hcs : cs ∈ paths) (mu : FMap) (g : GI ms paths mu) :
    W u idu is ids ms paths (OConc.createDirAll (layersN (u :: is) (idu :: ids)) (renderC cs))
      (fun r mu' => r = .ok () ∧ VisUpTo ms cs cs.length mu') mu := by
  unfold OConc.createDirAll cdaWith
  by_cases hne : cs = []
  · subst hne
    simp only [renderC_nil, ↓reduceIte]
    exact W_pure _ _ _ (fun mu1 h1 => ⟨rfl, fun j h1 h2 => by simp at h2; omega⟩)
  · rw [if_neg (renderC_ne_nil hne), dirPrefixes_renderC cs (good_noSlash (hp cs hcs).1)]
    have := sp_cdaLoop (u := u) (idu := idu) hp hl1 hl2 cs hcs cs.length 0 mu (by omega) (by omega) g
      (fun j h1 h2 => by omega)
    simpa using this

end thread
end Vfs.OConc
