/-
  Helper lemmas for Props/C11Overlay.lean (the composite `VfsPath` operations through an overlay
  over n in-memory layers, relative to the overlay's view `oview`).

  * `OSt … w mu`: the bundle of the setting and the invariants (`OWN`, `OInv`, `ViewWF`);
  * the observers and the three primitive mutators used by the composite operations, AT THE
    `VfsPath` LEVEL, as one-step facts about `OSt` states: `o_exists`, `o_metadata`, `o_readDir`,
    `o_removeFile_step`, `o_removeDir_step`, `o_createDir_trait` (trait-level `create_dir`, as the
    loop of `create_dir_all` calls it);
  * `InSub cs q` ("q is a disciplined path at or below `renderC cs`"), `GoneP v v' S` ("the paths
    in `S` are absent from `v'`, every other visible path keeps its `vcore`"), and their calculus;
  * `present_below_dir`: in a well-formed view everything present hangs below directories.
  Nothing is stated here that is not also (re)stated in Props/C11Overlay.lean.
-/
import VfsModel.Props.C01Overlay
import VfsModel.Props.C05WalkView
set_option linter.unusedSimpArgs false
set_option linter.unusedVariables false
set_option linter.unusedSectionVars false
namespace Vfs.C11
open Vfs Vfs.Overlay Vfs.C02 Vfs.C01 Vfs.C09 Vfs.C05

/-! ### the state bundle -/

/-- the n-layer setting with the invariants: the world `w` holds the upper map `mu` at leaf `u`
and the lower maps `ms` at the leaves `is`; hidden state in order; view well-formed -/
structure OSt (u idu : Nat) (is ids : List Nat) (ms : List FMap) (w : World) (mu : FMap) : Prop where
  own : OWN w (u :: is) (idu :: ids) (mu :: ms)
  inv : OInv mu ms
  vwf : ViewWF (oview (mu :: ms))

theorem isOk_unit {r : Res Unit} (h : r.isOk = true) : r = .ok () := by
  cases r with
  | ok a => rfl
  | err k p => cases h
  | panic => cases h

theorem _root_.Vfs.C09.OpPath.snoc_cases {cs : List Str} (hp : OpPath cs) : ∃ ds n, cs = ds ++ [n] := by
  rcases List.eq_nil_or_concat cs with h | ⟨ds, n, h⟩
  · exact absurd h hp.ne
  · exact ⟨ds, n, by rw [h, List.concat_eq_append]⟩

theorem _root_.Vfs.C09.OpPath.vis {cs : List Str} (hp : OpPath cs) : Vis (renderC cs) :=
  Or.inr (NR_renderC hp.ne (good_noSlash hp.good) hp.head)

theorem _root_.Vfs.C09.OpPath.prefix {cs ts : List Str} (hp : OpPath (cs ++ ts)) (hne : cs ≠ []) : OpPath cs where
  ne := hne
  good := fun c hc => hp.good c (by simp [hc])
  nowo := fun c hc => hp.nowo c (by simp [hc])
  head := by
    cases cs with
    | nil => exact absurd rfl hne
    | cons c cs => simpa using hp.head

theorem _root_.Vfs.C09.OpPath.child {cs : List Str} {n : Str} (hp : OpPath cs) (hg : GoodComp n) (hw : NoWo n) :
    OpPath (cs ++ [n]) :=
  RootOrOp.child (Or.inr hp) hg hw (fun h => absurd h hp.ne)

/-! ### the set of paths a recursive removal is about -/

/-- `q` is a disciplined path at or below `renderC cs` -/
def InSub (cs : List Str) (q : Str) : Prop := ∃ ts, OpPath (cs ++ ts) ∧ q = renderC (cs ++ ts)

theorem InSub.vis {cs : List Str} {q : Str} (h : InSub cs q) : Vis q := by
  obtain ⟨ts, hp, rfl⟩ := h; exact hp.vis

theorem InSub.self {cs : List Str} (hp : OpPath cs) : InSub cs (renderC cs) :=
  ⟨[], by rw [List.append_nil]; exact hp, by rw [List.append_nil]⟩

theorem InSub.of_child {cs : List Str} {n q : Str} (h : InSub (cs ++ [n]) q) : InSub cs q := by
  obtain ⟨ts, hp, rfl⟩ := h
  exact ⟨n :: ts, by rw [List.append_assoc] at hp; exact hp, by rw [List.append_assoc]; rfl⟩

/-- a disciplined path at or below `cs` is `cs` itself or lies at or below one child of `cs` -/
theorem InSub.cases {cs : List Str} {q : Str} (hcs : cs ≠ []) (h : InSub cs q) :
    q = renderC cs ∨ ∃ n, OpPath (cs ++ [n]) ∧ InSub (cs ++ [n]) q := by
  obtain ⟨ts, hp, rfl⟩ := h
  cases ts with
  | nil => left; rw [List.append_nil]
  | cons n ts =>
    right
    have hp' : OpPath ((cs ++ [n]) ++ ts) := by rw [List.append_assoc]; exact hp
    exact ⟨n, hp'.prefix (by simp), ts, hp', by rw [List.append_assoc]; rfl⟩

/-- the subtrees of two different children are disjoint -/
theorem InSub.child_unique {cs : List Str} {n n' : Str} (hp' : OpPath (cs ++ [n']))
    (h : InSub (cs ++ [n]) (renderC (cs ++ [n']))) : n = n' := by
  obtain ⟨ts, hp, heq⟩ := h
  have := C06.renderC_injective _ _ (good_noSlash hp'.good) (good_noSlash hp.good) heq
  rw [List.append_assoc] at this
  have := List.append_cancel_left this
  simp at this
  exact this.1.symm

/-- the parent is not in the subtree of a child -/
theorem InSub.not_parent {cs : List Str} {n : Str} (h : InSub (cs ++ [n]) (renderC cs)) : False := by
  obtain ⟨ts, hp, heq⟩ := h
  have hg : ∀ c ∈ cs, '/' ∉ c := fun c hc => good_noSlash hp.good c (by simp [hc])
  have := C06.renderC_injective _ _ hg (good_noSlash hp.good) heq
  have := congrArg List.length this
  simp at this

/-! ### "exactly these paths are gone" -/

/-- the paths in `S` are absent from `v'`; every other visible path keeps its `vcore` -/
def GoneP (v v' : View) (S : Str → Prop) : Prop :=
  (∀ q, S q → v' q = none) ∧ (∀ q, Vis q → ¬ S q → (v' q).map vcore = (v q).map vcore)

theorem GoneP.refl_empty (v : View) : GoneP v v (fun _ => False) :=
  ⟨fun q h => absurd h id, fun q _ _ => rfl⟩

theorem GoneP.congr {v v' : View} {S S' : Str → Prop} (h : GoneP v v' S) (hs : ∀ q, S q ↔ S' q) :
    GoneP v v' S' :=
  ⟨fun q hq => h.1 q ((hs q).2 hq), fun q hv hq => h.2 q hv (fun h0 => hq ((hs q).1 h0))⟩

theorem GoneP.trans {v v1 v2 : View} {S1 S2 : Str → Prop} (h1 : GoneP v v1 S1) (h2 : GoneP v1 v2 S2)
    (hvis : ∀ q, S1 q → Vis q) : GoneP v v2 (fun q => S1 q ∨ S2 q) := by
  open Classical in
  refine ⟨fun q hq => ?_, fun q hv hq => ?_⟩
  · by_cases hs2 : S2 q
    · exact h2.1 q hs2
    · rcases hq with hq | hq
      · have := h2.2 q (hvis q hq) hs2
        rw [h1.1 q hq] at this
        cases hv2 : v2 q with
        | none => rfl
        | some e => rw [hv2] at this; simp at this
      · exact absurd hq hs2
  · have a := h1.2 q hv (fun h0 => hq (Or.inl h0))
    have b := h2.2 q hv (fun h0 => hq (Or.inr h0))
    exact b.trans a

/-- one successful removal, as `GoneP` -/
theorem GoneP.of_removed {v v' : View} {p : Str} (ha : VAbsent v' p) (hf : VFrame v v' p) :
    GoneP v v' (fun q => q = p) :=
  ⟨fun q hq => by rw [hq]; exact ha, fun q hv hq => hf q hv hq⟩

/-- present in the new view ⇒ present in the old one -/
theorem GoneP.present_old {v v' : View} {S : Str → Prop} (h : GoneP v v' S) {q : Str} (hv : Vis q)
    (hq : v' q ≠ none) : v q ≠ none ∧ ¬ S q := by
  open Classical in
  by_cases hs : S q
  · exact absurd (h.1 q hs) hq
  · exact ⟨fun h0 => hq ((none_of_vcore (h.2 q hv hs)).2 h0), hs⟩

/-! ### well-formed views: everything present hangs below directories -/

theorem present_below_dir {v : View} (hv : ViewWF v) {cs : List Str} (hcs : cs ≠ []) :
    ∀ ts : List Str, ts ≠ [] → OpPath (cs ++ ts) → v (renderC (cs ++ ts)) ≠ none →
      VIsDir v (renderC cs) := by
  intro ts
  induction hk : ts.length generalizing ts with
  | zero => intro h; exact absurd (List.eq_nil_of_length_eq_zero hk) h
  | succ k ih =>
    intro hne hp hpres
    rcases List.eq_nil_or_concat ts with h0 | ⟨ts0, n, h0⟩
    · exact absurd h0 hne
    · rw [List.concat_eq_append] at h0
      subst h0
      rw [← List.append_assoc] at hp hpres
      have hpar := C03.viewWF_no_orphan hv hp.ne hp.good hp.head hpres
      rw [hp.parent] at hpar
      by_cases hts : ts0 = []
      · subst hts; rw [List.append_nil] at hpar; exact hpar
      · exact ih ts0 (by simpa using hk) hts (hp.prefix (by simp [hcs])) (not_absent_of_dir hpar)

/-- below a path that is not a directory of a well-formed view, nothing disciplined is present -/
theorem absent_below_nondir {v : View} (hv : ViewWF v) {cs : List Str} (hcs : cs ≠ [])
    (hnd : ¬ VIsDir v (renderC cs)) {ts : List Str} (hts : ts ≠ []) (hp : OpPath (cs ++ ts)) :
    v (renderC (cs ++ ts)) = none := by
  cases h : v (renderC (cs ++ ts)) with
  | none => rfl
  | some e => exact absurd (present_below_dir hv hcs ts hts hp (by rw [h]; simp)) hnd

/-! ### one-step facts at the `VfsPath` level -/

section steps
variable {u idu : Nat} {is ids : List Nat} {ms : List FMap} {w : World} {mu : FMap}
  (st : OSt u idu is ids ms w mu) (id : Nat)
include st

theorem OSt.self_world : w.setLeafFiles u mu = w := st.own.hu.same

/-- `exists` of a disciplined path: whether the view has it; the world is unchanged -/
theorem o_exists {cs : List Str} (hp : OpPath cs) :
    VPath.exists_ ⟨Overlay.fs (layersN (u :: is) (idu :: ids)), id, renderC cs⟩ w
      = (.ok (oview (mu :: ms) (renderC cs)).isSome, w) := by
  show (Overlay.fs (layersN (u :: is) (idu :: ids))).exists_ (renderC cs) w = _
  rw [exists_is_viewN st.own cs hp.ne hp.good, oview_ne (renderC_ne_nil hp.ne)]

/-- `metadata` of a present disciplined path: the entry of the view; the world is unchanged -/
theorem o_metadata {cs : List Str} (hp : OpPath cs) {e : Entry}
    (he : oview (mu :: ms) (renderC cs) = some e) :
    VPath.metadata ⟨Overlay.fs (layersN (u :: is) (idu :: ids)), id, renderC cs⟩ w
      = (.ok e.meta, w) := by
  show M.withPath (renderC cs)
    ((Overlay.fs (layersN (u :: is) (idu :: ids))).metadata (renderC cs)) w = _
  rw [run_withPath, overlay_metadata_reports st.own hp.ne hp.good he]
  rfl

/-- `metadata` of an absent disciplined path -/
theorem o_metadata_absent {cs : List Str} (hp : OpPath cs)
    (he : oview (mu :: ms) (renderC cs) = none) :
    VPath.metadata ⟨Overlay.fs (layersN (u :: is) (idu :: ids)), id, renderC cs⟩ w
      = (.err .fileNotFound (some (renderC cs)), w) := by
  show M.withPath (renderC cs)
    ((Overlay.fs (layersN (u :: is) (idu :: ids))).metadata (renderC cs)) w = _
  rw [run_withPath, (overlay_absent_all_fail st.own st.inv hp he).2.1]
  rfl

/-- `read_dir` of a disciplined directory of the view: the children `p/n` for the names of the
merged listing; the world is unchanged -/
theorem o_readDir {cs : List Str} (hp : OpPath cs)
    (hd : VIsDir (oview (mu :: ms)) (renderC cs)) :
    VPath.readDir ⟨Overlay.fs (layersN (u :: is) (idu :: ids)), id, renderC cs⟩ w
      = (.ok ((pListingN (mu :: ms) (renderC cs)).map fun n =>
          (⟨Overlay.fs (layersN (u :: is) (idu :: ids)), id, renderC cs ++ '/' :: n⟩ : VPath)), w) := by
  obtain ⟨e, he, hdir⟩ := hd
  have hspec := overlay_readDir_spec st.own st.inv cs hp.good hp.nowo
  rw [he] at hspec
  simp only [hdir, if_true] at hspec
  show (do let names ← M.withPath (renderC cs)
              ((Overlay.fs (layersN (u :: is) (idu :: ids))).readDir (renderC cs))
           pure (names.map fun n =>
             (VPath.withStr ⟨Overlay.fs (layersN (u :: is) (idu :: ids)), id, renderC cs⟩
               (renderC cs ++ '/' :: n))) : M (List VPath)) w = _
  simp only [bind, M.bind, run_withPath, hspec, Res.withPath, pure, M.pure, VPath.withStr]

/-- the names `read_dir` lists below a disciplined directory: exactly the present bare names -/
theorem o_listing_mem {cs : List Str} (hp : OpPath cs) (n : Str) :
    n ∈ pListingN (mu :: ms) (renderC cs) ↔
      ('/' ∉ n ∧ oview (mu :: ms) (renderC cs ++ '/' :: n) ≠ none) := by
  rw [mem_listing st.own st.inv cs n, oview_ne (by simp)]
  constructor
  · rintro ⟨a, b, _⟩
    exact ⟨a, fun h0 => by rw [h0] at b; cases b⟩
  · rintro ⟨a, b⟩
    refine ⟨a, ?_, fun h0 => absurd h0 (renderC_ne_nil hp.ne)⟩
    cases hv : viewN (mu :: ms) (renderC cs ++ '/' :: n) with
    | none => exact absurd hv b
    | some e => rfl

/-- `remove_file` on a FILE of the view (the O3 discipline is met): Ok, the path is gone, every
other visible path keeps its `vcore`, the lower maps are untouched, the invariants hold again -/
theorem o_removeFile_step {cs : List Str} (hp : OpPath cs)
    (hf : VIsFile (oview (mu :: ms)) (renderC cs)) :
    ∃ mu', VPath.removeFile ⟨Overlay.fs (layersN (u :: is) (idu :: ids)), id, renderC cs⟩ w
        = (.ok (), w.setLeafFiles u mu') ∧
      OSt u idu is ids ms (w.setLeafFiles u mu') mu' ∧
      (NamesOK (mu :: ms) → NamesOK (mu' :: ms)) ∧
      VAbsent (oview (mu' :: ms)) (renderC cs) ∧
      VFrame (oview (mu :: ms)) (oview (mu' :: ms)) (renderC cs) := by
  obtain ⟨ds, n, rfl⟩ := hp.snoc_cases
  obtain ⟨r, mu', hrun, hown, inv', hc⟩ := vpath_overlay_removeFile_contractN st.own st.inv hp id
    (fun hd => not_file_and_dir hf hd)
  have hr : r = .ok () := isOk_unit (hc.ok_iff.2 hf)
  subst hr
  have hop : OpOK (.removeFile (renderC (ds ++ [n]))) := ⟨ds, n, hp, rfl⟩
  obtain ⟨hnamed, hframe⟩ := hc.effect rfl
  exact ⟨mu', hrun, ⟨hown, inv', viewWF_of_contract st.vwf hop hc⟩,
    fun hn => namesOK_step hn hop hc, hnamed, hframe⟩

/-- `remove_dir` on a directory of the view without present bare names below it -/
theorem o_removeDir_step {cs : List Str} (hp : OpPath cs)
    (hd : VIsDir (oview (mu :: ms)) (renderC cs))
    (hno : VNoChildren (oview (mu :: ms)) (renderC cs)) :
    ∃ mu', VPath.removeDir ⟨Overlay.fs (layersN (u :: is) (idu :: ids)), id, renderC cs⟩ w
        = (.ok (), w.setLeafFiles u mu') ∧
      OSt u idu is ids ms (w.setLeafFiles u mu') mu' ∧
      (NamesOK (mu :: ms) → NamesOK (mu' :: ms)) ∧
      VAbsent (oview (mu' :: ms)) (renderC cs) ∧
      VFrame (oview (mu :: ms)) (oview (mu' :: ms)) (renderC cs) := by
  obtain ⟨ds, n, rfl⟩ := hp.snoc_cases
  obtain ⟨r, mu', hrun, hown, inv', hc⟩ := vpath_overlay_removeDir_contractN st.own st.inv hp id
  have hr : r = .ok () := isOk_unit (hc.ok_iff.2 ⟨hd, hno⟩)
  subst hr
  have hop : OpOK (.removeDir (renderC (ds ++ [n]))) := ⟨ds, n, hp, rfl⟩
  obtain ⟨hnamed, hframe⟩ := hc.effect rfl
  exact ⟨mu', hrun, ⟨hown, inv', viewWF_of_contract st.vwf hop hc⟩,
    fun hn => namesOK_step hn hop hc, hnamed, hframe⟩

end steps

end Vfs.C11
