/-
  Helper lemmas for the n-layer generalisation of C09 (Props/C09N.lean).

  * the setting `OWN w is ids ms`: the leaves `is` (pairwise distinct) of the world are memory
    leaves holding the maps `ms`; `layersN is ids` are the roots of those leaf filesystems;
  * the union view of n layers `viewN ms p`, the layer that serves a path (`FirstAt`), and the
    pure functions `firstPath`, `mergeAll`, `pListingN`, `pexistsN`, `pEnsureN`;
  * the `run_*N` lemmas: `firstExisting`, `read_path`, `exists`, `mergeListings`, `read_dir`,
    `ensure_has_parent` of the overlay over n leaf roots compute those pure functions
    (induction over the list of layers; the per-layer facts are the `run_v*` lemmas of
    OverlayLemmas.lean);
  * `ensure_has_parent` keeps the n-layer view (`view_fillDirsN`).
-/
import VfsModel.Proofs.OverlayLemmas
set_option linter.unusedSimpArgs false
set_option linter.unusedVariables false
namespace Vfs
open Overlay

/-! ### the setting: n memory leaves, n layer roots -/

/-- the leaves `is` (pairwise distinct) of the world are memory leaves holding the maps `ms`;
`ids` are the (arbitrary) filesystem identities of the layers. The three lists have the same
length by construction. -/
inductive OWN (w : World) : List Nat → List Nat → List FMap → Prop
  | nil : OWN w [] [] []
  | cons {i id : Nat} {m : FMap} {is ids : List Nat} {ms : List FMap} :
      MemLeafAt w i m → i ∉ is → OWN w is ids ms → OWN w (i :: is) (id :: ids) (m :: ms)

/-- the layers of the overlay: the ROOTS of the leaf filesystems `is`, in order -/
def layersN : List Nat → List Nat → List VPath
  | i :: is, id :: ids => { fs := leafFS i, fsId := id, path := [] } :: layersN is ids
  | _, _ => []

theorem layersN_two (u l idu idl : Nat) : layersN [u, l] [idu, idl] = layers2 u l idu idl := rfl

theorem OWN.len_ids {w : World} {is ids : List Nat} {ms : List FMap} (h : OWN w is ids ms) :
    is.length = ids.length := by
  induction h with
  | nil => rfl
  | cons _ _ _ ih => simp [ih]

theorem OWN.len_ms {w : World} {is ids : List Nat} {ms : List FMap} (h : OWN w is ids ms) :
    is.length = ms.length := by
  induction h with
  | nil => rfl
  | cons _ _ _ ih => simp [ih]

theorem OWN.nodup {w : World} {is ids : List Nat} {ms : List FMap} (h : OWN w is ids ms) :
    is.Nodup := by
  induction h with
  | nil => exact List.nodup_nil
  | cons _ hni _ ih => exact List.nodup_cons.2 ⟨hni, ih⟩

theorem OWN.leafAt {w : World} {is ids : List Nat} {ms : List FMap} (h : OWN w is ids ms)
    (k i : Nat) (m : FMap) (hi : is[k]? = some i) (hm : ms[k]? = some m) : MemLeafAt w i m := by
  induction h generalizing k with
  | nil => simp at hi
  | cons h0 _ _ ih =>
    cases k with
    | zero => simp at hi hm; subst hi; subst hm; exact h0
    | succ k => simp at hi hm; exact ih k hi hm

/-- the setting, spelled out with indices -/
theorem OWN.of_lists {w : World} {is ids : List Nat} {ms : List FMap}
    (h1 : is.length = ids.length) (h2 : is.length = ms.length) (hnd : is.Nodup)
    (hl : ∀ (k i : Nat) (m : FMap), is[k]? = some i → ms[k]? = some m → MemLeafAt w i m) :
    OWN w is ids ms := by
  induction is generalizing ids ms with
  | nil =>
    cases ids with
    | nil =>
      cases ms with
      | nil => exact .nil
      | cons _ _ => simp at h2
    | cons _ _ => simp at h1
  | cons i is ih =>
    cases ids with
    | nil => simp at h1
    | cons id ids =>
      cases ms with
      | nil => simp at h2
      | cons m ms =>
        have hnd' := List.nodup_cons.1 hnd
        refine .cons (hl 0 i m rfl rfl) hnd'.1 (ih (by simpa using h1) (by simpa using h2) hnd'.2 ?_)
        intro k j mj hj hmj
        exact hl (k + 1) j mj (by simpa using hj) (by simpa using hmj)

/-- changing the map of a leaf that is not among the layers -/
theorem OWN.frame {w : World} {is ids : List Nat} {ms : List FMap} (h : OWN w is ids ms)
    (i : Nat) (hi : i ∉ is) (m' : FMap) : OWN (w.setLeafFiles i m') is ids ms := by
  induction h with
  | nil => exact .nil
  | @cons j id m is ids ms h0 hni ht ih =>
    have hij : i ≠ j := fun e => hi (by simp [e])
    refine .cons ?_ hni (ih (fun hm => hi (by simp [hm])))
    unfold MemLeafAt; rw [World.leaf?_setLeafFiles_ne w i j m' hij]; exact h0

/-- the upper layer's map changes -/
theorem OWN.setHead {w : World} {u idu : Nat} {mu : FMap} {is ids : List Nat} {ms : List FMap}
    (h : OWN w (u :: is) (idu :: ids) (mu :: ms)) (m' : FMap) :
    OWN (w.setLeafFiles u m') (u :: is) (idu :: ids) (m' :: ms) := by
  cases h with
  | cons h0 hni ht => exact .cons (h0.set m') hni (ht.frame u hni m')

/-- the map of layer `k` changes -/
theorem OWN.setAt {w : World} {is ids : List Nat} {ms : List FMap} (h : OWN w is ids ms)
    (k i : Nat) (hi : is[k]? = some i) (m' : FMap) :
    OWN (w.setLeafFiles i m') is ids (ms.set k m') := by
  induction h generalizing k with
  | nil => simp at hi
  | @cons j id m is ids ms h0 hni ht ih =>
    cases k with
    | zero =>
      simp at hi; subst hi
      exact .cons (h0.set m') hni (ht.frame _ hni m')
    | succ k =>
      simp at hi
      have hmem : i ∈ is := List.mem_of_getElem? hi
      have hij : i ≠ j := fun e => hni (e ▸ hmem)
      simp only [List.set_cons_succ]
      refine .cons ?_ hni (ih k hi)
      unfold MemLeafAt; rw [World.leaf?_setLeafFiles_ne w i j m' hij]; exact h0

theorem OW.toN {w : World} {u l : Nat} {mu ml : FMap} (h : OW w u l mu ml) (idu idl : Nat) :
    OWN w [u, l] [idu, idl] [mu, ml] :=
  .cons h.hu (by simpa using h.ne) (.cons h.hl (by simp) .nil)

theorem OWN.toOW {w : World} {u l idu idl : Nat} {mu ml : FMap}
    (h : OWN w [u, l] [idu, idl] [mu, ml]) : OW w u l mu ml := by
  cases h with
  | cons h0 hni ht =>
    cases ht with
    | cons h1 _ _ => exact ⟨h0, h1, by simpa using hni⟩

theorem writeLayer_layersN (u idu : Nat) (is ids : List Nat) :
    writeLayer (layersN (u :: is) (idu :: ids)) = { fs := leafFS u, fsId := idu, path := [] } := rfl

/-! ### the union view of n layers -/

/-- the entry of the first layer (in order) whose map has the path -/
def firstN : List FMap → Str → Option Entry
  | [], _ => none
  | m :: rest, p => (m.find? p).or (firstN rest p)

/-- the union view of n layers: nothing where a marker sits in the upper (first) layer,
otherwise the entry of the first layer that has the path -/
def viewN (ms : List FMap) (p : Str) : Option Entry :=
  if (ms.headD []).contains (marker p) then none else firstN ms p

theorem viewN_two (mu ml : FMap) (p : Str) : viewN [mu, ml] p = view mu ml p := by
  unfold viewN view firstN firstN firstN
  simp

theorem viewN_cons (mu : FMap) (ms : List FMap) (p : Str) :
    viewN (mu :: ms) p = if mu.contains (marker p) then none else firstN (mu :: ms) p := rfl

theorem viewN_marked {mu : FMap} {ms : List FMap} {p : Str}
    (hm : mu.contains (marker p) = true) : viewN (mu :: ms) p = none := by
  rw [viewN_cons, if_pos hm]

theorem viewN_unmarked {mu : FMap} {ms : List FMap} {p : Str}
    (hm : mu.contains (marker p) = false) : viewN (mu :: ms) p = firstN (mu :: ms) p := by
  rw [viewN_cons, hm]; rfl

/-- layer `k` (holding `m`) is the first one whose map has `p` -/
structure FirstAt (ms : List FMap) (p : Str) (k : Nat) (m : FMap) : Prop where
  get : ms[k]? = some m
  has : m.contains p = true
  before : ∀ j mj, j < k → ms[j]? = some mj → mj.find? p = none

theorem firstN_of_firstAt {ms : List FMap} {p : Str} {k : Nat} {m : FMap}
    (h : FirstAt ms p k m) : firstN ms p = m.find? p := by
  induction ms generalizing k with
  | nil => have := h.get; simp at this
  | cons m0 ms ih =>
    cases k with
    | zero =>
      have hg := h.get; simp at hg; subst hg
      obtain ⟨e, he⟩ := (FMap.contains_iff _ _).1 h.has
      simp [firstN, he]
    | succ k =>
      have h0 : m0.find? p = none := h.before 0 m0 (by omega) rfl
      have : FirstAt ms p k m :=
        ⟨by simpa using h.get, h.has, fun j mj hj hmj => h.before (j + 1) mj (by omega) (by simpa using hmj)⟩
      simp [firstN, h0, ih this]

theorem firstN_none_iff (ms : List FMap) (p : Str) :
    firstN ms p = none ↔ ∀ m ∈ ms, m.find? p = none := by
  induction ms with
  | nil => simp [firstN]
  | cons m ms ih =>
    simp only [firstN, List.mem_cons, forall_eq_or_imp, ← ih]
    cases m.find? p <;> simp

/-- an entry of `firstN` comes from a first layer -/
theorem firstN_some {ms : List FMap} {p : Str} {e : Entry} (h : firstN ms p = some e) :
    ∃ k m, FirstAt ms p k m ∧ m.find? p = some e := by
  induction ms with
  | nil => simp [firstN] at h
  | cons m0 ms ih =>
    rcases Option.eq_none_or_eq_some (m0.find? p) with h0 | ⟨e0, h0⟩
    · simp only [firstN, h0, Option.none_or] at h
      obtain ⟨k, m, hf, he⟩ := ih h
      refine ⟨k + 1, m, ⟨by simpa using hf.get, hf.has, ?_⟩, he⟩
      intro j mj hj hmj
      cases j with
      | zero => simp at hmj; subst hmj; exact h0
      | succ j => exact hf.before j mj (by omega) (by simpa using hmj)
    · simp only [firstN, h0, Option.some_or, Option.some.injEq] at h
      subst h
      exact ⟨0, m0, ⟨rfl, contains_of_find h0, fun j _ hj => by omega⟩, h0⟩

theorem firstN_isSome (ms : List FMap) (p : Str) :
    (firstN ms p).isSome = ms.any (fun m => m.contains p) := by
  induction ms with
  | nil => rfl
  | cons m ms ih =>
    rcases Option.eq_none_or_eq_some (m.find? p) with hf | ⟨e, hf⟩
    · simp [firstN, hf, contains_of_none hf, ih]
    · simp [firstN, hf, contains_of_find hf]

theorem viewN_isSome (mu : FMap) (ms : List FMap) (p : Str) :
    (viewN (mu :: ms) p).isSome =
      (!mu.contains (marker p) && (mu :: ms).any (fun m => m.contains p)) := by
  rw [viewN_cons, ← firstN_isSome]
  cases mu.contains (marker p) <;> simp

theorem viewN_some_cases {mu : FMap} {ms : List FMap} {p : Str} {e : Entry}
    (h : viewN (mu :: ms) p = some e) :
    mu.contains (marker p) = false ∧ ∃ k m, FirstAt (mu :: ms) p k m ∧ m.find? p = some e := by
  rw [viewN_cons] at h
  split at h
  · cases h
  · rename_i hm
    exact ⟨by simpa using hm, firstN_some h⟩

/-! ### `firstExisting` and `read_path` over n leaf roots -/

/-- the path `firstExisting` returns: the first layer root whose map has `p`, at `p` -/
def firstPath (p : Str) : List Nat → List Nat → List FMap → Option VPath
  | i :: is, id :: ids, m :: ms =>
    if m.contains p then some { fs := leafFS i, fsId := id, path := p } else firstPath p is ids ms
  | _, _, _ => none

theorem run_firstExistingN {w : World} {is ids : List Nat} {ms : List FMap} (h : OWN w is ids ms)
    (cs : List Str) (hne : cs ≠ []) (hcs : ∀ c ∈ cs, GoodComp c) :
    firstExisting (renderC cs) (layersN is ids) w = (.ok (firstPath (renderC cs) is ids ms), w) := by
  induction h with
  | nil => rfl
  | @cons i id m is ids ms h0 hni ht ih =>
    unfold layersN firstExisting firstPath
    rw [join_leafRoot i id cs hne hcs]
    by_cases h1 : m.contains (renderC cs) = true
    · simp [h1, bind, M.bind, M.ret, run_vexists h0, Pure.pure, M.pure]
    · simp [h1, bind, M.bind, M.ret, run_vexists h0, ih]

/-- what a result of `firstPath` is -/
theorem firstPath_some {w : World} {is ids : List Nat} {ms : List FMap} (h : OWN w is ids ms)
    {p : Str} {q : VPath} (hq : firstPath p is ids ms = some q) :
    ∃ k i id m, FirstAt ms p k m ∧ is[k]? = some i ∧ ids[k]? = some id ∧ MemLeafAt w i m ∧
      q = { fs := leafFS i, fsId := id, path := p } := by
  induction h with
  | nil => simp [firstPath] at hq
  | @cons i id m is ids ms h0 hni ht ih =>
    unfold firstPath at hq
    by_cases h1 : m.contains p = true
    · rw [if_pos h1] at hq
      injection hq with hq
      exact ⟨0, i, id, m, ⟨rfl, h1, fun j _ hj => by omega⟩, rfl, rfl, h0, hq.symm⟩
    · rw [if_neg h1] at hq
      obtain ⟨k, i', id', m', hf, hi, hid, hl, hq'⟩ := ih hq
      refine ⟨k + 1, i', id', m', ⟨by simpa using hf.get, hf.has, ?_⟩, by simpa using hi,
        by simpa using hid, hl, hq'⟩
      intro j mj hj hmj
      cases j with
      | zero =>
        simp at hmj; subst hmj
        have : m.contains p = false := by simpa using h1
        unfold FMap.contains at this
        cases hfp : m.find? p <;> simp_all
      | succ j => exact hf.before j mj (by omega) (by simpa using hmj)

theorem firstPath_none {w : World} {is ids : List Nat} {ms : List FMap} (h : OWN w is ids ms)
    {p : Str} (hq : firstPath p is ids ms = none) : ∀ m ∈ ms, m.find? p = none := by
  induction h with
  | nil => simp
  | @cons i id m is ids ms h0 hni ht ih =>
    unfold firstPath at hq
    by_cases h1 : m.contains p = true
    · rw [if_pos h1] at hq; cases hq
    · rw [if_neg h1] at hq
      intro m' hm'
      rcases List.mem_cons.1 hm' with rfl | hm'
      · have : m'.contains p = false := by simpa using h1
        unfold FMap.contains at this
        cases hfp : m'.find? p <;> simp_all
      · exact ih hq m' hm'

section runN
variable {w : World} {u idu : Nat} {mu : FMap} {is ids : List Nat} {ms : List FMap}
  (h : OWN w (u :: is) (idu :: ids) (mu :: ms))
include h

theorem OWN.hu : MemLeafAt w u mu := by
  cases h with
  | cons h0 _ _ => exact h0

omit h in
theorem whiteoutPath_layersN (cs : List Str) (hne : cs ≠ []) (hcs : ∀ c ∈ cs, GoodComp c) :
    whiteoutPath (layersN (u :: is) (idu :: ids)) (renderC cs)
      = .ok { fs := leafFS u, fsId := idu, path := marker (renderC cs) } := by
  rcases List.eq_nil_or_concat cs with rfl | ⟨ds, n, rfl⟩
  · exact absurd rfl hne
  · rw [List.concat_eq_append] at hcs ⊢
    obtain ⟨hds, hn⟩ := good_of_snoc hcs
    exact whiteoutPath_canon _ rfl ds n hds hn

omit h in
theorem writePath_layersN (cs : List Str) (hne : cs ≠ []) (hcs : ∀ c ∈ cs, GoodComp c) :
    writePath (layersN (u :: is) (idu :: ids)) (renderC cs)
      = .ok { fs := leafFS u, fsId := idu, path := renderC cs } :=
  writePath_canon _ rfl cs hne hcs

omit h in
theorem writePath_layersN_any (ds : List Str) (hds : ∀ c ∈ ds, GoodComp c) :
    writePath (layersN (u :: is) (idu :: ids)) (renderC ds)
      = .ok { fs := leafFS u, fsId := idu, path := renderC ds } := by
  by_cases hne : ds = []
  · subst hne; rfl
  · exact writePath_layersN ds hne hds

/-- `read_path` on a canonical non-root path, over n leaf roots -/
theorem run_readPathN (cs : List Str) (hne : cs ≠ []) (hcs : ∀ c ∈ cs, GoodComp c) :
    readPath (layersN (u :: is) (idu :: ids)) (renderC cs) w =
      (if mu.contains (marker (renderC cs)) then .err .fileNotFound none
       else match firstPath (renderC cs) (u :: is) (idu :: ids) (mu :: ms) with
         | some q => .ok q
         | none => .err .fileNotFound none, w) := by
  unfold readPath
  rw [if_neg (renderC_ne_nil hne), whiteoutPath_layersN cs hne hcs, writeLayer_layersN,
    join_leafRoot u idu cs hne hcs]
  by_cases hm : mu.contains (marker (renderC cs)) = true
  · simp [hm, bind, M.bind, M.ret, run_vexists h.hu, M.failK, fail]
  · cases hfp : firstPath (renderC cs) (u :: is) (idu :: ids) (mu :: ms) with
    | some q =>
      simp [hm, hfp, bind, M.bind, M.ret, run_vexists h.hu, run_firstExistingN h cs hne hcs,
        Pure.pure, M.pure]
    | none =>
      have h0 : mu.contains (renderC cs) = false :=
        contains_of_none (firstPath_none h hfp mu (by simp))
      simp [hm, hfp, h0, bind, M.bind, M.ret, run_vexists h.hu, run_firstExistingN h cs hne hcs,
        Pure.pure, M.pure, M.failK, fail]

/-- **`read_path` is the n-layer view**: either the view has nothing at `p` and `read_path`
fails with `FileNotFound`, or it returns `p` on the root of the FIRST layer whose map has `p`,
and the view's entry is that layer's entry. The world is unchanged. -/
theorem readPath_casesN (cs : List Str) (hne : cs ≠ []) (hcs : ∀ c ∈ cs, GoodComp c) :
    (viewN (mu :: ms) (renderC cs) = none ∧
      readPath (layersN (u :: is) (idu :: ids)) (renderC cs) w = (.err .fileNotFound none, w)) ∨
    (∃ k i id m e, FirstAt (mu :: ms) (renderC cs) k m ∧ (u :: is)[k]? = some i ∧
      (idu :: ids)[k]? = some id ∧ MemLeafAt w i m ∧ m.find? (renderC cs) = some e ∧
      mu.contains (marker (renderC cs)) = false ∧
      viewN (mu :: ms) (renderC cs) = some e ∧
      readPath (layersN (u :: is) (idu :: ids)) (renderC cs) w =
        (.ok { fs := leafFS i, fsId := id, path := renderC cs }, w)) := by
  rw [run_readPathN h cs hne hcs]
  by_cases hm : mu.contains (marker (renderC cs)) = true
  · left; exact ⟨viewN_marked hm, by rw [if_pos hm]⟩
  · have hm' : mu.contains (marker (renderC cs)) = false := by simpa using hm
    rw [if_neg hm, viewN_unmarked hm']
    cases hfp : firstPath (renderC cs) (u :: is) (idu :: ids) (mu :: ms) with
    | none => left; exact ⟨(firstN_none_iff _ _).2 (firstPath_none h hfp), rfl⟩
    | some q =>
      right
      obtain ⟨k, i, id, m, hf, hi, hid, hl, rfl⟩ := firstPath_some h hfp
      obtain ⟨e, he⟩ := (FMap.contains_iff _ _).1 hf.has
      exact ⟨k, i, id, m, e, hf, hi, hid, hl, he, hm', by rw [firstN_of_firstAt hf, he], rfl⟩

/-- `exists` on a canonical non-root path is "the n-layer view has an entry" -/
theorem run_oexistsN (cs : List Str) (hne : cs ≠ []) (hcs : ∀ c ∈ cs, GoodComp c) :
    Overlay.exists_ (layersN (u :: is) (idu :: ids)) (renderC cs) w
      = (.ok (viewN (mu :: ms) (renderC cs)).isSome, w) := by
  unfold Overlay.exists_
  rw [whiteoutPath_layersN cs hne hcs]
  by_cases hm : mu.contains (marker (renderC cs)) = true
  · simp [hm, viewN_marked hm, bind, M.bind, M.ret, run_vexists h.hu, Pure.pure, M.pure]
  · rcases readPath_casesN h cs hne hcs with ⟨hv, hr⟩ | ⟨k, i, id, m, e, hf, hi, hid, hl, he, _, hv, hr⟩
    · simp [hm, hv, hr, bind, M.bind, M.ret, run_vexists h.hu]
    · simp [hm, hv, hr, bind, M.bind, M.ret, run_vexists h.hu, run_vexists hl, hf.has]

/-- `exists("")`: the root of the upper layer, unless "/.whiteout/_wo" exists -/
theorem run_oexists_rootN :
    Overlay.exists_ (layersN (u :: is) (idu :: ids)) [] w
      = (.ok (!mu.contains rootMarker && mu.contains []), w) := by
  unfold Overlay.exists_
  rw [whiteoutPath_root _ rfl, writeLayer_layersN]
  by_cases hm : mu.contains rootMarker = true
  · simp [hm, bind, M.bind, M.ret, VPath.withStr, run_vexists h.hu, Pure.pure, M.pure]
  · simp [hm, bind, M.bind, M.ret, VPath.withStr, run_vexists h.hu, readPath, Pure.pure, M.pure,
      writeLayer_layersN]

/-- the pure value of `exists` on a canonical path, the root included -/
def pexistsN (all : List FMap) (p : Str) : Bool :=
  if p = [] then (!(all.headD []).contains rootMarker && (all.headD []).contains [])
  else (viewN all p).isSome

theorem run_oexists_anyN (cs : List Str) (hcs : ∀ c ∈ cs, GoodComp c) :
    Overlay.exists_ (layersN (u :: is) (idu :: ids)) (renderC cs) w
      = (.ok (pexistsN (mu :: ms) (renderC cs)), w) := by
  unfold pexistsN
  by_cases hne : cs = []
  · subst hne; simp only [renderC_nil, if_true]; exact run_oexists_rootN h
  · rw [if_neg (renderC_ne_nil hne)]; exact run_oexistsN h cs hne hcs

end runN

/-! ### listings over n layers -/

/-- the merged listing: every layer, in order, contributes the names it has under `p` -/
def mergeAll (acc : List Str) (ms : List FMap) (p : Str) : List Str :=
  ms.foldl (fun a m => mergeStep a (layerNames m p)) acc

theorem mergeAll_cons (acc : List Str) (m : FMap) (ms : List FMap) (p : Str) :
    mergeAll acc (m :: ms) p = mergeAll (mergeStep acc (layerNames m p)) ms p := rfl

theorem run_mergeListingsN {w : World} {is ids : List Nat} {ms : List FMap} (h : OWN w is ids ms)
    (cs : List Str) (hcs : ∀ c ∈ cs, GoodComp c) (acc : List Str) :
    mergeListings (if renderC cs ≠ [] then tail1 (renderC cs) else renderC cs)
        (layersN is ids) acc w = (.ok (mergeAll acc ms (renderC cs)), w) := by
  induction h generalizing acc with
  | nil => rfl
  | @cons i id m is ids ms h0 hni ht ih =>
    unfold layersN
    rw [mergeListings, join_root_actual _ rfl cs hcs, ret_ok_bind]
    simp only [VPath.withStr]
    rw [run_mergeLayer h0, mergeAll_cons]
    exact ih _

theorem mem_mergeAll (acc : List Str) (ms : List FMap) (p x : Str) :
    x ∈ mergeAll acc ms p ↔ x ∈ acc ∨ ∃ m ∈ ms, x ∈ layerNames m p := by
  induction ms generalizing acc with
  | nil => simp [mergeAll]
  | cons m ms ih =>
    rw [mergeAll_cons, ih, mem_mergeStep]
    simp only [List.mem_cons, exists_eq_or_imp]
    constructor
    · rintro ((a | a) | a)
      · exact Or.inl a
      · exact Or.inr (Or.inl a)
      · exact Or.inr (Or.inr a)
    · rintro (a | a | a)
      · exact Or.inl (Or.inl a)
      · exact Or.inl (Or.inr a)
      · exact Or.inr a

theorem nodup_mergeAll (acc : List Str) (ms : List FMap) (p : Str) (h : acc.Nodup) :
    (mergeAll acc ms p).Nodup := by
  induction ms generalizing acc with
  | nil => exact h
  | cons m ms ih => rw [mergeAll_cons]; exact ih _ (nodup_mergeStep _ _ h)

/-- the listing `read_dir` computes over n layers: merged children, minus the bookkeeping
directory at the root, minus the names marked in the upper layer -/
def pListingN (all : List FMap) (p : Str) : List Str :=
  ((if p = [] then (mergeAll [] all p).filter (fun n => n ≠ woDir) else mergeAll [] all p).filter
    fun n => n ∉ markedNames (all.headD []) p)

theorem pListingN_cons (mu : FMap) (ms : List FMap) (p : Str) :
    pListingN (mu :: ms) p =
      ((if p = [] then (mergeAll [] (mu :: ms) p).filter (fun n => n ≠ woDir)
        else mergeAll [] (mu :: ms) p).filter fun n => n ∉ markedNames mu p) := rfl

theorem pListingN_two (mu ml : FMap) (p : Str) : pListingN [mu, ml] p = pListing mu ml p := rfl

theorem nodup_pListingN (all : List FMap) (p : Str) : (pListingN all p).Nodup := by
  unfold pListingN
  have := nodup_mergeAll [] all p List.nodup_nil
  apply List.Nodup.sublist List.filter_sublist
  split
  · exact List.Nodup.sublist List.filter_sublist this
  · exact this

theorem woDir_not_listedN (all : List FMap) : woDir ∉ pListingN all [] := by
  unfold pListingN
  simp

/-- **the n-layer listing is the union**: a name is listed iff it is a bare name, the n-layer
view has an entry at `p/name`, and it is not the bookkeeping directory at the root -/
theorem mem_pListingN (mu : FMap) (ms : List FMap) (p n : Str)
    (hall : ∀ m ∈ mu :: ms, ChildrenHaveDir m p) (hwo : ChildrenHaveDir mu (woDirOf p)) :
    n ∈ pListingN (mu :: ms) p ↔
      ('/' ∉ n ∧ (viewN (mu :: ms) (p ++ '/' :: n)).isSome = true ∧ (p = [] → n ≠ woDir)) := by
  have hmem : n ∈ mergeAll [] (mu :: ms) p ↔
      ('/' ∉ n ∧ (mu :: ms).any (fun m => m.contains (p ++ '/' :: n)) = true) := by
    rw [mem_mergeAll, List.any_eq_true]
    simp only [List.not_mem_nil, false_or]
    constructor
    · rintro ⟨m, hm, hx⟩
      have := (mem_layerNames m p n (hall m hm)).1 hx
      exact ⟨this.1, m, hm, this.2⟩
    · rintro ⟨hn, m, hm, hc⟩
      exact ⟨m, hm, (mem_layerNames m p n (hall m hm)).2 ⟨hn, hc⟩⟩
  have hmark : '/' ∉ n → (n ∈ markedNames mu p ↔ mu.contains (marker (p ++ '/' :: n)) = true) := by
    intro hn
    apply mem_markedNames mu p n hn
    intro hc
    rw [marker_child] at hc
    obtain ⟨e, he, _⟩ := hwo (n ++ woSuffix)
      (by simp only [List.mem_append, not_or]; exact ⟨hn, by decide⟩) hc
    exact contains_of_find he
  rw [pListingN_cons, viewN_isSome]
  by_cases hp : p = []
  · simp only [hp, if_true, List.mem_filter, decide_eq_true_eq, ne_eq] at hmem hmark ⊢
    rw [hmem]
    constructor
    · rintro ⟨⟨⟨hn, hc⟩, hw⟩, hk⟩
      rw [hmark hn] at hk
      refine ⟨hn, ?_, fun _ => hw⟩
      rw [Bool.and_eq_true]
      exact ⟨by simpa using hk, hc⟩
    · rintro ⟨hn, hv, hw⟩
      rw [Bool.and_eq_true] at hv
      refine ⟨⟨⟨hn, hv.2⟩, hw trivial⟩, ?_⟩
      rw [hmark hn]; simpa using hv.1
  · simp only [hp, if_false, List.mem_filter, decide_eq_true_eq, false_implies, and_true]
    rw [hmem]
    constructor
    · rintro ⟨⟨hn, hc⟩, hk⟩
      rw [hmark hn] at hk
      refine ⟨hn, ?_⟩
      rw [Bool.and_eq_true]
      exact ⟨by simpa using hk, hc⟩
    · rintro ⟨hn, hv⟩
      rw [Bool.and_eq_true] at hv
      refine ⟨⟨hn, hv.2⟩, ?_⟩
      rw [hmark hn]; simpa using hv.1

/-- the entry `read_dir(p)` inspects: the root of the upper layer, or the view of `p` -/
def dirEntryN (all : List FMap) (p : Str) : Option Entry :=
  if p = [] then (all.headD []).find? [] else viewN all p

/-- the outcome of `read_dir(p)` over n layers -/
def pReadDirN (all : List FMap) (p : Str) : Res (List Str) :=
  match dirEntryN all p with
  | none => .err .fileNotFound none
  | some e => if e.ftype = .dir then .ok (pListingN all p) else .err .other none

section runN2
variable {w : World} {u idu : Nat} {mu : FMap} {is ids : List Nat} {ms : List FMap}
  (h : OWN w (u :: is) (idu :: ids) (mu :: ms))
include h

theorem run_readDirTailN (cs : List Str) (hcs : ∀ c ∈ cs, GoodComp c)
    (hwo : ∀ e, mu.find? (woDirOf (renderC cs)) = some e → e.ftype = .dir) :
    readDirTail (layersN (u :: is) (idu :: ids)) (renderC cs) w
      = (.ok (pListingN (mu :: ms) (renderC cs)), w) := by
  unfold readDirTail pListingN markedNames
  simp only [bind, M.bind, run_mergeListingsN h cs hcs, M.ret, List.headD_cons,
    writeLayer_layersN, woDir_join_layers2 cs hcs, run_vexists h.hu]
  rcases Option.eq_none_or_eq_some (mu.find? (woDirOf (renderC cs))) with hf | ⟨e, hf⟩
  · simp only [contains_of_none hf, Bool.false_eq_true, if_false, Pure.pure, M.pure,
      filter_not_mem_nil]
  · have hd := hwo e hf
    simp only [contains_of_find hf, if_true, Pure.pure, M.pure]
    have hmarks : ∀ names : List Str, (∀ n ∈ names, '/' ∉ n) →
        (names.map (fun n => VPath.withStr (⟨leafFS u, idu, woDirOf (renderC cs)⟩ : VPath)
            (woDirOf (renderC cs) ++ '/' :: n))).filterMap
          (fun m => stripWo (filenameInternal m.path)) = names.filterMap stripWo := by
      intro names
      induction names with
      | nil => intro _; rfl
      | cons n names ih =>
        intro hn
        simp only [List.map_cons, List.filterMap_cons, VPath.withStr]
        rw [show filenameInternal (woDirOf (renderC cs) ++ '/' :: n) = n from
          afterLast_append_delim '/' _ n (hn n (by simp))]
        have := ih (fun x hx => hn x (by simp [hx]))
        simp only [VPath.withStr] at this
        rw [this]
    simp only [M.bind, run_vreadDir h.hu idu _ e hf hd,
      hmarks _ (children_noSlash mu (woDirOf (renderC cs)))]
    rfl

/-- `read_dir` on a canonical path (the root included) over n leaf roots, provided
"/.whiteout" ++ p is not a file of the upper layer -/
theorem run_oreadDirN (cs : List Str) (hcs : ∀ c ∈ cs, GoodComp c)
    (hwo : ∀ e, mu.find? (woDirOf (renderC cs)) = some e → e.ftype = .dir) :
    Overlay.readDir (layersN (u :: is) (idu :: ids)) (renderC cs) w =
      (pReadDirN (mu :: ms) (renderC cs), w) := by
  rw [readDir_eq_tail]
  unfold pReadDirN dirEntryN
  have htail := run_readDirTailN h cs hcs hwo
  by_cases hne : cs = []
  · subst hne
    have hrp : readPath (layersN (u :: is) (idu :: ids)) (renderC [])
        = pure (writeLayer (layersN (u :: is) (idu :: ids))) := rfl
    rw [hrp, writeLayer_layersN]
    simp only [renderC_nil, List.headD_cons] at htail ⊢
    rcases Option.eq_none_or_eq_some (mu.find? []) with hf | ⟨e, hf⟩
    · simp [hf, bind, M.bind, Pure.pure, M.pure, run_vexists h.hu, contains_of_none hf, M.failK,
        fail]
    · by_cases hd : e.ftype = .dir
      · simp [hf, hd, bind, M.bind, Pure.pure, M.pure, run_vexists h.hu, contains_of_find hf,
          run_visDir h.hu, htail]
      · simp [hf, hd, bind, M.bind, Pure.pure, M.pure, run_vexists h.hu, contains_of_find hf,
          run_visDir h.hu, M.failK, fail]
  · rw [if_neg (renderC_ne_nil hne)]
    rcases readPath_casesN h cs hne hcs with ⟨hv, hr⟩ | ⟨k, i, id, m, e, hf, hi, hid, hl, he, _, hv, hr⟩
    · simp [hv, hr, bind, M.bind]
    · by_cases hd : e.ftype = .dir
      · simp [hv, hr, hd, he, bind, M.bind, run_vexists hl, hf.has, run_visDir hl, htail]
      · simp [hv, hr, hd, he, bind, M.bind, run_vexists hl, hf.has, run_visDir hl, M.failK, fail]

/-- `read_path(p)?.metadata()` followed by anything -/
theorem run_readPath_metadataN {β} (cs : List Str) (hne : cs ≠ []) (hcs : ∀ c ∈ cs, GoodComp c)
    (k : Meta → M β) :
    (do let q ← readPath (layersN (u :: is) (idu :: ids)) (renderC cs)
        let md ← q.metadata
        k md : M β) w =
      (match viewN (mu :: ms) (renderC cs) with
       | some e => k e.meta w
       | none => (.err .fileNotFound none, w)) := by
  rcases readPath_casesN h cs hne hcs with ⟨hv, hr⟩ | ⟨j, i, id, m, e, hf, hi, hid, hl, he, _, hv, hr⟩
  · simp [hv, hr, bind, M.bind]
  · simp [hv, hr, he, bind, M.bind, run_vmetadata hl, Mem.metadata, Res.withPath]

/-- `read_path(p)?` followed by anything that ignores the path -/
theorem run_readPath_thenN {β} (cs : List Str) (hne : cs ≠ []) (hcs : ∀ c ∈ cs, GoodComp c)
    (k : M β) :
    (do let _ ← readPath (layersN (u :: is) (idu :: ids)) (renderC cs)
        k : M β) w =
      (match viewN (mu :: ms) (renderC cs) with
       | some _ => k w
       | none => (.err .fileNotFound none, w)) := by
  rcases readPath_casesN h cs hne hcs with ⟨hv, hr⟩ | ⟨j, i, id, m, e, hf, hi, hid, hl, he, _, hv, hr⟩
  · simp [hv, hr, bind, M.bind]
  · simp [hv, hr, bind, M.bind]

/-! ### `ensure_has_parent`, `create_dir`, `create_file` over n layers -/

/-- the type test of `ensure_has_parent` (`read_path(parent)?.is_dir()?`) on a canonical path:
the entry of the n-layer view (the root: of the upper layer) is a directory -/
def pIsDirN (all : List FMap) (p : Str) : Bool :=
  match (if p = [] then (all.headD []).find? [] else viewN all p) with
  | some e => decide (e.ftype = .dir)
  | none => false

theorem pIsDirN_two (mu ml : FMap) (p : Str) : pIsDirN [mu, ml] p = pIsDir mu ml p := by
  unfold pIsDirN pIsDir
  rw [viewN_two]; rfl

/-- `read_path(p)?.is_dir()?` on a canonical path that exists: the world is unchanged, the
answer is `pIsDirN` -/
theorem run_readPath_isDirN (ds : List Str) (hds : ∀ c ∈ ds, GoodComp c)
    (hex : pexistsN (mu :: ms) (renderC ds) = true) :
    (do let rp ← readPath (layersN (u :: is) (idu :: ids)) (renderC ds)
        rp.isDir : M Bool) w = (.ok (pIsDirN (mu :: ms) (renderC ds)), w) := by
  unfold pIsDirN
  by_cases hne : ds = []
  · subst hne
    simp only [renderC_nil, ↓reduceIte, bind, M.bind, readPath, Pure.pure, M.pure,
      writeLayer_layersN, run_visDir h.hu, List.headD_cons]
    cases mu.find? [] <;> rfl
  · unfold pexistsN at hex
    rw [if_neg (renderC_ne_nil hne)] at hex ⊢
    rcases readPath_casesN h ds hne hds with ⟨hv, hr⟩ | ⟨k, i, id, m, e, hf, hi, hid, hl, he, _, hv, hr⟩
    · rw [hv] at hex; cases hex
    · simp only [bind, M.bind, hr, run_visDir hl, he, hv]

/-- `ensure_has_parent` as a function of the maps; `ds` are the components of the parent.
The parent has to exist in the n-layer view AND be a directory there; otherwise the call fails
and the upper map is unchanged (a parent that is a FILE used to get shadowed by directories
created in the upper layer). -/
def pEnsureN (all : List FMap) (ds : List Str) : Res Unit × FMap :=
  if pexistsN all (renderC ds) then
    if pIsDirN all (renderC ds) then Mem.mkdirs (all.headD []) (chain [] ds)
    else (.err .other none, all.headD [])
  else (.err .other none, all.headD [])

theorem run_ensureHasParentN (cs : List Str) (hne : cs ≠ []) (hcs : ∀ c ∈ cs, GoodComp c) :
    ensureHasParent (layersN (u :: is) (idu :: ids)) (renderC cs) w =
      ((pEnsureN (mu :: ms) cs.dropLast).1,
        w.setLeafFiles u (pEnsureN (mu :: ms) cs.dropLast).2) := by
  have hds : ∀ c ∈ cs.dropLast, GoodComp c := fun c hc => hcs c (List.dropLast_subset _ hc)
  unfold ensureHasParent pEnsureN
  rw [if_pos (slash_mem_renderC hne), parentInternal_renderC cs (good_noSlash hcs),
    writePath_layersN_any _ hds]
  by_cases hex : pexistsN (mu :: ms) (renderC cs.dropLast) = true
  · have hrd := run_readPath_isDirN h cs.dropLast hds hex
    simp only [bind, M.bind] at hrd
    by_cases hd : pIsDirN (mu :: ms) (renderC cs.dropLast) = true
    · rw [hd] at hrd
      simp only [bind, M.bind, run_oexists_anyN h _ hds, hex, if_true] at hrd ⊢
      split at hrd
      · rw [hrd]
        simp [hd, M.ret, M.bind, run_createDirAll h.hu idu _ hds]
      · cases hrd
      · cases hrd
    · have hd' : pIsDirN (mu :: ms) (renderC cs.dropLast) = false := by simpa using hd
      rw [hd'] at hrd
      simp only [bind, M.bind, run_oexists_anyN h _ hds, hex, if_true] at hrd ⊢
      split at hrd
      · rw [hrd]
        simp [hd', M.failK, fail, h.hu.same]
      · cases hrd
      · cases hrd
  · simp [hex, bind, M.bind, M.ret, run_oexists_anyN h _ hds, M.failK, fail, h.hu.same]

theorem run_clearWhiteoutN (cs : List Str) (hne : cs ≠ []) (hcs : ∀ c ∈ cs, GoodComp c) :
    clearWhiteout (layersN (u :: is) (idu :: ids)) (renderC cs) w =
      ((pClear mu (renderC cs)).1, w.setLeafFiles u (pClear mu (renderC cs)).2) := by
  unfold clearWhiteout pClear
  rw [whiteoutPath_layersN cs hne hcs]
  by_cases hm : mu.contains (marker (renderC cs)) = true
  · simp [hm, bind, M.bind, M.ret, run_vexists h.hu, run_pRemoveFile h.hu]
  · simp [hm, bind, M.bind, M.ret, run_vexists h.hu, Pure.pure, M.pure, h.hu.same]

/-- the tolerant removal of the marker by `create_dir` (fix of O11) computes `pClear` as well: over a
memory layer a marker that exists is removable -/
theorem run_clearWhiteoutTN (cs : List Str) (hne : cs ≠ []) (hcs : ∀ c ∈ cs, GoodComp c) :
    clearWhiteoutT (layersN (u :: is) (idu :: ids)) (renderC cs) w =
      ((pClear mu (renderC cs)).1, w.setLeafFiles u (pClear mu (renderC cs)).2) := by
  unfold clearWhiteoutT pClear
  rw [whiteoutPath_layersN cs hne hcs]
  by_cases hm : mu.contains (marker (renderC cs)) = true
  · simp only [hm, bind, M.bind, M.ret, run_vexists h.hu, run_pRemoveFile h.hu, if_true]
    have hnf := Mem.pRemoveFile_not_nf hm
    cases hr : Mem.pRemoveFile mu (marker (renderC cs)) with
    | mk r m' =>
      rw [hr] at hnf
      cases r with
      | ok a => rfl
      | err k pth => cases k <;> first | rfl | exact absurd rfl (hnf pth)
      | panic => rfl
  · simp [hm, bind, M.bind, M.ret, run_vexists h.hu, Pure.pure, M.pure, h.hu.same]

/-- `create_dir` over n layers -/
def pCreateDirN (mu : FMap) (ms : List FMap) (cs : List Str) : Res Unit × FMap :=
  andThen (pEnsureN (mu :: ms) cs.dropLast) fun _ mu1 =>
    match viewN (mu1 :: ms) (renderC cs) with
    | some e => (.err (if e.ftype = .file then .fileExists else .dirExists) none, mu1)
    | none => pCreateTail mu1 (renderC cs)

theorem run_ocreateDirN (cs : List Str) (hne : cs ≠ []) (hcs : ∀ c ∈ cs, GoodComp c) :
    Overlay.createDir (layersN (u :: is) (idu :: ids)) (renderC cs) w =
      ((pCreateDirN mu ms cs).1, w.setLeafFiles u (pCreateDirN mu ms cs).2) := by
  unfold Overlay.createDir pCreateDirN
  simp only [bind, M.bind, run_ensureHasParentN h cs hne hcs]
  cases hE : pEnsureN (mu :: ms) cs.dropLast with
  | mk r mu1 =>
    cases r with
    | err k pth => rfl
    | panic => rfl
    | ok a =>
      have h1 := h.setHead mu1
      have hmeta := run_readPath_metadataN h1 cs hne hcs
        (fun md => (M.failK (if md.ftype = .file then .fileExists else .dirExists) : M Unit))
      simp only [bind, M.bind, M.failK, fail, Entry.meta] at hmeta
      simp only [andThen, run_oexistsN h1 cs hne hcs]
      rcases Option.eq_none_or_eq_some (viewN (mu1 :: ms) (renderC cs)) with hv | ⟨e, hv⟩
      · simp only [hv, Option.isSome_none, Bool.false_eq_true, if_false, M.ret, M.bind,
          writePath_layersN cs hne hcs, run_pCreateDir h1.hu]
        unfold pCreateTail
        cases hC : Mem.pCreateDir mu1 (renderC cs) with
        | mk r2 mu2 =>
          cases r2 with
          | err k pth =>
            cases k <;> try simp only [World.setLeafFiles_twice]
            simp only [run_clearWhiteoutTN (h.setHead mu2) cs hne hcs, World.setLeafFiles_twice]
            cases hP : pClear mu2 (renderC cs) with
            | mk r3 mu3 => cases r3 <;> rfl
          | panic => simp only [World.setLeafFiles_twice]
          | ok a2 =>
            simp only [run_clearWhiteoutTN (h.setHead mu2) cs hne hcs, World.setLeafFiles_twice]
      · rw [hv] at hmeta
        simp only [hv, Option.isSome_some, if_true, M.bind, M.failK, fail]
        exact hmeta

/-- the type check of `create_file` over n layers -/
def pRefuseN (all : List FMap) (p : Str) : Res Unit :=
  match viewN all p with
  | some e => if e.ftype = .dir then .err .other none else .ok ()
  | none => .ok ()

theorem run_refuseDirN (cs : List Str) (hne : cs ≠ []) (hcs : ∀ c ∈ cs, GoodComp c) :
    refuseDir (layersN (u :: is) (idu :: ids)) (renderC cs) w
      = (pRefuseN (mu :: ms) (renderC cs), w) := by
  unfold refuseDir pRefuseN
  have hmeta := run_readPath_metadataN h cs hne hcs
    (fun md => (if md.ftype = .dir then M.failK .other else pure () : M Unit))
  simp only [bind, M.bind] at hmeta
  simp only [bind, M.bind, run_oexistsN h cs hne hcs]
  rcases Option.eq_none_or_eq_some (viewN (mu :: ms) (renderC cs)) with hv | ⟨e, hv⟩
  · simp [hv, Pure.pure, M.pure]
  · simp only [hv, Option.isSome_some, if_true, M.bind, hmeta, Entry.meta]
    by_cases hd : e.ftype = .dir
    · simp [hd, M.failK, fail]
    · simp [hd, Pure.pure, M.pure]

/-- `create_file` (the handle aside) over n layers -/
def pCreateFileN (mu : FMap) (ms : List FMap) (cs : List Str) : Res Unit × FMap :=
  andThen (pEnsureN (mu :: ms) cs.dropLast) fun _ mu1 =>
    andThen (pRefuseN (mu1 :: ms) (renderC cs), mu1) fun _ _ =>
      andThen (Mem.pOpenW mu1 (renderC cs)) fun _ mu2 => pClear mu2 (renderC cs)

theorem run_ocreateFileN (cs : List Str) (hne : cs ≠ []) (hcs : ∀ c ∈ cs, GoodComp c) :
    Overlay.createFile (layersN (u :: is) (idu :: ids)) (renderC cs) w =
      ((pCreateFileN mu ms cs).1.map
        (fun _ => ({ leaf := u, key := renderC cs, kind := .memFile, buf := [], pos := 0 } : WHandle)),
        w.setLeafFiles u (pCreateFileN mu ms cs).2) := by
  unfold Overlay.createFile pCreateFileN
  simp only [bind, M.bind, run_ensureHasParentN h cs hne hcs]
  cases hE : pEnsureN (mu :: ms) cs.dropLast with
  | mk r mu1 =>
    cases r with
    | err k pth => rfl
    | panic => rfl
    | ok a =>
      have h1 := h.setHead mu1
      simp only [andThen, run_refuseDirN h1 cs hne hcs]
      cases hR : pRefuseN (mu1 :: ms) (renderC cs) with
      | err k pth => rfl
      | panic => rfl
      | ok a1 =>
        simp only [M.ret, M.bind, writePath_layersN cs hne hcs, run_pOpenW h1.hu]
        cases hC : Mem.pOpenW mu1 (renderC cs) with
        | mk r2 mu2 =>
          cases r2 with
          | err k pth => simp only [Res.map, World.setLeafFiles_twice]
          | panic => simp only [Res.map, World.setLeafFiles_twice]
          | ok a2 =>
            simp only [Res.map, World.setLeafFiles_twice,
              run_clearWhiteoutN (h.setHead mu2) cs hne hcs]
            cases hP : pClear mu2 (renderC cs) with
            | mk r3 mu3 => cases r3 <;> rfl

end runN2

/-! ### `ensure_has_parent` does not change the n-layer view -/

/-- every proper ancestor directory `/d1`, `/d1/d2`, … is a directory of the n-layer view -/
def AncDirsN (all : List FMap) (ds : List Str) : Prop :=
  ∀ j, 1 ≤ j → j ≤ ds.length → ∃ e, viewN all (renderC (ds.take j)) = some e ∧ e.ftype = .dir

theorem AncDirsN_two (mu ml : FMap) (ds : List Str) : AncDirsN [mu, ml] ds ↔ AncDirs mu ml ds := by
  unfold AncDirsN AncDirs
  simp only [viewN_two]

theorem viewN_upper {mu : FMap} {ms : List FMap} {p : Str} {e : Entry}
    (hm : mu.contains (marker p) = false) (hf : mu.find? p = some e) :
    viewN (mu :: ms) p = some e := by
  rw [viewN_unmarked hm]; simp [firstN, hf]

theorem viewN_lower {mu : FMap} {ms : List FMap} {p : Str}
    (hm : mu.contains (marker p) = false) (hf : mu.find? p = none) :
    viewN (mu :: ms) p = firstN ms p := by
  rw [viewN_unmarked hm]; simp [firstN, hf]

theorem pexistsN_of_anc {mu : FMap} {ms : List FMap} {ds : List Str} (hroot : RootOk mu)
    (hanc : AncDirsN (mu :: ms) ds) : pexistsN (mu :: ms) (renderC ds) = true := by
  unfold pexistsN
  by_cases hne : ds = []
  · subst hne
    obtain ⟨e, he, _⟩ := hroot.root
    simp [hroot.noMark, contains_of_find he]
  · rw [if_neg (renderC_ne_nil hne)]
    have hl : 1 ≤ ds.length := by
      cases ds with
      | nil => exact absurd rfl hne
      | cons d ds => simp
    obtain ⟨e, he, _⟩ := hanc ds.length hl (Nat.le_refl _)
    rw [List.take_length] at he
    rw [he]; rfl

/-- when the proper ancestors are directories of the view, so is the parent itself: the type
test of `ensure_has_parent` succeeds -/
theorem pIsDirN_of_anc {mu : FMap} {ms : List FMap} {ds : List Str} (hroot : RootOk mu)
    (hanc : AncDirsN (mu :: ms) ds) : pIsDirN (mu :: ms) (renderC ds) = true := by
  unfold pIsDirN
  by_cases hne : ds = []
  · subst hne
    obtain ⟨e, he, hd⟩ := hroot.root
    simp [he, hd]
  · rw [if_neg (renderC_ne_nil hne)]
    have hl : 1 ≤ ds.length := by
      cases ds with
      | nil => exact absurd rfl hne
      | cons d ds => simp
    obtain ⟨e, he, hd⟩ := hanc ds.length hl (Nat.le_refl _)
    rw [List.take_length] at he
    simp [he, hd]

theorem chain_dirs_of_ancN {mu : FMap} {ms : List FMap} {ds : List Str}
    (hanc : AncDirsN (mu :: ms) ds) :
    ∀ k ∈ chain [] ds, ∀ e, mu.find? k = some e → e.ftype = .dir := by
  intro k hk e he
  obtain ⟨j, h1, h2, rfl⟩ := (mem_chain [] ds k).1 hk
  obtain ⟨e', hv, hd⟩ := hanc j h1 h2
  simp only [List.nil_append] at he
  have hm : mu.contains (marker (renderC (ds.take j))) = false := by
    rw [viewN_cons] at hv
    split at hv
    · cases hv
    · rename_i hm; simpa using hm
  rw [viewN_upper hm he] at hv
  injection hv with hv; subst hv; exact hd

/-- under the hypotheses, `ensure_has_parent` succeeds and only fills in missing directories -/
theorem pEnsureN_ok {mu : FMap} {ms : List FMap} {ds : List Str} (hroot : RootOk mu)
    (hds : ∀ c ∈ ds, GoodComp c) (hanc : AncDirsN (mu :: ms) ds) :
    pEnsureN (mu :: ms) ds = (.ok (), fillDirs mu (chain [] ds)) := by
  unfold pEnsureN
  rw [if_pos (pexistsN_of_anc hroot hanc), if_pos (pIsDirN_of_anc hroot hanc)]
  exact mkdirs_chain mu [] ds (by simp) (good_noSlash hds) hroot.root
    (chain_dirs_of_ancN hanc)

/-- the parent is a FILE of the n-layer view (in whichever layer): `ensure_has_parent` fails
with `Other` and the upper map is unchanged — the pure counterpart of the fix -/
theorem pEnsureN_file {mu : FMap} {ms : List FMap} {ds : List Str} (hne : ds ≠ []) {e : Entry}
    (hv : viewN (mu :: ms) (renderC ds) = some e) (hf : e.ftype = .file) :
    pEnsureN (mu :: ms) ds = (.err .other none, mu) := by
  unfold pEnsureN pexistsN pIsDirN
  simp [renderC_ne_nil hne, hv, hf]

/-- in a well-formed upper map nothing sits below a path that the n-layer view shows as a file -/
theorem upper_child_absent_of_viewN_file {mu : FMap} {ms : List FMap} {ds : List Str} {n : Str}
    (hwf : WF mu) (hds : ∀ c ∈ ds, GoodComp c) (hn : GoodComp n) {e : Entry}
    (hv : viewN (mu :: ms) (renderC ds) = some e) (hf : e.ftype = .file) :
    mu.find? (renderC (ds ++ [n])) = none := by
  rcases Option.eq_none_or_eq_some (mu.find? (renderC (ds ++ [n]))) with hc | ⟨ce, hc⟩
  · exact hc
  · exfalso
    obtain ⟨_, pe, hp, hpd⟩ := hwf.2 _ ce hc (renderC_ne_nil (by simp))
    rw [parent_snoc ds n hds hn] at hp
    obtain ⟨hm, _⟩ := viewN_some_cases hv
    rw [viewN_upper hm hp] at hv
    injection hv with hv; subst hv; rw [hf] at hpd; cases hpd

/-- **`ensure_has_parent` leaves the n-layer view unchanged** (up to the timestamps of the
directories it materialises in the upper layer) -/
theorem view_fillDirsN {mu : FMap} {ms : List FMap} {ds : List Str} (hds : ∀ c ∈ ds, GoodComp c)
    (hanc : AncDirsN (mu :: ms) ds) (hhead : ds.head? ≠ some woDir) (q : Str)
    (hq : q.head? = some '/') :
    (viewN (fillDirs mu (chain [] ds) :: ms) q).map dirBlind
      = (viewN (mu :: ms) q).map dirBlind := by
  rw [viewN_cons, viewN_cons, contains_marker_fillDirs hds hhead q hq]
  by_cases hm : mu.contains (marker q) = true
  · simp [hm]
  · have hm' : mu.contains (marker q) = false := by simpa using hm
    simp only [hm, Bool.false_eq_true, if_false, firstN]
    rw [find?_fillDirs]
    rcases Option.eq_none_or_eq_some (mu.find? q) with hf | ⟨e, hf⟩
    · by_cases hk : q ∈ chain [] ds
      · obtain ⟨j, h1, h2, he⟩ := (mem_chain [] ds _).1 hk
        simp only [List.nil_append] at he
        obtain ⟨e', hv, hd⟩ := hanc j h1 h2
        rw [← he, viewN_lower hm' hf] at hv
        simp [hf, hk, hv, dirBlind, hd, dirEntryNow]
      · simp [hf, hk]
    · simp [hf]

/-- when every ancestor already is in the upper layer, nothing is filled in -/
theorem fillDirs_of_contains (m : FMap) (ks : List Str) (h : ∀ k ∈ ks, m.contains k = true) :
    fillDirs m ks = m := by
  induction ks with
  | nil => rfl
  | cons k ks ih =>
    rw [fillDirs, if_pos (h k (by simp))]
    exact ih (fun k' hk' => h k' (by simp [hk']))

end Vfs
