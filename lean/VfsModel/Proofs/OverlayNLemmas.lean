/-
  Helper lemmas for the n-layer generalisation of C09 (Props/C09N.lean).

  * the setting `OWN w is ids ms`: the leaves `is` (pairwise distinct) of the world are memory
    leaves holding the maps `ms`; `layersN is ids` are the roots of those leaf filesystems;
  * the union view of n layers `viewN ms p`, the layer that serves a path (`FirstAt`), and the
    pure functions `firstPath`, `mergeAll`, `pListingN`, `pexistsN`, `pEnsureN`;
  * the `run_*N` lemmas: `firstExisting`, `read_path`, `exists`, `mergeListings`, `read_dir`,
    `ensure_has_parent` of the overlay over n leaf roots compute those pure functions
    (induction over the list of layers; the per-layer facts are the `run_v*` lemmas of
    OverlayLemmas.lean);
  * `ensure_has_parent` keeps the n-layer view (`view_fillDirsN`).
-/
import VfsModel.Proofs.OverlayLemmas
set_option linter.unusedSimpArgs false
set_option linter.unusedVariables false
namespace Vfs
open Overlay

/-! ### the setting: n memory leaves, n layer roots -/

/-- the leaves `is` (pairwise distinct) of the world are memory leaves holding the maps `ms`;
`ids` are the (arbitrary) filesystem identities of the layers. The three lists have the same
length by construction. -/
inductive OWN (w : World) : List Nat → List Nat → List FMap → Prop
  | nil : OWN w [] [] []
  | cons {i id : Nat} {m : FMap} {is ids : List Nat} {ms : List FMap} :
      MemLeafAt w i m → i ∉ is → OWN w is ids ms → OWN w (i :: is) (id :: ids) (m :: ms)

/-- the layers of the overlay: the ROOTS of the leaf filesystems `is`, in order -/
def layersN : List Nat → List Nat → List VPath
  | i :: is, id :: ids => { fs := leafFS i, fsId := id, path := [] } :: layersN is ids
  | _, _ => []

theorem layersN_two (u l idu idl : Nat) : layersN [u, l] [idu, idl] = layers2 u l idu idl := rfl

theorem OWN.len_ids {w : World} {is ids : List Nat} {ms : List FMap} (h : OWN w is ids ms) :
    is.length = ids.length := by
  induction h with
  | nil => rfl
  | cons _ _ _ ih => simp [ih]

theorem OWN.len_ms {w : World} {is ids : List Nat} {ms : List FMap} (h : OWN w is ids ms) :
    is.length = ms.length := by
  induction h with
  | nil => rfl
  | cons _ _ _ ih => simp [ih]

theorem OWN.nodup {w : World} {is ids : List Nat} {ms : List FMap} (h : OWN w is ids ms) :
    is.Nodup := by
  induction h with
  | nil => exact List.nodup_nil
  | cons _ hni _ ih => exact List.nodup_cons.2 ⟨hni, ih⟩

theorem OWN.leafAt {w : World} {is ids : List Nat} {ms : List FMap} (h : OWN w is ids ms)
    (k i : Nat) (m : FMap) (hi : is[k]? = some i) (hm : ms[k]? = some m) : MemLeafAt w i m := by
  induction h generalizing k with
  | nil => simp at hi
  | cons h0 _ _ ih =>
    cases k with
    | zero => simp at hi hm; subst hi; subst hm; exact h0
    | succ k => simp at hi hm; exact ih k hi hm

/-- the setting, spelled out with indices -/
theorem OWN.of_lists {w : World} {is ids : List Nat} {ms : List FMap}
    (h1 : is.length = ids.length) (h2 : is.length = ms.length) (hnd : is.Nodup)
    (hl : ∀ (k i : Nat) (m : FMap), is[k]? = some i → ms[k]? = some m → MemLeafAt w i m) :
    OWN w is ids ms := by
  induction is generalizing ids ms with
  | nil =>
    cases ids with
    | nil =>
      cases ms with
      | nil => exact .nil
      | cons _ _ => simp at h2
    | cons _ _ => simp at h1
  | cons i is ih =>
    cases ids with
    | nil => simp at h1
    | cons id ids =>
      cases ms with
      | nil => simp at h2
      | cons m ms =>
        have hnd' := List.nodup_cons.1 hnd
        refine .cons (hl 0 i m rfl rfl) hnd'.1 (ih (by simpa using h1) (by simpa using h2) hnd'.2 ?_)
        intro k j mj hj hmj
        exact hl (k + 1) j mj (by simpa using hj) (by simpa using hmj)

/-- changing the map of a leaf that is not among the layers -/
theorem OWN.frame {w : World} {is ids : List Nat} {ms : List FMap} (h : OWN w is ids ms)
    (i : Nat) (hi : i ∉ is) (m' : FMap) : OWN (w.setLeafFiles i m') is ids ms := by
  induction h with
  | nil => exact .nil
  | @cons j id m is ids ms h0 hni ht ih =>
    have hij : i ≠ j := fun e => hi (by simp [e])
    refine .cons ?_ hni (ih (fun hm => hi (by simp [hm])))
    unfold MemLeafAt; rw [World.leaf?_setLeafFiles_ne w i j m' hij]; exact h0

/-- the upper layer's map changes -/
theorem OWN.setHead {w : World} {u idu : Nat} {mu : FMap} {is ids : List Nat} {ms : List FMap}
    (h : OWN w (u :: is) (idu :: ids) (mu :: ms)) (m' : FMap) :
    OWN (w.setLeafFiles u m') (u :: is) (idu :: ids) (m' :: ms) := by
  cases h with
  | cons h0 hni ht => exact .cons (h0.set m') hni (ht.frame u hni m')

/-- the map of layer `k` changes -/
theorem OWN.setAt {w : World} {is ids : List Nat} {ms : List FMap} (h : OWN w is ids ms)
    (k i : Nat) (hi : is[k]? = some i) (m' : FMap) :
    OWN (w.setLeafFiles i m') is ids (ms.set k m') := by
  induction h generalizing k with
  | nil => simp at hi
  | @cons j id m is ids ms h0 hni ht ih =>
    cases k with
    | zero =>
      simp at hi; subst hi
      exact .cons (h0.set m') hni (ht.frame _ hni m')
    | succ k =>
      simp at hi
      have hmem : i ∈ is := List.mem_of_getElem? hi
      have hij : i ≠ j := fun e => hni (e ▸ hmem)
      simp only [List.set_cons_succ]
      refine .cons ?_ hni (ih k hi)
      unfold MemLeafAt; rw [World.leaf?_setLeafFiles_ne w i j m' hij]; exact h0

theorem OW.toN {w : World} {u l : Nat} {mu ml : FMap} (h : OW w u l mu ml) (idu idl : Nat) :
    OWN w [u, l] [idu, idl] [mu, ml] :=
  .cons h.hu (by simpa using h.ne) (.cons h.hl (by simp) .nil)

theorem OWN.toOW {w : World} {u l idu idl : Nat} {mu ml : FMap}
    (h : OWN w [u, l] [idu, idl] [mu, ml]) : OW w u l mu ml := by
  cases h with
  | cons h0 hni ht =>
    cases ht with
    | cons h1 _ _ => exact ⟨h0, h1, by simpa using hni⟩

theorem writeLayer_layersN (u idu : Nat) (is ids : List Nat) :
    writeLayer (layersN (u :: is) (idu :: ids)) = { fs := leafFS u, fsId := idu, path := [] } := rfl

/-! ### the union view of n layers -/

/-- the entry of the first layer (in order) whose map has the path -/
def firstN : List FMap → Str → Option Entry
  | [], _ => none
  | m :: rest, p => (m.find? p).or (firstN rest p)

/-- the union view of n layers: nothing where a marker sits in the upper (first) layer,
otherwise the entry of the first layer that has the path -/
def viewN (ms : List FMap) (p : Str) : Option Entry :=
  if (ms.headD []).contains (marker p) then none else firstN ms p

theorem viewN_two (mu ml : FMap) (p : Str) : viewN [mu, ml] p = view mu ml p := by
  unfold viewN view firstN firstN firstN
  simp

theorem viewN_cons (mu : FMap) (ms : List FMap) (p : Str) :
    viewN (mu :: ms) p = if mu.contains (marker p) then none else firstN (mu :: ms) p := rfl

theorem viewN_marked {mu : FMap} {ms : List FMap} {p : Str}
    (hm : mu.contains (marker p) = true) : viewN (mu :: ms) p = none := by
  rw [viewN_cons, if_pos hm]

theorem viewN_unmarked {mu : FMap} {ms : List FMap} {p : Str}
    (hm : mu.contains (marker p) = false) : viewN (mu :: ms) p = firstN (mu :: ms) p := by
  rw [viewN_cons, hm]; rfl

/-- layer `k` (holding `m`) is the first one whose map has `p` -/
structure FirstAt (ms : List FMap) (p : Str) (k : Nat) (m : FMap) : Prop where
  get : ms[k]? = some m
  has : m.contains p = true
  before : ∀ j mj, j < k → ms[j]? = some mj → mj.find? p = none

theorem firstN_of_firstAt {ms : List FMap} {p : Str} {k : Nat} {m : FMap}
    (h : FirstAt ms p k m) : firstN ms p = m.find? p := by
  induction ms generalizing k with
  | nil => have := h.get; simp at this
  | cons m0 ms ih =>
    cases k with
    | zero =>
      have hg := h.get; simp at hg; subst hg
      obtain ⟨e, he⟩ := (FMap.contains_iff _ _).1 h.has
      simp [firstN, he]
    | succ k =>
      have h0 : m0.find? p = none := h.before 0 m0 (by omega) rfl
      have : FirstAt ms p k m :=
        ⟨by simpa using h.get, h.has, fun j mj hj hmj => h.before (j + 1) mj (by omega) (by simpa using hmj)⟩
      simp [firstN, h0, ih this]

theorem firstN_none_iff (ms : List FMap) (p : Str) :
    firstN ms p = none ↔ ∀ m ∈ ms, m.find? p = none := by
  induction ms with
  | nil => simp [firstN]
  | cons m ms ih =>
    simp only [firstN, List.mem_cons, forall_eq_or_imp, ← ih]
    cases m.find? p <;> simp

/-- an entry of `firstN` comes from a first layer -/
theorem firstN_some {ms : List FMap} {p : Str} {e : Entry} (h : firstN ms p = some e) :
    ∃ k m, FirstAt ms p k m ∧ m.find? p = some e := by
  induction ms with
  | nil => simp [firstN] at h
  | cons m0 ms ih =>
    rcases Option.eq_none_or_eq_some (m0.find? p) with h0 | ⟨e0, h0⟩
    · simp only [firstN, h0, Option.none_or] at h
      obtain ⟨k, m, hf, he⟩ := ih h
      refine ⟨k + 1, m, ⟨by simpa using hf.get, hf.has, ?_⟩, he⟩
      intro j mj hj hmj
      cases j with
      | zero => simp at hmj; subst hmj; exact h0
      | succ j => exact hf.before j mj (by omega) (by simpa using hmj)
    · simp only [firstN, h0, Option.some_or, Option.some.injEq] at h
      subst h
      exact ⟨0, m0, ⟨rfl, contains_of_find h0, fun j _ hj => by omega⟩, h0⟩

theorem firstN_isSome (ms : List FMap) (p : Str) :
    (firstN ms p).isSome = ms.any (fun m => m.contains p) := by
  induction ms with
  | nil => rfl
  | cons m ms ih =>
    rcases Option.eq_none_or_eq_some (m.find? p) with hf | ⟨e, hf⟩
    · simp [firstN, hf, contains_of_none hf, ih]
    · simp [firstN, hf, contains_of_find hf]

theorem viewN_isSome (mu : FMap) (ms : List FMap) (p : Str) :
    (viewN (mu :: ms) p).isSome =
      (!mu.contains (marker p) && (mu :: ms).any (fun m => m.contains p)) := by
  rw [viewN_cons, ← firstN_isSome]
  cases mu.contains (marker p) <;> simp

theorem viewN_some_cases {mu : FMap} {ms : List FMap} {p : Str} {e : Entry}
    (h : viewN (mu :: ms) p = some e) :
    mu.contains (marker p) = false ∧ ∃ k m, FirstAt (mu :: ms) p k m ∧ m.find? p = some e := by
  rw [viewN_cons] at h
  split at h
  · cases h
  · rename_i hm
    exact ⟨by simpa using hm, firstN_some h⟩

/-! ### `firstExisting` and `read_path` over n leaf roots -/

/-- the path `firstExisting` returns: the first layer root whose map has `p`, at `p` -/
def firstPath (p : Str) : List Nat → List Nat → List FMap → Option VPath
  | i :: is, id :: ids, m :: ms =>
    if m.contains p then some { fs := leafFS i, fsId := id, path := p } else firstPath p is ids ms
  | _, _, _ => none

theorem run_firstExistingN {w : World} {is ids : List Nat} {ms : List FMap} (h : OWN w is ids ms)
    (cs : List Str) (hne : cs ≠ []) (hcs : ∀ c ∈ cs, GoodComp c) :
    firstExisting (renderC cs) (layersN is ids) w = (.ok (firstPath (renderC cs) is ids ms), w) := by
  induction h with
  | nil => rfl
  | @cons i id m is ids ms h0 hni ht ih =>
    unfold layersN firstExisting firstPath
    rw [join_leafRoot i id cs hne hcs]
    by_cases h1 : m.contains (renderC cs) = true
    · simp [h1, bind, M.bind, M.ret, run_vexists h0, Pure.pure, M.pure]
    · simp [h1, bind, M.bind, M.ret, run_vexists h0, ih]

/-- what a result of `firstPath` is -/
theorem firstPath_some {w : World} {is ids : List Nat} {ms : List FMap} (h : OWN w is ids ms)
    {p : Str} {q : VPath} (hq : firstPath p is ids ms = some q) :
    ∃ k i id m, FirstAt ms p k m ∧ is[k]? = some i ∧ ids[k]? = some id ∧ MemLeafAt w i m ∧
      q = { fs := leafFS i, fsId := id, path := p } := by
  induction h with
  | nil => simp [firstPath] at hq
  | @cons i id m is ids ms h0 hni ht ih =>
    unfold firstPath at hq
    by_cases h1 : m.contains p = true
    · rw [if_pos h1] at hq
      injection hq with hq
      exact ⟨0, i, id, m, ⟨rfl, h1, fun j _ hj => by omega⟩, rfl, rfl, h0, hq.symm⟩
    · rw [if_neg h1] at hq
      obtain ⟨k, i', id', m', hf, hi, hid, hl, hq'⟩ := ih hq
      refine ⟨k + 1, i', id', m', ⟨by simpa using hf.get, hf.has, ?_⟩, by simpa using hi,
        by simpa using hid, hl, hq'⟩
      intro j mj hj hmj
      cases j with
      | zero =>
        simp at hmj; subst hmj
        have : m.contains p = false := by simpa using h1
        unfold FMap.contains at this
        cases hfp : m.find? p <;> simp_all
      | succ j => exact hf.before j mj (by omega) (by simpa using hmj)

theorem firstPath_none {w : World} {is ids : List Nat} {ms : List FMap} (h : OWN w is ids ms)
    {p : Str} (hq : firstPath p is ids ms = none) : ∀ m ∈ ms, m.find? p = none := by
  induction h with
  | nil => simp
  | @cons i id m is ids ms h0 hni ht ih =>
    unfold firstPath at hq
    by_cases h1 : m.contains p = true
    · rw [if_pos h1] at hq; cases hq
    · rw [if_neg h1] at hq
      intro m' hm'
      rcases List.mem_cons.1 hm' with rfl | hm'
      · have : m'.contains p = false := by simpa using h1
        unfold FMap.contains at this
        cases hfp : m'.find? p <;> simp_all
      · exact ih hq m' hm'

section runN
variable {w : World} {u idu : Nat} {mu : FMap} {is ids : List Nat} {ms : List FMap}
  (h : OWN w (u :: is) (idu :: ids) (mu :: ms))
include h

theorem OWN.hu : MemLeafAt w u mu := by
  cases h with
  | cons h0 _ _ => exact h0

omit h in
theorem whiteoutPath_layersN (cs : List Str) (hne : cs ≠ []) (hcs : ∀ c ∈ cs, GoodComp c) :
    whiteoutPath (layersN (u :: is) (idu :: ids)) (renderC cs)
      = .ok { fs := leafFS u, fsId := idu, path := marker (renderC cs) } := by
  rcases List.eq_nil_or_concat cs with rfl | ⟨ds, n, rfl⟩
  · exact absurd rfl hne
  · rw [List.concat_eq_append] at hcs ⊢
    obtain ⟨hds, hn⟩ := good_of_snoc hcs
    exact whiteoutPath_canon _ rfl ds n hds hn

omit h in
theorem writePath_layersN (cs : List Str) (hne : cs ≠ []) (hcs : ∀ c ∈ cs, GoodComp c) :
    writePath (layersN (u :: is) (idu :: ids)) (renderC cs)
      = .ok { fs := leafFS u, fsId := idu, path := renderC cs } :=
  writePath_canon _ rfl cs hne hcs

omit h in
theorem writePath_layersN_any (ds : List Str) (hds : ∀ c ∈ ds, GoodComp c) :
    writePath (layersN (u :: is) (idu :: ids)) (renderC ds)
      = .ok { fs := leafFS u, fsId := idu, path := renderC ds } := by
  by_cases hne : ds = []
  · subst hne; rfl
  · exact writePath_layersN ds hne hds

/-- `read_path` on a canonical non-root path, over n leaf roots -/
theorem run_readPathN (cs : List Str) (hne : cs ≠ []) (hcs : ∀ c ∈ cs, GoodComp c) :
    readPath (layersN (u :: is) (idu :: ids)) (renderC cs) w =
      (if mu.contains (marker (renderC cs)) then .err .fileNotFound none
       else match firstPath (renderC cs) (u :: is) (idu :: ids) (mu :: ms) with
         | some q => .ok q
         | none => .err .fileNotFound none, w) := by
  unfold readPath
  rw [if_neg (renderC_ne_nil hne), whiteoutPath_layersN cs hne hcs, writeLayer_layersN,
    join_leafRoot u idu cs hne hcs]
  by_cases hm : mu.contains (marker (renderC cs)) = true
  · simp [hm, bind, M.bind, M.ret, run_vexists h.hu, M.failK, fail]
  · cases hfp : firstPath (renderC cs) (u :: is) (idu :: ids) (mu :: ms) with
    | some q =>
      simp [hm, hfp, bind, M.bind, M.ret, run_vexists h.hu, run_firstExistingN h cs hne hcs,
        Pure.pure, M.pure]
    | none =>
      have h0 : mu.contains (renderC cs) = false :=
        contains_of_none (firstPath_none h hfp mu (by simp))
      simp [hm, hfp, h0, bind, M.bind, M.ret, run_vexists h.hu, run_firstExistingN h cs hne hcs,
        Pure.pure, M.pure, M.failK, fail]

/-- **`read_path` is the n-layer view**: either the view has nothing at `p` and `read_path`
fails with `FileNotFound`, or it returns `p` on the root of the FIRST layer whose map has `p`,
and the view's entry is that layer's entry. The world is unchanged. -/
theorem readPath_casesN (cs : List Str) (hne : cs ≠ []) (hcs : ∀ c ∈ cs, GoodComp c) :
    (viewN (mu :: ms) (renderC cs) = none ∧
      readPath (layersN (u :: is) (idu :: ids)) (renderC cs) w = (.err .fileNotFound none, w)) ∨
    (∃ k i id m e, FirstAt (mu :: ms) (renderC cs) k m ∧ (u :: is)[k]? = some i ∧
      (idu :: ids)[k]? = some id ∧ MemLeafAt w i m ∧ m.find? (renderC cs) = some e ∧
      mu.contains (marker (renderC cs)) = false ∧
      viewN (mu :: ms) (renderC cs) = some e ∧
      readPath (layersN (u :: is) (idu :: ids)) (renderC cs) w =
        (.ok { fs := leafFS i, fsId := id, path := renderC cs }, w)) := by
  rw [run_readPathN h cs hne hcs]
  by_cases hm : mu.contains (marker (renderC cs)) = true
  · left; exact ⟨viewN_marked hm, by rw [if_pos hm]⟩
  · have hm' : mu.contains (marker (renderC cs)) = false := by simpa using hm
    rw [if_neg hm, viewN_unmarked hm']
    cases hfp : firstPath (renderC cs) (u :: is) (idu :: ids) (mu :: ms) with
    | none => left; exact ⟨(firstN_none_iff _ _).2 (firstPath_none h hfp), rfl⟩
    | some q =>
      right
      obtain ⟨k, i, id, m, hf, hi, hid, hl, rfl⟩ := firstPath_some h hfp
      obtain ⟨e, he⟩ := (FMap.contains_iff _ _).1 hf.has
      exact ⟨k, i, id, m, e, hf, hi, hid, hl, he, hm', by rw [firstN_of_firstAt hf, he], rfl⟩

/-- `exists` on a canonical non-root path is "the n-layer view has an entry" -/
theorem run_oexistsN (cs : List Str) (hne : cs ≠ []) (hcs : ∀ c ∈ cs, GoodComp c) :
    Overlay.exists_ (layersN (u :: is) (idu :: ids)) (renderC cs) w
      = (.ok (viewN (mu :: ms) (renderC cs)).isSome, w) := by
  unfold Overlay.exists_
  rw [whiteoutPath_layersN cs hne hcs]
  by_cases hm : mu.contains (marker (renderC cs)) = true
  · simp [hm, viewN_marked hm, bind, M.bind, M.ret, run_vexists h.hu, Pure.pure, M.pure]
  · rcases readPath_casesN h cs hne hcs with ⟨hv, hr⟩ | ⟨k, i, id, m, e, hf, hi, hid, hl, he, _, hv, hr⟩
    · simp [hm, hv, hr, bind, M.bind, M.ret, run_vexists h.hu]
    · simp [hm, hv, hr, bind, M.bind, M.ret, run_vexists h.hu, run_vexists hl, hf.has]

/-- `exists("")`: the root of the upper layer, unless "/.whiteout/_wo" exists -/
theorem run_oexists_rootN :
    Overlay.exists_ (layersN (u :: is) (idu :: ids)) [] w
      = (.ok (!mu.contains rootMarker && mu.contains []), w) := by
  unfold Overlay.exists_
  rw [whiteoutPath_root _ rfl, writeLayer_layersN]
  by_cases hm : mu.contains rootMarker = true
  · simp [hm, bind, M.bind, M.ret, VPath.withStr, run_vexists h.hu, Pure.pure, M.pure]
  · simp [hm, bind, M.bind, M.ret, VPath.withStr, run_vexists h.hu, readPath, Pure.pure, M.pure,
      writeLayer_layersN]

/-- the pure value of `exists` on a canonical path, the root included -/
def pexistsN (all : List FMap) (p : Str) : Bool :=
  if p = [] then (!(all.headD []).contains rootMarker && (all.headD []).contains [])
  else (viewN all p).isSome

theorem run_oexists_anyN (cs : List Str) (hcs : ∀ c ∈ cs, GoodComp c) :
    Overlay.exists_ (layersN (u :: is) (idu :: ids)) (renderC cs) w
      = (.ok (pexistsN (mu :: ms) (renderC cs)), w) := by
  unfold pexistsN
  by_cases hne : cs = []
  · subst hne; simp only [renderC_nil, if_true]; exact run_oexists_rootN h
  · rw [if_neg (renderC_ne_nil hne)]; exact run_oexistsN h cs hne hcs

end runN

end Vfs
