/-
  Lemmas for Props/C15Async.lean: how `eraseTS` (forget every timestamp) commutes with the
  operations of the finite map and of the world, idempotence of publication, and the leaf functions
  of the sync MemoryFS under erasure.

  Nothing here is a main result. No hypotheses beyond those stated; no axioms beyond the core three.
-/
import VfsModel.AsyncOps
import VfsModel.Proofs.FMapLemmas
namespace Vfs

/-! ### entries -/

@[simp] theorem Entry.eraseTS_ftype (e : Entry) : e.eraseTS.ftype = e.ftype := rfl
@[simp] theorem Entry.eraseTS_content (e : Entry) : e.eraseTS.content = e.content := rfl
@[simp] theorem Entry.eraseTS_idem (e : Entry) : e.eraseTS.eraseTS = e.eraseTS := rfl
@[simp] theorem afileEntry_eraseTS (b : Bytes) : (afileEntry b).eraseTS = afileEntry b := rfl
@[simp] theorem adirEntry_eraseTS : adirEntry.eraseTS = adirEntry := rfl
@[simp] theorem dirEntryNow_eraseTS : dirEntryNow.eraseTS = adirEntry := rfl
@[simp] theorem fileEntryNow_eraseTS : fileEntryNow.eraseTS = afileEntry [] := rfl

namespace FMap

@[simp] theorem eraseTS_nil : eraseTS ([] : FMap) = [] := rfl

@[simp] theorem eraseTS_cons (k : Str) (v : Entry) (m : FMap) :
    eraseTS ((k, v) :: m) = (k, v.eraseTS) :: eraseTS m := rfl

theorem find?_eraseTS (m : FMap) (k : Str) :
    find? (eraseTS m) k = (find? m k).map Entry.eraseTS := by
  induction m with
  | nil => rfl
  | cons kv rest ih =>
    obtain ⟨k', v⟩ := kv
    rw [eraseTS_cons, find?_cons, find?_cons]
    by_cases h : k' = k
    · simp [h]
    · simp [h, ih]

theorem erase_eraseTS (m : FMap) (k : Str) : erase (eraseTS m) k = eraseTS (erase m k) := by
  induction m with
  | nil => rfl
  | cons kv rest ih =>
    obtain ⟨k', v⟩ := kv
    rw [eraseTS_cons, erase_cons, erase_cons]
    by_cases h : k' = k
    · simp [h, ih]
    · simp [h, ih]

theorem insert_eraseTS (m : FMap) (k : Str) (e : Entry) :
    insert (eraseTS m) k e.eraseTS = eraseTS (insert m k e) := by
  simp [insert, erase_eraseTS]

theorem insert_eraseTS' (m : FMap) (k : Str) (e e' : Entry) (h : e' = e.eraseTS) :
    insert (eraseTS m) k e' = eraseTS (insert m k e) := by
  subst h; exact insert_eraseTS m k e

@[simp] theorem keys_eraseTS (m : FMap) : keys (eraseTS m) = keys m := by
  simp [keys, eraseTS, List.map_map, Function.comp_def]

@[simp] theorem contains_eraseTS (m : FMap) (k : Str) : contains (eraseTS m) k = contains m k := by
  simp [contains, find?_eraseTS]

@[simp] theorem eraseTS_idem (m : FMap) : eraseTS (eraseTS m) = eraseTS m := by
  simp [eraseTS, List.map_map, Function.comp_def, Entry.eraseTS]

theorem erase_erase_self (m : FMap) (k : Str) : erase (erase m k) k = erase m k := by
  induction m with
  | nil => rfl
  | cons kv rest ih =>
    obtain ⟨k', v⟩ := kv
    rw [erase_cons]
    by_cases h : k' = k
    · simp [h, ih]
    · simp [h, erase_cons, ih]

theorem insert_insert_self (m : FMap) (k : Str) (v v' : Entry) :
    insert (insert m k v) k v' = insert m k v' := by
  simp [insert, erase_cons, erase_erase_self]

end FMap

/-! ### the world -/

theorem World.leaf?_eraseTS (w : World) (i : Nat) :
    w.eraseTS.leaf? i = (w.leaf? i).map Leaf.eraseTS := by
  simp [World.leaf?, World.eraseTS]

theorem World.setLeafFiles_eraseTS (w : World) (i : Nat) (f : FMap) :
    (w.setLeafFiles i f).eraseTS = w.eraseTS.setLeafFiles i f.eraseTS := by
  simp only [World.setLeafFiles, World.eraseTS]
  congr 1
  apply List.ext_getElem?
  intro n
  simp only [List.getElem?_map, List.getElem?_modify]
  cases h : w.leaves[n]? with
  | none => simp
  | some l =>
    by_cases hn : i = n
    · simp [hn, Leaf.eraseTS]
    · simp [hn]

theorem World.setLeafFiles_twiceA (w : World) (i : Nat) (f g : FMap) :
    (w.setLeafFiles i f).setLeafFiles i g = w.setLeafFiles i g := by
  simp only [World.setLeafFiles]
  congr 1
  apply List.ext_getElem?
  intro n
  simp only [List.getElem?_modify]
  cases h : w.leaves[n]? with
  | none => simp
  | some l =>
    by_cases hn : i = n
    · simp [hn]
    · simp [hn]

theorem World.leaf?_setLeafFiles_selfA (w : World) (i : Nat) (f : FMap) (l : Leaf)
    (h : w.leaf? i = some l) : (w.setLeafFiles i f).leaf? i = some { l with files := f } := by
  simp only [World.leaf?] at h
  simp [World.leaf?, World.setLeafFiles, h]

theorem World.leaf?_setLeafFiles_noneA (w : World) (i : Nat) (f : FMap)
    (h : w.leaf? i = none) : w.setLeafFiles i f = w := by
  simp only [World.leaf?] at h
  simp only [World.setLeafFiles]
  have : w.leaves.modify i (fun l => { l with files := f }) = w.leaves := by
    apply List.ext_getElem?
    intro n
    simp only [List.getElem?_modify]
    by_cases hn : i = n
    · subst hn; simp [h]
    · simp [hn]
  rw [this]

theorem World.setLeafFiles_sameA (w : World) (i : Nat) (l : Leaf) (h : w.leaf? i = some l) :
    w.setLeafFiles i l.files = w := by
  simp only [World.leaf?] at h
  simp only [World.setLeafFiles]
  have : w.leaves.modify i (fun l' => { l' with files := l.files }) = w.leaves := by
    apply List.ext_getElem?
    intro n
    simp only [List.getElem?_modify]
    by_cases hn : i = n
    · subst hn; simp [h]
    · simp [hn]
  rw [this]

theorem World.leaf?_setLeafFiles_neA (w : World) (i j : Nat) (f : FMap) (h : j ≠ i) :
    (w.setLeafFiles i f).leaf? j = w.leaf? j := by
  have hij : ¬ i = j := fun e => h e.symm
  simp only [World.leaf?, World.setLeafFiles, List.getElem?_modify]
  simp [hij]

/-! ### publication -/

/-- the async publication on the erased map is the erasure of the sync publication -/
theorem amemPublish_eraseTS (m : FMap) (k : Str) (b : Bytes) :
    amemPublish m.eraseTS k b = (memPublish m k b).eraseTS := by
  unfold amemPublish memPublish
  rw [FMap.find?_eraseTS]
  cases h : m.find? k with
  | none => rfl
  | some e =>
    simp only [Option.map_some, Entry.eraseTS_ftype]
    by_cases hf : e.ftype = .file
    · simp only [hf, ↓reduceIte]
      exact FMap.insert_eraseTS' m k _ _ rfl
    · simp [hf]

/-- publishing the same buffer twice is publishing it once (sync) -/
theorem memPublish_idem (m : FMap) (k : Str) (b : Bytes) :
    memPublish (memPublish m k b) k b = memPublish m k b := by
  unfold memPublish
  cases h : m.find? k with
  | none => simp [h]
  | some e =>
    by_cases hf : e.ftype = .file
    · simp [hf, FMap.insert_insert_self]
    · simp [hf, h]

/-- publishing twice, the second buffer wins (async) -/
theorem amemPublish_twice (m : FMap) (k : Str) (b b' : Bytes) :
    amemPublish (amemPublish m k b) k b' = amemPublish m k b' := by
  unfold amemPublish
  cases h : m.find? k with
  | none => simp [h]
  | some e =>
    by_cases hf : e.ftype = .file
    · simp [hf, FMap.insert_insert_self, afileEntry]
    · simp [hf, h]

/-- publishing twice, the second buffer wins (sync) -/
theorem memPublish_twice (m : FMap) (k : Str) (b b' : Bytes) :
    memPublish (memPublish m k b) k b' = memPublish m k b' := by
  unfold memPublish
  cases h : m.find? k with
  | none => simp [h]
  | some e =>
    by_cases hf : e.ftype = .file
    · simp [hf, FMap.insert_insert_self]
    · simp [hf, h]

/-! ### the verbatim parts of the memory leaf under erasure -/

theorem Mem.ensureHasParent_eraseTS (m : FMap) (p : Str) :
    Mem.ensureHasParent m.eraseTS p = Mem.ensureHasParent m p := by
  unfold Mem.ensureHasParent
  rw [FMap.find?_eraseTS]
  cases m.find? (parentInternal p) <;> rfl

theorem Mem.readDir_eraseTS (m : FMap) (p : Str) :
    Mem.readDir m.eraseTS p = Mem.readDir m p := by
  unfold Mem.readDir
  rw [FMap.find?_eraseTS]
  cases m.find? p <;> simp

theorem Mem.appendFile_eraseTS (m : FMap) (p : Str) :
    Mem.appendFile m.eraseTS p = Mem.appendFile m p := by
  unfold Mem.appendFile
  rw [FMap.find?_eraseTS]
  cases m.find? p <;> rfl

theorem Mem.removeFile_eraseTS (m : FMap) (p : Str) :
    Mem.removeFile m.eraseTS p = ((Mem.removeFile m p).1, (Mem.removeFile m p).2.eraseTS) := by
  unfold Mem.removeFile
  rw [FMap.find?_eraseTS]
  cases h : m.find? p with
  | none => rfl
  | some e =>
    by_cases hf : e.ftype = .file
    · simp [hf, FMap.erase_eraseTS]
    · simp [hf]

theorem Mem.removeDir_eraseTS (m : FMap) (p : Str) :
    Mem.removeDir m.eraseTS p = ((Mem.removeDir m p).1, (Mem.removeDir m p).2.eraseTS) := by
  unfold Mem.removeDir
  rw [Mem.readDir_eraseTS]
  cases h : Mem.readDir m p with
  | ok l =>
    by_cases hl : l = []
    · by_cases hc : m.contains p = true
      · simp [hl, hc, FMap.erase_eraseTS]
      · simp [hl, hc]
    · simp [hl]
  | err k q => rfl
  | panic => rfl

end Vfs
