/-
  Helpers for the traversal theorem of property C05 (`VfsPath::walk_dir` on the in-memory
  backend, Props/C05Walk.lean):
  * 1. strings: `below p k` (k = p ++ "/" ++ t, a proper descendant by name), `within p k`
       (k = p or below it), how they interact with `parentInternal`;
  * 2. well-formed maps: every proper ancestor of a key is a key and a directory, nothing lives
       below a file, every key below p lies at or below a listed child of p;
  * 3. `children m p` — the listing of p as full paths — and its properties;
  * 4. how `read_dir` / `metadata` / `walk_dir` / the iterator's `next` run on a memory leaf, and
       that they leave the world alone (for every state, well-formed or not);
  * 5. the iterator invariant `Good` (the paths still to be yielded and the stacked directories
       are present keys, the stacked ones directories, and no one of them lies at or below another),
       the set `pending` of keys still to come, and the step lemma `walkNext_spec`;
  * 6. the whole walk `walkAll_spec` by induction on the fuel.
-/
import VfsModel.Props.C05
namespace Vfs.Wk

/-! ### 1. strings -/

/-- `k` is a proper descendant of `p` by name: `k = p ++ "/" ++ t` -/
def below (p k : Str) : Bool := (p ++ ['/']).isPrefixOf k

/-- `k` is `p` or a proper descendant of it -/
def within (p k : Str) : Bool := decide (k = p) || below p k

theorem below_iff (p k : Str) : below p k = true ↔ ∃ t, k = p ++ '/' :: t := by
  unfold below
  rw [List.isPrefixOf_iff_prefix]
  constructor
  · rintro ⟨t, ht⟩; exact ⟨t, by rw [← ht]; simp⟩
  · rintro ⟨t, ht⟩; exact ⟨t, by rw [ht]; simp⟩

theorem within_iff (p k : Str) : within p k = true ↔ k = p ∨ below p k = true := by
  unfold within
  rw [Bool.or_eq_true, decide_eq_true_eq]

theorem within_self (p : Str) : within p p = true := by simp [within]

theorem within_of_below {p k : Str} (h : below p k = true) : within p k = true :=
  (within_iff p k).2 (Or.inr h)

theorem below_length {p k : Str} (h : below p k = true) : p.length < k.length := by
  obtain ⟨t, rfl⟩ := (below_iff p k).1 h
  simp [List.length_append]

theorem within_length {p k : Str} (h : within p k = true) : p.length ≤ k.length := by
  rcases (within_iff p k).1 h with h | h
  · subst h; exact Nat.le_refl _
  · exact Nat.le_of_lt (below_length h)

theorem below_irrefl (p : Str) : below p p = false := by
  cases h : below p p with
  | false => rfl
  | true => exact absurd (below_length h) (Nat.lt_irrefl _)

theorem below_trans {a b c : Str} (h1 : below a b = true) (h2 : below b c = true) :
    below a c = true := by
  obtain ⟨t, rfl⟩ := (below_iff a b).1 h1
  obtain ⟨u, rfl⟩ := (below_iff _ c).1 h2
  exact (below_iff _ _).2 ⟨t ++ '/' :: u, by simp⟩

theorem below_of_within_below {a b c : Str} (h1 : within a b = true) (h2 : below b c = true) :
    below a c = true := by
  rcases (within_iff a b).1 h1 with h | h
  · subst h; exact h2
  · exact below_trans h h2

theorem below_of_below_within {a b c : Str} (h1 : below a b = true) (h2 : within b c = true) :
    below a c = true := by
  rcases (within_iff b c).1 h2 with h | h
  · subst h; exact h1
  · exact below_trans h1 h

theorem within_trans {a b c : Str} (h1 : within a b = true) (h2 : within b c = true) :
    within a c = true := by
  rcases (within_iff b c).1 h2 with h | h
  · subst h; exact h1
  · exact within_of_below (below_of_within_below h1 h)

/-- `below p k` implies '/' occurs in k -/
theorem slash_mem_of_below {p k : Str} (h : below p k = true) : '/' ∈ k := by
  obtain ⟨t, rfl⟩ := (below_iff p k).1 h
  simp

/-- a key with a '/' lies below its parent, by a slash-free name -/
theorem below_parent_self (k : Str) (h : '/' ∈ k) : below (parentInternal k) k = true := by
  have := (split_last '/' k h).1
  exact (below_iff _ _).2 ⟨afterLast '/' k, this⟩

theorem parent_length_lt (k : Str) (h : '/' ∈ k) : (parentInternal k).length < k.length :=
  below_length (below_parent_self k h)

/-- every proper ancestor (by name) of `c` is the parent of `c` or an ancestor of the parent -/
theorem within_parent_of_below {y c : Str} (h : below y c = true) :
    within y (parentInternal c) = true := by
  obtain ⟨t, rfl⟩ := (below_iff y c).1 h
  by_cases hs : '/' ∈ t
  · obtain ⟨h1, h2⟩ := split_last '/' t hs
    have : parentInternal (y ++ '/' :: t) = y ++ '/' :: beforeLast '/' t := by
      have e : y ++ '/' :: t = (y ++ '/' :: beforeLast '/' t) ++ '/' :: afterLast '/' t := by
        conv => lhs; rw [h1]
        simp
      rw [e]
      exact beforeLast_append_delim '/' _ _ h2
    rw [this]
    exact within_of_below ((below_iff _ _).2 ⟨_, rfl⟩)
  · rw [parent_of_child y t hs]
    exact within_self y

/-- a child path `d/n` (n slash-free) -/
theorem below_child (d n : Str) : below d (d ++ '/' :: n) = true := (below_iff _ _).2 ⟨n, rfl⟩

/-! ### 2. well-formed maps -/

/-- every proper ancestor (by name) of a present key is present, and a directory -/
theorem ancestor_is_dir {m : FMap} (hwf : WF m) : ∀ (n : Nat) (k : Str), k.length ≤ n →
    (∃ e, m.find? k = some e) → ∀ y, below y k = true →
    ∃ e, m.find? y = some e ∧ e.ftype = .dir := by
  intro n
  induction n with
  | zero =>
    intro k hk _ y hy
    have := below_length hy
    omega
  | succ n ih =>
    intro k hk ⟨e, he⟩ y hy
    have hs : '/' ∈ k := slash_mem_of_below hy
    have hne : k ≠ [] := by intro h; subst h; simp at hs
    obtain ⟨_, pe, hpe, hpd⟩ := hwf.2 k e he hne
    rcases (within_iff _ _).1 (within_parent_of_below hy) with h | h
    · rw [← h]; exact ⟨pe, hpe, hpd⟩
    · exact ih (parentInternal k) (by have := parent_length_lt k hs; omega) ⟨pe, hpe⟩ y h

theorem ancestor_dir {m : FMap} (hwf : WF m) {k y : Str} (hk : ∃ e, m.find? k = some e)
    (hy : below y k = true) : ∃ e, m.find? y = some e ∧ e.ftype = .dir :=
  ancestor_is_dir hwf k.length k (Nat.le_refl _) hk y hy

/-- nothing lives below a file -/
theorem nothing_below_file {m : FMap} (hwf : WF m) {x k : Str} {e : Entry}
    (hx : m.find? x = some e) (hf : e.ftype ≠ .dir) (hk : ∃ e', m.find? k = some e') :
    below x k = false := by
  cases h : below x k with
  | false => rfl
  | true =>
    obtain ⟨e', he', hd⟩ := ancestor_dir hwf hk h
    rw [hx] at he'
    injection he' with he'
    subst he'
    exact absurd hd hf

/-! ### 3. the listing as full paths -/

/-- `read_dir` of `p` on the map `m`, as full paths, in the order of the model -/
def children (m : FMap) (p : Str) : List Str :=
  (m.keys.filterMap (childName p)).map (fun n => p ++ '/' :: n)

theorem mem_children (m : FMap) (p k : Str) :
    k ∈ children m p ↔ (∃ e, m.find? k = some e) ∧ '/' ∈ k ∧ parentInternal k = p := by
  unfold children
  simp only [List.mem_map, mem_filterMap_childName]
  constructor
  · rintro ⟨n, ⟨k', e, he, hs, hp, ha⟩, rfl⟩
    have := (split_last '/' k' hs).1
    unfold parentInternal at hp
    rw [hp, ha] at this
    rw [← this]
    exact ⟨⟨e, he⟩, hs, hp⟩
  · rintro ⟨⟨e, he⟩, hs, hp⟩
    refine ⟨afterLast '/' k, ⟨k, e, he, hs, hp, rfl⟩, ?_⟩
    have := (split_last '/' k hs).1
    unfold parentInternal at hp
    rw [hp] at this
    exact this.symm

theorem children_nodup (m : FMap) (hk : FMap.NodupKeys m) (p : Str) : (children m p).Nodup := by
  unfold children
  have h := filterMap_childName_nodup m p hk
  unfold List.Nodup at *
  rw [List.pairwise_map]
  refine h.imp ?_
  intro a b hab heq
  exact hab (by simpa using List.append_cancel_left heq)

theorem child_below {m : FMap} {p c : Str} (h : c ∈ children m p) : below p c = true := by
  obtain ⟨_, hs, hp⟩ := (mem_children m p c).1 h
  rw [← hp]; exact below_parent_self c hs

/-- a present key below `p` lies at or below a listed child of `p` -/
theorem below_via_child {m : FMap} (hwf : WF m) (p : Str) : ∀ (n : Nat) (k : Str), k.length ≤ n →
    (∃ e, m.find? k = some e) → below p k = true → ∃ c ∈ children m p, within c k = true := by
  intro n
  induction n with
  | zero =>
    intro k hk _ hy
    have := below_length hy
    omega
  | succ n ih =>
    intro k hk ⟨e, he⟩ hy
    have hs : '/' ∈ k := slash_mem_of_below hy
    have hne : k ≠ [] := by intro h; subst h; simp at hs
    obtain ⟨_, pe, hpe, hpd⟩ := hwf.2 k e he hne
    rcases (within_iff _ _).1 (within_parent_of_below hy) with h | h
    · exact ⟨k, (mem_children m p k).2 ⟨⟨e, he⟩, hs, h⟩, within_self k⟩
    · obtain ⟨c, hc, hw⟩ := ih (parentInternal k) (by have := parent_length_lt k hs; omega) ⟨pe, hpe⟩ h
      exact ⟨c, hc, within_of_below (below_of_within_below hw (below_parent_self k hs))⟩

/-- two different children of one directory: neither lies at or below the other -/
theorem siblings_apart {m : FMap} {p c1 c2 : Str} (h1 : c1 ∈ children m p) (h2 : c2 ∈ children m p)
    (hne : c1 ≠ c2) : within c1 c2 = false := by
  cases h : within c1 c2 with
  | false => rfl
  | true =>
    rcases (within_iff _ _).1 h with h | h
    · exact absurd h.symm hne
    · have hw := within_parent_of_below h
      rw [((mem_children m p c2).1 h2).2.2] at hw
      have l1 := within_length hw
      have l2 := below_length (child_below h1)
      omega

/-- a child of `d` against a path `y` that is apart from `d` -/
theorem child_apart {m : FMap} {d c y : Str} (hc : c ∈ children m d)
    (h1 : within d y = false) (h2 : within y d = false) :
    within c y = false ∧ within y c = false := by
  constructor
  · cases h : within c y with
    | false => rfl
    | true =>
      have := within_of_below (below_of_below_within (child_below hc) h)
      rw [h1] at this; cases this
  · cases h : within y c with
    | false => rfl
    | true =>
      rcases (within_iff _ _).1 h with h | h
      · subst h
        have := within_of_below (child_below hc)
        rw [h1] at this; cases this
      · have hw := within_parent_of_below h
        rw [((mem_children m d c).1 hc).2.2, h2] at hw
        cases hw

/-! ### 4. running the observers and the iterator on a memory leaf -/

/-- the path `k` on memory leaf `i` -/
def mk (i id : Nat) (k : Str) : VPath := { fs := leafFS i, fsId := id, path := k }

theorem readDir_ne_panic (m : FMap) (p : Str) : Mem.readDir m p ≠ .panic := by
  unfold Mem.readDir
  split
  · simp [fail]
  · split <;> simp [fail]

theorem metadata_ne_panic (m : FMap) (p : Str) : Mem.metadata m p ≠ .panic := by
  unfold Mem.metadata
  split <;> simp [fail]

section run
variable {w : World} {i : Nat} {m : FMap} (h : MemLeafAt w i m)
include h

theorem run_vMetadata (x : VPath) (hx : x.fs = leafFS i) :
    x.metadata w = ((Mem.metadata m x.path).withPath x.path, w) := by
  unfold VPath.metadata
  simp only [M.withPath, hx, run_metadata h]

theorem run_vReadDir (x : VPath) (hx : x.fs = leafFS i) :
    x.readDir w = (((Mem.readDir m x.path).withPath x.path).map
      (fun names => names.map (fun n => x.withStr (x.path ++ '/' :: n))), w) := by
  unfold VPath.readDir
  simp only [bind, M.bind, M.withPath, hx, run_readDir h]
  cases Mem.readDir m x.path <;> rfl

/-- all paths of the list live on leaf `i` -/
def AllOn (i : Nat) (l : List VPath) : Prop := ∀ x ∈ l, x.fs = leafFS i

omit h in
theorem AllOn.tail {i : Nat} {x : VPath} {l : List VPath} (hl : AllOn i (x :: l)) : AllOn i l :=
  fun y hy => hl y (List.mem_cons_of_mem _ hy)

/-- `loop` of the iterator: always answers, world untouched, the new state stays on the leaf -/
theorem walkFind_frame : ∀ (todo inner : List VPath), AllOn i inner → AllOn i todo →
    ∃ r, VPath.walkFind inner todo w = (.ok r, w) ∧ AllOn i r.2.inner ∧ AllOn i r.2.todo ∧
      ∀ x, r.1 = some (.ok x) → x.fs = leafFS i := by
  intro todo
  induction todo with
  | nil =>
    intro inner hi ht
    cases inner with
    | nil => exact ⟨_, rfl, hi, ht, by intro x hx; cases hx⟩
    | cons x rest =>
      refine ⟨_, rfl, hi.tail, ht, ?_⟩
      intro y hy
      simp only [Option.some.injEq, Res.ok.injEq] at hy
      subst hy; exact hi _ (by simp)
  | cons d todo ih =>
    intro inner hi ht
    cases inner with
    | cons x rest =>
      refine ⟨_, rfl, hi.tail, ht, ?_⟩
      intro y hy
      simp only [Option.some.injEq, Res.ok.injEq] at hy
      subst hy; exact hi _ (by simp)
    | nil =>
      have hd : d.fs = leafFS i := ht d (by simp)
      unfold VPath.walkFind
      rw [run_vReadDir h d hd]
      cases hr : Mem.readDir m d.path with
      | panic => exact absurd hr (readDir_ne_panic m _)
      | err k p =>
        refine ⟨_, rfl, hi, ht.tail, ?_⟩
        intro y hy; simp at hy
      | ok names =>
        simp only [Res.withPath, Res.map]
        cases names with
        | nil => exact ih [] hi ht.tail
        | cons n ns =>
          simp only [List.map_cons]
          refine ⟨_, rfl, ?_, ht.tail, ?_⟩
          · intro y hy
            simp only [List.mem_map] at hy
            obtain ⟨n', _, rfl⟩ := hy
            exact hd
          · intro y hy
            simp only [Option.some.injEq, Res.ok.injEq] at hy
            subst hy; exact hd

/-- `next` of the iterator: always answers, world untouched, the new state stays on the leaf -/
theorem walkNext_frame (s : VPath.Walk) (hi : AllOn i s.inner) (ht : AllOn i s.todo) :
    ∃ r, VPath.walkNext s w = (.ok r, w) ∧ AllOn i r.2.inner ∧ AllOn i r.2.todo := by
  obtain ⟨⟨item, s'⟩, hr, h1, h2, h3⟩ := walkFind_frame h s.todo s.inner hi ht
  unfold VPath.walkNext
  simp only [bind, M.bind, hr]
  match item, h3 with
  | none, _ => exact ⟨_, rfl, h1, h2⟩
  | some (.err k p), _ => exact ⟨_, rfl, h1, h2⟩
  | some .panic, _ => exact ⟨_, rfl, h1, h2⟩
  | some (.ok x), h3 =>
    have hx : x.fs = leafFS i := h3 x rfl
    simp only [run_vMetadata h x hx]
    cases hm : Mem.metadata m x.path with
    | panic => exact absurd hm (metadata_ne_panic m _)
    | err k p => exact ⟨_, rfl, h1, h2⟩
    | ok md =>
      simp only [Res.withPath]
      split
      · refine ⟨_, rfl, h1, ?_⟩
        intro y hy
        simp only [List.mem_cons] at hy
        rcases hy with rfl | hy
        · exact hx
        · exact h2 y hy
      · exact ⟨_, rfl, h1, h2⟩

/-- the whole walk leaves the world alone, whatever the fuel and the state, and its own outcome
is a list or the out-of-fuel sentinel (errors are items, never the outcome) -/
theorem walkAll_frame : ∀ (fuel : Nat) (s : VPath.Walk), AllOn i s.inner → AllOn i s.todo →
    (VPath.walkAll fuel s w).2 = w ∧
      ((VPath.walkAll fuel s w).1 = .panic ∨ ∃ l, (VPath.walkAll fuel s w).1 = .ok l) := by
  intro fuel
  induction fuel with
  | zero => intro s _ _; exact ⟨rfl, Or.inl rfl⟩
  | succ fuel ih =>
    intro s hi ht
    obtain ⟨⟨item, s'⟩, hr, h1, h2⟩ := walkNext_frame h s hi ht
    unfold VPath.walkAll
    simp only [bind, M.bind, hr]
    cases item with
    | none => exact ⟨rfl, Or.inr ⟨[], rfl⟩⟩
    | some it =>
      obtain ⟨e1, e2⟩ := ih s' h1 h2
      simp only [M.bind]
      rcases hres : VPath.walkAll fuel s' w with ⟨r, w'⟩
      rw [hres] at e1 e2
      simp only at e1 e2
      subst e1
      rcases e2 with e2 | ⟨l, e2⟩
      · subst e2; exact ⟨rfl, Or.inl rfl⟩
      · subst e2; exact ⟨rfl, Or.inr ⟨_, rfl⟩⟩

end run

/-! ### 5. the iterator invariant and one step of `next` -/

/-- the keys still to be yielded from the state `(inner, todo)`: the rest of the current listing
with everything below it, and everything strictly below a stacked directory -/
def pending (inner todo : List Str) (k : Str) : Bool :=
  inner.any (fun x => within x k) || todo.any (fun d => below d k)

/-- neither path lies at or below the other -/
def Apart (a b : Str) : Prop := within a b = false ∧ within b a = false

theorem Apart.symm {a b : Str} (h : Apart a b) : Apart b a := ⟨h.2, h.1⟩

/-- invariant of the iterator state on the map `m` -/
structure Good (m : FMap) (inner todo : List Str) : Prop where
  innerKeys : ∀ x ∈ inner, ∃ e, m.find? x = some e
  todoDirs : ∀ d ∈ todo, ∃ e, m.find? d = some e ∧ e.ftype = .dir
  apart : (inner ++ todo).Pairwise Apart

/-- yielding the head `x` of the current listing (pure part) -/
theorem emit_good {m : FMap} (hwf : WF m) {x : Str} {rest todo : List Str}
    (hg : Good m (x :: rest) todo) (e : Entry) (hx : m.find? x = some e) (todo' : List Str)
    (htodo : todo' = if e.ftype = .dir then x :: todo else todo) :
    Good m rest todo' ∧ pending rest todo' x = false ∧
    (∀ k, (∃ e', m.find? k = some e') →
      pending (x :: rest) todo k = (decide (k = x) || pending rest todo' k)) ∧
    (∀ b, pending rest todo' b = true → below b x = false) := by
  have hap := hg.apart
  rw [List.cons_append, List.pairwise_cons] at hap
  obtain ⟨hx_ap, hrest_ap⟩ := hap
  have hrestx : ∀ y ∈ rest, Apart x y := fun y hy => hx_ap y (List.mem_append_left _ hy)
  have htodox : ∀ d ∈ todo, Apart x d := fun d hd => hx_ap d (List.mem_append_right _ hd)
  -- what is in todo' : x itself (if a directory) or a member of todo
  have hmem : ∀ d ∈ todo', (d = x ∧ e.ftype = .dir) ∨ d ∈ todo := by
    intro d hd
    rw [htodo] at hd
    split at hd
    · rename_i hdir
      simp only [List.mem_cons] at hd
      rcases hd with hd | hd
      · exact Or.inl ⟨hd, hdir⟩
      · exact Or.inr hd
    · exact Or.inr hd
  refine ⟨⟨?_, ?_, ?_⟩, ?_, ?_, ?_⟩
  · exact fun y hy => hg.innerKeys y (List.mem_cons_of_mem _ hy)
  · intro d hd
    rcases hmem d hd with ⟨rfl, hdir⟩ | hd
    · exact ⟨e, hx, hdir⟩
    · exact hg.todoDirs d hd
  · rw [htodo]
    split
    · rw [List.pairwise_middle (fun h => Apart.symm h), List.pairwise_cons]
      exact ⟨hx_ap, hrest_ap⟩
    · exact hrest_ap
  · -- x itself is not pending any more
    unfold pending
    rw [Bool.or_eq_false_iff]
    constructor
    · rw [List.any_eq_false]
      intro y hy
      rw [(hrestx y hy).2]; simp
    · rw [List.any_eq_false]
      intro d hd
      rcases hmem d hd with ⟨rfl, _⟩ | hd
      · rw [below_irrefl]; simp
      · have := (htodox d hd).2
        cases hb : below d x with
        | false => simp
        | true => rw [within_of_below hb] at this; cases this
  · intro k hk
    unfold pending
    rw [htodo]
    simp only [List.any_cons]
    have hw : within x k = (decide (k = x) || below x k) := rfl
    rw [hw]
    split
    · simp only [List.any_cons]
      generalize rest.any (fun x => within x k) = R
      generalize todo.any (fun d => below d k) = T
      cases decide (k = x) <;> cases below x k <;> cases R <;> cases T <;> rfl
    · rename_i hnd
      rw [nothing_below_file hwf hx hnd hk]
      generalize rest.any (fun x => within x k) = R
      generalize todo.any (fun d => below d k) = T
      cases decide (k = x) <;> cases R <;> cases T <;> rfl
  · -- nothing still pending is an ancestor of x
    intro b hb
    cases hbx : below b x with
    | false => rfl
    | true =>
      exfalso
      unfold pending at hb
      rw [Bool.or_eq_true, List.any_eq_true, List.any_eq_true] at hb
      rcases hb with ⟨y, hy, hyb⟩ | ⟨d, hd, hdb⟩
      · have := within_of_below (below_of_within_below hyb hbx)
        rw [(hrestx y hy).2] at this; cases this
      · have hdx := below_trans hdb hbx
        rcases hmem d hd with ⟨rfl, _⟩ | hd
        · rw [below_irrefl] at hdx; cases hdx
        · have := within_of_below hdx
          rw [(htodox d hd).2] at this; cases this

/-- popping the stacked directory `d` and listing it (pure part) -/
theorem expand_good {m : FMap} (hwf : WF m) (hk : FMap.NodupKeys m) {d : Str} {todo : List Str}
    (hg : Good m [] (d :: todo)) :
    Good m (children m d) todo ∧
    ∀ k, (∃ e', m.find? k = some e') →
      pending [] (d :: todo) k = pending (children m d) todo k := by
  have hap := hg.apart
  rw [List.nil_append, List.pairwise_cons] at hap
  obtain ⟨hd_ap, htodo_ap⟩ := hap
  refine ⟨⟨?_, ?_, ?_⟩, ?_⟩
  · exact fun c hc => ((mem_children m d c).1 hc).1
  · exact fun y hy => hg.todoDirs y (List.mem_cons_of_mem _ hy)
  · rw [List.pairwise_append]
    refine ⟨?_, htodo_ap, ?_⟩
    · have hn := children_nodup m hk d
      unfold List.Nodup at hn
      refine hn.imp_of_mem ?_
      intro a b ha hb hab
      exact ⟨siblings_apart ha hb hab, siblings_apart hb ha (Ne.symm hab)⟩
    · intro c hc y hy
      exact child_apart hc (hd_ap y hy).1 (hd_ap y hy).2
  · intro k hk'
    unfold pending
    simp only [List.any_nil, List.any_cons, Bool.false_or]
    congr 1
    rw [Bool.eq_iff_iff, List.any_eq_true]
    constructor
    · intro hb
      exact below_via_child hwf d k.length k (Nat.le_refl _) hk' hb
    · rintro ⟨c, hc, hw⟩
      exact below_of_below_within (child_below hc) hw

section step
variable {w : World} {i : Nat} {m : FMap} (h : MemLeafAt w i m) (id : Nat)
include h

/-- the state of the iterator with the given path strings, all on leaf `i` -/
def st (i id : Nat) (inner todo : List Str) : VPath.Walk :=
  { inner := inner.map (mk i id), todo := todo.map (mk i id) }

/-- `next` on a non-empty current listing: the head is yielded, and stacked if a directory -/
theorem walkNext_cons (x : Str) (rest todo : List Str) (e : Entry) (hx : m.find? x = some e) :
    VPath.walkNext (st i id (x :: rest) todo) w =
      (.ok (some (.ok (mk i id x)),
        st i id rest (if e.ftype = .dir then x :: todo else todo)), w) := by
  unfold VPath.walkNext st
  simp only [List.map_cons, VPath.walkFind, bind, M.bind, pure, M.pure]
  rw [run_vMetadata h (mk i id x) rfl]
  have : Mem.metadata m (mk i id x).path = .ok e.meta := C05.metadata_reports m x e hx
  rw [this]
  simp only [Res.withPath, Entry.meta]
  split <;> rfl

/-- popping a directory off the stack and listing it -/
theorem walkFind_expand (d : Str) (todo : List Str) (e : Entry) (hd : m.find? d = some e)
    (hdir : e.ftype = .dir) :
    VPath.walkFind [] ((d :: todo).map (mk i id)) w =
      VPath.walkFind ((children m d).map (mk i id)) (todo.map (mk i id)) w := by
  have hr : Mem.readDir m d = .ok (m.keys.filterMap (childName d)) := by
    simp [Mem.readDir, hd, hdir]
  have hl : (children m d).map (mk i id) =
      (m.keys.filterMap (childName d)).map
        (fun n => (mk i id d).withStr ((mk i id d).path ++ '/' :: n)) := by
    unfold children
    rw [List.map_map]
    rfl
  rw [hl]
  simp only [List.map_cons]
  conv => lhs; unfold VPath.walkFind
  rw [run_vReadDir h (mk i id d) rfl]
  have : (mk i id d).path = d := rfl
  rw [this, hr]
  simp only [Res.withPath, Res.map]
  cases m.keys.filterMap (childName d) with
  | nil => rfl
  | cons n ns =>
    simp only [List.map_cons, VPath.walkFind]
    rfl

theorem walkNext_expand (d : Str) (todo : List Str) (e : Entry) (hd : m.find? d = some e)
    (hdir : e.ftype = .dir) :
    VPath.walkNext (st i id [] (d :: todo)) w = VPath.walkNext (st i id (children m d) todo) w := by
  unfold VPath.walkNext st
  simp only [bind, M.bind]
  have := walkFind_expand h id d todo e hd hdir
  simp only [List.map_nil] at this ⊢
  rw [this]

/-- what one call of `next` does to a good state -/
def StepSpec (w : World) (i id : Nat) (m : FMap) (inner todo : List Str) : Prop :=
  (VPath.walkNext (st i id inner todo) w = (.ok (none, st i id [] []), w) ∧
    ∀ k, (∃ e, m.find? k = some e) → pending inner todo k = false) ∨
  ∃ x inner' todo',
    VPath.walkNext (st i id inner todo) w = (.ok (some (.ok (mk i id x)), st i id inner' todo'), w) ∧
    Good m inner' todo' ∧ (∃ e, m.find? x = some e) ∧ pending inner' todo' x = false ∧
    (∀ k, (∃ e, m.find? k = some e) →
      pending inner todo k = (decide (k = x) || pending inner' todo' k)) ∧
    (∀ b, pending inner' todo' b = true → below b x = false)

/-- `next` from a good state: either the walk is over and nothing is pending, or a present key
`x` is yielded as an `.ok` item, the new state is good, exactly `x` leaves the pending set, and
nothing still pending is an ancestor of `x` -/
theorem walkNext_spec (hwf : WF m) (hk : FMap.NodupKeys m) :
    ∀ (todo inner : List Str), Good m inner todo → StepSpec w i id m inner todo := by
  intro todo
  induction todo with
  | nil =>
    intro inner hg
    cases inner with
    | nil =>
      left
      exact ⟨rfl, fun k _ => rfl⟩
    | cons x rest =>
      right
      obtain ⟨e, hx⟩ := hg.innerKeys x (by simp)
      obtain ⟨g1, g2, g3, g4⟩ := emit_good hwf hg e hx _ rfl
      exact ⟨x, rest, _, walkNext_cons h id x rest [] e hx, g1, ⟨e, hx⟩, g2, g3, g4⟩
  | cons d todo ih =>
    intro inner hg
    cases inner with
    | cons x rest =>
      right
      obtain ⟨e, hx⟩ := hg.innerKeys x (by simp)
      obtain ⟨g1, g2, g3, g4⟩ := emit_good hwf hg e hx _ rfl
      exact ⟨x, rest, _, walkNext_cons h id x rest (d :: todo) e hx, g1, ⟨e, hx⟩, g2, g3, g4⟩
    | nil =>
      obtain ⟨e, hd, hdir⟩ := hg.todoDirs d (by simp)
      obtain ⟨g1, g2⟩ := expand_good hwf hk hg
      have hrun := walkNext_expand h id d todo e hd hdir
      rcases ih (children m d) g1 with ⟨h1, h2⟩ | ⟨x, inner', todo', h1, h2, h3, h4, h5, h6⟩
      · left
        exact ⟨by rw [hrun]; exact h1, fun k hk' => by rw [g2 k hk']; exact h2 k hk'⟩
      · right
        exact ⟨x, inner', todo', by rw [hrun]; exact h1, h2, h3, h4,
          fun k hk' => by rw [g2 k hk']; exact h5 k hk', h6⟩

end step

/-! ### 6. the whole walk -/

theorem filter_length_le {α} (l : List α) (q q' : α → Bool)
    (himp : ∀ k ∈ l, q' k = true → q k = true) : (l.filter q').length ≤ (l.filter q).length := by
  induction l with
  | nil => simp
  | cons a l ih =>
    have ih' := ih (fun k hk => himp k (List.mem_cons_of_mem _ hk))
    have ha := himp a (by simp)
    simp only [List.filter_cons]
    cases hq' : q' a with
    | true => rw [ha hq']; simpa using ih'
    | false =>
      cases q a
      · simpa using ih'
      · simp only [Bool.false_eq_true, ↓reduceIte, List.length_cons]; omega

theorem filter_length_lt {α} (l : List α) (q q' : α → Bool) (x : α) (hx : x ∈ l)
    (hqx : q x = true) (hq'x : q' x = false) (himp : ∀ k ∈ l, q' k = true → q k = true) :
    (l.filter q').length < (l.filter q).length := by
  induction l with
  | nil => cases hx
  | cons a l ih =>
    have himp' : ∀ k ∈ l, q' k = true → q k = true := fun k hk => himp k (List.mem_cons_of_mem _ hk)
    have ha := himp a (by simp)
    simp only [List.filter_cons]
    simp only [List.mem_cons] at hx
    by_cases hxa : x = a
    · subst hxa
      rw [hqx, hq'x]
      have := filter_length_le l q q' himp'
      simp only [Bool.false_eq_true, ↓reduceIte, List.length_cons]; omega
    · have hxl : x ∈ l := by
        rcases hx with hx | hx
        · exact absurd hx hxa
        · exact hx
      have ih' := ih hxl himp'
      cases hq' : q' a with
      | true => rw [ha hq']; simpa using ih'
      | false =>
        cases q a
        · simpa using ih'
        · simp only [Bool.false_eq_true, ↓reduceIte, List.length_cons]; omega

section all
variable {w : World} {i : Nat} {m : FMap} (h : MemLeafAt w i m) (id : Nat)
include h

/-- the collected walk from a good state, with more fuel than keys pending: the world is
untouched, every item is `.ok`, the yielded paths are exactly the pending keys, each once, and no
path is yielded before one of its ancestors -/
theorem walkAll_spec (hwf : WF m) (hk : FMap.NodupKeys m) :
    ∀ (fuel : Nat) (inner todo : List Str), Good m inner todo →
      (m.keys.filter (pending inner todo)).length < fuel →
      ∃ L : List Str,
        VPath.walkAll fuel (st i id inner todo) w = (.ok (L.map (fun k => .ok (mk i id k))), w) ∧
        (∀ k, k ∈ L ↔ k ∈ m.keys ∧ pending inner todo k = true) ∧ L.Nodup ∧
        L.Pairwise (fun a b => below b a = false) := by
  intro fuel
  induction fuel with
  | zero => intro inner todo _ hf; omega
  | succ fuel ih =>
    intro inner todo hg hf
    rcases walkNext_spec h id hwf hk todo inner hg with
      ⟨h1, h2⟩ | ⟨x, inner', todo', h1, h2, h3, h4, h5, h6⟩
    · refine ⟨[], ?_, ?_, List.nodup_nil, List.Pairwise.nil⟩
      · unfold VPath.walkAll
        simp only [bind, M.bind, h1]
        rfl
      · intro k
        constructor
        · intro hk'; cases hk'
        · rintro ⟨hk1, hk2⟩
          rw [h2 k ((FMap.mem_keys_iff m k).1 hk1)] at hk2
          cases hk2
    · have hxk : x ∈ m.keys := (FMap.mem_keys_iff m x).2 h3
      have hpx : pending inner todo x = true := by rw [h5 x h3]; simp
      have hlt : (m.keys.filter (pending inner' todo')).length <
          (m.keys.filter (pending inner todo)).length := by
        apply filter_length_lt _ _ _ x hxk hpx h4
        intro k hk' hp
        rw [h5 k ((FMap.mem_keys_iff m k).1 hk'), hp]; simp
      obtain ⟨L, hL, hmem, hnd, hord⟩ := ih inner' todo' h2 (by omega)
      refine ⟨x :: L, ?_, ?_, ?_, ?_⟩
      · unfold VPath.walkAll
        simp only [bind, M.bind, h1, hL, pure, M.pure, List.map_cons]
      · intro k
        simp only [List.mem_cons, hmem]
        constructor
        · rintro (rfl | ⟨hk1, hk2⟩)
          · exact ⟨hxk, hpx⟩
          · exact ⟨hk1, by rw [h5 k ((FMap.mem_keys_iff m k).1 hk1), hk2]; simp⟩
        · rintro ⟨hk1, hk2⟩
          rw [h5 k ((FMap.mem_keys_iff m k).1 hk1), Bool.or_eq_true, decide_eq_true_eq] at hk2
          rcases hk2 with hk2 | hk2
          · exact Or.inl hk2
          · exact Or.inr ⟨hk1, hk2⟩
      · rw [List.nodup_cons]
        refine ⟨?_, hnd⟩
        intro hx
        have := ((hmem x).1 hx).2
        rw [h4] at this; cases this
      · rw [List.pairwise_cons]
        refine ⟨?_, hord⟩
        intro b hb
        exact h6 b ((hmem b).1 hb).2

end all

/-! ### 7. `walk_dir` itself, the fuel, the root, a decidable well-formedness check -/

section start
variable {w : World} {i : Nat} {m : FMap} (h : MemLeafAt w i m) (id : Nat)
include h

/-- `walk_dir` on an existing directory: the iterator starts with the listing, empty stack -/
theorem run_walkDir (p : Str) (e : Entry) (hp : m.find? p = some e) (hdir : e.ftype = .dir) :
    VPath.walkDir (mk i id p) w = (.ok (st i id (children m p) []), w) := by
  have hr : Mem.readDir m p = .ok (m.keys.filterMap (childName p)) := by
    simp [Mem.readDir, hp, hdir]
  unfold VPath.walkDir st
  simp only [bind, M.bind]
  rw [run_vReadDir h (mk i id p) rfl]
  have : (mk i id p).path = p := rfl
  rw [this, hr]
  simp only [Res.withPath, Res.map, pure, M.pure, List.map_nil]
  unfold children
  rw [List.map_map]
  rfl

/-- `walk_dir` on anything else fails with the path filled in, and there is no iterator -/
theorem run_walkDir_fail (p : Str) (hp : ∀ e, m.find? p = some e → e.ftype ≠ .dir) :
    VPath.walkDir (mk i id p) w =
      (.err (if m.contains p then .other else .fileNotFound) (some p), w) := by
  unfold VPath.walkDir
  simp only [bind, M.bind]
  rw [run_vReadDir h (mk i id p) rfl]
  have : (mk i id p).path = p := rfl
  rw [this]
  unfold Mem.readDir FMap.contains
  cases hf : m.find? p with
  | none => rfl
  | some e =>
    have : e.ftype = .file := by
      have := hp e hf
      cases he : e.ftype with
      | file => rfl
      | dir => exact absurd he this
    simp [this, fail, Res.withPath, Res.map]

end start

/-- the initial state is good, and what is pending are the keys strictly below `p` -/
theorem start_good {m : FMap} (hwf : WF m) (hk : FMap.NodupKeys m) (p : Str) (e : Entry)
    (hp : m.find? p = some e) (hdir : e.ftype = .dir) :
    Good m (children m p) [] ∧
    ∀ k, (∃ e', m.find? k = some e') → pending (children m p) [] k = below p k := by
  have hg : Good m [] [p] := by
    refine ⟨(by intro x hx; cases hx), ?_, (by simp)⟩
    intro d hd
    simp only [List.mem_singleton] at hd
    subst hd; exact ⟨e, hp, hdir⟩
  obtain ⟨g1, g2⟩ := expand_good hwf hk hg
  refine ⟨g1, ?_⟩
  intro k hk'
  rw [← g2 k hk']
  simp [pending]

/-- more fuel does not change a finished walk (any filesystem) -/
theorem walkAll_fuel_succ : ∀ (fuel : Nat) (s : VPath.Walk) (w w' : World) (l : List (Res VPath)),
    VPath.walkAll fuel s w = (.ok l, w') → VPath.walkAll (fuel + 1) s w = (.ok l, w') := by
  intro fuel
  induction fuel with
  | zero => intro s w w' l h; simp [VPath.walkAll, M.ret] at h
  | succ fuel ih =>
    intro s w w' l h
    unfold VPath.walkAll at h ⊢
    simp only [bind, M.bind] at h ⊢
    rcases hn : VPath.walkNext s w with ⟨r, w1⟩
    rw [hn] at h
    cases r with
    | panic => simp at h
    | err k p => simp at h
    | ok r =>
      obtain ⟨item, s'⟩ := r
      simp only at h ⊢
      cases item with
      | none => exact h
      | some it =>
        simp only [M.bind] at h ⊢
        rcases hr : VPath.walkAll fuel s' w1 with ⟨r2, w2⟩
        rw [hr] at h
        cases r2 with
        | panic => simp at h
        | err k p => simp at h
        | ok rest =>
          rw [ih s' w1 w2 rest hr]
          exact h

theorem walkAll_fuel_le {fuel fuel' : Nat} (hle : fuel ≤ fuel') (s : VPath.Walk) (w w' : World)
    (l : List (Res VPath)) (h : VPath.walkAll fuel s w = (.ok l, w')) :
    VPath.walkAll fuel' s w = (.ok l, w') := by
  induction hle with
  | refl => exact h
  | step _ ih => exact walkAll_fuel_succ _ s w w' l ih

/-- in a well-formed map every key but the root lies below the root `""` -/
theorem below_root {m : FMap} (hwf : WF m) : ∀ (n : Nat) (k : Str), k.length ≤ n →
    (∃ e, m.find? k = some e) → k ≠ [] → below [] k = true := by
  intro n
  induction n with
  | zero =>
    intro k hk _ hne
    cases k with
    | nil => exact absurd rfl hne
    | cons c cs => simp at hk
  | succ n ih =>
    intro k hk ⟨e, he⟩ hne
    obtain ⟨hs, pe, hpe, _⟩ := hwf.2 k e he hne
    have hb := below_parent_self k hs
    by_cases hpar : parentInternal k = []
    · rw [hpar] at hb; exact hb
    · have := ih (parentInternal k) (by have := parent_length_lt k hs; omega) ⟨pe, hpe⟩ hpar
      exact below_trans this hb

/-- a decidable sufficient check of `WF` -/
def wfCheck (m : FMap) : Bool :=
  (match m.find? [] with
   | some e => decide (e.ftype = .dir)
   | none => false) &&
  m.all (fun ke => decide (ke.1 = []) ||
    (decide ('/' ∈ ke.1) && match m.find? (parentInternal ke.1) with
      | some pe => decide (pe.ftype = .dir)
      | none => false))

theorem find?_mem (m : FMap) (k : Str) (e : Entry) (h : m.find? k = some e) : (k, e) ∈ m := by
  induction m with
  | nil => simp at h
  | cons kv rest ih =>
    obtain ⟨k', v⟩ := kv
    rw [FMap.find?_cons] at h
    split at h
    · rename_i hk
      injection h with h
      subst hk; subst h; simp
    · exact List.mem_cons_of_mem _ (ih h)

theorem WF_of_check (m : FMap) (h : wfCheck m = true) : WF m := by
  unfold wfCheck at h
  rw [Bool.and_eq_true] at h
  obtain ⟨h1, h2⟩ := h
  constructor
  · split at h1
    · rename_i e he
      exact ⟨e, he, by simpa using h1⟩
    · cases h1
  · intro k e hk hne
    rw [List.all_eq_true] at h2
    have := h2 (k, e) (find?_mem m k e hk)
    simp only [Bool.or_eq_true, decide_eq_true_eq, Bool.and_eq_true] at this
    rcases this with this | ⟨hs, hp⟩
    · exact absurd this hne
    · refine ⟨hs, ?_⟩
      split at hp
      · rename_i pe hpe
        exact ⟨pe, hpe, by simpa using hp⟩
      · cases hp

/-- a finished walk has yielded fewer items than it had fuel (any filesystem) -/
theorem walkAll_length_lt : ∀ (fuel : Nat) (s : VPath.Walk) (w w' : World) (l : List (Res VPath)),
    VPath.walkAll fuel s w = (.ok l, w') → l.length < fuel := by
  intro fuel
  induction fuel with
  | zero => intro s w w' l h; simp [VPath.walkAll, M.ret] at h
  | succ fuel ih =>
    intro s w w' l h
    unfold VPath.walkAll at h
    simp only [bind, M.bind] at h
    rcases hn : VPath.walkNext s w with ⟨r, w1⟩
    rw [hn] at h
    cases r with
    | panic => simp at h
    | err k p => simp at h
    | ok r =>
      obtain ⟨item, s'⟩ := r
      simp only at h
      cases item with
      | none =>
        simp only [pure, M.pure, Prod.mk.injEq, Res.ok.injEq] at h
        rw [← h.1]; simp
      | some it =>
        simp only [M.bind] at h
        rcases hr : VPath.walkAll fuel s' w1 with ⟨r2, w2⟩
        rw [hr] at h
        cases r2 with
        | panic => simp at h
        | err k p => simp at h
        | ok rest =>
          have := ih s' w1 w2 rest hr
          simp only [pure, M.pure, Prod.mk.injEq, Res.ok.injEq] at h
          rw [← h.1]; simp; omega

end Vfs.Wk
