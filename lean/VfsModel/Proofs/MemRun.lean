/-
  How the generic `VPath` operations run over `leafFS i` on a world whose leaf `i` is a memory
  leaf holding the map `m`: they compute exactly the pure functions of MemPath.lean.
-/
import VfsModel.Proofs.MemPath
import VfsModel.Proofs.LeafFrame
namespace Vfs

/-- leaf `i` of the world is a memory leaf holding `m` -/
def MemLeafAt (w : World) (i : Nat) (m : FMap) : Prop :=
  w.leaf? i = some { kind := .mem, files := m }

theorem World.setLeafFiles_self (w : World) (i : Nat) (l : Leaf) (h : w.leaf? i = some l) :
    w.setLeafFiles i l.files = w := by
  unfold World.setLeafFiles World.leaf? at *
  have : w.leaves.modify i (fun l' => { l' with files := l.files }) = w.leaves := by
    apply List.ext_getElem?
    intro j
    rw [List.getElem?_modify]
    by_cases hij : i = j
    · subst hij; rw [h]; simp
    · cases hj : w.leaves[j]? <;> simp [hij]
  rw [this]

theorem MemLeafAt.set {w : World} {i : Nat} {m : FMap} (h : MemLeafAt w i m) (m' : FMap) :
    MemLeafAt (w.setLeafFiles i m') i m' := by
  unfold MemLeafAt at *
  rw [World.setLeafFiles_same w i _ m' h]

theorem World.setLeafFiles_twice (w : World) (i : Nat) (a b : FMap) :
    (w.setLeafFiles i a).setLeafFiles i b = w.setLeafFiles i b := by
  unfold World.setLeafFiles
  simp only
  congr 1
  apply List.ext_getElem?
  intro j
  simp only [List.getElem?_modify]
  cases hj : w.leaves[j]? with
  | none => rfl
  | some x => by_cases hij : i = j <;> simp [hij]

theorem MemLeafAt.same {w : World} {i : Nat} {m : FMap} (h : MemLeafAt w i m) :
    w.setLeafFiles i m = w :=
  World.setLeafFiles_self w i _ h

section run
variable {w : World} {i : Nat} {m : FMap} (h : MemLeafAt w i m)
include h

theorem run_onLeaf {α} (f : Leaf → Res α × FMap) :
    onLeaf i f w = ((f { kind := .mem, files := m }).1, w.setLeafFiles i (f { kind := .mem, files := m }).2) := by
  unfold onLeaf
  unfold MemLeafAt at h
  rw [h]

theorem run_exists (p : Str) : (leafFS i).exists_ p w = (.ok (m.contains p), w) := by
  show onLeaf i _ w = _
  rw [run_onLeaf h]; simp [h.same]

theorem run_metadata (p : Str) : (leafFS i).metadata p w = (Mem.metadata m p, w) := by
  show onLeaf i _ w = _
  rw [run_onLeaf h]; simp [h.same]

theorem run_readDir (p : Str) : (leafFS i).readDir p w = (Mem.readDir m p, w) := by
  show onLeaf i _ w = _
  rw [run_onLeaf h]; simp [h.same]

theorem run_createDir (p : Str) :
    (leafFS i).createDir p w = ((Mem.createDir m p).1, w.setLeafFiles i (Mem.createDir m p).2) := by
  show onLeaf i _ w = _
  rw [run_onLeaf h]

theorem run_removeFile (p : Str) :
    (leafFS i).removeFile p w = ((Mem.removeFile m p).1, w.setLeafFiles i (Mem.removeFile m p).2) := by
  show onLeaf i _ w = _
  rw [run_onLeaf h]

theorem run_removeDir (p : Str) :
    (leafFS i).removeDir p w = ((Mem.removeDir m p).1, w.setLeafFiles i (Mem.removeDir m p).2) := by
  show onLeaf i _ w = _
  rw [run_onLeaf h]

theorem run_openFile (p : Str) :
    (leafFS i).openFile p w = ((Mem.openFile m p).1, w.setLeafFiles i (Mem.openFile m p).2) := by
  show onLeaf i _ w = _
  rw [run_onLeaf h]

theorem run_createFile (p : Str) :
    (leafFS i).createFile p w =
      ((Mem.createFile m p).1.map (fun _ => ({ leaf := i, key := p, kind := .memFile, buf := [], pos := 0 } : WHandle)),
        w.setLeafFiles i (Mem.createFile m p).2) := by
  show onLeaf i _ w = _
  rw [run_onLeaf h]

theorem run_appendFile (p : Str) :
    (leafFS i).appendFile p w =
      ((Mem.appendFile m p).map (fun b => ({ leaf := i, key := p, kind := .memFile, buf := b, pos := b.length } : WHandle)), w) := by
  show onLeaf i _ w = _
  rw [run_onLeaf h]; simp [h.same]

/-- `get_parent` on a memory leaf -/
theorem run_getParent (id : Nat) (p : Str) :
    (VPath.getParent { fs := leafFS i, fsId := id, path := p }) w =
      (if Mem.parentOk m p then .ok () else .err .other (some p), w) := by
  unfold VPath.getParent VPath.exists_ VPath.metadata VPath.parent VPath.withStr
  simp only [bind, M.bind, run_exists h, Mem.parentOk, FMap.contains]
  rcases Option.eq_none_or_eq_some (m.find? (parentInternal p)) with hf | ⟨e, hf⟩
  · simp [hf, M.failAt]
  · simp only [hf, Option.isSome_some, Bool.not_true, Bool.false_eq_true, ↓reduceIte, M.withPath,
      run_metadata h, Mem.metadata, Res.withPath]
    by_cases hd : e.ftype = .dir
    · simp [hd, hf, Entry.meta, Pure.pure, M.pure, M.bind, M.withPath, run_metadata h, Mem.metadata, Res.withPath]
    · simp [hd, hf, Entry.meta, M.failAt, M.bind, M.withPath, run_metadata h, Mem.metadata, Res.withPath]

theorem run_pCreateDir (id : Nat) (p : Str) :
    (VPath.createDir { fs := leafFS i, fsId := id, path := p }) w =
      ((Mem.pCreateDir m p).1, w.setLeafFiles i (Mem.pCreateDir m p).2) := by
  unfold VPath.createDir Mem.pCreateDir
  simp only [bind, M.bind, run_getParent h]
  by_cases hp : Mem.parentOk m p = true
  · simp only [hp, ↓reduceIte, M.withPath, run_createDir h]
  · simp only [hp, Bool.false_eq_true, ↓reduceIte, h.same]

theorem run_pRemoveFile (id : Nat) (p : Str) :
    (VPath.removeFile { fs := leafFS i, fsId := id, path := p }) w =
      ((Mem.pRemoveFile m p).1, w.setLeafFiles i (Mem.pRemoveFile m p).2) := by
  unfold VPath.removeFile Mem.pRemoveFile
  simp only [M.withPath, run_removeFile h]

theorem run_pRemoveDir (id : Nat) (p : Str) :
    (VPath.removeDir { fs := leafFS i, fsId := id, path := p }) w =
      ((Mem.pRemoveDir m p).1, w.setLeafFiles i (Mem.pRemoveDir m p).2) := by
  unfold VPath.removeDir Mem.pRemoveDir
  simp only [M.withPath, run_removeDir h]

/-- `create_file()?.write_all(bs)`, drop — one write session -/
theorem run_pWrite (id : Nat) (p : Str) (bs : Bytes) :
    (do let hd ← VPath.createFile { fs := leafFS i, fsId := id, path := p }
        hd.writeAllAndDrop bs : M Unit) w =
      ((Mem.pWrite m p bs).1, w.setLeafFiles i (Mem.pWrite m p bs).2) := by
  unfold VPath.createFile Mem.pWrite
  simp only [bind, M.bind, run_getParent h]
  by_cases hp : Mem.parentOk m p = true
  · simp only [hp, ↓reduceIte, M.withPath, run_createFile h]
    cases hc : Mem.createFile m p with
    | mk r m' =>
      cases r with
      | ok u =>
        have h' : MemLeafAt (w.setLeafFiles i m') i m' := h.set m'
        simp only [Res.map, Res.withPath, WHandle.writeAllAndDrop, bind, M.bind, WHandle.write,
          WHandle.drop, WHandle.flush]
        unfold MemLeafAt at h'
        simp only [h', World.setLeafFiles_twice]
      | err k pth => simp [Res.map, Res.withPath]
      | panic => simp [Res.map, Res.withPath]
  · simp only [hp, Bool.false_eq_true, ↓reduceIte, h.same]

/-- `append_file()?.write_all(bs)`, drop -/
theorem run_pAppend (id : Nat) (p : Str) (bs : Bytes) :
    (do let hd ← VPath.appendFile { fs := leafFS i, fsId := id, path := p }
        hd.writeAllAndDrop bs : M Unit) w =
      ((Mem.pAppend m p bs).1, w.setLeafFiles i (Mem.pAppend m p bs).2) := by
  unfold VPath.appendFile Mem.pAppend
  simp only [bind, M.bind, M.withPath, run_appendFile h]
  cases hc : Mem.appendFile m p with
  | ok old =>
    have h' := h
    unfold MemLeafAt at h'
    simp only [Res.map, Res.withPath, WHandle.writeAllAndDrop, bind, M.bind, WHandle.write,
      WHandle.drop, WHandle.flush, h']
  | err k pth => simp [Res.map, Res.withPath, h.same]
  | panic => simp [Res.map, Res.withPath, h.same]

end run
end Vfs
