/-
  `create_dir_all` through an overlay over n in-memory layers: the loop over the prefixes, behind
  `C11.overlay_createDirAll_exact` / `overlay_createDirAll_file_prefix` (Props/C11Overlay.lean).

  * `o_createDir_trait`: one trait-level `create_dir` (as the loop calls it) on a disciplined path
    below a directory of the view, by the three cases absent / directory / file;
  * `Made v v' pre ts`: the prefixes `pre ++ ts.take j` (1 ≤ j ≤ |ts|) are directories of `v'`,
    every other visible path keeps its `vcore`;
  * `cda_loop`: the loop over `chain pre ts` when no prefix is a file of the view;
  * `cdf_loop`: the loop when the prefix `pre ++ a ++ [c]` is a file of the view.
-/
import VfsModel.Proofs.OverlayCompositeLemmas
set_option linter.unusedSimpArgs false
set_option linter.unusedVariables false
set_option linter.unusedSectionVars false
namespace Vfs.C11
open Vfs Vfs.Overlay Vfs.C02 Vfs.C01 Vfs.C09 Vfs.C05

theorem kind_eq {r : Res Unit} {k : ErrKind} (h : r.kind? = some k) : ∃ pth, r = .err k pth := by
  cases r with
  | ok a => cases h
  | err k' p =>
    simp only [Res.kind?, Option.some.injEq] at h
    subst h; exact ⟨p, rfl⟩
  | panic => cases h

theorem renderC_longer_ne {cs ts : List Str} (hts : ts ≠ []) : renderC (cs ++ ts) ≠ renderC cs := by
  intro h
  have := congrArg List.length h
  rw [renderC_append, List.length_append] at this
  have h0 : (renderC ts).length = 0 := by omega
  exact renderC_ne_nil hts (List.eq_nil_of_length_eq_zero h0)

section steps
variable {u idu : Nat} {is ids : List Nat} {ms : List FMap} {w : World} {mu : FMap}
  (st : OSt u idu is ids ms w mu)
include st

/-- one trait-level `create_dir` (what the loop of `create_dir_all` issues) on a disciplined path
whose parent is a directory of the view -/
theorem o_createDir_trait {cs : List Str} (hp : OpPath cs)
    (hpar : VIsDir (oview (mu :: ms)) (parentInternal (renderC cs))) :
    ∃ r mu', (Overlay.fs (layersN (u :: is) (idu :: ids))).createDir (renderC cs) w
        = (r, w.setLeafFiles u mu') ∧
      OSt u idu is ids ms (w.setLeafFiles u mu') mu' ∧
      (NamesOK (mu :: ms) → NamesOK (mu' :: ms)) ∧
      (VAbsent (oview (mu :: ms)) (renderC cs) →
        r = .ok () ∧ VIsDir (oview (mu' :: ms)) (renderC cs) ∧
        VNoChildren (oview (mu' :: ms)) (renderC cs) ∧
        VFrame (oview (mu :: ms)) (oview (mu' :: ms)) (renderC cs)) ∧
      (VIsDir (oview (mu :: ms)) (renderC cs) →
        (∃ pth, r = .err .dirExists pth) ∧ VSame (oview (mu :: ms)) (oview (mu' :: ms))) ∧
      (VIsFile (oview (mu :: ms)) (renderC cs) →
        (∃ pth, r = .err .fileExists pth) ∧ VSame (oview (mu :: ms)) (oview (mu' :: ms))) := by
  obtain ⟨ds, n, rfl⟩ := hp.snoc_cases
  obtain ⟨r, mu', hrun, hown, inv', hc⟩ := overlay_createDir_contractN st.own st.inv st.vwf hp
  have hop : OpOK (.createDir (renderC (ds ++ [n]))) := ⟨ds, n, hp, rfl⟩
  refine ⟨r, mu', hrun, ⟨hown, inv', viewWF_of_contract st.vwf hop hc⟩,
    fun hn => namesOK_step hn hop hc, ?_, ?_, ?_⟩
  · intro ha
    have hr : r = .ok () := isOk_unit (hc.ok_iff.2 ⟨hpar, ha⟩)
    subst hr
    obtain ⟨⟨h1, h2⟩, h3⟩ := hc.effect rfl
    exact ⟨rfl, h1, h2, h3⟩
  · intro hd
    obtain ⟨pth, hr⟩ := kind_eq ((hc.occupied _ rfl hpar).2 hd)
    subst hr
    exact ⟨⟨pth, rfl⟩, hc.unchanged rfl⟩
  · intro hf
    obtain ⟨pth, hr⟩ := kind_eq ((hc.occupied _ rfl hpar).1 hf)
    subst hr
    exact ⟨⟨pth, rfl⟩, hc.unchanged rfl⟩

end steps

/-- the prefixes `pre ++ ts.take j`, `1 ≤ j ≤ |ts|`, are directories of `v'`; every other visible
path keeps its `vcore` -/
def Made (v v' : View) (pre ts : List Str) : Prop :=
  (∀ j, 1 ≤ j → j ≤ ts.length → VIsDir v' (renderC (pre ++ ts.take j))) ∧
  (∀ q, Vis q → (∀ j, 1 ≤ j → j ≤ ts.length → q ≠ renderC (pre ++ ts.take j)) →
    (v' q).map vcore = (v q).map vcore)

section loops
variable {u idu : Nat} {is ids : List Nat} {ms : List FMap} (P : VPath)
  (hP : P.fs = Overlay.fs (layersN (u :: is) (idu :: ids)))
include hP

/-- the loop of `create_dir_all` below a directory `pre` of the view, no prefix a file -/
theorem cda_loop : ∀ (ts pre : List Str) (w : World) (mu : FMap), OSt u idu is ids ms w mu →
    VIsDir (oview (mu :: ms)) (renderC pre) → (ts ≠ [] → OpPath (pre ++ ts)) →
    (∀ j, 1 ≤ j → j ≤ ts.length → ¬ VIsFile (oview (mu :: ms)) (renderC (pre ++ ts.take j))) →
    ∃ mu', VPath.createDirAllLoop P (chain pre ts) w = (.ok (), w.setLeafFiles u mu') ∧
      OSt u idu is ids ms (w.setLeafFiles u mu') mu' ∧
      (NamesOK (mu :: ms) → NamesOK (mu' :: ms)) ∧
      Made (oview (mu :: ms)) (oview (mu' :: ms)) pre ts := by
  intro ts
  induction ts with
  | nil =>
    intro pre w mu st _ _ _
    refine ⟨mu, ?_, ?_, fun h => h, ?_, ?_⟩
    · rw [st.self_world]; rfl
    · rw [st.self_world]; exact st
    · intro j h1 h2; simp at h2; omega
    · intro q _ _; rfl
  | cons c ts ih =>
    intro pre w mu st hpar hp hnf
    have hpall : OpPath (pre ++ [c] ++ ts) := by rw [← List.append_cons]; exact hp (by simp)
    have hpc : OpPath (pre ++ [c]) := hpall.prefix (by simp)
    obtain ⟨r, mu1, hrun, st1, hn1, hA, hD, _⟩ :=
      o_createDir_trait st hpc (by rw [hpc.parent]; exact hpar)
    have hnf1 : ¬ VIsFile (oview (mu :: ms)) (renderC (pre ++ [c])) := by
      have := hnf 1 (by omega) (by simp)
      simpa using this
    have key : (r = .ok () ∨ ∃ pth, r = .err .dirExists pth) ∧
        VIsDir (oview (mu1 :: ms)) (renderC (pre ++ [c])) ∧
        VFrame (oview (mu :: ms)) (oview (mu1 :: ms)) (renderC (pre ++ [c])) := by
      cases hv : oview (mu :: ms) (renderC (pre ++ [c])) with
      | none =>
        obtain ⟨a, b, _, d⟩ := hA hv
        exact ⟨Or.inl a, b, d⟩
      | some e =>
        cases hft : e.ftype with
        | file => exact absurd ⟨e, hv, hft⟩ hnf1
        | dir =>
          obtain ⟨a, b⟩ := hD ⟨e, hv, hft⟩
          exact ⟨Or.inr a, (isDir_of_vcore (b _ hpc.vis)).2 ⟨e, hv, hft⟩, b.frame _⟩
    obtain ⟨hr, hd1, hfr1⟩ := key
    have hnf' : ∀ j, 1 ≤ j → j ≤ ts.length →
        ¬ VIsFile (oview (mu1 :: ms)) (renderC (pre ++ [c] ++ ts.take j)) := by
      intro j h1 h2 hf
      have hne : ts.take j ≠ [] := by
        intro h0
        have := congrArg List.length h0
        rw [List.length_take, List.length_nil] at this; omega
      have hpj : OpPath (pre ++ [c] ++ ts.take j) := by
        have : OpPath ((pre ++ [c] ++ ts.take j) ++ ts.drop j) := by
          rw [List.append_assoc, List.take_append_drop]; exact hpall
        exact this.prefix (by simp)
      have hsame := hfr1 _ hpj.vis (renderC_longer_ne hne)
      have := (isFile_of_vcore hsame).1 hf
      apply hnf (j + 1) (by omega) (by simp; omega)
      rw [List.take_succ_cons, List.append_cons]
      exact this
    obtain ⟨mu2, hrun2, st2, hn2, hM⟩ := ih (pre ++ [c]) (w.setLeafFiles u mu1) mu1 st1 hd1
      (fun _ => hpall) hnf'
    rw [World.setLeafFiles_twice] at hrun2 st2
    refine ⟨mu2, ?_, st2, fun h => hn2 (hn1 h), ?_, ?_⟩
    · show VPath.createDirAllLoop P (renderC (pre ++ [c]) :: chain (pre ++ [c]) ts) w = _
      unfold VPath.createDirAllLoop
      rw [hP, hrun]
      rcases hr with hr | ⟨pth, hr⟩
      · subst hr; exact hrun2
      · subst hr; exact hrun2
    · intro j h1 h2
      obtain ⟨i, rfl⟩ : ∃ i, j = i + 1 := ⟨j - 1, by omega⟩
      rw [List.take_succ_cons, List.append_cons]
      by_cases hi : i = 0
      · subst hi
        rw [List.take_zero, List.append_nil]
        refine (isDir_of_vcore (hM.2 _ hpc.vis ?_)).2 hd1
        intro j' h1' h2' h0
        have hne : ts.take j' ≠ [] := by
          intro h00
          have := congrArg List.length h00
          rw [List.length_take, List.length_nil] at this; omega
        exact renderC_longer_ne hne h0.symm
      · exact hM.1 i (by omega) (by simpa using h2)
    · intro q hq hne
      have h1 : q ≠ renderC (pre ++ [c]) := by
        have := hne 1 (by omega) (by simp)
        simpa using this
      have h2 : ∀ j, 1 ≤ j → j ≤ ts.length → q ≠ renderC (pre ++ [c] ++ ts.take j) := by
        intro j hj1 hj2
        have := hne (j + 1) (by omega) (by simp; omega)
        rw [List.take_succ_cons, List.append_cons] at this
        exact this
      exact (hM.2 q hq h2).trans (hfr1 q hq h1)

/-- the loop of `create_dir_all` when the prefix `pre ++ a ++ [c]` is a FILE of the view: the
directories before it exist already (the view is well-formed), the loop stops at the file with
`FileExists` labelled with that prefix, and the view is unchanged -/
theorem cdf_loop (c : Str) (b : List Str) : ∀ (a pre : List Str) (w : World) (mu : FMap),
    OSt u idu is ids ms w mu →
    VIsDir (oview (mu :: ms)) (renderC pre) → OpPath (pre ++ a ++ c :: b) →
    VIsFile (oview (mu :: ms)) (renderC (pre ++ a ++ [c])) →
    ∃ mu', VPath.createDirAllLoop P (chain pre (a ++ c :: b)) w
        = (.err .fileExists (some (renderC (pre ++ a ++ [c]))), w.setLeafFiles u mu') ∧
      OSt u idu is ids ms (w.setLeafFiles u mu') mu' ∧
      (NamesOK (mu :: ms) → NamesOK (mu' :: ms)) ∧
      VSame (oview (mu :: ms)) (oview (mu' :: ms)) := by
  intro a
  induction a with
  | nil =>
    intro pre w mu st hpar hp hf
    rw [List.append_nil] at hp hf
    have hpall : OpPath (pre ++ [c] ++ b) := by rw [← List.append_cons]; exact hp
    have hpc : OpPath (pre ++ [c]) := hpall.prefix (by simp)
    obtain ⟨r, mu1, hrun, st1, hn1, _, _, hF⟩ :=
      o_createDir_trait st hpc (by rw [hpc.parent]; exact hpar)
    obtain ⟨⟨pth, hr⟩, hs⟩ := hF hf
    subst hr
    refine ⟨mu1, ?_, st1, hn1, hs⟩
    show VPath.createDirAllLoop P (renderC (pre ++ [c]) :: chain (pre ++ [c]) b) w = _
    unfold VPath.createDirAllLoop
    rw [hP, hrun, List.append_nil]
  | cons x a ih =>
    intro pre w mu st hpar hp hf
    have e1 : pre ++ (x :: a) ++ c :: b = pre ++ [x] ++ a ++ c :: b := by simp
    have e2 : pre ++ (x :: a) ++ [c] = pre ++ [x] ++ a ++ [c] := by simp
    rw [e1] at hp
    rw [e2] at hf ⊢
    have hpx : OpPath (pre ++ [x]) := by
      have : OpPath ((pre ++ [x]) ++ (a ++ c :: b)) := by rw [← List.append_assoc]; exact hp
      exact this.prefix (by simp)
    have hpf : OpPath ((pre ++ [x]) ++ (a ++ [c])) := by
      have : OpPath (((pre ++ [x]) ++ (a ++ [c])) ++ b) := by
        have e3 : pre ++ [x] ++ (a ++ [c]) ++ b = pre ++ [x] ++ a ++ c :: b := by simp
        rw [e3]; exact hp
      exact this.prefix (by simp)
    have hdx : VIsDir (oview (mu :: ms)) (renderC (pre ++ [x])) :=
      present_below_dir st.vwf (by simp) (a ++ [c]) (by simp) hpf
        (by rw [← List.append_assoc]; exact not_absent_of_file hf)
    obtain ⟨r, mu1, hrun, st1, hn1, _, hD, _⟩ :=
      o_createDir_trait st hpx (by rw [hpx.parent]; exact hpar)
    obtain ⟨⟨pth, hr⟩, hs⟩ := hD hdx
    subst hr
    have hd1 : VIsDir (oview (mu1 :: ms)) (renderC (pre ++ [x])) :=
      (isDir_of_vcore (hs _ hpx.vis)).2 hdx
    have hf1 : VIsFile (oview (mu1 :: ms)) (renderC (pre ++ [x] ++ a ++ [c])) := by
      have hv : Vis (renderC (pre ++ [x] ++ a ++ [c])) := by
        rw [List.append_assoc]; exact hpf.vis
      exact (isFile_of_vcore (hs _ hv)).2 hf
    obtain ⟨mu2, hrun2, st2, hn2, hs2⟩ := ih (pre ++ [x]) (w.setLeafFiles u mu1) mu1 st1 hd1 hp hf1
    rw [World.setLeafFiles_twice] at hrun2 st2
    refine ⟨mu2, ?_, st2, fun h => hn2 (hn1 h), hs.trans hs2⟩
    show VPath.createDirAllLoop P (renderC (pre ++ [x]) :: chain (pre ++ [x]) (a ++ c :: b)) w = _
    unfold VPath.createDirAllLoop
    rw [hP, hrun]
    exact hrun2

end loops

end Vfs.C11
