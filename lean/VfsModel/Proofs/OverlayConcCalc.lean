/-
  Lemmas for Props/C17OverlayConc.lean, part B: a rely-guarantee calculus for the programs of
  VfsModel/OverlayConc.lean.

  * `wpR R t Q w`: "thread `t`, started in world `w`, with every other thread's steps (and its
    own) related by `R`, makes only `R`-steps and, when it has finished with outcome `r` in world
    `w'`, `Q r w'` holds — and keeps holding": before each of its calls and after its last one the
    world may be replaced by any `R`-later world.  `wpR_stable`, `wpR_mono`, `wpR_bindR`,
    `wpR_rel` (the final world is `R`-later than the initial one), `wpR_step`.
  * `SInv`: every thread of a system satisfies its `wpR`; `step_SInv`, `run_SInv`: preserved by
    every step of every schedule (`R` reflexive and transitive).  This reduces the statement about
    all interleavings to ONE statement per thread.
  * the setting `St w mu` (= `OWN`): the layers are memory leaves, the write layer holds `mu`, the
    lower layers hold the fixed maps `ms`; `RelW Rel`: the world changes only in the write layer,
    by `Rel`; `WP Rel t Q mu`: `wpR` with pre- and postcondition on the write layer's map; the
    rules `WP_done`, `WP_exists_u`, `WP_exists_low`, `WP_metadata_u`, `WP_metadata_low`,
    `WP_createDir_u`, `WP_removeFile_u` (one per layer call the overlay makes), `WP_bindR`,
    `WP_bind`, `WP_mono`, `WP_rel`.
  All statements are for an arbitrary reflexive transitive `Rel`.
-/
import VfsModel.Proofs.OverlayConcLemmas
import VfsModel.Proofs.OverlayNLemmas
set_option linter.unusedVariables false
set_option linter.unusedSimpArgs false
namespace Vfs.OConc
open Vfs Vfs.Overlay Prog

/-! ### weakest preconditions under interference -/

def wpR {α} (R : World → World → Prop) : Prog α → (Res α → World → Prop) → World → Prop
  | .done r, Q, w => ∀ w', R w w' → Q r w'
  | .exists_ fs p k, Q, w => ∀ w', R w w' →
      R w' (fs.exists_ p w').2 ∧ wpR R (k (fs.exists_ p w').1) Q (fs.exists_ p w').2
  | .metadata fs p k, Q, w => ∀ w', R w w' →
      R w' (fs.metadata p w').2 ∧ wpR R (k (fs.metadata p w').1) Q (fs.metadata p w').2
  | .createDir fs p k, Q, w => ∀ w', R w w' →
      R w' (fs.createDir p w').2 ∧ wpR R (k (fs.createDir p w').1) Q (fs.createDir p w').2
  | .removeFile fs p k, Q, w => ∀ w', R w w' →
      R w' (fs.removeFile p w').2 ∧ wpR R (k (fs.removeFile p w').1) Q (fs.removeFile p w').2

section wp
variable {R : World → World → Prop} (hrefl : ∀ w, R w w) (htr : ∀ a b c, R a b → R b c → R a c)

include htr in
theorem wpR_stable {α} (t : Prog α) (Q : Res α → World → Prop) (w w1 : World)
    (h : wpR R t Q w) (hR : R w w1) : wpR R t Q w1 := by
  cases t <;> exact fun w' hw' => h w' (htr _ _ _ hR hw')

theorem wpR_mono {α} (t : Prog α) (Q Q' : Res α → World → Prop) (hQ : ∀ r w, Q r w → Q' r w)
    (w : World) (h : wpR R t Q w) : wpR R t Q' w := by
  induction t generalizing w with
  | done r => exact fun w' hw' => hQ _ _ (h w' hw')
  | exists_ fs p k ih => exact fun w' hw' => ⟨(h w' hw').1, ih _ _ (h w' hw').2⟩
  | metadata fs p k ih => exact fun w' hw' => ⟨(h w' hw').1, ih _ _ (h w' hw').2⟩
  | createDir fs p k ih => exact fun w' hw' => ⟨(h w' hw').1, ih _ _ (h w' hw').2⟩
  | removeFile fs p k ih => exact fun w' hw' => ⟨(h w' hw').1, ih _ _ (h w' hw').2⟩

include hrefl in
theorem wpR_bindR {α β} (m : Prog α) (f : Res α → Prog β) (Q : Res β → World → Prop) (w : World)
    (h : wpR R m (fun r w' => wpR R (f r) Q w') w) : wpR R (m.bindR f) Q w := by
  induction m generalizing w with
  | done r => exact h w (hrefl w)
  | exists_ fs p k ih => exact fun w' hw' => ⟨(h w' hw').1, ih _ _ (h w' hw').2⟩
  | metadata fs p k ih => exact fun w' hw' => ⟨(h w' hw').1, ih _ _ (h w' hw').2⟩
  | createDir fs p k ih => exact fun w' hw' => ⟨(h w' hw').1, ih _ _ (h w' hw').2⟩
  | removeFile fs p k ih => exact fun w' hw' => ⟨(h w' hw').1, ih _ _ (h w' hw').2⟩

include htr in
/-- the final world is `R`-later than the initial one -/
theorem wpR_rel {α} (t : Prog α) (Q : Res α → World → Prop) (w : World) (h : wpR R t Q w) :
    wpR R t (fun r w' => Q r w' ∧ R w w') w := by
  induction t generalizing w with
  | done r => exact fun w' hw' => ⟨h w' hw', hw'⟩
  | exists_ fs p k ih =>
    exact fun w' hw' => ⟨(h w' hw').1, wpR_mono _ _ _
      (fun r w'' hq => ⟨hq.1, htr _ _ _ hw' (htr _ _ _ (h w' hw').1 hq.2)⟩) _ (ih _ _ (h w' hw').2)⟩
  | metadata fs p k ih =>
    exact fun w' hw' => ⟨(h w' hw').1, wpR_mono _ _ _
      (fun r w'' hq => ⟨hq.1, htr _ _ _ hw' (htr _ _ _ (h w' hw').1 hq.2)⟩) _ (ih _ _ (h w' hw').2)⟩
  | createDir fs p k ih =>
    exact fun w' hw' => ⟨(h w' hw').1, wpR_mono _ _ _
      (fun r w'' hq => ⟨hq.1, htr _ _ _ hw' (htr _ _ _ (h w' hw').1 hq.2)⟩) _ (ih _ _ (h w' hw').2)⟩
  | removeFile fs p k ih =>
    exact fun w' hw' => ⟨(h w' hw').1, wpR_mono _ _ _
      (fun r w'' hq => ⟨hq.1, htr _ _ _ hw' (htr _ _ _ (h w' hw').1 hq.2)⟩) _ (ih _ _ (h w' hw').2)⟩

include hrefl in
/-- one step of the thread itself: an `R`-step, and the rest of the program satisfies its `wpR` -/
theorem wpR_step {α} (t : Prog α) (Q : Res α → World → Prop) (w : World) (h : wpR R t Q w) :
    R w (t.step1 w).2 ∧ wpR R (t.step1 w).1 Q (t.step1 w).2 := by
  cases t with
  | done r => exact ⟨hrefl w, h⟩
  | exists_ fs p k => exact h w (hrefl w)
  | metadata fs p k => exact h w (hrefl w)
  | createDir fs p k => exact h w (hrefl w)
  | removeFile fs p k => exact h w (hrefl w)

include hrefl in
theorem wpR_done {α} (r : Res α) (Q : Res α → World → Prop) (w : World)
    (h : wpR R (.done r) Q w) : Q r w := h w (hrefl w)

/-! ### the system invariant -/

/-- every thread satisfies its `wpR`, and the world is `R`-later than the initial one -/
structure SInv (R : World → World → Prop) (Qs : List (Res Unit → World → Prop)) (w0 : World)
    (s : Sys) : Prop where
  rel : R w0 s.world
  len : s.threads.length = Qs.length
  thr : ∀ (i : Nat) (t : Prog Unit) (Q : Res Unit → World → Prop), s.threads[i]? = some t → Qs[i]? = some Q → wpR R t Q s.world

include hrefl htr in
theorem step_SInv (Qs : List (Res Unit → World → Prop)) (w0 : World) (s : Sys) (tid : Nat)
    (h : SInv R Qs w0 s) : SInv R Qs w0 (step s tid) := by
  unfold step
  cases hg : s.threads[tid]? with
  | none => exact h
  | some t =>
    have hlt : tid < Qs.length := by rw [← h.len]; exact (List.getElem?_eq_some_iff.1 hg).1
    obtain ⟨Q0, hQ0⟩ : ∃ Q0, Qs[tid]? = some Q0 := ⟨_, List.getElem?_eq_getElem hlt⟩
    obtain ⟨hR, hwp⟩ := wpR_step hrefl t _ s.world (h.thr tid t Q0 hg hQ0)
    refine ⟨htr _ _ _ h.rel hR, by simp [h.len], ?_⟩
    intro i t' Q ht' hQ
    simp only [List.getElem?_set] at ht'
    split at ht'
    · rename_i hi
      subst hi
      split at ht'
      · injection ht' with ht'
        subst ht'
        rw [hQ0] at hQ
        injection hQ with hQ
        subst hQ
        exact hwp
      · cases ht'
    · exact wpR_stable htr t' Q _ _ (h.thr i t' Q ht' hQ) hR

include hrefl htr in
theorem run_SInv (Qs : List (Res Unit → World → Prop)) (w0 : World) (s : Sys) (schedule : List Nat)
    (h : SInv R Qs w0 s) : SInv R Qs w0 (run s schedule) := by
  induction schedule generalizing s with
  | nil => exact h
  | cons tid rest ih => exact ih _ (step_SInv hrefl htr Qs w0 s tid h)

end wp

/-! ### the setting: memory layers; assertions on the write layer's map -/

section setting
variable (u idu : Nat) (is ids : List Nat) (ms : List FMap)

/-- the layers are memory leaves; the write layer holds `mu`, the lower layers hold `ms` -/
def St (w : World) (mu : FMap) : Prop := OWN w (u :: is) (idu :: ids) (mu :: ms)

variable {u idu is ids ms}

theorem St.unique {w : World} {mu mu2 : FMap} (h1 : St u idu is ids ms w mu)
    (h2 : St u idu is ids ms w mu2) : mu = mu2 := by
  have a := OWN.hu h1
  have b := OWN.hu h2
  unfold MemLeafAt at a b
  rw [a] at b
  injection b with b
  injection b

theorem St.set {w : World} {mu : FMap} (h : St u idu is ids ms w mu) (m' : FMap) :
    St u idu is ids ms (w.setLeafFiles u m') m' := OWN.setHead h m'

theorem St.low {w : World} {mu : FMap} (h : St u idu is ids ms w mu) {j i : Nat} {m : FMap}
    (hi : is[j]? = some i) (hm : ms[j]? = some m) : MemLeafAt w i m :=
  OWN.leafAt h (j + 1) i m (by simpa using hi) (by simpa using hm)

variable (u idu is ids ms)

/-- the world changes only in the write layer, by `Rel` -/
def RelW (Rel : FMap → FMap → Prop) (w w' : World) : Prop :=
  ∀ mu, St u idu is ids ms w mu → ∃ mu', w' = w.setLeafFiles u mu' ∧ Rel mu mu'

variable (Rel : FMap → FMap → Prop)

/-- `wpR` with assertions on the map of the write layer -/
def WP {α} (t : Prog α) (Q : Res α → FMap → Prop) (mu : FMap) : Prop :=
  ∀ w, St u idu is ids ms w mu →
    wpR (RelW u idu is ids ms Rel) t (fun r w' => ∃ mu', St u idu is ids ms w' mu' ∧ Q r mu') w

variable {u idu is ids ms Rel}
variable (hrefl : ∀ m, Rel m m) (htr : ∀ a b c, Rel a b → Rel b c → Rel a c)

include hrefl in
theorem RelW_refl (w : World) : RelW u idu is ids ms Rel w w :=
  fun mu h => ⟨mu, (OWN.hu h).same.symm, hrefl mu⟩

include htr in
theorem RelW_trans (a b c : World) (h1 : RelW u idu is ids ms Rel a b)
    (h2 : RelW u idu is ids ms Rel b c) : RelW u idu is ids ms Rel a c := by
  intro mu hst
  obtain ⟨mu1, rfl, hr1⟩ := h1 mu hst
  obtain ⟨mu2, rfl, hr2⟩ := h2 mu1 (hst.set mu1)
  exact ⟨mu2, World.setLeafFiles_twice _ _ _ _, htr _ _ _ hr1 hr2⟩

theorem RelW_set {w : World} {mu mu' : FMap} (hst : St u idu is ids ms w mu) (h : Rel mu mu') :
    RelW u idu is ids ms Rel w (w.setLeafFiles u mu') := by
  intro mu0 h0
  rw [← St.unique hst h0]
  exact ⟨mu', rfl, h⟩

theorem WP_done {α} (r : Res α) (Q : Res α → FMap → Prop) (mu : FMap)
    (h : ∀ mu', Rel mu mu' → Q r mu') : WP u idu is ids ms Rel (.done r) Q mu := by
  intro w hst w' hR
  obtain ⟨mu', rfl, hrel⟩ := hR mu hst
  exact ⟨mu', hst.set mu', h mu' hrel⟩

include hrefl in
theorem WP_exists_u {α} (p : Str) (k : Res Bool → Prog α) (Q : Res α → FMap → Prop) (mu : FMap)
    (h : ∀ mu', Rel mu mu' → WP u idu is ids ms Rel (k (.ok (mu'.contains p))) Q mu') :
    WP u idu is ids ms Rel (.exists_ (leafFS u) p k) Q mu := by
  intro w hst w' hR
  obtain ⟨mu', rfl, hrel⟩ := hR mu hst
  have hst' := hst.set mu'
  rw [run_exists (OWN.hu hst') p]
  exact ⟨RelW_refl hrefl _, h mu' hrel _ hst'⟩

include hrefl in
theorem WP_exists_low {α} (j i : Nat) (m : FMap) (hi : is[j]? = some i) (hm : ms[j]? = some m)
    (p : Str) (k : Res Bool → Prog α) (Q : Res α → FMap → Prop) (mu : FMap)
    (h : ∀ mu', Rel mu mu' → WP u idu is ids ms Rel (k (.ok (m.contains p))) Q mu') :
    WP u idu is ids ms Rel (.exists_ (leafFS i) p k) Q mu := by
  intro w hst w' hR
  obtain ⟨mu', rfl, hrel⟩ := hR mu hst
  have hst' := hst.set mu'
  rw [run_exists (hst'.low hi hm) p]
  exact ⟨RelW_refl hrefl _, h mu' hrel _ hst'⟩

include hrefl in
theorem WP_metadata_u {α} (p : Str) (k : Res Meta → Prog α) (Q : Res α → FMap → Prop) (mu : FMap)
    (h : ∀ mu', Rel mu mu' → WP u idu is ids ms Rel (k (Mem.metadata mu' p)) Q mu') :
    WP u idu is ids ms Rel (.metadata (leafFS u) p k) Q mu := by
  intro w hst w' hR
  obtain ⟨mu', rfl, hrel⟩ := hR mu hst
  have hst' := hst.set mu'
  rw [run_metadata (OWN.hu hst') p]
  exact ⟨RelW_refl hrefl _, h mu' hrel _ hst'⟩

include hrefl in
theorem WP_metadata_low {α} (j i : Nat) (m : FMap) (hi : is[j]? = some i) (hm : ms[j]? = some m)
    (p : Str) (k : Res Meta → Prog α) (Q : Res α → FMap → Prop) (mu : FMap)
    (h : ∀ mu', Rel mu mu' → WP u idu is ids ms Rel (k (Mem.metadata m p)) Q mu') :
    WP u idu is ids ms Rel (.metadata (leafFS i) p k) Q mu := by
  intro w hst w' hR
  obtain ⟨mu', rfl, hrel⟩ := hR mu hst
  have hst' := hst.set mu'
  rw [run_metadata (hst'.low hi hm) p]
  exact ⟨RelW_refl hrefl _, h mu' hrel _ hst'⟩

theorem WP_createDir_u {α} (p : Str) (k : Res Unit → Prog α) (Q : Res α → FMap → Prop) (mu : FMap)
    (h : ∀ mu', Rel mu mu' → Rel mu' (Mem.createDir mu' p).2 ∧
      WP u idu is ids ms Rel (k (Mem.createDir mu' p).1) Q (Mem.createDir mu' p).2) :
    WP u idu is ids ms Rel (.createDir (leafFS u) p k) Q mu := by
  intro w hst w' hR
  obtain ⟨mu', rfl, hrel⟩ := hR mu hst
  have hst' := hst.set mu'
  rw [Vfs.run_createDir (OWN.hu hst') p]
  exact ⟨RelW_set hst' (h mu' hrel).1, (h mu' hrel).2 _ (hst'.set _)⟩

theorem WP_removeFile_u {α} (p : Str) (k : Res Unit → Prog α) (Q : Res α → FMap → Prop) (mu : FMap)
    (h : ∀ mu', Rel mu mu' → Rel mu' (Mem.removeFile mu' p).2 ∧
      WP u idu is ids ms Rel (k (Mem.removeFile mu' p).1) Q (Mem.removeFile mu' p).2) :
    WP u idu is ids ms Rel (.removeFile (leafFS u) p k) Q mu := by
  intro w hst w' hR
  obtain ⟨mu', rfl, hrel⟩ := hR mu hst
  have hst' := hst.set mu'
  rw [Vfs.run_removeFile (OWN.hu hst') p]
  exact ⟨RelW_set hst' (h mu' hrel).1, (h mu' hrel).2 _ (hst'.set _)⟩

theorem WP_mono {α} (t : Prog α) (Q Q' : Res α → FMap → Prop) (mu : FMap)
    (hQ : ∀ r mu', Q r mu' → Q' r mu') (h : WP u idu is ids ms Rel t Q mu) :
    WP u idu is ids ms Rel t Q' mu := by
  intro w hst
  exact wpR_mono _ _ _ (fun r w' ⟨mu', h1, h2⟩ => ⟨mu', h1, hQ _ _ h2⟩) _ (h w hst)

include htr in
/-- the final map is `Rel`-later than the initial one -/
theorem WP_rel {α} (t : Prog α) (Q : Res α → FMap → Prop) (mu : FMap)
    (h : WP u idu is ids ms Rel t Q mu) :
    WP u idu is ids ms Rel t (fun r mu' => Q r mu' ∧ Rel mu mu') mu := by
  intro w hst
  refine wpR_mono _ _ _ ?_ _ (wpR_rel (RelW_trans htr) _ _ _ (h w hst))
  rintro r w' ⟨⟨mu', h1, h2⟩, hR⟩
  obtain ⟨mu2, rfl, hrel⟩ := hR mu hst
  have := St.unique h1 (hst.set mu2)
  subst this
  exact ⟨mu', h1, h2, hrel⟩

include hrefl htr in
/-- sequencing: a specification of `m`, then the continuation from every later map -/
theorem WP_bindR {α β} (m : Prog α) (f : Res α → Prog β) (P : Res α → FMap → Prop)
    (Q : Res β → FMap → Prop) (mu : FMap) (hm : WP u idu is ids ms Rel m P mu)
    (hf : ∀ r mu', Rel mu mu' → P r mu' → WP u idu is ids ms Rel (f r) Q mu') :
    WP u idu is ids ms Rel (m.bindR f) Q mu := by
  intro w hst
  apply wpR_bindR (RelW_refl hrefl)
  refine wpR_mono _ _ _ ?_ _ (WP_rel htr _ _ _ hm w hst)
  rintro r w' ⟨mu', h1, h2, h3⟩
  exact hf r mu' h3 h2 w' h1

include hrefl htr in
theorem WP_bind {α β} (m : Prog α) (f : α → Prog β) (P : Res α → FMap → Prop)
    (Q : Res β → FMap → Prop) (mu : FMap) (hm : WP u idu is ids ms Rel m P mu)
    (hf : ∀ r mu', Rel mu mu' → P r mu' → WP u idu is ids ms Rel (Prog.lift f r) Q mu') :
    WP u idu is ids ms Rel (m >>= f) Q mu :=
  WP_bindR hrefl htr m (Prog.lift f) P Q mu hm hf

end setting

end Vfs.OConc
