/-
  C02 lifted by simulation: "MemoryFS is a faithful stand-in for PhysicalFS" under adapters.

  The calculus of Proofs/Sim.lean relates two runs with EQUAL error kinds, EQUAL metadata and
  EQUAL listings; none of the three holds between a memory leaf and a physical leaf (`Other` vs
  `IoError`, timestamps, storage order of the association list — `Mem.openFile` moves the key it
  stamps to the front).  This file sets up the CLASS variant of the calculus and its instance.

  A. `CRes KR Q` / `CSim R KR Q` : outcomes related up to a relation `KR` on error kinds (error
     PATHS are ignored altogether: they are message text); closure lemmas; `PathEq` (two
     computations that differ only in the paths attached to errors are interchangeable).
     `KRel` — the class relation memory/physical (see its doc comment); `Eq` — the strict one.
  B. `SimC R fs1 fs2` — the session-level interface: the observers `exists` (strict), `metadata`
     (type, and length of files), `read_dir` (same SET of canonical names), `readAll` (open + read to
     end), the handle-free mutators `create_dir`, `remove_file`, `remove_dir`, and write handles only
     inside CLOSED SESSIONS: `createSession p script` / `appendSession p script`
     (`create_file`/`append_file`, the writes of `script : List Bytes` in order, drop),
     `createOnly` (a `create_file` whose handle is never written) and `createClear p q script`
     (the session of the overlay: create, clear a marker `q`, write, drop).
     `SimW` = `SimC` + `createClear` + `clearT` ("usable as the write layer of an overlay";
     `clearT q` is the tolerant clearing of a marker by `OverlayFS::create_dir` after the fix of
     O11: probe `q`, remove it if it exists, a `FileNotFound` of the removal is swallowed — the
     probe and the removal are ONE field because the kinds of `remove_file` alone agree only up
     to `KRel`, which does not preserve `FileNotFound`).
     Parametricity of the `VfsPath` operations that do not iterate over listings.
  C. `Altroot.simC/simW` : the altroot adapter is parametric.
  (this file: A, B, C)
  D. Proofs/ClassSimOverlay.lean — `Overlay.simC` : the overlay adapter is parametric (write layer
     `SimW`, lower layers `SimC`), except `append_file` (copy-up), see NOT PROVED.
  E. Proofs/MemPhysSim.lean — `RCore` and `leaf_simW` : the instance — memory leaf (well-formed
     map, canonical keys) left, physical leaf with `CoreEq` content right.
  Hypotheses that recur: the SAME canonical path string on both sides (`Canon`); `create_dir` and
  `remove_dir` away from the root "".

  NOT PROVED (and why) — see also Props/C02Stack.lean:
    * operations that ITERATE over a listing (`walk_dir`, `remove_dir_all`, `copy_dir`, `move_dir`):
      listings agree as sets only, so the two runs visit the entries in different orders;
    * `copy_file`/`move_file` through the generic fallback: with a DIRECTORY as source the two
      backends really diverge (memory fails in `open_file`; the host opens the directory, the
      destination is created, then the read fails) — `C02.copy_dir_source_diverges` in
      Props/C02Stack.lean is the kernel-checked witness;
    * `append_file` of an overlay (it copies up with `copy_file`), the time setters
      (`set_creation_time` is unsupported on the physical backend).
-/
import VfsModel.Proofs.SubtreeSim
import VfsModel.Proofs.PhysPath
set_option linter.unusedVariables false
set_option linter.unusedSectionVars false
namespace Vfs.C02

/-! ## A. the class calculus -/

/-- error kinds of a memory run (left) and a physical run (right) are in the same class:
equal, or both "other failures" where the memory side may also say not-found (an entry below
a file: `ENOTDIR` on the host), or the trait-level `create_dir`/`create_file` below a missing
parent (`Other` in memory, `ENOENT` on the host; the `VfsPath` layer never gets there, its
parent probe fails first).  Already-exists (file/directory), invalid-path and not-supported
always match exactly, and a not-found of the host is a not-found or `Other` in memory. -/
def KRel (km kp : ErrKind) : Prop :=
  km = kp ∨ ((kp = .io ∨ kp = .other) ∧ (km = .io ∨ km = .other ∨ km = .fileNotFound))
    ∨ (km = .other ∧ kp = .fileNotFound)

instance : DecidableRel KRel := fun a b => by unfold KRel; exact inferInstance

theorem KRel.soft {km kp : ErrKind} (h1 : km = .fileNotFound ∨ km = .other)
    (h2 : kp = .io ∨ kp = .other ∨ kp = .fileNotFound) : KRel km kp := by
  unfold KRel
  rcases h1 with rfl | rfl <;> rcases h2 with rfl | rfl | rfl <;> simp

/-- what the calculus needs of a relation on error kinds -/
class GoodKR (KR : ErrKind → ErrKind → Prop) : Prop where
  refl : ∀ k, KR k k
  dirExists : ∀ k1 k2, KR k1 k2 → (k1 = .dirExists ↔ k2 = .dirExists)

instance : GoodKR (· = ·) := ⟨fun _ => rfl, fun _ _ h => by rw [h]⟩
instance : GoodKR KRel where
  refl _ := Or.inl rfl
  dirExists k1 k2 h := by
    unfold KRel at h
    rcases h with rfl | ⟨h1 | h1, h2 | h2 | h2⟩ | ⟨h1, h2⟩ <;> simp_all

/-- the named already-exists classes, invalid-path and not-supported match exactly -/
theorem KRel.exact {km kp : ErrKind} (h : KRel km kp) :
    (km = .fileExists ↔ kp = .fileExists) ∧ (km = .dirExists ↔ kp = .dirExists) ∧
    (km = .invalidPath ↔ kp = .invalidPath) ∧ (km = .notSupported ↔ kp = .notSupported) ∧
    (kp = .fileNotFound → km = .fileNotFound ∨ km = .other) := by
  unfold KRel at h
  rcases h with rfl | ⟨h1 | h1, h2 | h2 | h2⟩ | ⟨h1, h2⟩ <;> simp_all

/-- two outcomes are related: ok/ok with `Q`-related values, err/err with `KR`-related kinds
(paths ignored), panic/panic -/
inductive CRes {α β : Type} (KR : ErrKind → ErrKind → Prop) (Q : α → β → Prop) :
    Res α → Res β → Prop
  | ok {a : α} {b : β} : Q a b → CRes KR Q (.ok a) (.ok b)
  | err {k1 k2 : ErrKind} {p1 p2 : Option Str} : KR k1 k2 → CRes KR Q (.err k1 p1) (.err k2 p2)
  | panic : CRes KR Q .panic .panic

/-- simulation: related worlds in, related outcomes and related worlds out -/
def CSim {α β : Type} (R : World → World → Prop) (KR : ErrKind → ErrKind → Prop)
    (Q : α → β → Prop) (m1 : M α) (m2 : M β) : Prop :=
  ∀ w1 w2, R w1 w2 → CRes KR Q (m1 w1).1 (m2 w2).1 ∧ R (m1 w1).2 (m2 w2).2

namespace CRes
variable {α β : Type} {KR : ErrKind → ErrKind → Prop} {Q : α → β → Prop}

theorem mono {Q' : α → β → Prop} {r1 : Res α} {r2 : Res β} (h : CRes KR Q r1 r2)
    (hq : ∀ a b, Q a b → Q' a b) : CRes KR Q' r1 r2 := by
  cases h with
  | ok h => exact .ok (hq _ _ h)
  | err h => exact .err h
  | panic => exact .panic

theorem monoK {KR' : ErrKind → ErrKind → Prop} {r1 : Res α} {r2 : Res β} (h : CRes KR Q r1 r2)
    (hk : ∀ a b, KR a b → KR' a b) : CRes KR' Q r1 r2 := by
  cases h with
  | ok h => exact .ok h
  | err h => exact .err (hk _ _ h)
  | panic => exact .panic

theorem refl [GoodKR KR] {Q : α → α → Prop} (hq : ∀ a, Q a a) (r : Res α) : CRes KR Q r r := by
  cases r with
  | ok a => exact .ok (hq a)
  | err k p => exact .err (GoodKR.refl k)
  | panic => exact .panic

theorem withPath {r1 : Res α} {r2 : Res β} (p q : Str) (h : CRes KR Q r1 r2) :
    CRes KR Q (r1.withPath p) (r2.withPath q) := by
  cases h with
  | ok h => exact .ok h
  | err h => exact .err h
  | panic => exact .panic

theorem isOk_eq {r1 : Res α} {r2 : Res β} (h : CRes KR Q r1 r2) : r1.isOk = r2.isOk := by
  cases h <;> rfl

theorem isPanic_eq {r1 : Res α} {r2 : Res β} (h : CRes KR Q r1 r2) : r1.isPanic = r2.isPanic := by
  cases h <;> rfl

theorem map {γ δ : Type} {Q' : γ → δ → Prop} {r1 : Res α} {r2 : Res β} {f : α → γ} {g : β → δ}
    (h : CRes KR Q r1 r2) (hf : ∀ a b, Q a b → Q' (f a) (g b)) :
    CRes KR Q' (r1.map f) (r2.map g) := by
  cases h with
  | ok h => exact .ok (hf _ _ h)
  | err h => exact .err h
  | panic => exact .panic

end CRes

namespace CSim
variable {α β γ δ : Type} {R : World → World → Prop} {KR : ErrKind → ErrKind → Prop}
  {Q : α → β → Prop}

theorem pure {a : α} {b : β} (h : Q a b) : CSim R KR Q (Pure.pure a : M α) (Pure.pure b : M β) :=
  fun _ _ hr => ⟨.ok h, hr⟩

theorem ret {r1 : Res α} {r2 : Res β} (h : CRes KR Q r1 r2) : CSim R KR Q (M.ret r1) (M.ret r2) :=
  fun _ _ hr => ⟨h, hr⟩

theorem panic : CSim R KR Q (M.ret .panic : M α) (M.ret .panic : M β) := ret .panic

theorem failK [GoodKR KR] (k : ErrKind) : CSim R KR Q (M.failK k : M α) (M.failK k : M β) :=
  fun _ _ hr => ⟨.err (GoodKR.refl k), hr⟩

theorem failAt [GoodKR KR] (k : ErrKind) (p q : Str) :
    CSim R KR Q (M.failAt k p : M α) (M.failAt k q : M β) :=
  fun _ _ hr => ⟨.err (GoodKR.refl k), hr⟩

theorem bind {Q' : γ → δ → Prop} {m1 : M α} {m2 : M β} {f : α → M γ} {g : β → M δ}
    (hm : CSim R KR Q m1 m2) (hf : ∀ a b, Q a b → CSim R KR Q' (f a) (g b)) :
    CSim R KR Q' (m1 >>= f) (m2 >>= g) := by
  intro w1 w2 hr
  show CRes KR Q' (M.bind m1 f w1).1 (M.bind m2 g w2).1 ∧ R (M.bind m1 f w1).2 (M.bind m2 g w2).2
  unfold M.bind
  obtain ⟨h1, h2⟩ := hm w1 w2 hr
  rcases hm1 : m1 w1 with ⟨r1, w1'⟩
  rcases hm2 : m2 w2 with ⟨r2, w2'⟩
  rw [hm1, hm2] at h1 h2
  cases h1 with
  | ok hq => exact hf _ _ hq w1' w2' h2
  | err hp => exact ⟨.err hp, h2⟩
  | panic => exact ⟨.panic, h2⟩

theorem bind_eq {Q' : γ → δ → Prop} {m1 m2 : M α} {f : α → M γ} {g : α → M δ}
    (hm : CSim R KR (· = ·) m1 m2) (hf : ∀ a, CSim R KR Q' (f a) (g a)) :
    CSim R KR Q' (m1 >>= f) (m2 >>= g) :=
  bind hm (fun a b hab => by cases hab; exact hf a)

theorem withPath (p q : Str) {m1 : M α} {m2 : M β} (h : CSim R KR Q m1 m2) :
    CSim R KR Q (M.withPath p m1) (M.withPath q m2) := by
  intro w1 w2 hr
  obtain ⟨h1, h2⟩ := h w1 w2 hr
  unfold M.withPath
  exact ⟨h1.withPath p q, h2⟩

theorem ite {c : Prop} [Decidable c] {a1 b1 : M α} {a2 b2 : M β}
    (ha : c → CSim R KR Q a1 a2) (hb : ¬c → CSim R KR Q b1 b2) :
    CSim R KR Q (if c then a1 else b1) (if c then a2 else b2) := by
  by_cases hc : c
  · rw [if_pos hc, if_pos hc]; exact ha hc
  · rw [if_neg hc, if_neg hc]; exact hb hc

theorem mono {Q' : α → β → Prop} {m1 : M α} {m2 : M β} (h : CSim R KR Q m1 m2)
    (hq : ∀ a b, Q a b → Q' a b) : CSim R KR Q' m1 m2 :=
  fun w1 w2 hr => ⟨(h w1 w2 hr).1.mono hq, (h w1 w2 hr).2⟩

theorem monoK {KR' : ErrKind → ErrKind → Prop} {m1 : M α} {m2 : M β} (h : CSim R KR Q m1 m2)
    (hk : ∀ a b, KR a b → KR' a b) : CSim R KR' Q m1 m2 :=
  fun w1 w2 hr => ⟨(h w1 w2 hr).1.monoK hk, (h w1 w2 hr).2⟩

/-- a strict simulation is a simulation for every good relation on kinds -/
theorem ofEq [GoodKR KR] {m1 : M α} {m2 : M β} (h : CSim R (· = ·) Q m1 m2) : CSim R KR Q m1 m2 :=
  h.monoK (fun a b e => by cases e; exact GoodKR.refl a)

theorem run {m1 : M α} {m2 : M β} (h : CSim R KR Q m1 m2) {w1 w2 : World} (hr : R w1 w2)
    {r1 : Res α} {w1' : World} {r2 : Res β} {w2' : World}
    (h1 : m1 w1 = (r1, w1')) (h2 : m2 w2 = (r2, w2')) : CRes KR Q r1 r2 ∧ R w1' w2' := by
  have := h w1 w2 hr
  rw [h1, h2] at this
  exact this

end CSim

/-! ### computations that differ only in error paths -/

/-- equal outcomes up to the path attached to an error -/
def ResPE {α : Type} (r r' : Res α) : Prop :=
  r = r' ∨ ∃ k p p', r = .err k p ∧ r' = .err k p'

/-- same state transformer, same outcome up to error paths -/
def PathEq {α : Type} (m m' : M α) : Prop := ∀ w, (m w).2 = (m' w).2 ∧ ResPE (m w).1 (m' w).1

theorem CRes.of_resPE {α β : Type} {KR : ErrKind → ErrKind → Prop} {Q : α → β → Prop}
    {r1 r1' : Res α} {r2 r2' : Res β} (h1 : ResPE r1' r1) (h2 : ResPE r2' r2)
    (h : CRes KR Q r1 r2) : CRes KR Q r1' r2' := by
  rcases h1 with rfl | ⟨k, p, p', rfl, rfl⟩ <;> rcases h2 with rfl | ⟨k', q, q', rfl, rfl⟩
  · exact h
  · cases h with | err hk => exact .err hk
  · cases h with | err hk => exact .err hk
  · cases h with | err hk => exact .err hk

namespace PathEq
variable {α β : Type}

theorem refl (m : M α) : PathEq m m := fun _ => ⟨rfl, Or.inl rfl⟩

theorem symm {m m' : M α} (h : PathEq m m') : PathEq m' m := by
  intro w
  obtain ⟨h1, h2⟩ := h w
  refine ⟨h1.symm, ?_⟩
  rcases h2 with h2 | ⟨k, p, p', e1, e2⟩
  · exact Or.inl h2.symm
  · exact Or.inr ⟨k, p', p, e2, e1⟩

theorem withPath (s : Str) (m : M α) : PathEq (M.withPath s m) m := by
  intro w
  unfold M.withPath
  rcases m w with ⟨r, w'⟩
  refine ⟨rfl, ?_⟩
  cases r with
  | ok a => exact Or.inl rfl
  | err k p => exact Or.inr ⟨k, _, _, rfl, rfl⟩
  | panic => exact Or.inl rfl

theorem bind_left {m m' : M α} (h : PathEq m m') (k : α → M β) : PathEq (m >>= k) (m' >>= k) := by
  intro w
  show (M.bind m k w).2 = (M.bind m' k w).2 ∧ ResPE (M.bind m k w).1 (M.bind m' k w).1
  unfold M.bind
  obtain ⟨h1, h2⟩ := h w
  rcases e1 : m w with ⟨r, w'⟩
  rcases e2 : m' w with ⟨r', w''⟩
  rw [e1, e2] at h1 h2
  simp only at h1 h2
  subst h1
  rcases h2 with rfl | ⟨k', p, p', rfl, rfl⟩
  · cases r <;> exact ⟨rfl, Or.inl rfl⟩
  · exact ⟨rfl, Or.inr ⟨k', p, p', rfl, rfl⟩⟩

theorem bind_right (m : M α) {k k' : α → M β} (h : ∀ a, PathEq (k a) (k' a)) :
    PathEq (m >>= k) (m >>= k') := by
  intro w
  show (M.bind m k w).2 = (M.bind m k' w).2 ∧ ResPE (M.bind m k w).1 (M.bind m k' w).1
  unfold M.bind
  rcases e1 : m w with ⟨r, w'⟩
  cases r with
  | ok a => exact h a w'
  | err k p => exact ⟨rfl, Or.inl rfl⟩
  | panic => exact ⟨rfl, Or.inl rfl⟩

/-- the label put on a failing first step does not matter -/
theorem withPath_bind (s : Str) (m : M α) (k : α → M β) : PathEq (M.withPath s m >>= k) (m >>= k) :=
  bind_left (withPath s m) k

end PathEq

/-- simulations do not see error paths -/
theorem CSim.of_pathEq {α β : Type} {R : World → World → Prop} {KR : ErrKind → ErrKind → Prop}
    {Q : α → β → Prop} {m1 m1' : M α} {m2 m2' : M β} (h1 : PathEq m1' m1) (h2 : PathEq m2' m2)
    (h : CSim R KR Q m1 m2) : CSim R KR Q m1' m2' := by
  intro w1 w2 hr
  obtain ⟨a1, a2⟩ := h1 w1
  obtain ⟨b1, b2⟩ := h2 w2
  obtain ⟨c1, c2⟩ := h w1 w2 hr
  rw [a1, b1]
  exact ⟨CRes.of_resPE a2 b2 c1, c2⟩

theorem M.bind_assoc3 {α β γ : Type} (m : M α) (f : α → M β) (g : β → M γ) :
    (m >>= f) >>= g = m >>= fun a => f a >>= g := by
  funext w
  show M.bind (M.bind m f) g w = M.bind m (fun a => M.bind (f a) g) w
  unfold M.bind
  rcases m w with ⟨r, w'⟩
  cases r <;> rfl

theorem M.pure_bind3 {α β : Type} (a : α) (f : α → M β) : (Pure.pure a : M α) >>= f = f a := rfl

theorem M.bind_pure3 {α : Type} (m : M α) : (m >>= fun a => (Pure.pure a : M α)) = m := by
  funext w
  show M.bind m _ w = m w
  unfold M.bind
  rcases e : m w with ⟨r, w'⟩
  cases r <;> rfl


/-! ## B. the session-level interface and the `VfsPath` layer -/

/-- the writes of a session, in order -/
def runScript (h : WHandle) : List Bytes → M WHandle
  | [] => pure h
  | bs :: rest => h.write bs >>= fun r => runScript r.2 rest

/-- the rest of a session: the writes, then drop -/
def finish (h : WHandle) (script : List Bytes) : M Unit := runScript h script >>= fun h' => h'.drop

/-- `create_file`, the writes, drop -/
def createSession (fs : FS) (p : Str) (script : List Bytes) : M Unit :=
  fs.createFile p >>= fun h => finish h script

/-- `append_file`, the writes, drop -/
def appendSession (fs : FS) (p : Str) (script : List Bytes) : M Unit :=
  fs.appendFile p >>= fun h => finish h script

/-- remove `q` if it exists (the overlay clearing a whiteout marker) -/
def clearAt (fs : FS) (q : Str) : M Unit :=
  fs.exists_ q >>= fun ex => if ex = true then fs.removeFile q else pure ()

/-- swallow a `FileNotFound` (the handler of `clear_whiteout` in overlay.rs) -/
def tolerate (m : M Unit) : M Unit := fun w =>
  match m w with
  | (.err .fileNotFound _, w') => (.ok (), w')
  | r => r

/-- remove `q` if it exists; a `FileNotFound` of the removal is not an error (the overlay's
`clear_whiteout` in `create_dir`, fix of O11) -/
def clearAtT (fs : FS) (q : Str) : M Unit :=
  fs.exists_ q >>= fun ex => if ex = true then tolerate (fs.removeFile q) else pure ()

theorem PathEq.tolerate {m m' : M Unit} (h : PathEq m m') : PathEq (tolerate m) (tolerate m') := by
  intro w
  obtain ⟨h1, h2⟩ := h w
  unfold C02.tolerate
  rcases e1 : m w with ⟨r, w'⟩
  rcases e2 : m' w with ⟨r', w''⟩
  rw [e1, e2] at h1 h2
  simp only at h1 h2
  subst h1
  rcases h2 with rfl | ⟨k, p, p', rfl, rfl⟩
  · exact ⟨rfl, Or.inl rfl⟩
  · cases k <;> first | exact ⟨rfl, Or.inl rfl⟩ | exact ⟨rfl, Or.inr ⟨_, p, p', rfl, rfl⟩⟩

/-- the session of `OverlayFS::create_file`: the marker is cleared while the handle is open -/
def createClear (fs : FS) (p q : Str) (script : List Bytes) : M Unit :=
  fs.createFile p >>= fun h => clearAt fs q >>= fun _ => finish h script

/-- `open_file` and read to the end -/
def readAll (fs : FS) (p : Str) : M Bytes := fs.openFile p >>= fun h => M.ret h.readToEnd.1

/-- metadata up to timestamps: the type, and the length of a file -/
def MetaRel (m1 m2 : Meta) : Prop := m1.ftype = m2.ftype ∧ (m1.ftype = .file → m1.len = m2.len)

/-- listings: the same SET of names, all canonical components -/
def NamesSet (l1 l2 : List Str) : Prop := (∀ n, n ∈ l1 ↔ n ∈ l2) ∧ ∀ n ∈ l1, GoodComp n

/-- related filesystems, session level (everything but `append_file` and the overlay's
create-and-clear session) -/
structure SimC (R : World → World → Prop) (fs1 fs2 : FS) : Prop where
  exists_ : ∀ p, Canon p → CSim R (· = ·) (· = ·) (fs1.exists_ p) (fs2.exists_ p)
  metadata : ∀ p, Canon p → CSim R KRel MetaRel (fs1.metadata p) (fs2.metadata p)
  readDir : ∀ p, Canon p → CSim R KRel NamesSet (fs1.readDir p) (fs2.readDir p)
  readAll : ∀ p, Canon p → CSim R KRel (· = ·) (readAll fs1 p) (readAll fs2 p)
  createDir : ∀ p, Canon p → p ≠ [] → CSim R KRel (· = ·) (fs1.createDir p) (fs2.createDir p)
  removeFile : ∀ p, Canon p → CSim R KRel (· = ·) (fs1.removeFile p) (fs2.removeFile p)
  removeDir : ∀ p, Canon p → p ≠ [] → CSim R KRel (· = ·) (fs1.removeDir p) (fs2.removeDir p)
  createOnly : ∀ p, Canon p →
    CSim R KRel (fun _ _ => True) (fs1.createFile p) (fs2.createFile p)
  createSession : ∀ p s, Canon p → CSim R KRel (· = ·) (createSession fs1 p s) (createSession fs2 p s)

/-- … and usable as the write layer of an overlay; with append sessions -/
structure SimW (R : World → World → Prop) (fs1 fs2 : FS) : Prop extends SimC R fs1 fs2 where
  appendSession : ∀ p s, Canon p → CSim R KRel (· = ·) (appendSession fs1 p s) (appendSession fs2 p s)
  createClear : ∀ p q s, Canon p → Canon q →
    CSim R KRel (· = ·) (createClear fs1 p q s) (createClear fs2 p q s)
  clearT : ∀ q, Canon q → CSim R KRel (· = ·) (clearAtT fs1 q) (clearAtT fs2 q)

/-- related paths: related filesystems, EQUAL canonical path strings -/
structure SimVC (R : World → World → Prop) (v1 v2 : VPath) : Prop where
  fs : SimC R v1.fs v2.fs
  path : v2.path = v1.path
  canon : Canon v1.path

structure SimVW (R : World → World → Prop) (v1 v2 : VPath) : Prop where
  fs : SimW R v1.fs v2.fs
  path : v2.path = v1.path
  canon : Canon v1.path

section param
variable {R : World → World → Prop}

theorem SimVW.toC {v1 v2 : VPath} (h : SimVW R v1 v2) : SimVC R v1 v2 := ⟨h.fs.toSimC, h.path, h.canon⟩

theorem SimVC.withStr {v1 v2 : VPath} (h : SimVC R v1 v2) (s : Str) (hs : Canon s) :
    SimVC R (v1.withStr s) (v2.withStr s) := ⟨h.fs, rfl, hs⟩

theorem SimVW.withStr {v1 v2 : VPath} (h : SimVW R v1 v2) (s : Str) (hs : Canon s) :
    SimVW R (v1.withStr s) (v2.withStr s) := ⟨h.fs, rfl, hs⟩

theorem SimVC.parent {v1 v2 : VPath} (h : SimVC R v1 v2) : SimVC R v1.parent v2.parent := by
  unfold VPath.parent
  rw [h.path]
  exact h.withStr _ (C06.parent_canonical _ h.canon)

theorem SimVC.join {v1 v2 : VPath} (h : SimVC R v1 v2) (arg : Str) :
    CRes (· = ·) (SimVC R) (v1.join arg) (v2.join arg) := by
  unfold VPath.join
  rw [h.path]
  cases hj : joinInternal v1.path arg with
  | ok r => exact .ok (h.withStr r (C06.join_canonical _ _ _ h.canon hj))
  | err k p => exact .err rfl
  | panic => exact .panic

theorem SimVW.join {v1 v2 : VPath} (h : SimVW R v1 v2) (arg : Str) :
    CRes (· = ·) (SimVW R) (v1.join arg) (v2.join arg) := by
  unfold VPath.join
  rw [h.path]
  cases hj : joinInternal v1.path arg with
  | ok r => exact .ok (h.withStr r (C06.join_canonical _ _ _ h.canon hj))
  | err k p => exact .err rfl
  | panic => exact .panic

namespace VPath

theorem sim_exists {v1 v2 : VPath} (h : SimVC R v1 v2) :
    CSim R (· = ·) (· = ·) v1.exists_ v2.exists_ := by
  unfold VPath.exists_; rw [h.path]; exact h.fs.exists_ _ h.canon

theorem sim_metadata {v1 v2 : VPath} (h : SimVC R v1 v2) :
    CSim R KRel MetaRel v1.metadata v2.metadata := by
  unfold VPath.metadata; rw [h.path]; exact CSim.withPath _ _ (h.fs.metadata _ h.canon)

theorem sim_isFile {v1 v2 : VPath} (h : SimVC R v1 v2) : CSim R KRel (· = ·) v1.isFile v2.isFile := by
  unfold VPath.isFile
  refine CSim.bind_eq (sim_exists h).ofEq fun c => ?_
  refine CSim.ite (fun _ => CSim.pure rfl) (fun _ => ?_)
  refine CSim.bind (sim_metadata h) fun m1 m2 hm => CSim.pure ?_
  rw [hm.1]

theorem sim_isDir {v1 v2 : VPath} (h : SimVC R v1 v2) : CSim R KRel (· = ·) v1.isDir v2.isDir := by
  unfold VPath.isDir
  refine CSim.bind_eq (sim_exists h).ofEq fun c => ?_
  refine CSim.ite (fun _ => CSim.pure rfl) (fun _ => ?_)
  refine CSim.bind (sim_metadata h) fun m1 m2 hm => CSim.pure ?_
  rw [hm.1]

theorem sim_getParent {v1 v2 : VPath} (h : SimVC R v1 v2) :
    CSim R KRel (· = ·) v1.getParent v2.getParent := by
  unfold VPath.getParent
  dsimp only
  refine CSim.bind_eq (sim_exists h.parent).ofEq fun c => ?_
  refine CSim.ite (fun _ => CSim.failAt _ _ _) (fun _ => ?_)
  refine CSim.bind (sim_metadata h.parent) fun m1 m2 hm => ?_
  rw [hm.1]
  exact CSim.ite (fun _ => CSim.failAt _ _ _) (fun _ => CSim.pure rfl)

theorem sim_createDir {v1 v2 : VPath} (h : SimVC R v1 v2) (hne : v1.path ≠ []) :
    CSim R KRel (· = ·) v1.createDir v2.createDir := by
  unfold VPath.createDir
  refine CSim.bind_eq (sim_getParent h) fun _ => ?_
  rw [h.path]
  exact CSim.withPath _ _ (h.fs.createDir _ h.canon hne)

theorem sim_removeFile {v1 v2 : VPath} (h : SimVC R v1 v2) :
    CSim R KRel (· = ·) v1.removeFile v2.removeFile := by
  unfold VPath.removeFile; rw [h.path]; exact CSim.withPath _ _ (h.fs.removeFile _ h.canon)

theorem sim_removeDir {v1 v2 : VPath} (h : SimVC R v1 v2) (hne : v1.path ≠ []) :
    CSim R KRel (· = ·) v1.removeDir v2.removeDir := by
  unfold VPath.removeDir; rw [h.path]; exact CSim.withPath _ _ (h.fs.removeDir _ h.canon hne)

theorem sim_createDirAllLoop {v1 v2 : VPath} (h : SimVC R v1 v2) (l : List Str)
    (hl : ∀ d ∈ l, Canon d ∧ d ≠ []) :
    CSim R KRel (· = ·) (VPath.createDirAllLoop v1 l) (VPath.createDirAllLoop v2 l) := by
  induction l with
  | nil => unfold VPath.createDirAllLoop; exact CSim.pure rfl
  | cons d rest ih =>
    have ih' := ih (fun x hx => hl x (by simp [hx]))
    intro w1 w2 hr
    unfold VPath.createDirAllLoop
    have hd := h.fs.createDir d (hl d (by simp)).1 (hl d (by simp)).2
    rcases e1 : v1.fs.createDir d w1 with ⟨r1, w1'⟩
    rcases e2 : v2.fs.createDir d w2 with ⟨r2, w2'⟩
    obtain ⟨hres, hr'⟩ := hd.run hr e1 e2
    cases hres with
    | ok _ => exact ih' w1' w2' hr'
    | panic => exact ⟨.panic, hr'⟩
    | @err k1 k2 p1 p2 hk =>
      have hiff := (KRel.exact hk).2.1
      cases k1 <;> cases k2 <;> simp at hiff <;>
        first | exact ih' w1' w2' hr' | exact ⟨.err hk, hr'⟩

theorem sim_createDirAll {v1 v2 : VPath} (h : SimVC R v1 v2) :
    CSim R KRel (· = ·) v1.createDirAll v2.createDirAll := by
  unfold VPath.createDirAll
  rw [h.path]
  exact CSim.ite (fun _ => CSim.pure rfl)
    (fun _ => sim_createDirAllLoop h _ (fun d hd => Vfs.VPath.dirPrefixes_canon h.canon hd))

/-- the names of the children of a directory, as `AltrootFS` and `OverlayFS` compute them from
`VfsPath::read_dir` -/
def readNames (v : VPath) : M (List Str) :=
  v.readDir >>= fun l => pure (l.map fun c => filenameInternal c.path)

theorem map_filename_children (p : Str) (names : List Str) (hg : ∀ n ∈ names, '/' ∉ n) (v : VPath) :
    (names.map fun n => v.withStr (p ++ '/' :: n)).map (fun c => filenameInternal c.path) = names := by
  induction names with
  | nil => rfl
  | cons n rest ih =>
    simp only [List.map_cons]
    rw [ih (fun x hx => hg x (by simp [hx]))]
    show filenameInternal (p ++ '/' :: n) :: rest = n :: rest
    rw [Vfs.filename_child _ _ (hg n (by simp))]

theorem sim_readNames {v1 v2 : VPath} (h : SimVC R v1 v2) :
    CSim R KRel NamesSet (readNames v1) (readNames v2) := by
  unfold readNames VPath.readDir
  rw [h.path]
  rw [M.bind_assoc3, M.bind_assoc3]
  refine CSim.bind (CSim.withPath _ _ (h.fs.readDir _ h.canon)) fun n1 n2 hn => ?_
  rw [M.pure_bind3, M.pure_bind3]
  apply CSim.pure
  have h2 : ∀ n ∈ n2, GoodComp n := fun n hn' => hn.2 n ((hn.1 n).2 hn')
  rw [map_filename_children _ n1 (fun n hn' => (hn.2 n hn').noSlash),
    map_filename_children _ n2 (fun n hn' => (h2 n hn').noSlash)]
  exact hn

/-- listings of paths: the same SET of path strings, each pair related -/
def PathsSet (R : World → World → Prop) (l1 l2 : List VPath) : Prop :=
  (∀ a ∈ l1, ∃ b ∈ l2, SimVC R a b) ∧ (∀ b ∈ l2, ∃ a ∈ l1, SimVC R a b)

theorem sim_readDir {v1 v2 : VPath} (h : SimVC R v1 v2) :
    CSim R KRel (PathsSet R) v1.readDir v2.readDir := by
  unfold VPath.readDir
  rw [h.path]
  refine CSim.bind (CSim.withPath _ _ (h.fs.readDir _ h.canon)) fun n1 n2 hn => ?_
  apply CSim.pure
  constructor
  · intro a ha
    obtain ⟨n, hn1, rfl⟩ := List.mem_map.1 ha
    exact ⟨_, List.mem_map.2 ⟨n, (hn.1 n).1 hn1, rfl⟩,
      h.withStr _ (Vfs.canon_child h.canon (hn.2 n hn1))⟩
  · intro b hb
    obtain ⟨n, hn2, rfl⟩ := List.mem_map.1 hb
    have hn1 := (hn.1 n).2 hn2
    exact ⟨_, List.mem_map.2 ⟨n, hn1, rfl⟩, h.withStr _ (Vfs.canon_child h.canon (hn.2 n hn1))⟩

/-- `open_file` and read to the end -/
def readAll (v : VPath) : M Bytes := v.openFile >>= fun h => M.ret h.readToEnd.1

theorem sim_readAll {v1 v2 : VPath} (h : SimVC R v1 v2) :
    CSim R KRel (· = ·) (readAll v1) (readAll v2) := by
  unfold readAll VPath.openFile
  rw [h.path]
  exact CSim.of_pathEq (PathEq.withPath_bind _ _ _) (PathEq.withPath_bind _ _ _)
    (h.fs.readAll _ h.canon)

/-- `create_file` (the handle is not used) -/
theorem sim_createOnly {v1 v2 : VPath} (h : SimVC R v1 v2) :
    CSim R KRel (fun _ _ => True) v1.createFile v2.createFile := by
  unfold VPath.createFile
  refine CSim.bind_eq (sim_getParent h) fun _ => ?_
  rw [h.path]
  exact CSim.withPath _ _ (h.fs.createOnly _ h.canon)

/-- one write session through the `VfsPath` layer -/
def createSession (v : VPath) (script : List Bytes) : M Unit :=
  v.createFile >>= fun h => finish h script

def appendSession (v : VPath) (script : List Bytes) : M Unit :=
  v.appendFile >>= fun h => finish h script

theorem createSession_pathEq (v : VPath) (s : List Bytes) :
    PathEq (createSession v s) (v.getParent >>= fun _ => C02.createSession v.fs v.path s) := by
  unfold createSession VPath.createFile C02.createSession
  rw [M.bind_assoc3]
  exact PathEq.bind_right _ fun _ => PathEq.withPath_bind _ _ _

theorem sim_createSession {v1 v2 : VPath} (h : SimVC R v1 v2) (s : List Bytes) :
    CSim R KRel (· = ·) (createSession v1 s) (createSession v2 s) := by
  refine CSim.of_pathEq (createSession_pathEq v1 s) (createSession_pathEq v2 s) ?_
  refine CSim.bind_eq (sim_getParent h) fun _ => ?_
  rw [h.path]
  exact h.fs.createSession _ s h.canon

theorem sim_appendSession {v1 v2 : VPath} (h : SimVW R v1 v2) (s : List Bytes) :
    CSim R KRel (· = ·) (appendSession v1 s) (appendSession v2 s) := by
  unfold appendSession VPath.appendFile
  rw [h.path]
  exact CSim.of_pathEq (PathEq.withPath_bind _ _ _) (PathEq.withPath_bind _ _ _)
    (h.fs.appendSession _ s h.canon)

end VPath
end param


theorem PathEq.trans {α : Type} {a b c : M α} (h1 : PathEq a b) (h2 : PathEq b c) : PathEq a c := by
  intro w
  obtain ⟨x1, x2⟩ := h1 w
  obtain ⟨y1, y2⟩ := h2 w
  refine ⟨x1.trans y1, ?_⟩
  rcases x2 with x2 | ⟨k, p, p', e1, e2⟩
  · rw [x2]; exact y2
  · rcases y2 with y2 | ⟨k', q, q', f1, f2⟩
    · exact Or.inr ⟨k, p, p', e1, by rw [← y2]; exact e2⟩
    · rw [e2] at f1
      cases f1
      exact Or.inr ⟨k, p, q', e1, f2⟩

section param2
variable {R : World → World → Prop}
namespace VPath

/-- remove the path if it exists -/
def clearV (v : VPath) : M Unit :=
  v.exists_ >>= fun ex => if ex = true then v.removeFile else pure ()

theorem clearV_pathEq (v : VPath) : PathEq (clearV v) (clearAt v.fs v.path) := by
  unfold clearV clearAt VPath.exists_
  refine PathEq.bind_right _ fun ex => ?_
  by_cases h : ex = true
  · rw [if_pos h, if_pos h]; exact PathEq.withPath _ _
  · rw [if_neg h, if_neg h]; exact PathEq.refl _

theorem sim_clearV {v1 v2 : VPath} (h : SimVC R v1 v2) : CSim R KRel (· = ·) (clearV v1) (clearV v2) := by
  unfold clearV
  refine CSim.bind_eq (sim_exists h).ofEq fun ex => ?_
  exact CSim.ite (fun _ => sim_removeFile h) (fun _ => CSim.pure rfl)

/-- remove the path if it exists, tolerating a `FileNotFound` of the removal -/
def clearVT (v : VPath) : M Unit :=
  v.exists_ >>= fun ex => if ex = true then tolerate v.removeFile else pure ()

theorem clearVT_pathEq (v : VPath) : PathEq (clearVT v) (clearAtT v.fs v.path) := by
  unfold clearVT clearAtT VPath.exists_ VPath.removeFile
  refine PathEq.bind_right _ fun ex => ?_
  by_cases h : ex = true
  · rw [if_pos h, if_pos h]; exact PathEq.tolerate (PathEq.withPath _ _)
  · rw [if_neg h, if_neg h]; exact PathEq.refl _

theorem sim_clearVT {v1 v2 : VPath} (h : SimVW R v1 v2) :
    CSim R KRel (· = ·) (clearVT v1) (clearVT v2) := by
  refine CSim.of_pathEq (clearVT_pathEq v1) (clearVT_pathEq v2) ?_
  rw [h.path]
  exact h.fs.clearT _ h.canon

/-- the overlay's session on its write layer: create at `vp`, clear `vq`, write, drop -/
def createClear (vp vq : VPath) (script : List Bytes) : M Unit :=
  vp.createFile >>= fun h => clearV vq >>= fun _ => finish h script

theorem createClear_pathEq (vp vq : VPath) (hfs : vq.fs = vp.fs) (s : List Bytes) :
    PathEq (createClear vp vq s)
      (vp.getParent >>= fun _ => C02.createClear vp.fs vp.path vq.path s) := by
  unfold createClear VPath.createFile C02.createClear
  rw [M.bind_assoc3]
  refine PathEq.bind_right _ fun _ => ?_
  refine PathEq.trans (PathEq.withPath_bind _ _ _) ?_
  refine PathEq.bind_right _ fun h => ?_
  rw [← hfs]
  exact PathEq.bind_left (clearV_pathEq vq) _

theorem sim_createClear {p1 p2 q1 q2 : VPath} (hp : SimVW R p1 p2) (hq : q2.path = q1.path)
    (hqc : Canon q1.path) (hfs1 : q1.fs = p1.fs) (hfs2 : q2.fs = p2.fs) (s : List Bytes) :
    CSim R KRel (· = ·) (createClear p1 q1 s) (createClear p2 q2 s) := by
  refine CSim.of_pathEq (createClear_pathEq p1 q1 hfs1 s) (createClear_pathEq p2 q2 hfs2 s) ?_
  refine CSim.bind_eq (sim_getParent hp.toC) fun _ => ?_
  rw [hp.path, hq]
  exact hp.fs.createClear _ _ s hp.canon hqc

end VPath

/-! ## C. AltrootFS -/
namespace Altroot
open Vfs.Altroot

variable {root1 root2 : VPath}

theorem fs_method {α : Type} (root : VPath) (p : Str) (hroot : Canon root.path) (hp : Canon p)
    (f : VPath → M α) : (M.ret (path root p) >>= f) = f (root.withStr (root.path ++ p)) :=
  Vfs.Altroot.run_method root p hroot hp f

theorem fs_exists (root : VPath) (p : Str) (hroot : Canon root.path) (hp : Canon p) :
    (fs root).exists_ p = (root.withStr (root.path ++ p)).exists_ := by
  simp only [fs, path_canon root p hroot hp]

/-- the altroot adapter is parametric (session level) -/
theorem simC (hroot : SimVC R root1 root2) : SimC R (fs root1) (fs root2) := by
  have hc1 : Canon root1.path := hroot.canon
  have hc2 : Canon root2.path := by rw [hroot.path]; exact hroot.canon
  have hsub : ∀ p, Canon p → SimVC R (root1.withStr (root1.path ++ p))
      (root2.withStr (root2.path ++ p)) := by
    intro p hp; rw [hroot.path]; exact hroot.withStr _ (Vfs.canon_append hroot.canon hp)
  have hnr : ∀ p : Str, p ≠ [] → (root1.withStr (root1.path ++ p)).path ≠ [] := by
    intro p hp h
    exact hp (List.append_eq_nil_iff.1 h).2
  refine { exists_ := ?_, metadata := ?_, readDir := ?_, readAll := ?_, createDir := ?_,
           removeFile := ?_, removeDir := ?_, createOnly := ?_, createSession := ?_ }
  · intro p hp
    rw [fs_exists root1 p hc1 hp, fs_exists root2 p hc2 hp]
    exact VPath.sim_exists (hsub p hp)
  · intro p hp
    show CSim R _ _ (M.ret (path root1 p) >>= _) (M.ret (path root2 p) >>= _)
    rw [fs_method root1 p hc1 hp, fs_method root2 p hc2 hp]
    exact VPath.sim_metadata (hsub p hp)
  · intro p hp
    show CSim R _ _ (M.ret (path root1 p) >>= _) (M.ret (path root2 p) >>= _)
    rw [fs_method root1 p hc1 hp, fs_method root2 p hc2 hp]
    exact VPath.sim_readNames (hsub p hp)
  · intro p hp
    show CSim R _ _ ((M.ret (path root1 p) >>= _) >>= _) ((M.ret (path root2 p) >>= _) >>= _)
    rw [fs_method root1 p hc1 hp, fs_method root2 p hc2 hp]
    exact VPath.sim_readAll (hsub p hp)
  · intro p hp hne
    show CSim R _ _ (M.ret (path root1 p) >>= _) (M.ret (path root2 p) >>= _)
    rw [fs_method root1 p hc1 hp, fs_method root2 p hc2 hp]
    exact VPath.sim_createDir (hsub p hp) (hnr p hne)
  · intro p hp
    show CSim R _ _ (M.ret (path root1 p) >>= _) (M.ret (path root2 p) >>= _)
    rw [fs_method root1 p hc1 hp, fs_method root2 p hc2 hp]
    exact VPath.sim_removeFile (hsub p hp)
  · intro p hp hne
    show CSim R _ _ (M.ret (path root1 p) >>= _) (M.ret (path root2 p) >>= _)
    rw [fs_method root1 p hc1 hp, fs_method root2 p hc2 hp]
    exact VPath.sim_removeDir (hsub p hp) (hnr p hne)
  · intro p hp
    show CSim R _ _ (M.ret (path root1 p) >>= _) (M.ret (path root2 p) >>= _)
    rw [fs_method root1 p hc1 hp, fs_method root2 p hc2 hp]
    exact VPath.sim_createOnly (hsub p hp)
  · intro p s hp
    show CSim R _ _ ((M.ret (path root1 p) >>= _) >>= _) ((M.ret (path root2 p) >>= _) >>= _)
    rw [fs_method root1 p hc1 hp, fs_method root2 p hc2 hp]
    exact VPath.sim_createSession (hsub p hp) s

theorem clearAt_fs (root : VPath) (q : Str) (hroot : Canon root.path) (hq : Canon q) :
    clearAt (fs root) q = VPath.clearV (root.withStr (root.path ++ q)) := by
  unfold clearAt VPath.clearV
  rw [fs_exists root q hroot hq]
  congr 1
  funext ex
  congr 1
  exact fs_method root q hroot hq _

theorem clearAtT_fs (root : VPath) (q : Str) (hroot : Canon root.path) (hq : Canon q) :
    clearAtT (fs root) q = VPath.clearVT (root.withStr (root.path ++ q)) := by
  unfold clearAtT VPath.clearVT
  rw [fs_exists root q hroot hq]
  congr 1
  funext ex
  congr 2
  exact fs_method root q hroot hq _

/-- … also as a write layer -/
theorem simW (hroot : SimVW R root1 root2) : SimW R (fs root1) (fs root2) := by
  have hc1 : Canon root1.path := hroot.canon
  have hc2 : Canon root2.path := by rw [hroot.path]; exact hroot.canon
  have hsub : ∀ p, Canon p → SimVW R (root1.withStr (root1.path ++ p))
      (root2.withStr (root2.path ++ p)) := by
    intro p hp; rw [hroot.path]; exact hroot.withStr _ (Vfs.canon_append hroot.canon hp)
  refine { toSimC := simC hroot.toC, appendSession := ?_, createClear := ?_, clearT := ?_ }
  · intro p s hp
    show CSim R _ _ ((M.ret (path root1 p) >>= _) >>= _) ((M.ret (path root2 p) >>= _) >>= _)
    rw [fs_method root1 p hc1 hp, fs_method root2 p hc2 hp]
    exact VPath.sim_appendSession (hsub p hp) s
  · intro p q s hp hq
    unfold createClear
    rw [clearAt_fs root1 q hc1 hq, clearAt_fs root2 q hc2 hq]
    show CSim R _ _ ((M.ret (path root1 p) >>= _) >>= _) ((M.ret (path root2 p) >>= _) >>= _)
    rw [fs_method root1 p hc1 hp, fs_method root2 p hc2 hp]
    refine VPath.sim_createClear (q1 := root1.withStr (root1.path ++ q))
      (q2 := root2.withStr (root2.path ++ q)) (hsub p hp) ?_ (Vfs.canon_append hc1 hq) rfl rfl s
    show root2.path ++ q = root1.path ++ q
    rw [hroot.path]
  · intro q hq
    rw [clearAtT_fs root1 q hc1 hq, clearAtT_fs root2 q hc2 hq]
    exact VPath.sim_clearVT (hsub q hq)

end Altroot
end param2


/-! ### sanity: the relations are not trivial -/
example : ¬ KRel .fileExists .dirExists := by decide
example : ¬ KRel .other .notSupported := by decide
example : ¬ KRel .fileNotFound .fileExists := by decide
example : KRel .other .io := by decide
example : KRel .fileNotFound .io := by decide
example : ¬ CSim (· = ·) KRel (· = ·) (M.failK .fileExists : M Unit) (M.failK .dirExists : M Unit) := by
  intro h
  have := (h default default rfl).1
  cases this with
  | err hk => exact absurd hk (by decide)
example : ¬ CSim (· = ·) KRel (· = ·) (pure () : M Unit) (M.failK .other : M Unit) := by
  intro h
  have := (h default default rfl).1
  cases this

end Vfs.C02
