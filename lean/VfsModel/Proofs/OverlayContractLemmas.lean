/-
  Helper lemmas for Props/C09Contract.lean (the overlay obeys the operation contract relative to
  its n-layer union view).

  * names: `NoWo` (a component that does not end in "_wo"), `firstComp`, `NR` (an absolute path
    string whose first component is not ".whiteout": the non-reserved namespace), `OpPath`
    (the discipline for the path of an operation);
  * the view as a function `oview all : Str → Option Entry` (the root included), the comparison
    `vcore` (type, and the bytes of a file), the view-level predicates;
  * the hidden-state invariant `OInv mu ms` of the upper map and the well-formedness `ViewWF` of
    the view;
  * the three building blocks every overlay mutator is made of, as map-level lemmas that give the
    new view AND re-establish `OInv`:
      `ensure_spec`  (ensure_has_parent: fails and changes nothing / fills in the ancestors),
      `insert_spec`  (an entry is put at `p`, the marker of `p` is gone),
      `remove_spec`  (`p` is taken out of the upper map, its marker is written);
    and `lower_stamp` (a lower layer gets an access stamp);
  * unconditional facts about the pure functions `pCreateDirN`, `pCreateFileN`, `pRemoveFileN`,
    `pRemoveDirN`: they keep `WF` (`wf_*`).
  Hypotheses of the building blocks: `OInv mu ms`, `OpPath (ds ++ [n])` (and `ViewWF` for
  `ensure_ok`). Nothing here speaks about worlds; the run lemmas are those of
  OverlayNLemmas / OverlayNRemoveLemmas / C04Overlay. NOT proved here: anything about paths inside
  ".whiteout" or with components ending in "_wo" as OPERATED paths (they may exist in the maps).
-/
import VfsModel.Props.C10N
import VfsModel.Props.C04Overlay
import VfsModel.Props.C01Full
set_option linter.unusedSimpArgs false
set_option linter.unusedVariables false
namespace Vfs.C09
open Vfs Vfs.Overlay Vfs.C02 Vfs.C01

/-! ### names -/

/-- the component does not end in "_wo" -/
def NoWo (c : Str) : Prop := ¬ woSuffix <:+ c

instance (c : Str) : Decidable (NoWo c) := by unfold NoWo; exact inferInstance

/-- the first component of an absolute path string -/
def firstComp (q : Str) : Str := (q.drop 1).takeWhile (fun c => c != '/')

/-- non-reserved: an absolute path string whose first component is not ".whiteout" -/
def NR (q : Str) : Prop := q.head? = some '/' ∧ firstComp q ≠ woDir

instance (q : Str) : Decidable (NR q) := by unfold NR; exact inferInstance

theorem takeWhile_noSlash (c rest : Str) (hc : '/' ∉ c) (hr : rest = [] ∨ rest.head? = some '/') :
    (c ++ rest).takeWhile (fun x => x != '/') = c := by
  induction c with
  | nil =>
    rcases hr with rfl | hr
    · rfl
    · cases rest with
      | nil => rfl
      | cons a r => simp at hr; subst hr; simp
  | cons a c ih =>
    simp only [List.mem_cons, not_or] at hc
    have ha : (a != '/') = true := by simp; exact fun h => hc.1 h.symm
    simp only [List.cons_append, List.takeWhile_cons, ha, if_true, ih hc.2]

theorem firstComp_cons (c rest : Str) (hc : '/' ∉ c) (hr : rest = [] ∨ rest.head? = some '/') :
    firstComp ('/' :: (c ++ rest)) = c := by
  unfold firstComp
  simp only [List.drop_succ_cons, List.drop_zero]
  exact takeWhile_noSlash c rest hc hr

theorem renderC_nil_or_head (cs : List Str) : renderC cs = [] ∨ (renderC cs).head? = some '/' := by
  cases cs <;> simp

theorem firstComp_renderC (c : Str) (cs : List Str) (hc : '/' ∉ c) :
    firstComp (renderC (c :: cs)) = c := by
  rw [renderC_cons]
  exact firstComp_cons c _ hc (renderC_nil_or_head cs)

theorem firstComp_marker (p : Str) (hp : p.head? = some '/') : firstComp (marker p) = woDir := by
  unfold marker
  rw [List.append_assoc]
  apply firstComp_cons woDir _ (by decide)
  right
  cases p with
  | nil => simp at hp
  | cons a p => simpa using hp

theorem firstComp_woChain {ds : List Str} (hds : ∀ c ∈ ds, '/' ∉ c) {k : Str}
    (hk : k ∈ chain [] (woDir :: ds)) : firstComp k = woDir := by
  obtain ⟨j, h1, h2, rfl⟩ := (mem_chain [] (woDir :: ds) k).1 hk
  obtain ⟨i, rfl⟩ : ∃ i, j = i + 1 := ⟨j - 1, by omega⟩
  simp only [List.nil_append, List.take_succ_cons]
  exact firstComp_renderC woDir _ (by decide)

theorem NR_renderC {cs : List Str} (hne : cs ≠ []) (hcs : ∀ c ∈ cs, '/' ∉ c)
    (hhead : cs.head? ≠ some woDir) : NR (renderC cs) := by
  cases cs with
  | nil => exact absurd rfl hne
  | cons c cs =>
    refine ⟨by simp, ?_⟩
    rw [firstComp_renderC c cs (hcs c (by simp))]
    intro h; apply hhead; simp [h]

theorem NR_child {cs : List Str} (hne : cs ≠ []) (hcs : ∀ c ∈ cs, '/' ∉ c)
    (hhead : cs.head? ≠ some woDir) (y : Str) : NR (renderC cs ++ '/' :: y) := by
  cases cs with
  | nil => exact absurd rfl hne
  | cons c cs =>
    refine ⟨by simp, ?_⟩
    have hrw : renderC (c :: cs) ++ '/' :: y = '/' :: (c ++ (renderC cs ++ '/' :: y)) := by
      simp [List.append_assoc]
    rw [hrw, firstComp_cons c _ (hcs c (by simp)) (by
      right
      cases cs with
      | nil => simp
      | cons d ds => simp)]
    intro h; apply hhead; simp [h]

theorem NR.ne_marker {q p : Str} (hq : NR q) (hp : p.head? = some '/') : q ≠ marker p := by
  intro h; apply hq.2; rw [h]; exact firstComp_marker p hp

theorem NR.not_woChain {q : Str} (hq : NR q) {ds : List Str} (hds : ∀ c ∈ ds, '/' ∉ c) :
    q ∉ chain [] (woDir :: ds) := fun hk => hq.2 (firstComp_woChain hds hk)

theorem NR.ne_nil {q : Str} (hq : NR q) : q ≠ [] := by
  intro h; rw [h] at hq; have := hq.1; simp at this

/-- the marker of an absolute path is never one of the directories "/.whiteout/<ds>" when no
component of `ds` ends in "_wo" -/
theorem marker_not_woChain {ds : List Str} (hds : ∀ c ∈ ds, GoodComp c) (hnw : ∀ c ∈ ds, NoWo c)
    (q : Str) : marker q ∉ chain [] (woDir :: ds) := by
  intro hk
  obtain ⟨j, h1, h2, he⟩ := (mem_chain [] (woDir :: ds) _).1 hk
  obtain ⟨i, rfl⟩ : ∃ i, j = i + 1 := ⟨j - 1, by omega⟩
  simp only [List.nil_append, List.take_succ_cons, renderC_cons, marker, List.cons_append,
    List.cons.injEq, true_and, List.append_assoc] at he
  have he' : q ++ woSuffix = renderC (ds.take i) := List.append_cancel_left he
  rcases List.eq_nil_or_concat (ds.take i) with hnil | ⟨ys, y, hy⟩
  · rw [hnil] at he'
    have := congrArg List.length he'
    simp [woSuffix] at this
  · rw [List.concat_eq_append] at hy
    have hyin : y ∈ ds := List.mem_of_mem_take (by rw [hy]; simp)
    rw [hy, renderC_snoc] at he'
    have hs1 : woSuffix <:+ (renderC ys ++ '/' :: y) := ⟨q, he'⟩
    have hs2 : ('/' :: y) <:+ (renderC ys ++ '/' :: y) := ⟨renderC ys, rfl⟩
    rcases List.suffix_or_suffix_of_suffix hs1 hs2 with h | h
    · rcases List.suffix_cons_iff.1 h with h | h
      · have := congrArg List.head? h
        simp [woSuffix] at this
      · exact hnw y hyin h
    · have : '/' ∈ woSuffix := h.subset (by simp)
      revert this; decide

/-! ### the view as a function, and what is compared -/

abbrev View := Str → Option Entry

/-- the view of the overlay, the root included (= `dirEntryN`) -/
def oview (all : List FMap) : View := dirEntryN all

theorem oview_root (mu : FMap) (ms : List FMap) : oview (mu :: ms) [] = mu.find? [] := by
  simp [oview, dirEntryN]

theorem oview_ne {all : List FMap} {q : Str} (hq : q ≠ []) : oview all q = viewN all q := by
  simp [oview, dirEntryN, hq]

theorem oview_NR {all : List FMap} {q : Str} (hq : NR q) : oview all q = viewN all q :=
  oview_ne hq.ne_nil

/-- what is compared: the type, and the bytes of a file (`core` of PhysPath.lean after
`dirBlind`) -/
def vcore (e : Entry) : FType × Bytes := core (dirBlind e)

theorem vcore_file {e : Entry} (h : e.ftype = .file) : vcore e = (.file, e.content) := by
  unfold vcore; rw [dirBlind_file e h]; simp [core, h]

theorem vcore_dir {e : Entry} (h : e.ftype = .dir) : vcore e = (.dir, []) := by
  unfold vcore dirBlind; rw [if_pos h]; rfl

theorem vcore_fst (e : Entry) : (vcore e).1 = e.ftype := by
  unfold vcore core; exact dirBlind_ftype e

theorem vcore_of_dirBlind {a b : Option Entry} (h : a.map dirBlind = b.map dirBlind) :
    a.map vcore = b.map vcore := by
  cases a <;> cases b <;> simp at h ⊢
  unfold vcore; rw [h]

theorem vcore_of_stripAcc {a b : Option Entry} (h : a.map stripAcc = b.map stripAcc) :
    a.map vcore = b.map vcore := by
  cases a <;> cases b <;> simp at h ⊢
  rename_i x y
  have h1 : x.ftype = y.ftype :=
    show (stripAcc x).ftype = (stripAcc y).ftype from congrArg Entry.ftype h
  have h2 : x.content = y.content :=
    show (stripAcc x).content = (stripAcc y).content from congrArg Entry.content h
  unfold vcore dirBlind core
  rw [h1]; split <;> simp [h1, h2]

/-- the paths the contract speaks about: the root and the non-reserved absolute paths -/
def Vis (q : Str) : Prop := q = [] ∨ NR q

def VIsDir (v : View) (p : Str) : Prop := ∃ e, v p = some e ∧ e.ftype = .dir
def VIsFile (v : View) (p : Str) : Prop := ∃ e, v p = some e ∧ e.ftype = .file
def VAbsent (v : View) (p : Str) : Prop := v p = none
def VHasFile (v : View) (p : Str) (bs : Bytes) : Prop :=
  ∃ e, v p = some e ∧ e.ftype = .file ∧ e.content = bs
/-- no bare name below `p` is present -/
def VNoChildren (v : View) (p : Str) : Prop := ∀ n, '/' ∉ n → v (p ++ '/' :: n) = none

/-- every visible path other than `p` has the same `vcore` as before -/
def VFrame (v v' : View) (p : Str) : Prop :=
  ∀ q, Vis q → q ≠ p → (v' q).map vcore = (v q).map vcore

/-- every visible path has the same `vcore` as before -/
def VSame (v v' : View) : Prop := ∀ q, Vis q → (v' q).map vcore = (v q).map vcore

theorem VSame.refl (v : View) : VSame v v := fun _ _ => rfl

theorem VSame.trans {a b c : View} (h1 : VSame a b) (h2 : VSame b c) : VSame a c :=
  fun q hq => (h2 q hq).trans (h1 q hq)

theorem VSame.frame {a b : View} (h : VSame a b) (p : Str) : VFrame a b p := fun q hq _ => h q hq

theorem VFrame.trans_same {a b c : View} {p : Str} (h1 : VSame a b) (h2 : VFrame b c p) :
    VFrame a c p := fun q hq hne => (h2 q hq hne).trans (h1 q hq)

theorem VFrame.same_trans {a b c : View} {p : Str} (h1 : VFrame a b p) (h2 : VSame b c) :
    VFrame a c p := fun q hq hne => (h2 q hq).trans (h1 q hq hne)

theorem isDir_of_vcore {v v' : View} {q : Str} (h : (v' q).map vcore = (v q).map vcore) :
    VIsDir v' q ↔ VIsDir v q := by
  unfold VIsDir
  cases h1 : v' q <;> cases h2 : v q <;> rw [h1, h2] at h <;> simp at h ⊢
  rename_i a b
  have := congrArg Prod.fst h
  rw [vcore_fst, vcore_fst] at this
  rw [this]

theorem isFile_of_vcore {v v' : View} {q : Str} (h : (v' q).map vcore = (v q).map vcore) :
    VIsFile v' q ↔ VIsFile v q := by
  unfold VIsFile
  cases h1 : v' q <;> cases h2 : v q <;> rw [h1, h2] at h <;> simp at h ⊢
  rename_i a b
  have := congrArg Prod.fst h
  rw [vcore_fst, vcore_fst] at this
  rw [this]

theorem none_of_vcore {v v' : View} {q : Str} (h : (v' q).map vcore = (v q).map vcore) :
    v' q = none ↔ v q = none := by
  cases h1 : v' q <;> cases h2 : v q <;> rw [h1, h2] at h <;> simp at h ⊢

theorem hasFile_of_vcore {v v' : View} {q : Str} {bs : Bytes}
    (h : (v' q).map vcore = (v q).map vcore) : VHasFile v' q bs ↔ VHasFile v q bs := by
  unfold VHasFile
  cases h1 : v' q <;> cases h2 : v q <;> rw [h1, h2] at h <;> simp at h ⊢
  rename_i a b
  have hft := congrArg Prod.fst h
  rw [vcore_fst, vcore_fst] at hft
  constructor
  · rintro ⟨hf, hc⟩
    have hb : b.ftype = .file := by rw [← hft]; exact hf
    rw [vcore_file hf, vcore_file hb] at h
    exact ⟨hb, by rw [← hc]; exact (congrArg Prod.snd h).symm⟩
  · rintro ⟨hf, hc⟩
    have ha : a.ftype = .file := by rw [hft]; exact hf
    rw [vcore_file ha, vcore_file hf] at h
    exact ⟨ha, by rw [← hc]; exact congrArg Prod.snd h⟩

/-! ### the discipline for operated paths, the invariants -/

/-- the path of an operation: canonical, non-root, outside ".whiteout", no component ending in
"_wo" (the reserved suffix of the markers) -/
structure OpPath (cs : List Str) : Prop where
  ne : cs ≠ []
  good : ∀ c ∈ cs, GoodComp c
  nowo : ∀ c ∈ cs, NoWo c
  head : cs.head? ≠ some woDir

instance (cs : List Str) : Decidable (OpPath cs) :=
  decidable_of_iff (cs ≠ [] ∧ (∀ c ∈ cs, GoodComp c) ∧ (∀ c ∈ cs, NoWo c) ∧ cs.head? ≠ some woDir)
    ⟨fun ⟨a, b, c, d⟩ => ⟨a, b, c, d⟩, fun ⟨a, b, c, d⟩ => ⟨a, b, c, d⟩⟩

section oppath
variable {ds : List Str} {n : Str} (hp : OpPath (ds ++ [n]))
include hp

theorem OpPath.hds : ∀ c ∈ ds, GoodComp c := (good_of_snoc hp.good).1
theorem OpPath.hn : GoodComp n := (good_of_snoc hp.good).2
theorem OpPath.nwds : ∀ c ∈ ds, NoWo c := fun c hc => hp.nowo c (by simp [hc])
theorem OpPath.dhead : ds.head? ≠ some woDir := by
  intro hd; apply hp.head
  cases ds with
  | nil => simp at hd
  | cons d ds => simpa using hd
theorem OpPath.dsuf : ds.head? ≠ some woSuffix := by
  intro hd
  cases ds with
  | nil => simp at hd
  | cons d ds =>
    simp at hd
    exact hp.nowo d (by simp) (by rw [hd]; exact List.suffix_refl _)
theorem OpPath.nr : NR (renderC (ds ++ [n])) := NR_renderC hp.ne (good_noSlash hp.good) hp.head
theorem OpPath.abs : (renderC (ds ++ [n])).head? = some '/' := hp.nr.1
theorem OpPath.parent : parentInternal (renderC (ds ++ [n])) = renderC ds :=
  parent_snoc ds n hp.hds hp.hn
theorem OpPath.parentVis : Vis (renderC ds) := by
  by_cases h : ds = []
  · left; rw [h]; rfl
  · right; exact NR_renderC h (good_noSlash hp.hds) hp.dhead
omit hp in
theorem OpPath.parent_ne : renderC ds ≠ renderC (ds ++ [n]) := by
  intro h
  have := congrArg List.length h
  simp at this
omit hp in
theorem OpPath.marker_ne : marker (renderC (ds ++ [n])) ≠ renderC (ds ++ [n]) := C10.marker_ne_self ds n
theorem OpPath.prefixPath {j : Nat} (h1 : 1 ≤ j) (h2 : j ≤ ds.length) :
    NR (renderC (ds.take j)) := by
  apply NR_renderC
  · intro h0
    have := congrArg List.length h0
    rw [List.length_take, List.length_nil] at this; omega
  · exact fun c hc => (hp.hds c (List.mem_of_mem_take hc)).noSlash
  · exact C10.take_head_ne h1 hp.dhead

end oppath

/-- well-formedness of a view: the root is a directory, and whenever a bare name `n` is present
below a non-reserved canonical path `ds`, that path is a directory -/
def ViewWF (v : View) : Prop :=
  VIsDir v [] ∧
  ∀ (ds : List Str) (n : Str), ds ≠ [] → (∀ c ∈ ds, GoodComp c) → '/' ∉ n →
    ds.head? ≠ some woDir → v (renderC ds ++ '/' :: n) ≠ none → VIsDir v (renderC ds)

/-- the hidden state of the overlay is in order: the root, every layer map well-formed, no FILE
where the bookkeeping needs a directory, no DIRECTORY where a marker goes, and nothing at a
marked path in the upper map -/
structure OInv (mu : FMap) (ms : List FMap) : Prop where
  root : RootOk mu
  wf : ∀ m ∈ mu :: ms, WF m
  woarea : ∀ cs, (∀ c ∈ cs, GoodComp c) → (∀ c ∈ cs, NoWo c) → ∀ e,
    mu.find? (renderC (woDir :: cs)) = some e → e.ftype = .dir
  markFile : ∀ q e, NR q → mu.find? (marker q) = some e → e.ftype = .file
  ghost : ∀ q, NR q → mu.contains (marker q) = true → mu.find? q = none

theorem OInv.hwoarea {mu : FMap} {ms : List FMap} (inv : OInv mu ms) {ds : List Str}
    (hds : ∀ c ∈ ds, GoodComp c) (hnw : ∀ c ∈ ds, NoWo c) :
    ∀ k ∈ chain [] (woDir :: ds), ∀ e, mu.find? k = some e → e.ftype = .dir := by
  intro k hk e he
  obtain ⟨j, h1, h2, rfl⟩ := (mem_chain [] (woDir :: ds) k).1 hk
  obtain ⟨i, rfl⟩ : ∃ i, j = i + 1 := ⟨j - 1, by omega⟩
  simp only [List.nil_append, List.take_succ_cons] at he
  exact inv.woarea (ds.take i) (fun c hc => hds c (List.mem_of_mem_take hc))
    (fun c hc => hnw c (List.mem_of_mem_take hc)) e he

theorem OInv.hwo {mu : FMap} {ms : List FMap} (inv : OInv mu ms) {cs : List Str}
    (hcs : ∀ c ∈ cs, GoodComp c) (hnw : ∀ c ∈ cs, NoWo c) :
    ∀ e, mu.find? (woDirOf (renderC cs)) = some e → e.ftype = .dir := by
  intro e he
  rw [woDirOf_renderC] at he
  exact inv.woarea cs hcs hnw e he

theorem rootIsDir {mu : FMap} {ms : List FMap} (hroot : RootOk mu) : VIsDir (oview (mu :: ms)) [] := by
  obtain ⟨e, he, hd⟩ := hroot.root
  exact ⟨e, by rw [oview_root]; exact he, hd⟩

/-- in a well-formed view the proper ancestors of a directory are directories -/
theorem ancDirsN_of_viewWF {mu : FMap} {ms : List FMap} (hv : ViewWF (oview (mu :: ms)))
    {ds : List Str} (hds : ∀ c ∈ ds, GoodComp c) (hhead : ds.head? ≠ some woDir)
    (hdir : VIsDir (oview (mu :: ms)) (renderC ds)) : AncDirsN (mu :: ms) ds := by
  have key : ∀ k j, j + k = ds.length → 1 ≤ j →
      ∃ e, viewN (mu :: ms) (renderC (ds.take j)) = some e ∧ e.ftype = .dir := by
    intro k
    induction k with
    | zero =>
      intro j hj h1
      have : j = ds.length := by omega
      subst this
      rw [List.take_length]
      have hne : ds ≠ [] := by intro h0; rw [h0] at h1; simp at h1
      obtain ⟨e, he, hd⟩ := hdir
      rw [oview_ne (renderC_ne_nil hne)] at he
      exact ⟨e, he, hd⟩
    | succ k ih =>
      intro j hj h1
      obtain ⟨e, he, hd⟩ := ih (j + 1) (by omega) (by omega)
      have hlt : j < ds.length := by omega
      have htake : ds.take (j + 1) = ds.take j ++ [ds[j]] := by
        rw [List.take_add_one, List.getElem?_eq_getElem hlt]; rfl
      have hne : ds.take j ≠ [] := by
        intro h0
        have := congrArg List.length h0
        rw [List.length_take, List.length_nil] at this; omega
      rw [htake, renderC_snoc] at he
      obtain ⟨e', he', hd'⟩ := hv.2 (ds.take j) ds[j] hne
        (fun c hc => hds c (List.mem_of_mem_take hc)) (hds _ (List.getElem_mem _)).noSlash
        (C10.take_head_ne h1 hhead)
        (by rw [oview_ne (by simp)]; rw [he]; simp)
      rw [oview_ne (renderC_ne_nil hne)] at he'
      exact ⟨e', he', hd'⟩
  intro j h1 h2
  exact key (ds.length - j) j (by omega) h1

/-! ### lower layers that only got access stamps -/

/-- the same maps, up to access times -/
inductive LowerSame : List FMap → List FMap → Prop
  | nil : LowerSame [] []
  | cons {m m' : FMap} {ms ms' : List FMap} :
      (∀ q, (m'.find? q).map stripAcc = (m.find? q).map stripAcc) → LowerSame ms ms' →
      LowerSame (m :: ms) (m' :: ms')

theorem LowerSame.refl (ms : List FMap) : LowerSame ms ms := by
  induction ms with
  | nil => exact .nil
  | cons m ms ih => exact .cons (fun _ => rfl) ih

theorem LowerSame.trans {a b c : List FMap} (h1 : LowerSame a b) (h2 : LowerSame b c) :
    LowerSame a c := by
  induction h1 generalizing c with
  | nil => cases h2; exact .nil
  | cons hab _ ih =>
    cases h2 with
    | cons hbc h2' => exact .cons (fun q => (hbc q).trans (hab q)) (ih h2')

theorem LowerSame.set {ms : List FMap} {j : Nat} {m m2 : FMap} (hm : ms[j]? = some m)
    (h : ∀ q, (m2.find? q).map stripAcc = (m.find? q).map stripAcc) :
    LowerSame ms (ms.set j m2) := by
  induction ms generalizing j with
  | nil => exact .nil
  | cons m0 ms ih =>
    cases j with
    | zero => simp at hm; subst hm; exact .cons h (LowerSame.refl ms)
    | succ j => simp at hm; exact .cons (fun _ => rfl) (ih hm)

theorem firstN_lowerSame {ms ms' : List FMap} (h : LowerSame ms ms') (q : Str) :
    (firstN ms' q).map stripAcc = (firstN ms q).map stripAcc := by
  induction h with
  | nil => rfl
  | @cons m m' ms ms' hm _ ih =>
    simp only [firstN]
    have := hm q
    cases h1 : m'.find? q <;> cases h2 : m.find? q <;> rw [h1, h2] at this <;> simp at this ⊢
    · exact ih
    · exact this

theorem oview_lowerSame (mu : FMap) {ms ms' : List FMap} (h : LowerSame ms ms') :
    VSame (oview (mu :: ms)) (oview (mu :: ms')) := by
  intro q hq
  apply vcore_of_stripAcc
  by_cases hq0 : q = []
  · subst hq0; rw [oview_root, oview_root]
  · rw [oview_ne hq0, oview_ne hq0, viewN_cons, viewN_cons]
    split
    · rfl
    · simp only [firstN]
      cases mu.find? q with
      | some e => rfl
      | none => simpa using firstN_lowerSame h q

theorem wf_of_stripAcc {m m' : FMap} (hm : WF m)
    (h : ∀ q, (m'.find? q).map stripAcc = (m.find? q).map stripAcc) : WF m' := by
  apply hm.of_coreEq
  intro k
  have := h k
  cases h1 : m'.find? k <;> cases h2 : m.find? k <;> rw [h1, h2] at this <;> simp at this ⊢
  rename_i x y
  have a1 : x.ftype = y.ftype :=
    show (stripAcc x).ftype = (stripAcc y).ftype from congrArg Entry.ftype this
  have a2 : x.content = y.content :=
    show (stripAcc x).content = (stripAcc y).content from congrArg Entry.content this
  simp [core, a1, a2]

theorem OInv.lowerSame {mu : FMap} {ms ms' : List FMap} (inv : OInv mu ms)
    (h : LowerSame ms ms') : OInv mu ms' := by
  refine ⟨inv.root, ?_, inv.woarea, inv.markFile, inv.ghost⟩
  intro m hm
  rcases List.mem_cons.1 hm with rfl | hm
  · exact inv.wf _ (by simp)
  · have : ∀ {a b : List FMap}, LowerSame a b → (∀ x ∈ a, WF x) → ∀ y ∈ b, WF y := by
      intro a b hab
      induction hab with
      | nil => intro _ y hy; cases hy
      | @cons m0 m0' _ _ h1 _ ih =>
        intro ha y hy
        rcases List.mem_cons.1 hy with rfl | hy
        · exact wf_of_stripAcc (ha m0 (by simp)) h1
        · exact ih (fun x hx => ha x (by simp [hx])) y hy
    exact this h (fun x hx => inv.wf x (by simp [hx])) m hm

/-! ### the pure functions keep every upper map well-formed -/

theorem wf_createDir {m : FMap} (h : WF m) (d : Str) : WF (Mem.createDir m d).2 := by
  unfold Mem.createDir
  cases hen : Mem.ensureHasParent m d with
  | ok u =>
    have hs := Mem.ensureHasParent_ok m d hen
    unfold Mem.ensureHasParent at hen
    rw [if_pos hs] at hen
    dsimp only
    split
    · exact h
    · cases hpar : m.find? (parentInternal d) with
      | none => rw [hpar] at hen; simp [fail] at hen
      | some pe =>
        rw [hpar] at hen
        by_cases hpd : pe.ftype = .dir
        · exact h.insert_dir d dirEntryNow rfl hs pe hpar hpd
        · simp [hpd, fail] at hen
  | err k pth => exact h
  | panic => exact h

theorem wf_mkdirs {m : FMap} (h : WF m) (l : List Str) : WF (Mem.mkdirs m l).2 := by
  induction l generalizing m with
  | nil => exact h
  | cons d rest ih =>
    unfold Mem.mkdirs
    have := wf_createDir h d
    cases hc : Mem.createDir m d with
    | mk r m' =>
      rw [hc] at this
      cases r with
      | ok a => exact ih this
      | err e pth => cases e <;> first | exact ih this | exact this
      | panic => exact this

theorem wf_andThen {α β} {x : Res α × FMap} {f : α → FMap → Res β × FMap} (hx : WF x.2)
    (hf : ∀ a m, WF m → WF (f a m).2) : WF (andThen x f).2 := by
  obtain ⟨r, m⟩ := x
  cases r with
  | ok a => exact hf a m hx
  | err e pth => exact hx
  | panic => exact hx

theorem wf_pTouch {m : FMap} (h : WF m) (k : Str) : WF (Mem.pTouch m k).2 := by
  have := h.pWrite k []
  unfold Mem.pWrite at this
  unfold Mem.pTouch
  split
  · rename_i hp
    rw [if_pos hp] at this
    cases hc : Mem.createFile m k with
    | mk r m' =>
      rw [hc] at this
      cases r with
      | ok u => simpa [cursorWrite_nil] using this
      | err e pth => exact this
      | panic => exact this
  · exact h

theorem wf_pOpenW {m : FMap} (h : WF m) (k : Str) : WF (Mem.pOpenW m k).2 := by
  unfold Mem.pOpenW
  split
  · rename_i hp; exact (h.createFile k hp).1
  · exact h

theorem wf_pClear {m : FMap} (h : WF m) (p : Str) : WF (pClear m p).2 := by
  unfold pClear
  split
  · exact h.pRemoveFile _
  · exact h

theorem wf_pEnsureN {mu : FMap} {ms : List FMap} (h : WF mu) (ds : List Str) :
    WF (pEnsureN (mu :: ms) ds).2 := by
  unfold pEnsureN
  split
  · split
    · exact wf_mkdirs h _
    · exact h
  · exact h

theorem wf_pAddWhiteout {m : FMap} (h : WF m) (cs : List Str) : WF (pAddWhiteout m cs).2 := by
  unfold pAddWhiteout
  exact wf_andThen (wf_mkdirs h _) (fun _ m1 h1 => wf_pTouch h1 _)

theorem wf_pCreateDirN {mu : FMap} {ms : List FMap} (h : WF mu) (cs : List Str) :
    WF (pCreateDirN mu ms cs).2 := by
  unfold pCreateDirN
  apply wf_andThen (wf_pEnsureN h _)
  intro _ m1 h1
  split
  · exact h1
  · rcases pCreateTail_snd m1 (renderC cs) with he | he <;> rw [he]
    · exact h1.pCreateDir _
    · exact wf_pClear (h1.pCreateDir _) _

theorem wf_pCreateFileN {mu : FMap} {ms : List FMap} (h : WF mu) (cs : List Str) :
    WF (pCreateFileN mu ms cs).2 := by
  unfold pCreateFileN
  apply wf_andThen (wf_pEnsureN h _)
  intro _ m1 h1
  apply wf_andThen (x := (pRefuseN (m1 :: ms) (renderC cs), m1)) h1
  intro _ _ _
  exact wf_andThen (wf_pOpenW h1 _) (fun _ m2 h2 => wf_pClear h2 _)

theorem wf_pRemoveFileN {mu : FMap} {ms : List FMap} (h : WF mu) (cs : List Str) :
    WF (pRemoveFileN mu ms cs).2 := by
  unfold pRemoveFileN
  split
  · exact h
  · apply wf_andThen
    · split
      · exact h.pRemoveFile _
      · exact h
    · intro _ m1 h1; exact wf_pAddWhiteout h1 _

theorem wf_pRemoveDirN {mu : FMap} {ms : List FMap} (h : WF mu) (cs : List Str) (hne : cs ≠ []) :
    WF (pRemoveDirN mu ms cs).2 := by
  unfold pRemoveDirN
  split
  · exact h
  · split
    · split
      · exact h
      · apply wf_andThen
        · split
          · exact h.pRemoveDir _ (renderC_ne_nil hne)
          · exact h
        · intro _ m1 h1; exact wf_pAddWhiteout h1 _
    · exact h
    · exact h

/-! ### building block E: `ensure_has_parent` -/

theorem pIsDirN_iff (all : List FMap) (p : Str) : pIsDirN all p = true ↔ VIsDir (oview all) p := by
  unfold pIsDirN VIsDir oview dirEntryN
  cases (if p = [] then (all.headD []).find? [] else viewN all p) with
  | none => simp
  | some e => simp

section blocks
variable {mu : FMap} {ms : List FMap} (inv : OInv mu ms) {ds : List Str} {n : Str}
  (hp : OpPath (ds ++ [n]))
include inv hp

omit inv hp in
/-- the parent is not a directory of the view: `ensure_has_parent` fails, nothing changes -/
theorem ensure_fail (hnd : ¬ VIsDir (oview (mu :: ms)) (renderC ds)) :
    pEnsureN (mu :: ms) ds = (.err .other none, mu) := by
  have hd : pIsDirN (mu :: ms) (renderC ds) = false := by
    cases h : pIsDirN (mu :: ms) (renderC ds)
    · rfl
    · exact absurd ((pIsDirN_iff _ _).1 h) hnd
  unfold pEnsureN
  rw [hd]
  split <;> rfl

/-- the parent is a directory of the view: `ensure_has_parent` fills in the missing ancestors in
the upper map; the view is the same, the invariant holds again -/
theorem ensure_ok (hv : ViewWF (oview (mu :: ms))) (hd : VIsDir (oview (mu :: ms)) (renderC ds)) :
    pEnsureN (mu :: ms) ds = (.ok (), fillDirs mu (chain [] ds)) ∧
    OInv (fillDirs mu (chain [] ds)) ms ∧
    VSame (oview (mu :: ms)) (oview (fillDirs mu (chain [] ds) :: ms)) ∧
    Mem.parentOk (fillDirs mu (chain [] ds)) (renderC (ds ++ [n])) = true ∧
    (fillDirs mu (chain [] ds)).find? (renderC (ds ++ [n])) = mu.find? (renderC (ds ++ [n])) ∧
    (fillDirs mu (chain [] ds)).find? (marker (renderC (ds ++ [n])))
      = mu.find? (marker (renderC (ds ++ [n]))) := by
  have hds := hp.hds
  have hn := hp.hn
  have hanc : AncDirsN (mu :: ms) ds := ancDirsN_of_viewWF hv hds hp.dhead hd
  have hE := pEnsureN_ok inv.root hds hanc
  have hp0 := find?_snoc_fillDirs (mu := mu) hds hn [] (Or.inl rfl)
  simp only [List.append_nil] at hp0
  have hmk : ∀ q, q.head? = some '/' →
      (fillDirs mu (chain [] ds)).find? (marker q) = mu.find? (marker q) := fun q hq =>
    find?_fillDirs_not_mem _ _ _ (marker_not_in_chain hds hp.dhead q hq)
  have hnotin : ∀ k, firstComp k = woDir → k ∉ chain [] ds := by
    intro k hk hmem
    obtain ⟨j, h1, h2, rfl⟩ := (mem_chain [] ds k).1 hmem
    simp only [List.nil_append] at hk
    exact (hp.prefixPath h1 h2).2 hk
  have hwfE : WF (fillDirs mu (chain [] ds)) := by
    have := wf_pEnsureN (ms := ms) (inv.wf mu (by simp)) ds
    rw [hE] at this; exact this
  refine ⟨hE, ⟨?_, ?_, ?_, ?_, ?_⟩, ?_, parentOk_fillDirs_gen inv.root.root hds hn
    (chain_dirs_of_ancN hanc), hp0, hmk _ hp.abs⟩
  · -- root
    obtain ⟨e0, he0, hd0⟩ := inv.root.root
    refine ⟨⟨e0, ?_, hd0⟩, ?_⟩
    · rw [find?_fillDirs_not_mem _ _ _ (by
        intro hmem
        obtain ⟨j, h1, h2, he⟩ := (mem_chain [] ds _).1 hmem
        exact (hp.prefixPath h1 h2).ne_nil (by simpa using he.symm))]
      exact he0
    · unfold FMap.contains
      rw [find?_fillDirs_not_mem _ _ _ (hnotin _ (by decide))]
      exact inv.root.noMark
  · intro m hm
    rcases List.mem_cons.1 hm with rfl | hm
    · exact hwfE
    · exact inv.wf m (by simp [hm])
  · intro cs hcs hnw e he
    rw [find?_fillDirs_not_mem _ _ _ (hnotin _ (firstComp_renderC woDir cs (by decide)))] at he
    exact inv.woarea cs hcs hnw e he
  · intro q e hq he
    rw [hmk q hq.1] at he
    exact inv.markFile q e hq he
  · intro q hq hc
    unfold FMap.contains at hc
    rw [hmk q hq.1] at hc
    have hnone := inv.ghost q hq hc
    rw [find?_fillDirs, hnone]
    by_cases hk : q ∈ chain [] ds
    · exfalso
      obtain ⟨j, h1, h2, he⟩ := (mem_chain [] ds _).1 hk
      simp only [List.nil_append] at he
      obtain ⟨e', hv', _⟩ := hanc j h1 h2
      rw [← he, viewN_marked hc] at hv'
      cases hv'
    · simp [hk]
  · intro q hq
    rcases hq with rfl | hq
    · rw [oview_root, oview_root, find?_fillDirs_not_mem _ _ _ (by
        intro hmem
        obtain ⟨j, h1, h2, he⟩ := (mem_chain [] ds _).1 hmem
        exact (hp.prefixPath h1 h2).ne_nil (by simpa using he.symm))]
    · rw [oview_NR hq, oview_NR hq]
      exact vcore_of_dirBlind (view_fillDirsN hds hanc hp.dhead q hq.1)

/-! ### building block I: an entry is put at `p`, the marker of `p` is gone -/

theorem insert_spec (e : Entry) (mu2 : FMap)
    (hmu2 : ∀ k, mu2.find? k = if k = renderC (ds ++ [n]) then some e
      else if k = marker (renderC (ds ++ [n])) then none else mu.find? k)
    (hwf2 : WF mu2) :
    OInv mu2 ms ∧ oview (mu2 :: ms) (renderC (ds ++ [n])) = some e ∧
    ∀ q, Vis q → q ≠ renderC (ds ++ [n]) → oview (mu2 :: ms) q = oview (mu :: ms) q := by
  have hnr := hp.nr
  have hmne : marker (renderC (ds ++ [n])) ≠ renderC (ds ++ [n]) := C10.marker_ne_self ds n
  have hframe : ∀ k, k ≠ renderC (ds ++ [n]) → k ≠ marker (renderC (ds ++ [n])) →
      mu2.find? k = mu.find? k := by
    intro k h1 h2; rw [hmu2, if_neg h1, if_neg h2]
  have hself : mu2.find? (renderC (ds ++ [n])) = some e := by rw [hmu2, if_pos rfl]
  have hmk : mu2.find? (marker (renderC (ds ++ [n]))) = none := by
    rw [hmu2, if_neg hmne, if_pos rfl]
  -- a marker of a non-reserved path is never `p`
  have hmq : ∀ q, NR q → marker q ≠ renderC (ds ++ [n]) := fun q hq h => hnr.ne_marker hq.1 h.symm
  refine ⟨⟨?_, ?_, ?_, ?_, ?_⟩, ?_, ?_⟩
  · exact C10.rootOk_of_frame hp.hds hp.hn inv.root hp.head hp.dsuf
      (fun k h1 h2 _ => hframe k h1 h2)
  · intro m hm
    rcases List.mem_cons.1 hm with rfl | hm
    · exact hwf2
    · exact inv.wf m (by simp [hm])
  · intro cs hcs hnw e' he'
    have h1 : renderC (woDir :: cs) ≠ renderC (ds ++ [n]) := by
      intro h; apply hnr.2; rw [← h]; exact firstComp_renderC woDir cs (by decide)
    by_cases h2 : renderC (woDir :: cs) = marker (renderC (ds ++ [n]))
    · rw [h2, hmk] at he'; cases he'
    · rw [hframe _ h1 h2] at he'; exact inv.woarea cs hcs hnw e' he'
  · intro q e' hq he'
    by_cases h2 : marker q = marker (renderC (ds ++ [n]))
    · rw [h2, hmk] at he'; cases he'
    · rw [hframe _ (hmq q hq) h2] at he'; exact inv.markFile q e' hq he'
  · intro q hq hc
    by_cases h2 : marker q = marker (renderC (ds ++ [n]))
    · unfold FMap.contains at hc; rw [h2, hmk] at hc; cases hc
    · have hc' : mu.contains (marker q) = true := by
        unfold FMap.contains at hc ⊢; rw [← hframe _ (hmq q hq) h2]; exact hc
      have hqp : q ≠ renderC (ds ++ [n]) := fun h => h2 (by rw [h])
      rw [hframe q hqp (hq.ne_marker hp.abs)]
      exact inv.ghost q hq hc'
  · rw [oview_NR hnr]
    exact viewN_upper (by unfold FMap.contains; rw [hmk]; rfl) hself
  · intro q hq hqp
    rcases hq with rfl | hq
    · rw [oview_root, oview_root]
      exact hframe [] (fun h => hnr.ne_nil h.symm) (by simp [marker])
    · rw [oview_NR hq, oview_NR hq]
      exact C10.viewN_congr_upper (hframe q hqp (hq.ne_marker hp.abs))
        (hframe _ (hmq q hq) (fun h => hqp (marker_injective _ _ h)))

/-! ### building block R: `p` leaves the upper map, its marker is written -/

theorem remove_spec (mu2 : FMap)
    (hmark : ∃ em, mu2.find? (marker (renderC (ds ++ [n]))) = some em ∧ em.ftype = .file)
    (hself : mu2.find? (renderC (ds ++ [n])) = none)
    (hframe : ∀ k, k ≠ renderC (ds ++ [n]) → k ≠ marker (renderC (ds ++ [n])) →
      k ∉ chain [] (woDir :: ds) → mu2.find? k = mu.find? k)
    (hold : ∀ k, k ≠ renderC (ds ++ [n]) → k ≠ marker (renderC (ds ++ [n])) →
      mu.contains k = true → mu2.find? k = mu.find? k)
    (hnew : ∀ k ∈ chain [] (woDir :: ds), k ≠ renderC (ds ++ [n]) →
      k ≠ marker (renderC (ds ++ [n])) → mu.find? k = none → mu2.find? k = some dirEntryNow)
    (hwf2 : WF mu2) :
    OInv mu2 ms ∧ oview (mu2 :: ms) (renderC (ds ++ [n])) = none ∧
    ∀ q, Vis q → q ≠ renderC (ds ++ [n]) → oview (mu2 :: ms) q = oview (mu :: ms) q := by
  have hnr := hp.nr
  have hdns := good_noSlash hp.hds
  have hmq : ∀ q, NR q → marker q ≠ renderC (ds ++ [n]) := fun q hq h => hnr.ne_marker hq.1 h.symm
  have hmw : ∀ q, marker q ∉ chain [] (woDir :: ds) := marker_not_woChain hp.hds hp.nwds
  obtain ⟨em, hem, hemf⟩ := hmark
  refine ⟨⟨?_, ?_, ?_, ?_, ?_⟩, ?_, ?_⟩
  · exact C10.rootOk_of_frame hp.hds hp.hn inv.root hp.head hp.dsuf hframe
  · intro m hm
    rcases List.mem_cons.1 hm with rfl | hm
    · exact hwf2
    · exact inv.wf m (by simp [hm])
  · intro cs hcs hnw e' he'
    have h1 : renderC (woDir :: cs) ≠ renderC (ds ++ [n]) := by
      intro h; apply hnr.2; rw [← h]; exact firstComp_renderC woDir cs (by decide)
    have h2 : renderC (woDir :: cs) ≠ marker (renderC (ds ++ [n])) := by
      intro h
      rw [marker_renderC] at h
      have := C06.renderC_injective _ _
        (by intro c hc
            rcases List.mem_cons.1 hc with rfl | hc
            · decide
            · exact (hcs c hc).noSlash)
        (good_noSlash (good_markerComps hp.hds hp.hn)) h
      simp only [List.cons.injEq, true_and] at this
      exact hnw (n ++ woSuffix) (by rw [this]; simp) (List.suffix_append _ _)
    rcases Option.eq_none_or_eq_some (mu.find? (renderC (woDir :: cs))) with hf | ⟨e0, hf⟩
    · by_cases hk : renderC (woDir :: cs) ∈ chain [] (woDir :: ds)
      · rw [hnew _ hk h1 h2 hf] at he'
        injection he' with he'; rw [← he']; rfl
      · rw [hframe _ h1 h2 hk, hf] at he'; cases he'
    · rw [hold _ h1 h2 (contains_of_find hf)] at he'
      exact inv.woarea cs hcs hnw e' he'
  · intro q e' hq he'
    by_cases h2 : marker q = marker (renderC (ds ++ [n]))
    · rw [h2, hem] at he'; injection he' with he'; rw [← he']; exact hemf
    · rw [hframe _ (hmq q hq) h2 (hmw q)] at he'; exact inv.markFile q e' hq he'
  · intro q hq hc
    by_cases h2 : marker q = marker (renderC (ds ++ [n]))
    · rw [marker_injective _ _ h2]; exact hself
    · have hc' : mu.contains (marker q) = true := by
        unfold FMap.contains at hc ⊢; rw [← hframe _ (hmq q hq) h2 (hmw q)]; exact hc
      have hqp : q ≠ renderC (ds ++ [n]) := fun h => h2 (by rw [h])
      rw [hframe q hqp (hq.ne_marker hp.abs) (hq.not_woChain hdns)]
      exact inv.ghost q hq hc'
  · rw [oview_NR hnr]
    exact viewN_marked (contains_of_find hem)
  · intro q hq hqp
    rcases hq with rfl | hq
    · rw [oview_root, oview_root]
      exact hframe [] (fun h => hnr.ne_nil h.symm) (by simp [marker]) (by
        intro hk
        have := firstComp_woChain hdns hk
        revert this; decide)
    · rw [oview_NR hq, oview_NR hq]
      exact C10.viewN_congr_upper
        (hframe q hqp (hq.ne_marker hp.abs) (hq.not_woChain hdns))
        (hframe _ (hmq q hq) (fun h => hqp (marker_injective _ _ h)) (hmw q))

end blocks

end Vfs.C09
