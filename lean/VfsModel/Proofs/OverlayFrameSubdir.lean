/-
  The frame for overlays over SUB-DIRECTORY layers used directly (`subLayers`): the abstract
  layer interface `LayerOps` of Proofs/OverlayShift.lean for the STRENGTHENED relation
  `RFA spec m0 = RSub spec ∧ OutsideAll spec m0 (left world)` of Proofs/OverlayFrameSub.lean.

  * `layerOps_shift_frame : LayerOps (RFA spec m0) PTrue (HSub spec) (VShift spec) NRShift`:
    each field is the field of `layerOps_shift` strengthened by the unary fact that the left
    operation — a `VfsPath` operation of `leafFS i` at `P ++ q` — keeps every re-rooted leaf
    unchanged outside its directory. `create_dir_all` is the one place where the relation itself
    is needed (`AncOK`: on the left it first walks the prefixes of `P`, each answering
    `DirExists` and changing nothing); `read_dir` is re-proved in continuation form; `copy_file`
    between two different leaves gets its own preservation lemma.
  * `overlay_over_subdirs_frame`: the resulting `SimFS (RFA spec m0) PTrue (HSub spec)
    (Overlay.fs (subLayers …)) (Overlay.fs (layersN …))`.
  NOT PROVED: physical leaves.
-/
import VfsModel.Proofs.OverlayFrameSub
set_option linter.unusedVariables false
set_option linter.unusedSectionVars false
set_option linter.unusedSimpArgs false
namespace Vfs.Frm
open Vfs Vfs.Overlay

/-- as `SimM.strengthen`, with the relation available to the unary step -/
theorem _root_.Vfs.SimM.strengthenR {α β : Type} {R : World → World → Prop}
    {PR : Option Str → Option Str → Prop} {Q : α → β → Prop} {I : World → Prop}
    {m1 : M α} {m2 : M β} (h : SimM R PR Q m1 m2)
    (hp : ∀ w1 w2, R w1 w2 → I w1 → I (m1 w1).2) :
    SimM (fun a b => R a b ∧ I a) PR Q m1 m2 :=
  fun w1 w2 hr => ⟨(h w1 w2 hr.1).1, (h w1 w2 hr.1).2, hp w1 w2 hr.1 hr.2⟩

section
variable {spec : Nat → Role} {m0 : Nat → FMap}

theorem belowC_append (ps : List Str) {qs : List Str} (hqs : ∀ c ∈ qs, GoodComp c) :
    BelowC ps (renderC ps ++ renderC qs) := ⟨qs, hqs, (renderC_append ps qs).symm⟩

theorem parent_below (ps qs : List Str) (hps : ∀ c ∈ ps, GoodComp c) (hqs : ∀ c ∈ qs, GoodComp c) :
    BelowC ps (parentInternal (renderC ps ++ renderC qs)) ∨
      Ancestor ps (parentInternal (renderC ps ++ renderC qs)) := by
  rw [← renderC_append]; exact parent_belowC ps qs hps hqs

/-- the loop of `create_dir_all` over prefixes at or below `P` -/
theorem pres_loop_below {I : World → Prop} {fs : FS} {B A : Str → Prop} (h : fs.PresAt I B A)
    (a : VPath) (ha : a.fs = fs) (l : List Str) (hl : ∀ d ∈ l, B d) :
    Preserves I (VPath.createDirAllLoop a l) := by
  induction l with
  | nil => exact Preserves.pure _
  | cons d rest ih =>
    have ih' := ih (fun x hx => hl x (by simp [hx]))
    refine ⟨fun w hw => ?_⟩
    unfold VPath.createDirAllLoop
    have := (h.createDir d (hl d (by simp))).pres w hw
    rw [ha]
    cases hres : fs.createDir d w with
    | mk r w' =>
      rw [hres] at this
      cases r with
      | ok x => exact ih'.pres w' this
      | err k pth =>
        cases k <;> first | exact ih'.pres w' this | exact this
      | panic => exact this

/-- `create_dir_all` at `P ++ q` of a re-rooted leaf keeps the invariant: the prefixes of `P`
answer `DirExists` and change nothing (`AncOK`, from the relation), the others are below `P` -/
theorem createDirAll_pres {i : Nat} {P q : Str} (hi : spec i = .sub P) (hP : Canon P)
    (hq : Canon q) (ida : Nat) (w1 w2 : World) (hr : RSub spec w1 w2)
    (hI : OutsideAll spec m0 w1) :
    OutsideAll spec m0
      ((VPath.createDirAll { fs := leafFS i, fsId := ida, path := P ++ q }) w1).2 := by
  obtain ⟨m1, h1, h2, hinv⟩ := hr.leafAt hi
  have hanc := hr.ancAt hi h1
  obtain ⟨ps, hps, rfl⟩ := hP
  obtain ⟨qs, hqs, rfl⟩ := hq
  have hL := leafFS_presAt_all (m0 := m0) hi hps
  have hskip : ∀ d ∈ chain [] ps, ∃ x, (leafFS i).createDir d w1 = (.err .dirExists x, w1) := by
    intro d hd
    rw [mem_chain] at hd
    obtain ⟨j, hj1, hj2, rfl⟩ := hd
    simp only [List.nil_append]
    obtain ⟨j', rfl⟩ : ∃ j', j = j' + 1 := ⟨j - 1, by omega⟩
    have hpar : parentInternal (renderC (ps.take (j' + 1))) = renderC (ps.take j') := by
      have e : (ps.take (j' + 1)).dropLast = ps.take j' := by
        rw [List.take_add_one, List.getElem?_eq_getElem (by omega : j' < ps.length)]
        show (List.take j' ps ++ [ps[j']]).dropLast = _
        exact List.dropLast_concat
      rw [parentInternal_renderC _ (fun c hc => (hps c (List.take_subset _ _ hc)).noSlash), e]
    obtain ⟨ep, hep, hepd⟩ := hanc ps hps rfl j' (by omega)
    have hself : ∃ e, m1.find? (renderC (ps.take (j' + 1))) = some e ∧ e.ftype = .dir := by
      by_cases hlt : j' + 1 < ps.length
      · exact hanc ps hps rfl (j' + 1) hlt
      · have : ps.take (j' + 1) = ps := List.take_of_length_le (by omega)
        rw [this]
        obtain ⟨e, he, hd⟩ := hinv.1
        rw [find?_sub _ m1 [] (Or.inl rfl), List.append_nil] at he
        exact ⟨e, he, hd⟩
    obtain ⟨e, he, hed⟩ := hself
    have hsl : '/' ∈ renderC (ps.take (j' + 1)) := by
      apply slash_mem_renderC
      intro h
      have := congrArg List.length h
      rw [List.length_take] at this
      simp only [List.length_nil] at this
      omega
    refine ⟨none, ?_⟩
    rw [run_createDir h1, createDir_existing_dir m1 _ hsl ep e (by rw [hpar]; exact hep) hepd he hed,
      h1.same]
    rfl
  have hpre : VPath.dirPrefixes (renderC ps ++ renderC qs)
      = chain [] ps ++ (chain [] qs).map (renderC ps ++ ·) := by
    rw [← renderC_append, dirPrefixes_renderC _ (good_noSlash (good_append hps hqs)), chain_append,
      List.nil_append]
    congr 1
    have := chain_shift ps [] qs
    rw [List.append_nil] at this
    exact this
  unfold VPath.createDirAll
  dsimp only
  by_cases hPn : renderC ps ++ renderC qs = []
  · rw [if_pos hPn]; exact hI
  · rw [if_neg hPn, hpre, loop_skip _ _ _ w1 hskip]
    refine (pres_loop_below hL _ rfl _ ?_).pres w1 hI
    intro d hd
    obtain ⟨x, hx, rfl⟩ := List.mem_map.1 hd
    rw [mem_chain] at hx
    obtain ⟨j, _, _, rfl⟩ := hx
    simp only [List.nil_append]
    exact belowC_append ps (fun c hc => hqs c (List.take_subset _ _ hc))

/-- `copy_file` of a memory leaf changes nothing -/
theorem leaf_copyFile_outside (i j : Nat) (P : Str) (m : FMap) (s d : Str) :
    Preserves (Outside j P m) ((leafFS i).copyFile s d) := by
  by_cases hij : i = j
  · subst hij
    exact onLeaf_outside _ (fun l hl k _ => by simp only [hl])
  · exact (leafFS_all_preserve i (Outside.ignores hij)).copyFile s d

/-- `VfsPath::copy_file` between paths at or below the directories of two re-rooted leaves -/
theorem copyFile_pres {i j : Nat} {ps pt : List Str} (hi : spec i = .sub (renderC ps))
    (hj : spec j = .sub (renderC pt)) (hps : ∀ c ∈ ps, GoodComp c) (hpt : ∀ c ∈ pt, GoodComp c)
    {ss ts : List Str} (hss : ∀ c ∈ ss, GoodComp c) (hts : ∀ c ∈ ts, GoodComp c) (ida idc : Nat) :
    Preserves (OutsideAll spec m0)
      (VPath.copyFile { fs := leafFS i, fsId := ida, path := renderC ps ++ renderC ss }
        { fs := leafFS j, fsId := idc, path := renderC pt ++ renderC ts }) := by
  have h := leafFS_presAt_all (m0 := m0) hi hps
  have h' := leafFS_presAt_all (m0 := m0) hj hpt
  have hs := belowC_append ps hss
  have hd := belowC_append pt hts
  have hp := parent_below pt ts hpt hts
  unfold VPath.copyFile
  apply Preserves.withPath
  apply Preserves.bind (VPath.presAt_exists _ h' (Or.inl hd))
  intro b
  split
  · exact Preserves.failAt _ _
  · apply Preserves.bind
    · split
      · exact Preserves.attempt (pres_all (fun k P hk => leaf_copyFile_outside i k P _ _ _))
      · exact Preserves.pure _
    · intro fast
      split
      · exact Preserves.pure _
      · exact Preserves.ret _
      · split
        · exact Preserves.ret _
        · apply Preserves.bind (VPath.presAt_openFile _ h hs)
          intro r
          apply Preserves.bindQ _ (VPath.presAt_createFile _ h' hd hp)
            (VPath.presAt_createFile_handle _ h' hd)
          intro wh hwh
          exact VPath.pres_ioCopyAndDrop r wh _ hwh

variable (spec m0) in
theorem simHandles_frameAll' {PR : Option Str → Option Str → Prop} [ReflPR PR] :
    SimHandles (RFA spec m0) PR (HSub spec) where
  write h1 h2 bs h :=
    SimM.strengthen ((simHandles_sub spec).write h1 h2 bs h)
      (fun w hw => (((hsub_handleOK h) h1.buf h1.pos).1 bs).pres w hw)
  flush h1 h2 h :=
    SimM.strengthen ((simHandles_sub spec).flush h1 h2 h)
      (fun w hw => (((hsub_handleOK h) h1.buf h1.pos).2).pres w hw)
  seek h1 h2 s h :=
    SimM.strengthen ((simHandles_sub spec).seek h1 h2 s h)
      (fun w hw => by rw [seek_world]; exact hw)

theorem readDirK_shift_frame {i : Nat} {P q : Str} (hi : spec i = .sub P) (hP : Canon P)
    (hq : Canon q) (ida idb : Nat)
    {γ δ : Type} (Q' : γ → δ → Prop) (F : List Str → M γ) (G : List Str → M δ)
    (hFG : ∀ n, (∀ x ∈ n, GoodComp x) → SimM (RFA spec m0) PTrue Q' (F n) (G n)) :
    SimM (RFA spec m0) PTrue Q'
      ((VPath.readDir { fs := leafFS i, fsId := ida, path := P ++ q }) >>= fun cs => F (cs.map nameOf))
      ((VPath.readDir { fs := leafFS i, fsId := idb, path := q }) >>= fun cs => G (cs.map nameOf)) := by
  obtain ⟨ps, hps, rfl⟩ := hP
  obtain ⟨qs, hqs, rfl⟩ := id hq
  have hL := leafFS_presAt_all (m0 := m0) hi hps
  unfold VPath.readDir
  rw [M.bind_assoc', M.bind_assoc']
  refine SimM.bind ((SimM.withPath_lr_true _ _ (leaf_readDir hi hq)).strengthen
    (Preserves.withPath _ (hL.readDir _ (belowC_append ps hqs))).pres) fun n1 n2 hn => ?_
  obtain ⟨rfl, hg⟩ := hn
  rw [M.pure_bind', M.pure_bind', List.map_map, List.map_map]
  have e1 : n1.map (nameOf ∘ fun n => VPath.withStr
      { fs := leafFS i, fsId := ida, path := renderC ps ++ renderC qs }
      ((renderC ps ++ renderC qs) ++ '/' :: n)) = n1 := by
    conv => rhs; rw [← List.map_id n1]
    apply List.map_congr_left
    intro n hn
    exact filename_child _ n (hg n hn).noSlash
  have e2 : n1.map (nameOf ∘ fun n => VPath.withStr { fs := leafFS i, fsId := idb, path := renderC qs }
      (renderC qs ++ '/' :: n)) = n1 := by
    conv => rhs; rw [← List.map_id n1]
    apply List.map_congr_left
    intro n hn
    exact filename_child _ n (hg n hn).noSlash
  rw [e1, e2]
  exact hFG n1 hg

variable (spec m0) in
/-- **the layer interface for the strengthened relation** -/
theorem layerOps_shift_frame :
    LayerOps (RFA spec m0) PTrue (HSub spec) (VShift spec) NRShift where
  join := (layerOps_shift spec).join
  parent := (layerOps_shift spec).parent
  exists_ := by
    intro a b h
    have hb := (layerOps_shift spec).exists_ h
    obtain ⟨i, P, q, ida, idb, hi, ⟨ps, hps, rfl⟩, ⟨qs, hqs, rfl⟩, rfl, rfl⟩ := h.destruct
    exact hb.strengthen (VPath.presAt_exists _ (leafFS_presAt_all (m0 := m0) hi hps)
      (Or.inl (belowC_append ps hqs))).pres
  metadata := by
    intro a b h
    have hb := (layerOps_shift spec).metadata h
    obtain ⟨i, P, q, ida, idb, hi, ⟨ps, hps, rfl⟩, ⟨qs, hqs, rfl⟩, rfl, rfl⟩ := h.destruct
    exact hb.strengthen (VPath.presAt_metadata _ (leafFS_presAt_all (m0 := m0) hi hps)
      (Or.inl (belowC_append ps hqs))).pres
  openFile := by
    intro a b h
    have hb := (layerOps_shift spec).openFile h
    obtain ⟨i, P, q, ida, idb, hi, ⟨ps, hps, rfl⟩, ⟨qs, hqs, rfl⟩, rfl, rfl⟩ := h.destruct
    exact hb.strengthen (VPath.presAt_openFile _ (leafFS_presAt_all (m0 := m0) hi hps)
      (belowC_append ps hqs)).pres
  readDirK := by
    intro a b h γ δ Q' F G hFG
    obtain ⟨i, P, q, ida, idb, hi, hP, hq, rfl, rfl⟩ := h.destruct
    exact readDirK_shift_frame hi hP hq ida idb Q' F G hFG
  createDirAll := by
    intro a b h
    have hb := (layerOps_shift spec).createDirAll h
    obtain ⟨i, P, q, ida, idb, hi, hP, hq, rfl, rfl⟩ := h.destruct
    exact hb.strengthenR (createDirAll_pres hi hP hq ida)
  createDir := by
    intro a b h hnr
    have hb := (layerOps_shift spec).createDir h hnr
    obtain ⟨i, P, q, ida, idb, hi, ⟨ps, hps, rfl⟩, ⟨qs, hqs, rfl⟩, rfl, rfl⟩ := h.destruct
    exact hb.strengthen (VPath.presAt_createDir _ (leafFS_presAt_all (m0 := m0) hi hps)
      (belowC_append ps hqs) (parent_below ps qs hps hqs)).pres
  createFile := by
    intro a b h
    have hb := (layerOps_shift spec).createFile h
    obtain ⟨i, P, q, ida, idb, hi, ⟨ps, hps, rfl⟩, ⟨qs, hqs, rfl⟩, rfl, rfl⟩ := h.destruct
    exact hb.strengthen (VPath.presAt_createFile _ (leafFS_presAt_all (m0 := m0) hi hps)
      (belowC_append ps hqs) (parent_below ps qs hps hqs)).pres
  appendFile := by
    intro a b h
    have hb := (layerOps_shift spec).appendFile h
    obtain ⟨i, P, q, ida, idb, hi, ⟨ps, hps, rfl⟩, ⟨qs, hqs, rfl⟩, rfl, rfl⟩ := h.destruct
    exact hb.strengthen (VPath.presAt_appendFile _ (leafFS_presAt_all (m0 := m0) hi hps)
      (belowC_append ps hqs)).pres
  removeFile := by
    intro a b h
    have hb := (layerOps_shift spec).removeFile h
    obtain ⟨i, P, q, ida, idb, hi, ⟨ps, hps, rfl⟩, ⟨qs, hqs, rfl⟩, rfl, rfl⟩ := h.destruct
    exact hb.strengthen (VPath.presAt_removeFile _ (leafFS_presAt_all (m0 := m0) hi hps)
      (belowC_append ps hqs)).pres
  removeDir := by
    intro a b h hnr
    have hb := (layerOps_shift spec).removeDir h hnr
    obtain ⟨i, P, q, ida, idb, hi, ⟨ps, hps, rfl⟩, ⟨qs, hqs, rfl⟩, rfl, rfl⟩ := h.destruct
    exact hb.strengthen (VPath.presAt_removeDir _ (leafFS_presAt_all (m0 := m0) hi hps)
      (belowC_append ps hqs)).pres
  setCreationTime := by
    intro a b h t
    have hb := (layerOps_shift spec).setCreationTime h t
    obtain ⟨i, P, q, ida, idb, hi, ⟨ps, hps, rfl⟩, ⟨qs, hqs, rfl⟩, rfl, rfl⟩ := h.destruct
    exact hb.strengthen (VPath.presAt_setCreationTime _ t (leafFS_presAt_all (m0 := m0) hi hps)
      (belowC_append ps hqs)).pres
  setModificationTime := by
    intro a b h t
    have hb := (layerOps_shift spec).setModificationTime h t
    obtain ⟨i, P, q, ida, idb, hi, ⟨ps, hps, rfl⟩, ⟨qs, hqs, rfl⟩, rfl, rfl⟩ := h.destruct
    exact hb.strengthen (VPath.presAt_setModificationTime _ t (leafFS_presAt_all (m0 := m0) hi hps)
      (belowC_append ps hqs)).pres
  setAccessTime := by
    intro a b h t
    have hb := (layerOps_shift spec).setAccessTime h t
    obtain ⟨i, P, q, ida, idb, hi, ⟨ps, hps, rfl⟩, ⟨qs, hqs, rfl⟩, rfl, rfl⟩ := h.destruct
    exact hb.strengthen (VPath.presAt_setAccessTime _ t (leafFS_presAt_all (m0 := m0) hi hps)
      (belowC_append ps hqs)).pres
  copyFile := by
    intro a b c d h h'
    have hb := (layerOps_shift spec).copyFile h h'
    obtain ⟨i, Pi, s, ida, idb, hi, ⟨ps, hps, rfl⟩, ⟨ss, hss, rfl⟩, rfl, rfl⟩ := h.destruct
    obtain ⟨j, Pj, t, idc, idd, hj, ⟨pt, hpt, rfl⟩, ⟨ts, hts, rfl⟩, rfl, rfl⟩ := h'.destruct
    exact hb.strengthen (copyFile_pres hi hj hps hpt hss hts ida idc).pres

open Vfs.C07 Vfs.C09 in
/-- **overlays over sub-directory layers, with the frame**: `C09.overlay_over_subdirs` for the
strengthened relation -/
theorem overlay_over_subdirs_frame {is idrs ids : List Nat} {Ps : List Str}
    (h : SubSpec spec is idrs ids Ps) (hne : is ≠ []) :
    SimFS (RFA spec m0) PTrue (HSub spec) (Overlay.fs (subLayers is ids Ps))
      (Overlay.fs (layersN is ids)) := by
  refine Overlay.sim_fs_abs (layerOps_shift_frame spec m0) (subLayers_rel h) ?_
    (simHandles_frameAll' spec m0)
  cases h with
  | nil => exact absurd rfl hne
  | cons _ _ _ => simp [subLayers]

end

end Vfs.Frm
