/-
  The walk iterator (`walk_dir`, `WalkDirIterator::next`, the collected walk) preserves every
  invariant that the four OBSERVER methods of the walked filesystem preserve.

  Proofs/StackLemmas.lean proves the same for paths whose filesystem has `AllPreserve I`
  (`Good`, `GoodWalk`, `pres_walkNext`, `pres_walkAll`); here nothing is assumed about the
  mutating methods (`GoodO`, `GoodWalkO`, `pres_walkNextO`, `pres_walkAllO`). Used by
  Props/C08History.lean for "observers modify nothing".

  Not proved here: anything about what the walk returns.
-/
import VfsModel.Proofs.StackLemmas
namespace Vfs.ObsWalk
open Vfs.VPath
variable {I : World → Prop}

/-- the observers of the path's filesystem preserve `I` -/
def GoodO (I : World → Prop) (c : VPath) : Prop := c.fs.ObsPreserve I

/-- all paths held by a walk state are `GoodO` -/
def GoodWalkO (I : World → Prop) (s : Walk) : Prop :=
  (∀ c ∈ s.inner, GoodO I c) ∧ (∀ c ∈ s.todo, GoodO I c)

theorem readDir_goodO (p : VPath) (h : GoodO I p) :
    Returns p.readDir (fun l => ∀ c ∈ l, GoodO I c) := by
  refine ⟨fun w l he c hc => ?_⟩
  have := (readDir_fs p).post w l he c hc
  unfold GoodO; rw [this.1]; exact h

theorem walkDir_goodO (p : VPath) (h : GoodO I p) : Returns p.walkDir (GoodWalkO I) := by
  unfold walkDir
  apply Returns.bindQ (readDir_goodO p h)
  intro l hl
  exact Returns.pure _ ⟨hl, by simp⟩

theorem walkFind_goodO (inner todo : List VPath) (hi : ∀ c ∈ inner, GoodO I c)
    (ht : ∀ c ∈ todo, GoodO I c) :
    Returns (walkFind inner todo)
      (fun r => (∀ x, r.1 = some (.ok x) → GoodO I x) ∧ GoodWalkO I r.2) := by
  induction todo generalizing inner with
  | nil =>
    cases inner with
    | nil =>
      unfold walkFind
      exact Returns.pure _ ⟨by simp, by simp [GoodWalkO]⟩
    | cons x inner =>
      unfold walkFind
      apply Returns.pure
      refine ⟨?_, fun c hc => hi c (by simp [hc]), by simp⟩
      intro y hy
      simp only [Option.some.injEq, Res.ok.injEq] at hy
      subst hy; exact hi _ (by simp)
  | cons d todo ih =>
    cases inner with
    | cons x inner =>
      unfold walkFind
      apply Returns.pure
      refine ⟨?_, fun c hc => hi c (by simp [hc]), ht⟩
      intro y hy
      simp only [Option.some.injEq, Res.ok.injEq] at hy
      subst hy; exact hi _ (by simp)
    | nil =>
      refine ⟨fun w r he => ?_⟩
      unfold walkFind at he
      have hgood := (readDir_goodO d (ht d (by simp))).post w
      have htl : ∀ c ∈ todo, GoodO I c := fun c hc => ht c (by simp [hc])
      cases hres : d.readDir w with
      | mk res w' =>
        rw [hres] at he hgood
        cases res with
        | ok l =>
          have hl := hgood l rfl
          cases l with
          | nil => exact (ih [] (by simp) htl).post w' r he
          | cons x inner =>
            simp only [Res.ok.injEq] at he
            subst he
            refine ⟨?_, fun c hc => hl c (by simp [hc]), htl⟩
            intro y hy
            simp only [Option.some.injEq, Res.ok.injEq] at hy
            subst hy; exact hl _ (by simp)
        | err k pth =>
          simp only [Res.ok.injEq] at he
          subst he
          exact ⟨by simp, by simp, htl⟩
        | panic => cases he

theorem pres_walkNextO (s : Walk) (hs : GoodWalkO I s) : Preserves I (walkNext s) := by
  unfold walkNext
  apply Preserves.bindQ _ (pres_walkFind s.inner s.todo (fun c hc => hs.2 c hc))
    (walkFind_goodO s.inner s.todo hs.1 hs.2)
  intro r hr
  obtain ⟨item, s'⟩ := r
  dsimp only
  split
  · rename_i x
    have hx : GoodO I x := hr.1 x rfl
    refine ⟨fun w hw => ?_⟩
    have := (pres_metadata x hx).pres w hw
    cases hres : x.metadata w with
    | mk res w' =>
      rw [hres] at this
      cases res with
      | ok md => dsimp only; split <;> exact this
      | err k pth => exact this
      | panic => exact this
  · exact Preserves.pure _

theorem walkNext_goodO (s : Walk) (hs : GoodWalkO I s) :
    Returns (walkNext s) (fun r => (∀ x, r.1 = some (.ok x) → GoodO I x) ∧ GoodWalkO I r.2) := by
  unfold walkNext
  apply Returns.bindQ (walkFind_goodO s.inner s.todo hs.1 hs.2)
  intro r hr
  obtain ⟨item, s'⟩ := r
  dsimp only
  split
  · rename_i x
    have hx : GoodO I x := hr.1 x rfl
    refine ⟨fun w r he => ?_⟩
    cases hres : x.metadata w with
    | mk res w' =>
      rw [hres] at he
      cases res with
      | ok md =>
        dsimp only at he
        split at he
        · simp only [Res.ok.injEq] at he
          subst he
          refine ⟨fun y hy => ?_, hr.2.1, ?_⟩
          · simp only [Option.some.injEq, Res.ok.injEq] at hy
            subst hy; exact hx
          · intro c hc
            simp only [List.mem_cons] at hc
            rcases hc with rfl | hc
            · exact hx
            · exact hr.2.2 c hc
        · simp only [Res.ok.injEq] at he
          subst he
          refine ⟨fun y hy => ?_, hr.2⟩
          simp only [Option.some.injEq, Res.ok.injEq] at hy
          subst hy; exact hx
      | err k pth =>
        simp only [Res.ok.injEq] at he
        subst he
        exact ⟨by simp, hr.2⟩
      | panic => cases he
  · exact Returns.pure _ ⟨fun x hx => hr.1 x hx, hr.2⟩

/-- the whole walk (`walk_dir().collect()`), observers only -/
theorem pres_walkAllO (fuel : Nat) (s : Walk) (hs : GoodWalkO I s) :
    Preserves I (walkAll fuel s) := by
  induction fuel generalizing s with
  | zero => unfold walkAll; exact Preserves.ret _
  | succ fuel ih =>
    unfold walkAll
    apply Preserves.bindQ _ (pres_walkNextO s hs) (walkNext_goodO s hs)
    intro r hr
    obtain ⟨item, s'⟩ := r
    dsimp only
    split
    · exact Preserves.pure _
    · apply Preserves.bind (ih s' hr.2)
      intro _; exact Preserves.pure _

/-- `walk_dir` collected: only the observers of the filesystem are involved -/
theorem pres_walkCollect (fuel : Nat) (p : VPath) (h : p.fs.ObsPreserve I) :
    Preserves I (do let s ← p.walkDir; let _ ← walkAll fuel s; pure ()) := by
  apply Preserves.bindQ _ (pres_walkDir p h) (walkDir_goodO p h)
  intro s hs
  exact Preserves.bind (pres_walkAllO fuel s hs) (fun _ => Preserves.pure _)

end Vfs.ObsWalk
