/-
  Path resolution of the physical model on well-formed maps: every proper ancestor of a present
  path is a directory, so `Phys.lookup` is a plain map lookup wherever the parent is a directory.
-/
import VfsModel.Proofs.MemPath
namespace Vfs

theorem mem_ancestors (p a : Str) :
    a ∈ Phys.ancestors p ↔ ∃ i, i < p.length ∧ p[i]? = some '/' ∧ a = p.take i := by
  unfold Phys.ancestors
  simp only [List.mem_map, List.mem_filter, List.mem_range, decide_eq_true_eq]
  constructor
  · rintro ⟨i, ⟨h1, h2⟩, rfl⟩; exact ⟨i, h1, h2, rfl⟩
  · rintro ⟨i, h1, h2, rfl⟩; exact ⟨i, ⟨h1, h2⟩, rfl⟩

/-- an ancestor is "good" when it is an existing directory -/
def GoodAnc (m : FMap) (a : Str) : Prop := ∃ e, m.find? a = some e ∧ e.ftype = .dir

theorem resolveParent_ok_iff (m : FMap) (p : Str) :
    Phys.resolveParent m p = .ok () ↔ ∀ a ∈ Phys.ancestors p, GoodAnc m a := by
  unfold Phys.resolveParent
  constructor
  · intro h
    split at h
    · rename_i hnone
      intro a ha
      have := List.find?_eq_none.1 hnone a ha
      unfold GoodAnc
      cases hf : m.find? a with
      | none => simp [hf] at this
      | some e => simp [hf] at this; exact ⟨e, rfl, this⟩
    · split at h <;> simp [fail] at h
  · intro h
    split
    · rfl
    · rename_i a hsome
      have hmem := List.mem_of_find?_eq_some hsome
      have hbad := List.find?_some hsome
      obtain ⟨e, he, hd⟩ := h a hmem
      simp [he, hd] at hbad

/-- where `p` splits at its last '/', the ancestors are those of the parent, and the parent -/
theorem ancestors_cases (p a : Str) (hs : '/' ∈ p) (ha : a ∈ Phys.ancestors p) :
    a ∈ Phys.ancestors (parentInternal p) ∨ a = parentInternal p := by
  obtain ⟨hdec, hno⟩ := split_last '/' p hs
  rw [mem_ancestors] at ha
  obtain ⟨i, hi, hc, rfl⟩ := ha
  unfold parentInternal at *
  generalize beforeLast '/' p = P at *
  generalize afterLast '/' p = A at *
  subst hdec
  by_cases h1 : i < P.length
  · left
    rw [mem_ancestors]
    refine ⟨i, h1, ?_, ?_⟩
    · rw [List.getElem?_append_left h1] at hc; exact hc
    · rw [List.take_append_of_le_length (by omega)]
  · by_cases h2 : i = P.length
    · right; subst h2; simp
    · exfalso
      have h3 : P.length < i := by omega
      rw [List.getElem?_append_right (by omega)] at hc
      have : i - P.length = (i - P.length - 1) + 1 := by omega
      rw [this, List.getElem?_cons_succ] at hc
      exact hno (List.mem_of_getElem? hc)

/-- in a well-formed map every proper ancestor of a present path is an existing directory -/
theorem WF.ancestors_good {m : FMap} (h : WF m) : ∀ (n : Nat) (q : Str), q.length ≤ n →
    (∃ e, m.find? q = some e) → ∀ a ∈ Phys.ancestors q, GoodAnc m a := by
  intro n
  induction n with
  | zero =>
    intro q hl _ a ha
    have : q = [] := List.eq_nil_of_length_eq_zero (by omega)
    subst this
    simp [Phys.ancestors] at ha
  | succ n ih =>
    intro q hl ⟨e, he⟩ a ha
    by_cases hne : q = []
    · subst hne; simp [Phys.ancestors] at ha
    · obtain ⟨hs, pe, hp, hd⟩ := h.2 q e he hne
      rcases ancestors_cases q a hs ha with h1 | h1
      · have hlen : (parentInternal q).length < q.length := by
          have hdec := (split_last '/' q hs).1
          have : q.length = (parentInternal q).length + 1 + (afterLast '/' q).length := by
            conv => lhs; rw [hdec]
            unfold parentInternal; simp [List.length_append]; omega
          omega
        exact ih (parentInternal q) (by omega) ⟨pe, hp⟩ a h1
      · subst h1; exact ⟨pe, hp, hd⟩

/-- a present path resolves -/
theorem WF.resolve_present {m : FMap} (h : WF m) (q : Str) (e : Entry) (he : m.find? q = some e) :
    Phys.resolveParent m q = .ok () :=
  (resolveParent_ok_iff m q).2 (h.ancestors_good q.length q (Nat.le_refl _) ⟨e, he⟩)

/-- a path whose parent is an existing directory resolves -/
theorem WF.resolve_child {m : FMap} (h : WF m) (p : Str) (hs : '/' ∈ p) (pe : Entry)
    (hp : m.find? (parentInternal p) = some pe) (hd : pe.ftype = .dir) :
    Phys.resolveParent m p = .ok () := by
  rw [resolveParent_ok_iff]
  intro a ha
  rcases ancestors_cases p a hs ha with h1 | h1
  · exact h.ancestors_good _ _ (Nat.le_refl _) ⟨pe, hp⟩ a h1
  · subst h1; exact ⟨pe, hp, hd⟩

theorem WF.lookup_child {m : FMap} (h : WF m) (p : Str) (hs : '/' ∈ p) (pe : Entry)
    (hp : m.find? (parentInternal p) = some pe) (hd : pe.ftype = .dir) :
    Phys.lookup m p = .ok (m.find? p) := by
  unfold Phys.lookup
  rw [h.resolve_child p hs pe hp hd]

theorem WF.lookup_present {m : FMap} (h : WF m) (q : Str) (e : Entry) (he : m.find? q = some e) :
    Phys.lookup m q = .ok (some e) := by
  unfold Phys.lookup
  rw [h.resolve_present q e he, he]

/-- if the parent is missing or a file, resolution fails (`ENOENT` / `ENOTDIR`) -/
theorem resolve_bad_parent (m : FMap) (p : Str) (hs : '/' ∈ p)
    (hbad : ∀ pe, m.find? (parentInternal p) = some pe → pe.ftype = .file) :
    Phys.resolveParent m p ≠ .ok () := by
  intro hok
  rw [resolveParent_ok_iff] at hok
  have hmem : parentInternal p ∈ Phys.ancestors p := by
    obtain ⟨hdec, _⟩ := split_last '/' p hs
    rw [mem_ancestors]
    unfold parentInternal
    generalize beforeLast '/' p = P at *
    generalize afterLast '/' p = A at *
    subst hdec
    exact ⟨P.length, by simp [List.length_append], by simp, by simp⟩
  obtain ⟨e, he, hd⟩ := hok _ hmem
  have := hbad e he
  rw [this] at hd; cases hd

end Vfs
