/-
  Helper lemmas for C07 (AltrootFS is an exact and confined re-rooting).

  * path algebra: splitting a rendered component list gives the components back, resolving
    good components pushes them all, `AltrootFS::path` on a canonical string appends it;
  * a model of `PhysicalFS::get_path` (`PathBuf::join`);
  * `FS.PresAt I fs B A`: "every method of `fs` preserves `I` when it is called with a path
    satisfying `B` (observers `exists` / `metadata`: `B` or `A`)", the rules for the `VfsPath`
    layer, and the altroot rule `Altroot.presAt`: the altroot calls the filesystem of its root
    only at canonical paths below its root directory (and probes ancestors with observers).
-/
import VfsModel.Props.C06
import VfsModel.Proofs.PreservesOps
namespace Vfs

/-! ### path algebra -/

theorem GoodComp.noSlash {c : Str} (h : GoodComp c) : '/' ∉ c := h.2.1

theorem good_noSlash {cs : List Str} (h : ∀ c ∈ cs, GoodComp c) : ∀ c ∈ cs, '/' ∉ c :=
  fun c hc => (h c hc).2.1

theorem good_append {a b : List Str} (ha : ∀ c ∈ a, GoodComp c) (hb : ∀ c ∈ b, GoodComp c) :
    ∀ c ∈ a ++ b, GoodComp c := by
  intro c hc
  rcases List.mem_append.1 hc with h | h
  · exact ha c h
  · exact hb c h

/-- `"c/c1/c2/…".split('/')` gives the components back -/
theorem splitSlash_comp_renderC (c : Str) (cs : List Str) (hc : '/' ∉ c)
    (hcs : ∀ x ∈ cs, '/' ∉ x) : splitSlash (c ++ renderC cs) = c :: cs := by
  induction cs generalizing c with
  | nil =>
    simp only [renderC_nil, List.append_nil]
    exact C06.splitOnC_single '/' c hc
  | cons d ds ih =>
    have hd := ih d (hcs d (by simp)) (fun x hx => hcs x (by simp [hx]))
    simp only [renderC_cons, List.cons_append]
    show splitOnC '/' (c ++ '/' :: (d ++ renderC ds)) = c :: d :: ds
    rw [C06.splitOnC_append, C06.splitOnC_single '/' c hc]
    show [c] ++ splitSlash (d ++ renderC ds) = c :: d :: ds
    rw [hd]; rfl

/-- the argument `&path[1..]` handed to `join` by `AltrootFS::path`, split at '/' -/
theorem splitSlash_drop_renderC (qs : List Str) (hne : qs ≠ []) (hqs : ∀ c ∈ qs, '/' ∉ c) :
    splitSlash ((renderC qs).drop 1) = qs := by
  cases qs with
  | nil => exact absurd rfl hne
  | cons c cs =>
    simp only [renderC_cons, List.cons_append, List.drop_succ_cons, List.drop_zero]
    exact splitSlash_comp_renderC c cs (hqs c (by simp)) (fun x hx => hqs x (by simp [hx]))

/-- good components are all pushed -/
theorem resolve_good_append (s qs : List Str) (hqs : ∀ c ∈ qs, GoodComp c) :
    resolve s qs = s ++ qs := by
  induction qs generalizing s with
  | nil => simp [resolve]
  | cons c cs ih =>
    obtain ⟨h1, _, h3, h4⟩ := hqs c (by simp)
    simp only [resolve, h1, h3, h4, or_self, if_false]
    rw [ih _ (fun x hx => hqs x (by simp [hx]))]
    simp

theorem renderC_getLast (cs : List Str) (hne : cs ≠ []) (h : ∀ c ∈ cs, GoodComp c) :
    ∃ x, (renderC cs).getLast? = some x ∧ x ≠ '/' := by
  rcases List.eq_nil_or_concat cs with rfl | ⟨l, c, rfl⟩
  · exact absurd rfl hne
  · simp only [List.concat_eq_append] at h ⊢
    obtain ⟨h1, h2, _, _⟩ := h c (by simp)
    cases c with
    | nil => exact absurd rfl h1
    | cons y ys =>
      have hrw : renderC (l ++ [y :: ys]) = (renderC l ++ ['/']) ++ (y :: ys) := by simp
      rw [hrw, List.getLast?_append]
      cases hl : (y :: ys).getLast? with
      | none => simp at hl
      | some x =>
        refine ⟨x, by simp, ?_⟩
        intro hx; subst hx
        exact h2 (List.mem_of_getLast? hl)

theorem comp_renderC_getLast (c : Str) (cs : List Str) (hc : GoodComp c)
    (h : ∀ x ∈ cs, GoodComp x) : ∃ x, (c ++ renderC cs).getLast? = some x ∧ x ≠ '/' := by
  by_cases hne : cs = []
  · subst hne
    simp only [renderC_nil, List.append_nil]
    obtain ⟨h1, h2, _, _⟩ := hc
    cases hl : c.getLast? with
    | none => simp at hl; exact absurd hl h1
    | some x =>
      refine ⟨x, rfl, ?_⟩
      intro hx; subst hx
      exact h2 (List.mem_of_getLast? hl)
  · obtain ⟨x, hx, hx'⟩ := renderC_getLast cs hne h
    exact ⟨x, by rw [List.getLast?_append, hx]; rfl, hx'⟩

/-- joining the canonical relative string `c1/c2/…` onto a canonical base appends it -/
theorem joinInternal_good (ps : List Str) (c : Str) (cs : List Str)
    (hps : ∀ x ∈ ps, '/' ∉ x) (hc : GoodComp c) (hcs : ∀ x ∈ cs, GoodComp x) :
    joinInternal (renderC ps) (c ++ renderC cs) = .ok (renderC (ps ++ c :: cs)) := by
  have hne : c ++ renderC cs ≠ [] := by
    intro h; exact hc.1 (List.append_eq_nil_iff.1 h).1
  have hts : ¬ trailingSlash (c ++ renderC cs) := by
    rintro ⟨_, hl⟩
    obtain ⟨x, hx, hx'⟩ := comp_renderC_getLast c cs hc hcs
    rw [hl] at hx; injection hx with hx; exact hx' hx.symm
  have hhead : (c ++ renderC cs).head? ≠ some '/' := by
    obtain ⟨h1, h2, _, _⟩ := hc
    cases c with
    | nil => exact absurd rfl h1
    | cons y ys =>
      intro h; simp at h; subst h; simp at h2
  rw [C06.join_resolve ps _ hps hne hts,
    splitSlash_comp_renderC c cs hc.noSlash (good_noSlash hcs)]
  unfold C06.startStack
  rw [if_neg hhead, resolve_good_append ps (c :: cs)]
  intro x hx
  rcases List.mem_cons.1 hx with rfl | hx
  · exact hc
  · exact hcs x hx

namespace Altroot

/-- `AltrootFS::path` on a canonical string: the path of the root with the string appended -/
theorem path_renderC (root : VPath) (ps qs : List Str) (hroot : root.path = renderC ps)
    (hps : ∀ c ∈ ps, GoodComp c) (hqs : ∀ c ∈ qs, GoodComp c) :
    path root (renderC qs) = .ok (root.withStr (renderC (ps ++ qs))) := by
  cases qs with
  | nil =>
    unfold path
    rw [if_pos renderC_nil]
    cases root
    simp only at hroot
    subst hroot
    simp [VPath.withStr]
  | cons c cs =>
    unfold path
    have hne : renderC (c :: cs) ≠ [] := by simp
    have hh : (renderC (c :: cs)).head? = some '/' := by simp
    rw [if_neg hne, if_pos hh]
    have hd : (renderC (c :: cs)).drop 1 = c ++ renderC cs := by simp
    rw [hd]
    unfold VPath.join
    rw [hroot, joinInternal_good ps c cs (good_noSlash hps) (hqs c (by simp))
      (fun x hx => hqs x (by simp [hx]))]
    rfl

/-- the same, for canonical strings -/
theorem path_canon (root : VPath) (q : Str) (hroot : Canon root.path) (hq : Canon q) :
    path root q = .ok (root.withStr (root.path ++ q)) := by
  obtain ⟨ps, hps, hp⟩ := hroot
  obtain ⟨qs, hqs, rfl⟩ := hq
  rw [path_renderC root ps qs hp hps hqs, hp, renderC_append]

end Altroot

/-! ### `PhysicalFS::get_path` (src/impls/physical.rs:26-31) -/

/-- the separator `PathBuf::push` inserts before a relative argument: none when the buffer is
empty or already ends in a separator (std: `need_sep = last byte is not a separator`, `false`
for an empty buffer), otherwise "/" -/
def pathSep (root : Str) : Str := if root = [] ∨ root.getLast? = some '/' then [] else ['/']

/-- `PathBuf::join` on Unix, as strings: an absolute argument REPLACES the base, a relative one
(the empty string included: `"/srv".join("")` is `"/srv/"`) is appended after a separator -/
def pathBufJoin (root arg : Str) : Str :=
  if arg.head? = some '/' then arg else root ++ pathSep root ++ arg

/-- `PhysicalFS::get_path`: strip ONE leading '/', then `self.root.join(path)` -/
def physGetPath (root p : Str) : Str :=
  pathBufJoin root (if p.head? = some '/' then p.drop 1 else p)

theorem physGetPath_renderC (root : Str) (cs : List Str) (hcs : ∀ c ∈ cs, GoodComp c) :
    physGetPath root (renderC cs) = root ++ pathSep root ++ (renderC cs).drop 1 := by
  cases cs with
  | nil => simp [physGetPath, pathBufJoin]
  | cons c cs =>
    obtain ⟨h1, h2, _, _⟩ := hcs c (by simp)
    have hhead : (c ++ renderC cs).head? ≠ some '/' := by
      cases c with
      | nil => exact absurd rfl h1
      | cons y ys => intro h; simp at h; subst h; simp at h2
    simp only [physGetPath, renderC_cons, List.cons_append, List.head?_cons, if_true,
      List.drop_succ_cons, List.drop_zero, pathBufJoin, if_neg hhead]

/-! ### preservation at selected paths -/

/-- every method of `fs` preserves `I` when called with a path satisfying `B`; the observers
`exists` and `metadata` also with a path satisfying `A`; handles handed out for a path
satisfying `B` preserve `I` -/
structure FS.PresAt (I : World → Prop) (fs : FS) (B A : Str → Prop) : Prop where
  readDir : ∀ p, B p → Preserves I (fs.readDir p)
  createDir : ∀ p, B p → Preserves I (fs.createDir p)
  openFile : ∀ p, B p → Preserves I (fs.openFile p)
  createFile : ∀ p, B p → Preserves I (fs.createFile p)
  appendFile : ∀ p, B p → Preserves I (fs.appendFile p)
  metadata : ∀ p, B p ∨ A p → Preserves I (fs.metadata p)
  setCreationTime : ∀ p t, B p → Preserves I (fs.setCreationTime p t)
  setModificationTime : ∀ p t, B p → Preserves I (fs.setModificationTime p t)
  setAccessTime : ∀ p t, B p → Preserves I (fs.setAccessTime p t)
  exists_ : ∀ p, B p ∨ A p → Preserves I (fs.exists_ p)
  removeFile : ∀ p, B p → Preserves I (fs.removeFile p)
  removeDir : ∀ p, B p → Preserves I (fs.removeDir p)
  copyFile : ∀ s d, B s → B d → Preserves I (fs.copyFile s d)
  moveFile : ∀ s d, B s → B d → Preserves I (fs.moveFile s d)
  moveDir : ∀ s d, B s → B d → Preserves I (fs.moveDir s d)
  createHandle : ∀ p, B p → Returns (fs.createFile p) (HandleOK I)
  appendHandle : ∀ p, B p → Returns (fs.appendFile p) (HandleOK I)

theorem FS.AllPreserve.presAt {I : World → Prop} {fs : FS} (h : fs.AllPreserve I)
    (B A : Str → Prop) : fs.PresAt I B A where
  readDir p _ := h.readDir p
  createDir p _ := h.createDir p
  openFile p _ := h.openFile p
  createFile p _ := h.createFile p
  appendFile p _ := h.appendFile p
  metadata p _ := h.metadata p
  setCreationTime p t _ := h.setCreationTime p t
  setModificationTime p t _ := h.setModificationTime p t
  setAccessTime p t _ := h.setAccessTime p t
  exists_ p _ := h.exists_ p
  removeFile p _ := h.removeFile p
  removeDir p _ := h.removeDir p
  copyFile s d _ _ := h.copyFile s d
  moveFile s d _ _ := h.moveFile s d
  moveDir s d _ _ := h.moveDir s d
  createHandle p _ := h.createHandle p
  appendHandle p _ := h.appendHandle p

/-- fewer paths: weaker hypothesis -/
theorem FS.PresAt.mono {I : World → Prop} {fs : FS} {B A B' A' : Str → Prop}
    (h : fs.PresAt I B A) (hB : ∀ p, B' p → B p) (hA : ∀ p, A' p → B p ∨ A p) :
    fs.PresAt I B' A' where
  readDir p hp := h.readDir p (hB p hp)
  createDir p hp := h.createDir p (hB p hp)
  openFile p hp := h.openFile p (hB p hp)
  createFile p hp := h.createFile p (hB p hp)
  appendFile p hp := h.appendFile p (hB p hp)
  metadata p hp := h.metadata p (hp.elim (fun x => Or.inl (hB p x)) (hA p))
  setCreationTime p t hp := h.setCreationTime p t (hB p hp)
  setModificationTime p t hp := h.setModificationTime p t (hB p hp)
  setAccessTime p t hp := h.setAccessTime p t (hB p hp)
  exists_ p hp := h.exists_ p (hp.elim (fun x => Or.inl (hB p x)) (hA p))
  removeFile p hp := h.removeFile p (hB p hp)
  removeDir p hp := h.removeDir p (hB p hp)
  copyFile s d hs hd := h.copyFile s d (hB s hs) (hB d hd)
  moveFile s d hs hd := h.moveFile s d (hB s hs) (hB d hd)
  moveDir s d hs hd := h.moveDir s d (hB s hs) (hB d hd)
  createHandle p hp := h.createHandle p (hB p hp)
  appendHandle p hp := h.appendHandle p (hB p hp)

namespace VPath
variable {I : World → Prop} {B A : Str → Prop}

theorem presAt_exists (x : VPath) (h : x.fs.PresAt I B A) (hx : B x.path ∨ A x.path) :
    Preserves I x.exists_ := h.exists_ _ hx

theorem presAt_metadata (x : VPath) (h : x.fs.PresAt I B A) (hx : B x.path ∨ A x.path) :
    Preserves I x.metadata := Preserves.withPath _ (h.metadata _ hx)

/-- `get_parent` probes the parent with `exists` and `metadata` only -/
theorem presAt_getParent (x : VPath) (h : x.fs.PresAt I B A)
    (hp : B (parentInternal x.path) ∨ A (parentInternal x.path)) : Preserves I x.getParent := by
  have h1 : Preserves I x.parent.exists_ := h.exists_ _ hp
  have h2 : Preserves I x.parent.metadata := Preserves.withPath _ (h.metadata _ hp)
  unfold getParent
  pres

theorem presAt_createDir (x : VPath) (h : x.fs.PresAt I B A) (hx : B x.path)
    (hp : B (parentInternal x.path) ∨ A (parentInternal x.path)) : Preserves I x.createDir := by
  have h1 := presAt_getParent x h hp
  have h2 := h.createDir _ hx
  unfold createDir
  pres

theorem presAt_createFile (x : VPath) (h : x.fs.PresAt I B A) (hx : B x.path)
    (hp : B (parentInternal x.path) ∨ A (parentInternal x.path)) : Preserves I x.createFile := by
  have h1 := presAt_getParent x h hp
  have h2 := h.createFile _ hx
  unfold createFile
  pres

theorem presAt_createFile_handle (x : VPath) (h : x.fs.PresAt I B A) (hx : B x.path) :
    Returns x.createFile (HandleOK I) := by
  unfold createFile
  apply Returns.bind
  intro _
  exact Returns.withPath _ (h.createHandle _ hx)

theorem presAt_readDir (x : VPath) (h : x.fs.PresAt I B A) (hx : B x.path) :
    Preserves I x.readDir := by
  have h1 := h.readDir _ hx
  unfold readDir
  pres

theorem presAt_openFile (x : VPath) (h : x.fs.PresAt I B A) (hx : B x.path) :
    Preserves I x.openFile := Preserves.withPath _ (h.openFile _ hx)
theorem presAt_appendFile (x : VPath) (h : x.fs.PresAt I B A) (hx : B x.path) :
    Preserves I x.appendFile := Preserves.withPath _ (h.appendFile _ hx)
theorem presAt_appendFile_handle (x : VPath) (h : x.fs.PresAt I B A) (hx : B x.path) :
    Returns x.appendFile (HandleOK I) := Returns.withPath _ (h.appendHandle _ hx)
theorem presAt_removeFile (x : VPath) (h : x.fs.PresAt I B A) (hx : B x.path) :
    Preserves I x.removeFile := Preserves.withPath _ (h.removeFile _ hx)
theorem presAt_removeDir (x : VPath) (h : x.fs.PresAt I B A) (hx : B x.path) :
    Preserves I x.removeDir := Preserves.withPath _ (h.removeDir _ hx)
theorem presAt_setCreationTime (x : VPath) (t : Int) (h : x.fs.PresAt I B A) (hx : B x.path) :
    Preserves I (x.setCreationTime t) := Preserves.withPath _ (h.setCreationTime _ _ hx)
theorem presAt_setModificationTime (x : VPath) (t : Int) (h : x.fs.PresAt I B A)
    (hx : B x.path) : Preserves I (x.setModificationTime t) :=
  Preserves.withPath _ (h.setModificationTime _ _ hx)
theorem presAt_setAccessTime (x : VPath) (t : Int) (h : x.fs.PresAt I B A) (hx : B x.path) :
    Preserves I (x.setAccessTime t) := Preserves.withPath _ (h.setAccessTime _ _ hx)

/-- `copy_file` between two paths of one filesystem value -/
theorem presAt_copyFile (src dst : VPath) (hfs : dst.fs = src.fs) (h : src.fs.PresAt I B A)
    (hs : B src.path) (hd : B dst.path)
    (hp : B (parentInternal dst.path) ∨ A (parentInternal dst.path)) :
    Preserves I (src.copyFile dst) := by
  have h' : dst.fs.PresAt I B A := by rw [hfs]; exact h
  unfold copyFile
  apply Preserves.withPath
  apply Preserves.bind (presAt_exists dst h' (Or.inl hd))
  intro b
  split
  · exact Preserves.failAt _ _
  · apply Preserves.bind
    · split
      · exact Preserves.attempt (h.copyFile _ _ hs hd)
      · exact Preserves.pure _
    · intro fast
      split
      · exact Preserves.pure _
      · exact Preserves.ret _
      · split
        · exact Preserves.ret _
        · apply Preserves.bind (presAt_openFile src h hs)
          intro r
          apply Preserves.bindQ _ (presAt_createFile dst h' hd hp)
            (presAt_createFile_handle dst h' hd)
          intro wh hwh
          exact pres_ioCopyAndDrop r wh _ hwh

end VPath

/-! ### the altroot rule -/

/-- canonical strings at or below the directory `/p1/…/pn`, component-wise -/
def BelowC (ps : List Str) (s : Str) : Prop :=
  ∃ qs : List Str, (∀ c ∈ qs, GoodComp c) ∧ s = renderC (ps ++ qs)

/-- the directory `/p1/…/pn` and the directories above it -/
def Ancestor (ps : List Str) (s : Str) : Prop := ∃ k, s = renderC (ps.take k)

theorem BelowC.canon {ps : List Str} {s : Str} (hps : ∀ c ∈ ps, GoodComp c) (h : BelowC ps s) :
    Canon s := by
  obtain ⟨qs, hqs, rfl⟩ := h
  exact ⟨ps ++ qs, good_append hps hqs, rfl⟩

theorem Ancestor.canon {ps : List Str} {s : Str} (hps : ∀ c ∈ ps, GoodComp c)
    (h : Ancestor ps s) : Canon s := by
  obtain ⟨k, rfl⟩ := h
  exact ⟨ps.take k, fun c hc => hps c (List.mem_of_mem_take hc), rfl⟩

/-- the parent of a path at or below `ps` is at or below `ps`, or (for `ps` itself) is the
directory just above it -/
theorem parent_belowC (ps qs : List Str) (hps : ∀ c ∈ ps, GoodComp c)
    (hqs : ∀ c ∈ qs, GoodComp c) :
    BelowC ps (parentInternal (renderC (ps ++ qs))) ∨
      Ancestor ps (parentInternal (renderC (ps ++ qs))) := by
  rw [parentInternal_renderC _ (good_noSlash (good_append hps hqs))]
  by_cases hne : qs = []
  · subst hne
    right
    exact ⟨ps.length - 1, by rw [List.append_nil, List.dropLast_eq_take]⟩
  · left
    rw [List.dropLast_append_of_ne_nil hne]
    exact ⟨qs.dropLast, fun c hc => hqs c (List.dropLast_subset _ hc), rfl⟩

namespace Altroot
variable {I : World → Prop}

theorem bind_path {α} (root : VPath) (q : Str) (x : VPath) (hp : path root q = .ok x)
    (f : VPath → M α) : (M.ret (path root q) >>= f) = f x := by
  rw [hp]; rfl

/-- **The altroot rule.** An altroot whose root is the directory `/p1/…/pn` calls the
filesystem of its root only with canonical paths at or below that directory — and, for the
parent probe of `create_dir("")` / `create_file("")`, `exists` / `metadata` on the directory
just above it. Hence: whatever that filesystem preserves when called at such paths, every
method of the altroot preserves when called with a canonical path, and so do the handles it
returns. -/
theorem presAt (root : VPath) (ps : List Str) (hroot : root.path = renderC ps)
    (hps : ∀ c ∈ ps, GoodComp c) (h : root.fs.PresAt I (BelowC ps) (Ancestor ps)) :
    (fs root).PresAt I Canon (fun _ => False) := by
  have hpath : ∀ qs : List Str, (∀ c ∈ qs, GoodComp c) →
      path root (renderC qs) = .ok (root.withStr (renderC (ps ++ qs))) :=
    fun qs hqs => path_renderC root ps qs hroot hps hqs
  have hb : ∀ qs : List Str, (∀ c ∈ qs, GoodComp c) → BelowC ps (renderC (ps ++ qs)) :=
    fun qs hqs => ⟨qs, hqs, rfl⟩
  have hfs : ∀ s, ((root.withStr s).fs).PresAt I (BelowC ps) (Ancestor ps) := fun _ => h
  refine { readDir := ?_, createDir := ?_, openFile := ?_, createFile := ?_, appendFile := ?_,
           metadata := ?_, setCreationTime := ?_, setModificationTime := ?_,
           setAccessTime := ?_, exists_ := ?_, removeFile := ?_, removeDir := ?_,
           copyFile := ?_, moveFile := ?_, moveDir := ?_, createHandle := ?_,
           appendHandle := ?_ }
  · rintro _ ⟨qs, hqs, rfl⟩
    show Preserves I (M.ret (path root (renderC qs)) >>= _)
    rw [bind_path root _ _ (hpath qs hqs)]
    exact Preserves.bind (VPath.presAt_readDir _ (hfs _) (hb qs hqs)) (fun _ => Preserves.pure _)
  · rintro _ ⟨qs, hqs, rfl⟩
    show Preserves I (M.ret (path root (renderC qs)) >>= _)
    rw [bind_path root _ _ (hpath qs hqs)]
    exact VPath.presAt_createDir _ (hfs _) (hb qs hqs) (parent_belowC ps qs hps hqs)
  · rintro _ ⟨qs, hqs, rfl⟩
    show Preserves I (M.ret (path root (renderC qs)) >>= _)
    rw [bind_path root _ _ (hpath qs hqs)]
    exact VPath.presAt_openFile _ (hfs _) (hb qs hqs)
  · rintro _ ⟨qs, hqs, rfl⟩
    show Preserves I (M.ret (path root (renderC qs)) >>= _)
    rw [bind_path root _ _ (hpath qs hqs)]
    exact VPath.presAt_createFile _ (hfs _) (hb qs hqs) (parent_belowC ps qs hps hqs)
  · rintro _ ⟨qs, hqs, rfl⟩
    show Preserves I (M.ret (path root (renderC qs)) >>= _)
    rw [bind_path root _ _ (hpath qs hqs)]
    exact VPath.presAt_appendFile _ (hfs _) (hb qs hqs)
  · rintro _ (⟨qs, hqs, rfl⟩ | hf)
    · show Preserves I (M.ret (path root (renderC qs)) >>= _)
      rw [bind_path root _ _ (hpath qs hqs)]
      exact VPath.presAt_metadata _ (hfs _) (Or.inl (hb qs hqs))
    · exact absurd hf id
  · rintro _ t ⟨qs, hqs, rfl⟩
    show Preserves I (M.ret (path root (renderC qs)) >>= _)
    rw [bind_path root _ _ (hpath qs hqs)]
    exact VPath.presAt_setCreationTime _ t (hfs _) (hb qs hqs)
  · rintro _ t ⟨qs, hqs, rfl⟩
    show Preserves I (M.ret (path root (renderC qs)) >>= _)
    rw [bind_path root _ _ (hpath qs hqs)]
    exact VPath.presAt_setModificationTime _ t (hfs _) (hb qs hqs)
  · rintro _ t ⟨qs, hqs, rfl⟩
    show Preserves I (M.ret (path root (renderC qs)) >>= _)
    rw [bind_path root _ _ (hpath qs hqs)]
    exact VPath.presAt_setAccessTime _ t (hfs _) (hb qs hqs)
  · rintro _ (⟨qs, hqs, rfl⟩ | hf)
    · simp only [fs, hpath qs hqs]
      exact VPath.presAt_exists _ (hfs _) (Or.inl (hb qs hqs))
    · exact absurd hf id
  · rintro _ ⟨qs, hqs, rfl⟩
    show Preserves I (M.ret (path root (renderC qs)) >>= _)
    rw [bind_path root _ _ (hpath qs hqs)]
    exact VPath.presAt_removeFile _ (hfs _) (hb qs hqs)
  · rintro _ ⟨qs, hqs, rfl⟩
    show Preserves I (M.ret (path root (renderC qs)) >>= _)
    rw [bind_path root _ _ (hpath qs hqs)]
    exact VPath.presAt_removeDir _ (hfs _) (hb qs hqs)
  · rintro _ _ ⟨ss, hss, rfl⟩ ⟨ds, hds, rfl⟩
    simp only [fs]
    split
    · exact Preserves.failK _
    · rw [bind_path root _ _ (hpath ss hss)]
      show Preserves I (M.ret (path root (renderC ds)) >>= _)
      rw [bind_path root _ _ (hpath ds hds)]
      exact VPath.presAt_copyFile _ _ rfl (hfs _) (hb ss hss) (hb ds hds)
        (parent_belowC ps ds hps hds)
  · intro _ _ _ _; exact Preserves.failK _
  · intro _ _ _ _; exact Preserves.failK _
  · rintro _ ⟨qs, hqs, rfl⟩
    show Returns (M.ret (path root (renderC qs)) >>= _) _
    rw [bind_path root _ _ (hpath qs hqs)]
    exact VPath.presAt_createFile_handle _ (hfs _) (hb qs hqs)
  · rintro _ ⟨qs, hqs, rfl⟩
    show Returns (M.ret (path root (renderC qs)) >>= _) _
    rw [bind_path root _ _ (hpath qs hqs)]
    exact VPath.presAt_appendFile_handle _ (hfs _) (hb qs hqs)

end Altroot

end Vfs
