/-
  `copy_file` / `move_file` WITHIN one overlay over n in-memory layers (generic route: the
  overlay's own `copy_file` / `move_file` answer NotSupported), behind
  `C11.overlay_copyFile_exact` / `overlay_moveFile_exact` (Props/C11Overlay.lean).

  * maps that differ only in access stamps (`MapSame`, `LowerSame`): `OInv`, the view (`VSame`),
    `NamesOK` are insensitive to them;
  * the steps the two operations are made of, as facts about `OSt` states:
      `o_openFile_step`   (open_file on a file of the view: the handle holds the view's bytes; the
                           serving layer — upper or lower — gets an access stamp; view unchanged),
      `o_createFile_step` (create_file on a path that is not a directory, below a directory of the
                           view: an EMPTY file is there, handle on the upper leaf),
      `o_publish_step`    (dropping a write handle on a file of the upper map publishes its buffer),
      `o_removeFile_step'`(remove_file on a file of the view, with the frame of the UPPER MAP);
  * `copyFile_route`, `moveFile_route`: the `VfsPath` code, evaluated along these steps.
-/
import VfsModel.Proofs.OverlayCompositeLemmas
set_option linter.unusedSimpArgs false
set_option linter.unusedVariables false
set_option linter.unusedSectionVars false
namespace Vfs.C11
open Vfs Vfs.Overlay Vfs.C02 Vfs.C01 Vfs.C09 Vfs.C05

/-! ### access stamps are invisible -/

/-- the same map up to access times -/
def MapSame (m m' : FMap) : Prop := ∀ q, (m'.find? q).map stripAcc = (m.find? q).map stripAcc

theorem MapSame.refl (m : FMap) : MapSame m m := fun _ => rfl

theorem strip_none {a b : Option Entry} (h : a.map stripAcc = b.map stripAcc) :
    a = none ↔ b = none := by
  cases a <;> cases b <;> simp at h ⊢

theorem strip_some {a b : Option Entry} (h : a.map stripAcc = b.map stripAcc) {e : Entry}
    (ha : a = some e) : ∃ e0, b = some e0 ∧ e0.ftype = e.ftype ∧ e0.content = e.content := by
  subst ha
  cases b with
  | none => simp at h
  | some e0 =>
    simp only [Option.map_some, Option.some.injEq] at h
    exact ⟨e0, rfl, (show (stripAcc e).ftype = (stripAcc e0).ftype from congrArg Entry.ftype h).symm,
      (show (stripAcc e).content = (stripAcc e0).content from congrArg Entry.content h).symm⟩

theorem MapSame.contains {m m' : FMap} (h : MapSame m m') (k : Str) :
    m'.contains k = m.contains k := by
  unfold FMap.contains
  have := h k
  cases h1 : m'.find? k <;> cases h2 : m.find? k <;> rw [h1, h2] at this <;> simp at this ⊢

theorem lowerSame_cons_inv {a : FMap} {as l : List FMap} (h : LowerSame (a :: as) l) :
    ∃ b bs, l = b :: bs ∧ MapSame a b ∧ LowerSame as bs := by
  cases h with
  | cons h1 h2 => exact ⟨_, _, rfl, h1, h2⟩

theorem _root_.Vfs.C09.OInv.mapSame {mu mu1 : FMap} {ms ms1 : List FMap} (inv : OInv mu ms)
    (hm : MapSame mu mu1) (hl : LowerSame ms ms1) : OInv mu1 ms1 := by
  have inv' := inv.lowerSame hl
  refine ⟨⟨?_, ?_⟩, ?_, ?_, ?_, ?_⟩
  · obtain ⟨e, he, hd⟩ := inv.root.root
    obtain ⟨e1, he1, hft, _⟩ := strip_some (hm []).symm he
    exact ⟨e1, he1, by rw [hft]; exact hd⟩
  · rw [hm.contains]; exact inv.root.noMark
  · intro m hmem
    rcases List.mem_cons.1 hmem with rfl | hmem
    · exact wf_of_stripAcc (inv.wf mu (by simp)) hm
    · exact inv'.wf m (by simp [hmem])
  · intro cs hcs hnw e he
    obtain ⟨e0, he0, hft, _⟩ := strip_some (hm _) he
    rw [← hft]; exact inv.woarea cs hcs hnw e0 he0
  · intro q e hq he
    obtain ⟨e0, he0, hft, _⟩ := strip_some (hm _) he
    rw [← hft]; exact inv.markFile q e0 hq he0
  · intro q hq hc
    rw [hm.contains] at hc
    exact (strip_none (hm q)).2 (inv.ghost q hq hc)

theorem oview_mapSame {mu mu1 : FMap} {ms ms1 : List FMap} (hm : MapSame mu mu1)
    (hl : LowerSame ms ms1) : VSame (oview (mu :: ms)) (oview (mu1 :: ms1)) := by
  intro q hq
  apply vcore_of_stripAcc
  by_cases hq0 : q = []
  · subst hq0; rw [oview_root, oview_root]; exact hm []
  · rw [oview_ne hq0, oview_ne hq0, viewN_cons, viewN_cons, hm.contains]
    split
    · rfl
    · exact firstN_lowerSame (LowerSame.cons hm hl) q

/-- the name discipline only looks at which visible paths are present -/
theorem namesOK_of_presence {all all' : List FMap}
    (h : ∀ q, Vis q → oview all' q ≠ none → oview all q ≠ none) (hn : NamesOK all) :
    NamesOK all' := by
  intro ds n hds hs hpres hroot
  have hnr := child_NR hds hs hroot
  have hq0 : renderC ds ++ '/' :: n ≠ [] := by simp
  apply hn ds n hds hs _ hroot
  rw [← oview_ne hq0] at hpres ⊢
  exact h _ (Or.inr hnr) hpres

theorem namesOK_of_vsame {all all' : List FMap} (hs : VSame (oview all) (oview all'))
    (hn : NamesOK all) : NamesOK all' :=
  namesOK_of_presence (fun q hq hp h0 => hp ((none_of_vcore (hs q hq)).2 h0)) hn

/-- a change confined to one disciplined path keeps the name discipline -/
theorem namesOK_of_frame {all all' : List FMap} {ds : List Str} {n : Str} (hp : OpPath (ds ++ [n]))
    (hf : VFrame (oview all) (oview all') (renderC (ds ++ [n]))) (hn : NamesOK all) :
    NamesOK all' := by
  intro ds' n' hds hs hpres hroot
  have hnr := child_NR hds hs hroot
  have hq0 : renderC ds' ++ '/' :: n' ≠ [] := by simp
  by_cases hq : renderC ds' ++ '/' :: n' = renderC (ds ++ [n])
  · rw [renderC_snoc] at hq
    have := congrArg (afterLast '/') hq
    rw [afterLast_append_delim '/' _ n' hs, afterLast_append_delim '/' _ n hp.hn.noSlash] at this
    rw [this]
    exact ⟨hp.hn, hp.nowo n (by simp)⟩
  · have hiff := none_of_vcore (hf _ (Or.inr hnr) hq)
    rw [oview_ne hq0, oview_ne hq0] at hiff
    exact hn ds' n' hds hs (fun h0 => hpres (hiff.2 h0)) hroot

/-! ### the steps -/

section steps
variable {u idu : Nat} {is ids : List Nat} {ms : List FMap} {w : World} {mu : FMap}
  (st : OSt u idu is ids ms w mu) (id : Nat)
include st

/-- **open_file on a file of the view**: the handle holds exactly the view's bytes at position
0; the serving layer gets an access stamp (`MapSame` for the upper map, `LowerSame` for the lower
ones), so the view is unchanged and the invariants hold again -/
theorem o_openFile_step {cs : List Str} (hp : OpPath cs) {bs : Bytes}
    (hf : VHasFile (oview (mu :: ms)) (renderC cs) bs) :
    ∃ w1 mu1 ms1, VPath.openFile ⟨Overlay.fs (layersN (u :: is) (idu :: ids)), id, renderC cs⟩ w
        = (.ok { content := bs, pos := 0 }, w1) ∧
      OSt u idu is ids ms1 w1 mu1 ∧ MapSame mu mu1 ∧ LowerSame ms ms1 ∧
      VSame (oview (mu :: ms)) (oview (mu1 :: ms1)) ∧
      (NamesOK (mu :: ms) → NamesOK (mu1 :: ms1)) := by
  obtain ⟨e, he, hfile, hc⟩ := hf
  rw [oview_ne (renderC_ne_nil hp.ne)] at he
  obtain ⟨k, i, m, w1, hfa, hi, hme, hopen, _, hown⟩ :=
    openFile_serves_viewN st.own cs hp.ne hp.good e he hfile
  have hls := LowerSame.set hfa.get (C04.insert_touch_same m (renderC cs) e hme)
  obtain ⟨mu1, ms1, hl, hm1, hl1⟩ := lowerSame_cons_inv hls
  rw [hl] at hown
  have hs := oview_mapSame hm1 hl1
  refine ⟨w1, mu1, ms1, ?_, ⟨hown, st.inv.mapSame hm1 hl1, st.vwf.same hs⟩, hm1, hl1, hs,
    namesOK_of_vsame hs⟩
  show M.withPath (renderC cs)
    ((Overlay.fs (layersN (u :: is) (idu :: ids))).openFile (renderC cs)) w = _
  rw [run_withPath, hopen, hc]
  rfl

/-- **create_file** (as `VfsPath::create_file`: parent probe, then the trait call) on a
disciplined path that is not a directory of the view, below a directory of the view: an EMPTY
file is at the path (in the upper map and in the view), the handle writes to the upper leaf,
every other visible path keeps its `vcore` -/
theorem o_createFile_step {ds : List Str} {n : Str} (hp : OpPath (ds ++ [n]))
    (hd : VIsDir (oview (mu :: ms)) (renderC ds))
    (hnd : ¬ VIsDir (oview (mu :: ms)) (renderC (ds ++ [n]))) :
    ∃ mu2, VPath.createFile
        ⟨Overlay.fs (layersN (u :: is) (idu :: ids)), id, renderC (ds ++ [n])⟩ w
        = (.ok { leaf := u, key := renderC (ds ++ [n]), kind := .memFile, buf := [], pos := 0 },
            w.setLeafFiles u mu2) ∧
      OSt u idu is ids ms (w.setLeafFiles u mu2) mu2 ∧
      (NamesOK (mu :: ms) → NamesOK (mu2 :: ms)) ∧
      mu2.find? (renderC (ds ++ [n])) = some fileEntryNow ∧
      oview (mu2 :: ms) (renderC (ds ++ [n])) = some fileEntryNow ∧
      VFrame (oview (mu :: ms)) (oview (mu2 :: ms)) (renderC (ds ++ [n])) := by
  have hg := run_getParent_overlay st.own st.inv hp id
  rw [if_pos ((pIsDirN_iff _ _).2 hd)] at hg
  obtain ⟨_, _, hC⟩ := pCreateFileN_cases st.inv st.vwf hp
  obtain ⟨mu2, hpure, hmu2⟩ := hC hd hnd
  obtain ⟨hE, inv1, hs1, hpok, hp1, hm1⟩ := ensure_ok st.inv hp st.vwf hd
  have hwf2 : WF mu2 := by
    have := wf_pCreateFileN (ms := ms) (st.inv.wf mu (by simp)) (ds ++ [n])
    rw [hpure] at this; exact this
  obtain ⟨inv2, hself, hfr⟩ := insert_spec inv1 hp fileEntryNow mu2 hmu2 hwf2
  have hframe : VFrame (oview (mu :: ms)) (oview (mu2 :: ms)) (renderC (ds ++ [n])) :=
    VFrame.trans_same hs1 (exact_frame hfr)
  have hv2 : ViewWF (oview (mu2 :: ms)) :=
    st.vwf.step hp (.write (renderC (ds ++ [n])) []) rfl ⟨by rw [hp.parent]; exact hd, hnd⟩
      ⟨⟨fileEntryNow, hself, rfl, rfl⟩, hframe⟩
  refine ⟨mu2, ?_, ⟨st.own.setHead mu2, inv2, hv2⟩, namesOK_of_frame hp hframe,
    by rw [hmu2, if_pos rfl], hself, hframe⟩
  have hrun := run_ocreateFileN st.own _ hp.ne hp.good
  rw [hpure] at hrun
  show (do VPath.getParent ⟨Overlay.fs (layersN (u :: is) (idu :: ids)), id, renderC (ds ++ [n])⟩
           M.withPath (renderC (ds ++ [n]))
             (Overlay.createFile (layersN (u :: is) (idu :: ids)) (renderC (ds ++ [n]))) :
           M WHandle) w = _
  simp only [bind, M.bind, hg, run_withPath, hrun, Res.map, Res.withPath]

/-- **dropping a write handle** on a file that the upper map holds: the buffer is published
there; the path is a file of the view holding exactly the buffer; every other visible path keeps
its entry -/
theorem o_publish_step {ds : List Str} {n : Str} (hp : OpPath (ds ++ [n])) {e0 : Entry}
    (h0 : mu.find? (renderC (ds ++ [n])) = some e0) (hf0 : e0.ftype = .file) (buf : Bytes)
    (pos : Nat) :
    ∃ mu3, WHandle.drop
        { leaf := u, key := renderC (ds ++ [n]), kind := .memFile, buf := buf, pos := pos } w
        = (.ok (), w.setLeafFiles u mu3) ∧
      OSt u idu is ids ms (w.setLeafFiles u mu3) mu3 ∧
      (NamesOK (mu :: ms) → NamesOK (mu3 :: ms)) ∧
      VHasFile (oview (mu3 :: ms)) (renderC (ds ++ [n])) buf ∧
      VFrame (oview (mu :: ms)) (oview (mu3 :: ms)) (renderC (ds ++ [n])) := by
  have hview := upper_is_view st.inv hp h0
  have hmknone : mu.find? (marker (renderC (ds ++ [n]))) = none := by
    cases hx : mu.find? (marker (renderC (ds ++ [n]))) with
    | none => rfl
    | some x =>
      have := st.inv.ghost _ hp.nr (contains_of_find hx)
      rw [h0] at this; cases this
  obtain ⟨e3, hf3, hc3, hpw3⟩ := memPublish_pointwise mu (renderC (ds ++ [n])) buf e0 h0 hf0
  have hmu3 : ∀ k, (memPublish mu (renderC (ds ++ [n])) buf).find? k =
      if k = renderC (ds ++ [n]) then some e3
      else if k = marker (renderC (ds ++ [n])) then none else mu.find? k := by
    intro k
    rw [hpw3 k]
    split
    · rfl
    · split
      · rename_i hk2; rw [hk2]; exact hmknone
      · rfl
  obtain ⟨inv3, hself, hfr⟩ := insert_spec st.inv hp e3 _ hmu3
    ((st.inv.wf mu (by simp)).memPublish_any _ _)
  have hfile : VIsFile (oview (mu :: ms)) (renderC (ds ++ [n])) :=
    ⟨e0, by rw [oview_NR hp.nr]; exact hview, hf0⟩
  have hpar : VIsDir (oview (mu :: ms)) (renderC ds) := by
    have := C03.viewWF_no_orphan st.vwf hp.ne hp.good hp.head (not_absent_of_file hfile)
    rwa [hp.parent] at this
  have hframe := exact_frame hfr
  have hv3 : ViewWF (oview (memPublish mu (renderC (ds ++ [n])) buf :: ms)) :=
    st.vwf.step hp (.write (renderC (ds ++ [n])) buf) rfl
      ⟨by rw [hp.parent]; exact hpar, fun hd => not_file_and_dir hfile hd⟩
      ⟨⟨e3, hself, hf3, hc3⟩, hframe⟩
  refine ⟨memPublish mu (renderC (ds ++ [n])) buf, ?_, ⟨st.own.setHead _, inv3, hv3⟩,
    namesOK_of_frame hp hframe, ⟨e3, hself, hf3, hc3⟩, hframe⟩
  have hu := st.own.hu
  unfold MemLeafAt at hu
  simp only [WHandle.drop, WHandle.flush, hu]

/-- `remove_file` on a file of the view, additionally with the frame of the UPPER MAP: every key
the upper map held, other than the path and its marker, keeps its entry -/
theorem o_removeFile_step' {cs : List Str} (hp : OpPath cs)
    (hf : VIsFile (oview (mu :: ms)) (renderC cs)) :
    ∃ mu', VPath.removeFile ⟨Overlay.fs (layersN (u :: is) (idu :: ids)), id, renderC cs⟩ w
        = (.ok (), w.setLeafFiles u mu') ∧
      OSt u idu is ids ms (w.setLeafFiles u mu') mu' ∧
      (NamesOK (mu :: ms) → NamesOK (mu' :: ms)) ∧
      VAbsent (oview (mu' :: ms)) (renderC cs) ∧
      VFrame (oview (mu :: ms)) (oview (mu' :: ms)) (renderC cs) ∧
      (∀ k, k ≠ renderC cs → k ≠ marker (renderC cs) → mu.contains k = true →
        mu'.find? k = mu.find? k) := by
  obtain ⟨mu', hrun, st', hn', habs, hframe⟩ := o_removeFile_step st id hp hf
  refine ⟨mu', hrun, st', hn', habs, hframe, ?_⟩
  have hrun2 : VPath.removeFile
      ⟨Overlay.fs (layersN (u :: is) (idu :: ids)), id, renderC cs⟩ w
      = ((pRemoveFileN mu ms cs).1.withPath (renderC cs),
          w.setLeafFiles u (pRemoveFileN mu ms cs).2) := by
    show M.withPath (renderC cs) (Overlay.removeFile (layersN (u :: is) (idu :: ids)) (renderC cs)) w = _
    rw [run_withPath, run_oremoveFileN st.own cs hp.ne hp.good]
  rw [hrun] at hrun2
  have hw : w.setLeafFiles u mu' = w.setLeafFiles u (pRemoveFileN mu ms cs).2 :=
    congrArg Prod.snd hrun2
  have h1 := st'.own.hu
  have h2 := (st.own.setHead (pRemoveFileN mu ms cs).2).hu
  rw [← hw] at h2
  unfold MemLeafAt at h1 h2
  rw [h1] at h2
  have hmu : mu' = (pRemoveFileN mu ms cs).2 := by
    injection h2 with h2; injection h2
  intro k hk1 hk2 hc
  rw [hmu]
  exact pRemoveFileN_old mu ms cs k hk1 hk2 hc

end steps

/-! ### the `VfsPath` code along the generic route -/

theorem ioCopyAndDrop_good (bs : Bytes) (wh : WHandle) (p : Str) :
    VPath.ioCopyAndDrop { content := bs, pos := 0 } wh p = wh.writeAllAndDrop bs := by
  funext w
  simp [VPath.ioCopyAndDrop, WHandle.writeAllAndDrop, RHandle.readToEnd, M.withPath, M.ret, bind,
    M.bind, Res.withPath]

/-- the overlay refuses the fast paths, whatever the `Arc` identities -/
theorem overlay_fast_copy (layers : List VPath) (a b : Nat) (s d : Str) (w : World) :
    (if a = b then M.attempt ((Overlay.fs layers).copyFile s d)
      else (pure (Res.err .notSupported none) : M (Res Unit))) w
      = (.ok (Res.err .notSupported none), w) := by
  split <;> rfl

theorem overlay_fast_move (layers : List VPath) (a b : Nat) (s d : Str) (w : World) :
    (if a = b then M.attempt ((Overlay.fs layers).moveFile s d)
      else (pure (Res.err .notSupported none) : M (Res Unit))) w
      = (.ok (Res.err .notSupported none), w) := by
  split <;> rfl

/-- `copy_file` between two paths of an overlay, evaluated: destination absent, source opened,
destination created, bytes written, handle dropped -/
theorem copyFile_route (layers : List VPath) (a b : Nat) (s d : Str) (w w1 w2 w3 : World)
    (bs : Bytes) (wh : WHandle)
    (hex : VPath.exists_ ⟨Overlay.fs layers, b, d⟩ w = (.ok false, w))
    (hopen : VPath.openFile ⟨Overlay.fs layers, a, s⟩ w = (.ok { content := bs, pos := 0 }, w1))
    (hcreate : VPath.createFile ⟨Overlay.fs layers, b, d⟩ w1 = (.ok wh, w2))
    (hwrite : wh.writeAllAndDrop bs w2 = (.ok (), w3)) :
    VPath.copyFile ⟨Overlay.fs layers, a, s⟩ ⟨Overlay.fs layers, b, d⟩ w = (.ok (), w3) := by
  unfold VPath.copyFile
  simp only [M.withPath, bind, M.bind, hex, overlay_fast_copy, fail, hopen, hcreate,
    ioCopyAndDrop_good, hwrite, Res.withPath, Bool.false_eq_true, if_false, ne_eq,
    not_true_eq_false]

/-- `move_file` between two paths of an overlay, evaluated: destination absent, source opened,
destination created, bytes buffered in the handle, SOURCE REMOVED, then the handle dropped -/
theorem moveFile_route (layers : List VPath) (a b : Nat) (s d : Str) (w w1 w2 w3 w4 : World)
    (bs : Bytes) (wh wh' : WHandle) (k : Nat)
    (hex : VPath.exists_ ⟨Overlay.fs layers, b, d⟩ w = (.ok false, w))
    (hopen : VPath.openFile ⟨Overlay.fs layers, a, s⟩ w = (.ok { content := bs, pos := 0 }, w1))
    (hcreate : VPath.createFile ⟨Overlay.fs layers, b, d⟩ w1 = (.ok wh, w2))
    (hwrite : wh.write bs w2 = (.ok (k, wh'), w2))
    (hrm : VPath.removeFile ⟨Overlay.fs layers, a, s⟩ w2 = (.ok (), w3))
    (hdrop : wh'.drop w3 = (.ok (), w4)) :
    VPath.moveFile ⟨Overlay.fs layers, a, s⟩ ⟨Overlay.fs layers, b, d⟩ w = (.ok (), w4) := by
  unfold VPath.moveFile
  simp only [M.withPath, bind, M.bind, hex, overlay_fast_move, fail, hopen, hcreate, hwrite,
    M.attempt, hrm, hdrop, M.ret, RHandle.readToEnd, Res.withPath, Bool.false_eq_true, if_false,
    ne_eq, not_true_eq_false, List.drop_zero]

end Vfs.C11
