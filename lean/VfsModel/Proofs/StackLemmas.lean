/-
  Helper lemmas for the stacked form of C03 (Props/C03Stack.lean).

  * `LeafOK m`  — the flat map of a memory leaf is well-formed (`WF`), or it is the empty map
                  (the only way to leave `WF`: `remove_dir` on the leaf's OWN root while the tree
                  is the bare root; the map is then `[]` and stays `[]` for ever).
  * `InvP P w`  — every memory leaf `i` of the world holds a map satisfying `P i`;
    `Inv := InvP (fun _ => LeafOK)`.
  * `MemClosed P` — `P` is kept by every RAW trait method of MemoryFS (no path-layer guard in
    front of it) on every path string, by buffer publication and by same-type replacement.
    Instances: `leafOK_closed` (well-formed or empty), `emptyAt_closed` (emptiness is absorbing).
  * `handleOK_any`        — EVERY write handle whatsoever (any leaf index, key, kind, buffer,
                            position; fresh, stale, or made up) keeps `InvP P` under write /
                            flush / drop.
  * `leafFS_all_preserveP`, `leafFS_all_preserve` — `(leafFS i).AllPreserve Inv` for every `i`
                            (memory leaf, physical leaf, or no such leaf).
  * `recordFS_all_preserve`, `faultFS_all_preserve` — the harness wrappers forward `AllPreserve`
                            for every invariant that reads only the leaves of the world;
    `embedded_all_preserve` — EmbeddedFS touches nothing.
  * for an ARBITRARY invariant `I`: the composite path operations that PreservesOps.lean does
    not cover — `move_file`, the walk (`walkNext`, `walkAll`), `copy_dir`, `move_dir`,
    `read_to_string` — preserve `I` as soon as the filesystems of the paths involved do.
-/
import VfsModel.Proofs.PreservesOps
import VfsModel.Proofs.LeafFrame
import VfsModel.Proofs.MemRun
import VfsModel.Embedded
namespace Vfs.Stk

/-! ### the invariant -/

/-- well-formed, or empty (after the removal of the bare root of the leaf itself) -/
def LeafOK (m : FMap) : Prop := WF m ∨ m = []

theorem LeafOK.wf_of_ne {m : FMap} (h : LeafOK m) (hne : m ≠ []) : WF m := by
  rcases h with h | h
  · exact h
  · exact absurd h hne

theorem LeafOK.wf_of_root {m : FMap} (h : LeafOK m) (e : Entry) (he : m.find? [] = some e) : WF m := by
  apply h.wf_of_ne
  intro hm; subst hm; cases he

/-! ### raw MemoryFS methods on a well-formed map -/

theorem ensureHasParent_spec (m : FMap) (p : Str) (u : Unit) (h : Mem.ensureHasParent m p = .ok u) :
    '/' ∈ p ∧ ∃ pe, m.find? (parentInternal p) = some pe ∧ pe.ftype = .dir := by
  unfold Mem.ensureHasParent at h
  split at h
  · rename_i hs
    split at h
    · rename_i e he
      split at h
      · rename_i hd; exact ⟨hs, e, he, hd⟩
      · simp [fail] at h
    · simp [fail] at h
  · simp [fail] at h

theorem ensureHasParent_nil (p : Str) (u : Unit) : Mem.ensureHasParent [] p ≠ .ok u := by
  intro h
  obtain ⟨_, pe, hpe, _⟩ := ensureHasParent_spec [] p u h
  cases hpe

theorem wf_createDir_raw {m : FMap} (h : WF m) (p : Str) : WF (Mem.createDir m p).2 := by
  unfold Mem.createDir
  split
  · rename_i u hen
    obtain ⟨hs, pe, hpe, hpd⟩ := ensureHasParent_spec m p u hen
    split
    · exact h
    · exact h.insert_dir p dirEntryNow rfl hs pe hpe hpd
  · exact h
  · exact h

theorem wf_createFile_raw {m : FMap} (h : WF m) (p : Str) : WF (Mem.createFile m p).2 := by
  cases hen : Mem.ensureHasParent m p with
  | ok u =>
    obtain ⟨_, pe, hpe, hpd⟩ := ensureHasParent_spec m p u hen
    have hp : Mem.parentOk m p = true := by
      unfold Mem.parentOk; rw [hpe]; simp [hpd]
    exact (h.createFile p hp).1
  | err k pth => unfold Mem.createFile; rw [hen]; exact h
  | panic => unfold Mem.createFile; rw [hen]; exact h

private theorem parent_shorter (k : Str) (hs : '/' ∈ k) : (parentInternal k).length < k.length := by
  have h := (split_last '/' k hs).1
  have : k.length = (beforeLast '/' k ++ '/' :: afterLast '/' k).length := by rw [← h]
  simp only [List.length_append, List.length_cons] at this
  unfold parentInternal
  omega

/-- in a well-formed tree whose root lists nothing there is nothing but the root -/
theorem wf_only_root {m : FMap} (hwf : WF m) (hl : m.keys.filterMap (childName []) = []) :
    ∀ k, k ≠ [] → m.find? k = none := by
  have key : ∀ n (k : Str), k.length = n → k ≠ [] → m.find? k = none := by
    intro n
    induction n using Nat.strongRecOn with
    | ind n ih =>
      intro k hlen hne
      cases hk : m.find? k with
      | none => rfl
      | some e =>
        obtain ⟨hs, pe, hpe, _⟩ := hwf.2 k e hk hne
        by_cases hp : parentInternal k = []
        · have : afterLast '/' k ∈ m.keys.filterMap (childName []) :=
            (mem_filterMap_childName m [] _).2 ⟨k, e, hk, hs, hp, rfl⟩
          rw [hl] at this
          cases this
        · have := ih _ (by rw [← hlen]; exact parent_shorter k hs) (parentInternal k) rfl hp
          rw [this] at hpe
          cases hpe
  intro k hne
  exact key k.length k rfl hne

theorem eq_nil_of_find_none (m : FMap) (h : ∀ k, m.find? k = none) : m = [] := by
  cases m with
  | nil => rfl
  | cons kv rest =>
    have := h kv.1
    simp [FMap.find?] at this

/-- `remove_dir` on ANY path, the root included: the map stays well-formed, or — the root was
removed, which the code allows only when it lists nothing — the map is empty afterwards -/
theorem wf_removeDir_raw {m : FMap} (hwf : WF m) (p : Str) : LeafOK (Mem.removeDir m p).2 := by
  by_cases hp : p = []
  · subst hp
    unfold Mem.removeDir
    split
    · rename_i l hl
      split
      · exact Or.inl hwf
      · rename_i hnil
        have hl' : l = [] := by simpa using hnil
        subst hl'
        split
        · right
          have hlist : m.keys.filterMap (childName []) = [] := by
            unfold Mem.readDir at hl
            split at hl
            · simp [fail] at hl
            · split at hl
              · simp [fail] at hl
              · injection hl
          apply eq_nil_of_find_none
          intro k
          by_cases hk : k = []
          · subst hk; exact FMap.find?_erase_self m []
          · rw [FMap.find?_erase_ne m [] k hk]
            exact wf_only_root hwf hlist k hk
        · exact Or.inl hwf
    · exact Or.inl hwf
    · exact Or.inl hwf
  · exact Or.inl (hwf.pRemoveDir p hp)

/-! ### raw MemoryFS methods on the empty map: nothing can be created, the map stays empty -/

theorem nil_createDir (p : Str) : (Mem.createDir [] p).2 = [] := by
  unfold Mem.createDir
  split
  · rename_i u hen; exact absurd hen (ensureHasParent_nil p u)
  · rfl
  · rfl

theorem nil_createFile (p : Str) : (Mem.createFile [] p).2 = [] := by
  unfold Mem.createFile
  split
  · rename_i u hen; exact absurd hen (ensureHasParent_nil p u)
  · rfl
  · rfl

theorem nil_openFile (p : Str) : (Mem.openFile [] p).2 = [] := by
  simp [Mem.openFile, Mem.setAccessed, fail]
theorem nil_setCreated (p : Str) (t : TS) : (Mem.setCreated [] p t).2 = [] := by simp [Mem.setCreated]
theorem nil_setModified (p : Str) (t : TS) : (Mem.setModified [] p t).2 = [] := by simp [Mem.setModified]
theorem nil_setAccessed (p : Str) (t : TS) : (Mem.setAccessed [] p t).2 = [] := by simp [Mem.setAccessed]
theorem nil_removeFile (p : Str) : (Mem.removeFile [] p).2 = [] := by simp [Mem.removeFile]
theorem nil_removeDir (p : Str) : (Mem.removeDir [] p).2 = [] := by
  simp [Mem.removeDir, Mem.readDir, fail]
theorem nil_memPublish (k : Str) (buf : Bytes) : memPublish [] k buf = [] := by simp [Vfs.memPublish]

/-! ### predicates on the maps of the memory leaves that every raw MemoryFS step keeps -/

/-- `P i m` (a predicate on the map `m` of memory leaf `i`) is kept by every state change a
memory leaf can undergo: the eight mutating raw trait methods of MemoryFS on any path, the
publication of a write buffer under any key, and the replacement of an entry by one of the same
type (a direct write through a handle of the physical kind, should one point at a memory
leaf) -/
structure MemClosed (P : Nat → FMap → Prop) : Prop where
  createDir : ∀ i m p, P i m → P i (Mem.createDir m p).2
  createFile : ∀ i m p, P i m → P i (Mem.createFile m p).2
  openFile : ∀ i m p, P i m → P i (Mem.openFile m p).2
  setCreated : ∀ i m p t, P i m → P i (Mem.setCreated m p t).2
  setModified : ∀ i m p t, P i m → P i (Mem.setModified m p t).2
  setAccessed : ∀ i m p t, P i m → P i (Mem.setAccessed m p t).2
  removeFile : ∀ i m p, P i m → P i (Mem.removeFile m p).2
  removeDir : ∀ i m p, P i m → P i (Mem.removeDir m p).2
  memPublish : ∀ i m k buf, P i m → P i (memPublish m k buf)
  insert_same : ∀ i m k (e e' : Entry), P i m → m.find? k = some e → e'.ftype = e.ftype →
    P i (m.insert k e')

/-- **well-formed-or-empty is kept by every raw MemoryFS step**, on every path string -/
theorem leafOK_closed : MemClosed (fun _ => LeafOK) where
  createDir _ m p h := by
    rcases h with h | h
    · exact Or.inl (wf_createDir_raw h p)
    · subst h; exact Or.inr (nil_createDir p)
  createFile _ m p h := by
    rcases h with h | h
    · exact Or.inl (wf_createFile_raw h p)
    · subst h; exact Or.inr (nil_createFile p)
  openFile _ m p h := by
    rcases h with h | h
    · exact Or.inl (h.openFile p)
    · subst h; exact Or.inr (nil_openFile p)
  setCreated _ m p t h := by
    rcases h with h | h
    · exact Or.inl (h.setCreated p t)
    · subst h; exact Or.inr (nil_setCreated p t)
  setModified _ m p t h := by
    rcases h with h | h
    · exact Or.inl (h.setModified p t)
    · subst h; exact Or.inr (nil_setModified p t)
  setAccessed _ m p t h := by
    rcases h with h | h
    · exact Or.inl (h.setAccessed p t)
    · subst h; exact Or.inr (nil_setAccessed p t)
  removeFile _ m p h := by
    rcases h with h | h
    · exact Or.inl (h.pRemoveFile p)
    · subst h; exact Or.inr (nil_removeFile p)
  removeDir _ m p h := by
    rcases h with h | h
    · exact wf_removeDir_raw h p
    · subst h; exact Or.inr (nil_removeDir p)
  memPublish _ m k buf h := by
    rcases h with h | h
    · exact Or.inl (h.memPublish_any k buf)
    · subst h; exact Or.inr (nil_memPublish k buf)
  insert_same _ m k e e' h he ht := by
    rcases h with h | h
    · exact Or.inl (h.setTime k e e' he ht)
    · subst h; cases he

/-- **emptiness is absorbing**: once the map of memory leaf `i0` is empty (its own root was
removed) no call can put anything into it again -/
theorem emptyAt_closed (i0 : Nat) : MemClosed (fun i m => i = i0 → m = []) where
  createDir _ m p h hi := by rw [h hi]; exact nil_createDir p
  createFile _ m p h hi := by rw [h hi]; exact nil_createFile p
  openFile _ m p h hi := by rw [h hi]; exact nil_openFile p
  setCreated _ m p t h hi := by rw [h hi]; exact nil_setCreated p t
  setModified _ m p t h hi := by rw [h hi]; exact nil_setModified p t
  setAccessed _ m p t h hi := by rw [h hi]; exact nil_setAccessed p t
  removeFile _ m p h hi := by rw [h hi]; exact nil_removeFile p
  removeDir _ m p h hi := by rw [h hi]; exact nil_removeDir p
  memPublish _ m k buf h hi := by rw [h hi]; exact nil_memPublish k buf
  insert_same _ m k e e' h he ht hi := by rw [h hi] at he; cases he

/-! ### the world -/

/-- every memory leaf `i` of the world holds a map satisfying `P i` -/
def InvP (P : Nat → FMap → Prop) (w : World) : Prop :=
  ∀ i l, w.leaf? i = some l → l.kind = .mem → P i l.files

/-- every memory leaf of the world holds a well-formed (or emptied) map -/
abbrev Inv : World → Prop := InvP (fun _ => LeafOK)

section world
variable {P : Nat → FMap → Prop}

theorem setLeafFiles_inv (w : World) (i : Nat) (f : FMap) (hw : InvP P w)
    (hf : ∀ l, w.leaf? i = some l → l.kind = .mem → P i f) : InvP P (w.setLeafFiles i f) := by
  intro j l' hj hk
  by_cases hij : i = j
  · subst hij
    cases hl : w.leaf? i with
    | none =>
      have : (w.setLeafFiles i f).leaf? i = none := by
        unfold World.setLeafFiles World.leaf? at *
        rw [List.getElem?_modify]; simp [hl]
      rw [this] at hj; cases hj
    | some l =>
      rw [World.setLeafFiles_same w i l f hl] at hj
      injection hj with hj; subst hj
      exact hf l hl hk
  · rw [World.leaf?_setLeafFiles_ne w i j f hij] at hj
    exact hw j l' hj hk

/-- an `onLeaf` action whose pure function keeps `P i` on memory leaves keeps `InvP P` -/
theorem onLeaf_inv {α} (i : Nat) (f : Leaf → Res α × FMap)
    (hf : ∀ l, l.kind = .mem → P i l.files → P i (f l).2) : Preserves (InvP P) (onLeaf i f) := by
  refine ⟨fun w hw => ?_⟩
  unfold onLeaf
  split
  · exact hw
  · rename_i l hl
    show InvP P (w.setLeafFiles i (f l).2)
    apply setLeafFiles_inv w i _ hw
    intro l' hl' hk
    rw [hl] at hl'; injection hl' with hl'; subst hl'
    exact hf l hk (hw i l hl hk)

/-- `InvP P` reads only the leaves of the world -/
theorem InvP.of_leaves {w w' : World} (h : w'.leaves = w.leaves) (hw : InvP P w) : InvP P w' := by
  intro i l hl hk
  exact hw i l (by unfold World.leaf? at *; rw [← h]; exact hl) hk

/-! ### every write handle keeps the invariant -/

/-- **every write handle whatsoever** — whatever leaf, key, kind, buffer and position it
carries, whether the file it was opened on still exists, was removed, or was replaced by a
directory — keeps `InvP P` under `write`, `flush` and `drop` -/
theorem handleOK_any (hP : MemClosed P) (h : WHandle) : HandleOK (InvP P) h := by
  intro buf pos
  constructor
  · intro bs
    refine ⟨fun w hw => ?_⟩
    unfold WHandle.write
    dsimp only
    cases h.kind <;> dsimp only
    · exact hw
    · split
      · rename_i l hl
        split
        · rename_i e he
          apply setLeafFiles_inv w _ _ hw
          intro l' hl' hk
          rw [hl] at hl'; injection hl' with hl'; subst hl'
          apply hP.insert_same _ _ _ e _ (hw _ l hl hk) he
          split <;> rfl
        · exact hw
      · exact hw
    · split
      · rename_i l hl
        split
        · rename_i e he
          apply setLeafFiles_inv w _ _ hw
          intro l' hl' hk
          rw [hl] at hl'; injection hl' with hl'; subst hl'
          exact hP.insert_same _ _ _ e _ (hw _ l hl hk) he rfl
        · exact hw
      · exact hw
  · refine ⟨fun w hw => ?_⟩
    unfold WHandle.flush
    dsimp only
    cases h.kind <;> dsimp only
    · split
      · rename_i l hl
        apply setLeafFiles_inv w _ _ hw
        intro l' hl' hk
        rw [hl] at hl'; injection hl' with hl'; subst hl'
        exact hP.memPublish _ _ _ _ (hw _ l hl hk)
      · exact hw
    · exact hw
    · exact hw

theorem returns_handleOK (hP : MemClosed P) {m : M WHandle} : Returns m (HandleOK (InvP P)) :=
  ⟨fun _ h _ => handleOK_any hP h⟩

/-! ### the leaf filesystems -/

/-- **every method of every leaf filesystem keeps the invariant of every memory leaf**: leaf `i`
may be a memory leaf, a physical leaf, or absent; the 15 trait methods are the RAW ones (no
path-layer guard in front), on every path string, successful or failed -/
theorem leafFS_all_preserveP (hP : MemClosed P) (i : Nat) : (leafFS i).AllPreserve (InvP P) where
  readDir p := onLeaf_inv i _ (fun l hk h => by simp only [hk]; exact h)
  createDir p := onLeaf_inv i _ (fun l hk h => by simp only [hk]; exact hP.createDir _ _ p h)
  openFile p := onLeaf_inv i _ (fun l hk h => by simp only [hk]; exact hP.openFile _ _ p h)
  createFile p := onLeaf_inv i _ (fun l hk h => by simp only [hk]; exact hP.createFile _ _ p h)
  appendFile p := onLeaf_inv i _ (fun l hk h => by simp only [hk]; exact h)
  metadata p := onLeaf_inv i _ (fun l hk h => by simp only [hk]; exact h)
  setCreationTime p t := onLeaf_inv i _ (fun l hk h => by simp only [hk]; exact hP.setCreated _ _ p _ h)
  setModificationTime p t := onLeaf_inv i _ (fun l hk h => by simp only [hk]; exact hP.setModified _ _ p _ h)
  setAccessTime p t := onLeaf_inv i _ (fun l hk h => by simp only [hk]; exact hP.setAccessed _ _ p _ h)
  exists_ p := onLeaf_inv i _ (fun l hk h => by simp only [hk]; exact h)
  removeFile p := onLeaf_inv i _ (fun l hk h => by simp only [hk]; exact hP.removeFile _ _ p h)
  removeDir p := onLeaf_inv i _ (fun l hk h => by simp only [hk]; exact hP.removeDir _ _ p h)
  copyFile s d := onLeaf_inv i _ (fun l hk h => by simp only [hk]; exact h)
  moveFile s d := onLeaf_inv i _ (fun l hk h => by simp only [hk]; exact h)
  moveDir s d := onLeaf_inv i _ (fun l hk h => by simp only [hk]; exact h)
  createHandle _ := returns_handleOK hP
  appendHandle _ := returns_handleOK hP

end world

/-- the instance of the deliverable: every leaf filesystem keeps every memory leaf
well-formed (or emptied by the removal of its own bare root) -/
theorem leafFS_all_preserve (i : Nat) : (leafFS i).AllPreserve Inv :=
  leafFS_all_preserveP leafOK_closed i

/-! ### the harness wrappers (`RecordingFs`, `FaultFs`) -/

/-- `I` reads only the leaves of the world (not the ghost log, not the fault plan) -/
def LeavesOnly (I : World → Prop) : Prop := ∀ w w' : World, w'.leaves = w.leaves → I w → I w'

theorem invP_leavesOnly (P : Nat → FMap → Prop) : LeavesOnly (InvP P) := fun _ _ h hw => InvP.of_leaves h hw

section wrappers
variable {I : World → Prop}

theorem logCall_pres (hI : LeavesOnly I) (tag : Nat) (m : Method) (p p2 : Str) :
    Preserves I (logCall tag m p p2) :=
  ⟨fun w hw => hI w _ rfl hw⟩

theorem faultGate_pres {α} (hI : LeavesOnly I) {m : M α} (hm : Preserves I m) :
    Preserves I (faultGate m) := by
  refine ⟨fun w hw => ?_⟩
  unfold faultGate
  split
  · exact hI w _ rfl hw
  · exact hm.pres _ (hI w _ rfl hw)
  · exact hm.pres w hw

theorem faultGate_ret {α} {m : M α} {Q : α → Prop} (hm : Returns m Q) : Returns (faultGate m) Q := by
  refine ⟨fun w a he => ?_⟩
  unfold faultGate at he
  split at he
  · simp [fail] at he
  · exact hm.post _ a he
  · exact hm.post _ a he

theorem recordFS_all_preserve (hI : LeavesOnly I) (tag : Nat) (inner : FS) (hi : inner.AllPreserve I) :
    (recordFS tag inner).AllPreserve I where
  readDir p := Preserves.bind (logCall_pres hI tag _ p []) (fun _ => hi.readDir p)
  createDir p := Preserves.bind (logCall_pres hI tag _ p []) (fun _ => hi.createDir p)
  openFile p := Preserves.bind (logCall_pres hI tag _ p []) (fun _ => hi.openFile p)
  createFile p := Preserves.bind (logCall_pres hI tag _ p []) (fun _ => hi.createFile p)
  appendFile p := Preserves.bind (logCall_pres hI tag _ p []) (fun _ => hi.appendFile p)
  metadata p := Preserves.bind (logCall_pres hI tag _ p []) (fun _ => hi.metadata p)
  setCreationTime p x := Preserves.bind (logCall_pres hI tag _ p []) (fun _ => hi.setCreationTime p x)
  setModificationTime p x := Preserves.bind (logCall_pres hI tag _ p []) (fun _ => hi.setModificationTime p x)
  setAccessTime p x := Preserves.bind (logCall_pres hI tag _ p []) (fun _ => hi.setAccessTime p x)
  exists_ p := Preserves.bind (logCall_pres hI tag _ p []) (fun _ => hi.exists_ p)
  removeFile p := Preserves.bind (logCall_pres hI tag _ p []) (fun _ => hi.removeFile p)
  removeDir p := Preserves.bind (logCall_pres hI tag _ p []) (fun _ => hi.removeDir p)
  copyFile s d := Preserves.bind (logCall_pres hI tag _ s d) (fun _ => hi.copyFile s d)
  moveFile s d := Preserves.bind (logCall_pres hI tag _ s d) (fun _ => hi.moveFile s d)
  moveDir s d := Preserves.bind (logCall_pres hI tag _ s d) (fun _ => hi.moveDir s d)
  createHandle p := Returns.bind (fun _ => hi.createHandle p)
  appendHandle p := Returns.bind (fun _ => hi.appendHandle p)

theorem faultFS_all_preserve (hI : LeavesOnly I) (inner : FS) (hi : inner.AllPreserve I) :
    (faultFS inner).AllPreserve I where
  readDir p := faultGate_pres hI (hi.readDir p)
  createDir p := faultGate_pres hI (hi.createDir p)
  openFile p := faultGate_pres hI (hi.openFile p)
  createFile p := faultGate_pres hI (hi.createFile p)
  appendFile p := faultGate_pres hI (hi.appendFile p)
  metadata p := faultGate_pres hI (hi.metadata p)
  setCreationTime p x := faultGate_pres hI (hi.setCreationTime p x)
  setModificationTime p x := faultGate_pres hI (hi.setModificationTime p x)
  setAccessTime p x := faultGate_pres hI (hi.setAccessTime p x)
  exists_ p := faultGate_pres hI (hi.exists_ p)
  removeFile p := faultGate_pres hI (hi.removeFile p)
  removeDir p := faultGate_pres hI (hi.removeDir p)
  copyFile s d := faultGate_pres hI (hi.copyFile s d)
  moveFile s d := faultGate_pres hI (hi.moveFile s d)
  moveDir s d := faultGate_pres hI (hi.moveDir s d)
  createHandle p := faultGate_ret (hi.createHandle p)
  appendHandle p := faultGate_ret (hi.appendHandle p)

/-- EmbeddedFS holds no state of the world: its methods preserve every invariant -/
theorem embedded_all_preserve (s : Embedded.State) : (Embedded.fs s).AllPreserve I where
  readDir _ := Preserves.ret _
  createDir _ := Preserves.failK _
  openFile _ := Preserves.ret _
  createFile _ := Preserves.failK _
  appendFile _ := Preserves.failK _
  metadata _ := Preserves.ret _
  setCreationTime _ _ := Preserves.failK _
  setModificationTime _ _ := Preserves.failK _
  setAccessTime _ _ := Preserves.failK _
  exists_ _ := Preserves.ret _
  removeFile _ := Preserves.failK _
  removeDir _ := Preserves.failK _
  copyFile _ _ := Preserves.failK _
  moveFile _ _ := Preserves.failK _
  moveDir _ _ := Preserves.failK _
  createHandle _ := Returns.failK _
  appendHandle _ := Returns.failK _

end wrappers

/-! ### composite path operations, for an arbitrary invariant -/

section composite
open Vfs.VPath
variable {I : World → Prop}

/-- every method of the path's filesystem (and the handles it returns) preserves `I` -/
def Good (I : World → Prop) (c : VPath) : Prop := c.fs.AllPreserve I

/-- all paths held by a walk state are `Good` -/
def GoodWalk (I : World → Prop) (s : Walk) : Prop :=
  (∀ c ∈ s.inner, Good I c) ∧ (∀ c ∈ s.todo, Good I c)

theorem readDir_good (p : VPath) (h : Good I p) : Returns p.readDir (fun l => ∀ c ∈ l, Good I c) := by
  refine ⟨fun w l he c hc => ?_⟩
  have := (readDir_fs p).post w l he c hc
  unfold Good; rw [this.1]; exact h

theorem walkDir_good (p : VPath) (h : Good I p) : Returns p.walkDir (GoodWalk I) := by
  unfold walkDir
  apply Returns.bindQ (readDir_good p h)
  intro l hl
  exact Returns.pure _ ⟨hl, by simp⟩

theorem write_handleOK (h : WHandle) (hk : HandleOK I h) (bs : Bytes) :
    Returns (h.write bs) (fun r => HandleOK I r.2) := by
  refine ⟨fun w r he => ?_⟩
  obtain ⟨n, h'⟩ := r
  obtain ⟨buf, pos, rfl⟩ := WHandle.write_same h bs w n h' he
  exact hk.of_same buf pos

/-- `Seek::seek` on a write handle never touches the world -/
theorem seek_world (h : WHandle) (s : SeekFrom) (w : World) : (h.seek s w).2 = w := by
  unfold WHandle.seek
  split <;> rfl

theorem pres_seek (h : WHandle) (s : SeekFrom) : Preserves I (h.seek s) :=
  ⟨fun w hw => by rw [seek_world]; exact hw⟩

/-- the handle returned by `seek` differs only in its position -/
theorem seek_same (h : WHandle) (s : SeekFrom) (w : World) (n : Nat) (h' : WHandle)
    (he : (h.seek s w).1 = .ok (n, h')) : ∃ buf pos, h' = { h with buf := buf, pos := pos } := by
  unfold WHandle.seek at he
  split at he
  · simp only [Res.ok.injEq, Prod.mk.injEq] at he
    exact ⟨h.buf, _, he.2.symm⟩
  · cases he
  · cases he

theorem seek_handleOK (h : WHandle) (hk : HandleOK I h) (s : SeekFrom) :
    Returns (h.seek s) (fun r => HandleOK I r.2) := by
  refine ⟨fun w r he => ?_⟩
  obtain ⟨n, h'⟩ := r
  obtain ⟨buf, pos, rfl⟩ := seek_same h s w n h' he
  exact hk.of_same buf pos

/-- `move_file` -/
theorem pres_moveFile (src dst : VPath) (hs : Good I src) (hd : Good I dst) :
    Preserves I (src.moveFile dst) := by
  unfold moveFile
  apply Preserves.withPath
  apply Preserves.bind (pres_exists dst hd.obs)
  intro b
  split
  · exact Preserves.failAt _ _
  · apply Preserves.bind
    · split
      · exact Preserves.attempt (hs.moveFile _ _)
      · exact Preserves.pure _
    · intro fast
      split
      · exact Preserves.pure _
      · exact Preserves.ret _
      · split
        · exact Preserves.ret _
        · apply Preserves.bind (pres_openFile src hs.obs)
          intro r
          apply Preserves.bindQ _ (pres_createFile dst hd) (createFile_handle dst hd)
          intro wh hwh
          apply Preserves.bind (Preserves.withPath _ (Preserves.ret _))
          intro bytes
          apply Preserves.bindQ _ (hwh.write bytes) (write_handleOK wh hwh bytes)
          intro r hr
          apply Preserves.bind (Preserves.attempt (pres_removeFile src hs))
          intro res
          apply Preserves.bind hr.drop
          intro _
          exact Preserves.ret _

/-- `read_to_string` -/
theorem pres_readToEndChecked (p : VPath) (h : p.fs.ObsPreserve I) : Preserves I p.readToEndChecked := by
  unfold readToEndChecked
  apply Preserves.bind (pres_metadata p h)
  intro md
  split
  · exact Preserves.failAt _ _
  · apply Preserves.bind (pres_openFile p h)
    intro r
    exact Preserves.withPath _ (Preserves.ret _)

theorem walkFind_good (inner todo : List VPath) (hi : ∀ c ∈ inner, Good I c)
    (ht : ∀ c ∈ todo, Good I c) :
    Returns (walkFind inner todo)
      (fun r => (∀ x, r.1 = some (.ok x) → Good I x) ∧ GoodWalk I r.2) := by
  induction todo generalizing inner with
  | nil =>
    cases inner with
    | nil =>
      unfold walkFind
      exact Returns.pure _ ⟨by simp, by simp [GoodWalk]⟩
    | cons x inner =>
      unfold walkFind
      apply Returns.pure
      refine ⟨?_, fun c hc => hi c (by simp [hc]), by simp⟩
      intro y hy
      simp only [Option.some.injEq, Res.ok.injEq] at hy
      subst hy; exact hi _ (by simp)
  | cons d todo ih =>
    cases inner with
    | cons x inner =>
      unfold walkFind
      apply Returns.pure
      refine ⟨?_, fun c hc => hi c (by simp [hc]), ht⟩
      intro y hy
      simp only [Option.some.injEq, Res.ok.injEq] at hy
      subst hy; exact hi _ (by simp)
    | nil =>
      refine ⟨fun w r he => ?_⟩
      unfold walkFind at he
      have hgood := (readDir_good d (ht d (by simp))).post w
      have htl : ∀ c ∈ todo, Good I c := fun c hc => ht c (by simp [hc])
      cases hres : d.readDir w with
      | mk res w' =>
        rw [hres] at he hgood
        cases res with
        | ok l =>
          have hl := hgood l rfl
          cases l with
          | nil => exact (ih [] (by simp) htl).post w' r he
          | cons x inner =>
            simp only [Res.ok.injEq] at he
            subst he
            refine ⟨?_, fun c hc => hl c (by simp [hc]), htl⟩
            intro y hy
            simp only [Option.some.injEq, Res.ok.injEq] at hy
            subst hy; exact hl _ (by simp)
        | err k pth =>
          simp only [Res.ok.injEq] at he
          subst he
          exact ⟨by simp, by simp, htl⟩
        | panic => cases he

theorem pres_walkNext (s : Walk) (hs : GoodWalk I s) : Preserves I (walkNext s) := by
  unfold walkNext
  apply Preserves.bindQ _ (pres_walkFind s.inner s.todo (fun c hc => (hs.2 c hc).obs))
    (walkFind_good s.inner s.todo hs.1 hs.2)
  intro r hr
  obtain ⟨item, s'⟩ := r
  dsimp only
  split
  · rename_i x
    have hx : Good I x := hr.1 x rfl
    refine ⟨fun w hw => ?_⟩
    have := (pres_metadata x hx.obs).pres w hw
    cases hres : x.metadata w with
    | mk res w' =>
      rw [hres] at this
      cases res with
      | ok md => dsimp only; split <;> exact this
      | err k pth => exact this
      | panic => exact this
  · exact Preserves.pure _

theorem walkNext_good (s : Walk) (hs : GoodWalk I s) :
    Returns (walkNext s) (fun r => (∀ x, r.1 = some (.ok x) → Good I x) ∧ GoodWalk I r.2) := by
  unfold walkNext
  apply Returns.bindQ (walkFind_good s.inner s.todo hs.1 hs.2)
  intro r hr
  obtain ⟨item, s'⟩ := r
  dsimp only
  split
  · rename_i x
    have hx : Good I x := hr.1 x rfl
    refine ⟨fun w r he => ?_⟩
    cases hres : x.metadata w with
    | mk res w' =>
      rw [hres] at he
      cases res with
      | ok md =>
        dsimp only at he
        split at he
        · simp only [Res.ok.injEq] at he
          subst he
          refine ⟨fun y hy => ?_, hr.2.1, ?_⟩
          · simp only [Option.some.injEq, Res.ok.injEq] at hy
            subst hy; exact hx
          · intro c hc
            simp only [List.mem_cons] at hc
            rcases hc with rfl | hc
            · exact hx
            · exact hr.2.2 c hc
        · simp only [Res.ok.injEq] at he
          subst he
          refine ⟨fun y hy => ?_, hr.2⟩
          simp only [Option.some.injEq, Res.ok.injEq] at hy
          subst hy; exact hx
      | err k pth =>
        simp only [Res.ok.injEq] at he
        subst he
        exact ⟨by simp, hr.2⟩
      | panic => cases he
  · exact Returns.pure _ ⟨fun x hx => hr.1 x hx, hr.2⟩

/-- the whole walk (`walk_dir().collect()`) -/
theorem pres_walkAll (fuel : Nat) (s : Walk) (hs : GoodWalk I s) : Preserves I (walkAll fuel s) := by
  induction fuel generalizing s with
  | zero => unfold walkAll; exact Preserves.ret _
  | succ fuel ih =>
    unfold walkAll
    apply Preserves.bindQ _ (pres_walkNext s hs) (walkNext_good s hs)
    intro r hr
    obtain ⟨item, s'⟩ := r
    dsimp only
    split
    · exact Preserves.pure _
    · apply Preserves.bind (ih s' hr.2)
      intro _; exact Preserves.pure _

theorem relJoin_good (dst : VPath) (n : Nat) (x : VPath) (hd : Good I dst) :
    Returns (M.ret (relJoin dst n x)) (Good I) := by
  apply Returns.ret
  intro q hq
  unfold relJoin at hq
  split at hq
  · cases hq
  · unfold Good; rw [(join_fs _ _ _ hq).1]; exact hd

/-- the loop of `copy_dir` / `move_dir` -/
theorem pres_copyItems (fuel : Nat) (src dst : VPath) (hd : Good I dst) (s : Walk)
    (hs : GoodWalk I s) (count : Nat) : Preserves I (copyItems fuel src dst s count) := by
  induction fuel generalizing s count with
  | zero => unfold copyItems; exact Preserves.ret _
  | succ fuel ih =>
    unfold copyItems
    apply Preserves.bindQ _ (pres_walkNext s hs) (walkNext_good s hs)
    intro r hr
    obtain ⟨item, s'⟩ := r
    dsimp only
    split
    · exact Preserves.pure _
    · exact Preserves.ret _
    · exact Preserves.ret _
    · rename_i x
      have hx : Good I x := hr.1 x rfl
      apply Preserves.bindQ _ (Preserves.ret _) (relJoin_good dst _ x hd)
      intro d hdd
      apply Preserves.bind (pres_metadata x hx.obs)
      intro md
      split
      · apply Preserves.bind (pres_createDir d hdd)
        intro _; exact ih s' hr.2 _
      · apply Preserves.bind (pres_copyFile x d hx.obs hdd (fun _ => hx))
        intro _; exact ih s' hr.2 _

/-- `copy_dir` -/
theorem pres_copyDir (fuel : Nat) (src dst : VPath) (hs : Good I src) (hd : Good I dst) :
    Preserves I (copyDir fuel src dst) := by
  unfold copyDir
  apply Preserves.withPath
  apply Preserves.bind (pres_exists dst hd.obs)
  intro b
  split
  · exact Preserves.failAt _ _
  · apply Preserves.bind (pres_createDir dst hd)
    intro _
    apply Preserves.bindQ _ (pres_walkDir src hs.obs) (walkDir_good src hs)
    intro s hgs
    exact pres_copyItems fuel src dst hd s hgs 0

/-- `move_dir` -/
theorem pres_moveDir (fuel : Nat) (src dst : VPath) (hs : Good I src) (hd : Good I dst) :
    Preserves I (moveDir fuel src dst) := by
  unfold moveDir
  apply Preserves.withPath
  apply Preserves.bind (pres_exists dst hd.obs)
  intro b
  split
  · exact Preserves.failAt _ _
  · apply Preserves.bind
    · split
      · exact Preserves.attempt (hs.moveDir _ _)
      · exact Preserves.pure _
    · intro fast
      split
      · exact Preserves.pure _
      · exact Preserves.ret _
      · split
        · exact Preserves.ret _
        · apply Preserves.bind (pres_createDir dst hd)
          intro _
          apply Preserves.bindQ _ (pres_walkDir src hs.obs) (walkDir_good src hs)
          intro s hgs
          apply Preserves.bind (pres_copyItems fuel src dst hd s hgs 0)
          intro _
          exact pres_removeDirAll fuel src hs

end composite

end Vfs.Stk
