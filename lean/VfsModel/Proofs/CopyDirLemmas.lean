/-
  Helpers for the nested-tree theorems of property C11 (`VfsPath::copy_dir` / `move_dir` on
  memory leaves, Props/C11Nested.lean).

  * 1. strings: `under` (TransferLemmas) is `Wk.within`; the parent of a grafted path; a canonical
       key below a canonical directory is joined back onto the destination unchanged (`rel_join`);
       two ancestors of one path are comparable;
  * 2. counting: a duplicate-free list inside another is not longer;
  * 3. the iterator step once more (`walkNext_spec'`): `Wk.walkNext_spec` plus "what is pending
       afterwards was pending before", for EVERY string (this is what keeps the walk of `S` blind
       to keys appearing under the destination on the same leaf);
  * 4. one item of the copy loop: `create_dir` / `copy_file` of a present source key to a fresh
       destination key, source and destination leaf equal or different (`item_step`);
  * 5. the loop invariant `PInv` of `copyItems` (destination = directory `D` + the re-rooted copies
       of the keys yielded so far, source unchanged up to access times, the iterator state `Good`
       on the CURRENT source map), its preservation (`PInv.step`), the loop (`copyItems_loop`);
  * 6. `copy_dir` = existence probe, `create_dir D`, `walk_dir S`, loop: `copyDirBody_tree`,
       `copyDir_tree` (result: `TreeCopied`);
  * 7. `move_dir` = the same, then `remove_dir_all S` (`rd_all` of TransferLemmas): `moveDir_tree`.
-/
import VfsModel.Proofs.TransferLemmas
import VfsModel.Proofs.WalkLemmas
import VfsModel.Proofs.AltrootLemmas
namespace Vfs.CD
open Vfs.Wk (below within below_iff within_iff pending Good children st mk)

/-! ### 1. strings -/

theorem under_eq_within (P k : Str) : under P k = within P k := rfl

theorem under_of_below {P k : Str} (h : below P k = true) : under P k = true := by
  rw [under_eq_within]; exact Wk.within_of_below h

theorem below_graft (P t : Str) : below P (P ++ '/' :: t) = true := (below_iff _ _).2 ⟨t, rfl⟩

theorem under_graft (P t : Str) : under P (P ++ '/' :: t) = true := under_of_below (below_graft P t)

theorem graft_ne (P t : Str) : P ++ '/' :: t ≠ P := by
  intro h
  have := congrArg List.length h
  simp [List.length_append] at this

theorem graft_inj (P a b : Str) : P ++ '/' :: a = P ++ '/' :: b ↔ a = b := by
  constructor
  · intro h
    have := List.append_cancel_left h
    injection this
  · intro h; rw [h]

theorem beforeLast_append_of_mem (d : Char) (a u : Str) (h : d ∈ u) :
    beforeLast d (a ++ u) = a ++ beforeLast d u := by
  induction a with
  | nil => rfl
  | cons c cs ih => simp [beforeLast, h, ih]

/-- the parent of `A/t` is `A` followed by the parent part of `/t` -/
theorem parent_graft (A t : Str) :
    parentInternal (A ++ '/' :: t) = A ++ beforeLast '/' ('/' :: t) := by
  unfold parentInternal
  exact beforeLast_append_of_mem '/' A ('/' :: t) (by simp)

theorem beforeLast_slash_cons (t : Str) :
    beforeLast '/' ('/' :: t) = if '/' ∈ t then '/' :: beforeLast '/' t else [] := by
  simp [beforeLast]

/-- slash-free heads of two equal strings whose tails start with '/' (or are empty) agree -/
theorem slashfree_split : ∀ (x y s t : Str), '/' ∉ x → '/' ∉ y →
    (s = [] ∨ s.head? = some '/') → (t = [] ∨ t.head? = some '/') →
    x ++ s = y ++ t → x = y ∧ s = t := by
  intro x
  induction x with
  | nil =>
    intro y s t _ hy hs ht he
    cases y with
    | nil => exact ⟨rfl, by simpa using he⟩
    | cons c cs =>
      simp at he hy
      rcases hs with rfl | hs
      · simp at he
      · subst he; simp at hs; exact absurd hs.symm hy.1
  | cons c cs ihx =>
    intro y s t hx hy hs ht he
    cases y with
    | nil =>
      simp at he hx
      rcases ht with rfl | ht
      · simp at he
      · rw [← he] at ht; simp at ht; exact absurd ht.symm hx.1
    | cons d ds =>
      simp at he hx hy
      obtain ⟨rfl, he⟩ := he
      obtain ⟨h1, h2⟩ := ihx ds s t hx.2 hy.2 hs ht he
      exact ⟨by rw [h1], h2⟩

/-- a rendered list that starts with another rendered list followed by "/t" -/
theorem renderC_split : ∀ (ss ks : List Str) (t : Str), (∀ c ∈ ss, '/' ∉ c) → (∀ c ∈ ks, '/' ∉ c) →
    renderC ks = renderC ss ++ '/' :: t → ∃ ts, ks = ss ++ ts ∧ renderC ts = '/' :: t := by
  intro ss
  induction ss with
  | nil => intro ks t _ _ h; exact ⟨ks, rfl, by simpa using h⟩
  | cons s ss ih =>
    intro ks t hss hks h
    cases ks with
    | nil => simp at h
    | cons k ks =>
      simp only [renderC_cons, List.cons_append, List.cons.injEq, true_and, List.append_assoc] at h
      have hh : renderC ss ++ '/' :: t = [] ∨ (renderC ss ++ '/' :: t).head? = some '/' := by
        cases ss <;> simp
      have hk : renderC ks = [] ∨ (renderC ks).head? = some '/' := by
        cases ks <;> simp
      obtain ⟨h1, h2⟩ := slashfree_split k s _ _ (hks k (by simp)) (hss s (by simp)) hk hh h
      obtain ⟨ts, h3, h4⟩ := ih ks t (fun c hc => hss c (by simp [hc]))
        (fun c hc => hks c (by simp [hc])) h2
      exact ⟨ts, by rw [h1, h3]; rfl, h4⟩

/-- `destination.join(&src_path[prefix_len + 1..])` for a canonical key `S/t` below the canonical
directory `S`: the relative part `t` is appended unchanged -/
theorem rel_join (bs : List Str) (S t : Str) (hbs : ∀ c ∈ bs, '/' ∉ c) (hS : Canon S)
    (hk : Canon (S ++ '/' :: t)) : joinInternal (renderC bs) t = .ok (renderC bs ++ '/' :: t) := by
  obtain ⟨ss, hss, rfl⟩ := hS
  obtain ⟨ks, hks, hk⟩ := hk
  obtain ⟨ts, h1, h2⟩ := renderC_split ss ks t (fun c hc => (hss c hc).2.1)
    (fun c hc => (hks c hc).2.1) hk.symm
  subst h1
  cases ts with
  | nil => simp at h2
  | cons c cs =>
    simp only [renderC_cons, List.cons_append, List.cons.injEq, true_and] at h2
    subst h2
    rw [joinInternal_good bs c cs hbs (hks c (by simp)) (fun x hx => hks x (by simp [hx]))]
    simp

/-- two ancestors-or-self of one path: one of them is an ancestor-or-self of the other -/
theorem within_comparable {a b x : Str} (ha : within a x = true) (hb : within b x = true) :
    within a b = true ∨ within b a = true := by
  rcases (within_iff a x).1 ha with rfl | ha
  · exact Or.inr hb
  · rcases (within_iff b x).1 hb with rfl | hb
    · exact Or.inl (Wk.within_of_below ha)
    · -- both `a/` and `b/` are prefixes of `x`
      have key : ∀ (a b : Str), below a x = true → below b x = true → a.length ≤ b.length →
          within a b = true := by
        intro a b ha hb hle
        unfold below at ha hb
        rw [List.isPrefixOf_iff_prefix] at ha hb
        have hp : a ++ ['/'] <+: b ++ ['/'] :=
          List.prefix_of_prefix_length_le ha hb (by simp [List.length_append]; exact hle)
        obtain ⟨u, hu⟩ := hp
        rcases List.eq_nil_or_concat u with rfl | ⟨u', c, rfl⟩
        · simp only [List.append_nil] at hu
          have : a = b := List.append_cancel_right hu
          rw [this]; exact Wk.within_self b
        · rw [List.concat_eq_append, ← List.append_assoc] at hu
          have h1 := List.append_inj_left' hu rfl
          refine Wk.within_of_below ?_
          unfold below
          rw [List.isPrefixOf_iff_prefix]
          exact ⟨u', h1⟩
      rcases Nat.le_total a.length b.length with h | h
      · exact Or.inl (key a b ha hb h)
      · exact Or.inr (key b a hb ha h)

/-- source and destination are apart: a path at or below `S` is not at or below `D` -/
theorem apart_of_not_under {S D : Str} (h1 : under S D = false) (h2 : under D S = false) (k : Str)
    (hk : under S k = true) : under D k = false := by
  cases hd : under D k with
  | false => rfl
  | true =>
    rw [under_eq_within] at *
    rcases within_comparable hk hd with h | h
    · rw [h1] at h; cases h
    · rw [h2] at h; cases h

/-! ### 2. counting -/

theorem nodup_subset_length_le {α} [DecidableEq α] : ∀ (l₁ l₂ : List α), l₁.Nodup →
    (∀ a ∈ l₁, a ∈ l₂) → l₁.length ≤ l₂.length := by
  intro l₁
  induction l₁ with
  | nil => intro _ _ _; simp
  | cons a l ih =>
    intro l₂ hnd hsub
    rw [List.nodup_cons] at hnd
    have ha : a ∈ l₂ := hsub a (by simp)
    have := ih (l₂.erase a) hnd.2 (fun b hb => by
      have hne : b ≠ a := fun h => hnd.1 (h ▸ hb)
      exact (List.mem_erase_of_ne hne).2 (hsub b (by simp [hb])))
    rw [List.length_erase_of_mem ha] at this
    have hpos : 0 < l₂.length := List.length_pos_of_mem ha
    simp only [List.length_cons]
    omega

/-! ### 3. the iterator step, with monotonicity of the pending set -/

theorem pending_emit_mono (x : Str) (rest todo : List Str) (c : Prop) [Decidable c] (k : Str)
    (h : pending rest (if c then x :: todo else todo) k = true) :
    pending (x :: rest) todo k = true := by
  unfold pending at *
  simp only [List.any_cons]
  have hw : within x k = (decide (k = x) || below x k) := rfl
  rw [hw]
  split at h
  · simp only [List.any_cons] at h
    revert h
    generalize rest.any (fun x => within x k) = R
    generalize todo.any (fun d => below d k) = T
    cases decide (k = x) <;> cases below x k <;> cases R <;> cases T <;> simp
  · revert h
    generalize rest.any (fun x => within x k) = R
    generalize todo.any (fun d => below d k) = T
    cases decide (k = x) <;> cases below x k <;> cases R <;> cases T <;> simp

theorem pending_expand_mono (m : FMap) (d : Str) (todo : List Str) (k : Str)
    (h : pending (children m d) todo k = true) : pending [] (d :: todo) k = true := by
  unfold pending at *
  simp only [List.any_nil, List.any_cons, Bool.false_or]
  rw [Bool.or_eq_true] at h ⊢
  rcases h with h | h
  · left
    rw [List.any_eq_true] at h
    obtain ⟨c, hc, hw⟩ := h
    exact Wk.below_of_below_within (Wk.child_below hc) hw
  · exact Or.inr h

/-- `Wk.StepSpec` plus: whatever is pending after the step was pending before it -/
def StepSpec' (w : World) (i id : Nat) (m : FMap) (inner todo : List Str) : Prop :=
  (VPath.walkNext (st i id inner todo) w = (.ok (none, st i id [] []), w) ∧
    ∀ k, (∃ e, m.find? k = some e) → pending inner todo k = false) ∨
  ∃ x inner' todo',
    VPath.walkNext (st i id inner todo) w = (.ok (some (.ok (mk i id x)), st i id inner' todo'), w) ∧
    Good m inner' todo' ∧ (∃ e, m.find? x = some e) ∧ pending inner' todo' x = false ∧
    (∀ k, (∃ e, m.find? k = some e) →
      pending inner todo k = (decide (k = x) || pending inner' todo' k)) ∧
    (∀ b, pending inner' todo' b = true → below b x = false) ∧
    (∀ k, pending inner' todo' k = true → pending inner todo k = true)

theorem walkNext_spec' {w : World} {i : Nat} {m : FMap} (h : MemLeafAt w i m) (id : Nat)
    (hwf : WF m) (hk : FMap.NodupKeys m) :
    ∀ (todo inner : List Str), Good m inner todo → StepSpec' w i id m inner todo := by
  intro todo
  induction todo with
  | nil =>
    intro inner hg
    cases inner with
    | nil =>
      left
      exact ⟨rfl, fun k _ => rfl⟩
    | cons x rest =>
      right
      obtain ⟨e, hx⟩ := hg.innerKeys x (by simp)
      obtain ⟨g1, g2, g3, g4⟩ := Wk.emit_good hwf hg e hx _ rfl
      exact ⟨x, rest, _, Wk.walkNext_cons h id x rest [] e hx, g1, ⟨e, hx⟩, g2, g3, g4,
        fun k hk' => pending_emit_mono x rest [] _ k hk'⟩
  | cons d todo ih =>
    intro inner hg
    cases inner with
    | cons x rest =>
      right
      obtain ⟨e, hx⟩ := hg.innerKeys x (by simp)
      obtain ⟨g1, g2, g3, g4⟩ := Wk.emit_good hwf hg e hx _ rfl
      exact ⟨x, rest, _, Wk.walkNext_cons h id x rest (d :: todo) e hx, g1, ⟨e, hx⟩, g2, g3, g4,
        fun k hk' => pending_emit_mono x rest (d :: todo) _ k hk'⟩
    | nil =>
      obtain ⟨e, hd, hdir⟩ := hg.todoDirs d (by simp)
      obtain ⟨g1, g2⟩ := Wk.expand_good hwf hk hg
      have hrun := Wk.walkNext_expand h id d todo e hd hdir
      rcases ih (children m d) g1 with ⟨h1, h2⟩ | ⟨x, inner', todo', h1, h2, h3, h4, h5, h6, h7⟩
      · left
        exact ⟨by rw [hrun]; exact h1, fun k hk' => by rw [g2 k hk']; exact h2 k hk'⟩
      · right
        exact ⟨x, inner', todo', by rw [hrun]; exact h1, h2, h3, h4,
          fun k hk' => by rw [g2 k hk']; exact h5 k hk', h6,
          fun k hk' => pending_expand_mono m d todo k (h7 k hk')⟩

/-- the invariant of the iterator only looks at which keys are present and which are
directories -/
theorem Good.transfer {m m' : FMap} {inner todo : List Str} (hg : Good m inner todo)
    (h : ∀ k e, m.find? k = some e → ∃ e', m'.find? k = some e' ∧ e'.ftype = e.ftype) :
    Good m' inner todo := by
  refine ⟨?_, ?_, hg.apart⟩
  · intro x hx
    obtain ⟨e, he⟩ := hg.innerKeys x hx
    obtain ⟨e', he', _⟩ := h x e he
    exact ⟨e', he'⟩
  · intro d hd
    obtain ⟨e, he, hdir⟩ := hg.todoDirs d hd
    obtain ⟨e', he', hft⟩ := h d e he
    exact ⟨e', he', by rw [hft]; exact hdir⟩

/-! ### 4. one item of the copy loop -/

/-- what a copy must reproduce: the type, and the bytes of a file -/
def shape (e : Entry) : FType × Bytes := (e.ftype, if e.ftype = .file then e.content else [])

theorem shape_of_stripAcc {a b : Entry} (h : stripAcc a = stripAcc b) : shape a = shape b := by
  have h1 : a.ftype = b.ftype := by simpa [stripAcc] using congrArg Entry.ftype h
  have h2 : a.content = b.content := by simpa [stripAcc] using congrArg Entry.content h
  simp [shape, h1, h2]

theorem ftype_of_stripAcc {a b : Entry} (h : stripAcc a = stripAcc b) : a.ftype = b.ftype := by
  simpa [stripAcc] using congrArg Entry.ftype h

theorem shape_dirEntryNow : shape dirEntryNow = (.dir, []) := by decide

theorem shape_dir {e : Entry} (h : e.ftype = .dir) : shape e = (.dir, []) := by simp [shape, h]

theorem shape_file {e : Entry} (h : e.ftype = .file) : shape e = (.file, e.content) := by
  simp [shape, h]

/-- the two branches of the loop body -/
def itemAct (ft : FType) (xp dp : VPath) : M Unit :=
  match ft with
  | .dir => dp.createDir
  | .file => xp.copyFile dp

/-- a directory item: `create_dir` at the fresh destination key -/
theorem item_dir {w : World} {i j : Nat} {ms md : FMap} (hi : MemLeafAt w i ms)
    (hj : MemLeafAt w j md) (did : Nat) (d : Str) (hd : FreshDest md d)
    (hwfs : WF ms) (hwfd : WF md) (hnd : FMap.NodupKeys ms) :
    ∃ w' ms' md', VPath.createDir (mk j did d) w = (.ok (), w') ∧
      MemLeafAt w' i ms' ∧ MemLeafAt w' j md' ∧ WF ms' ∧ WF md' ∧ FMap.NodupKeys ms' ∧
      (∀ l, l ≠ i → l ≠ j → w'.leaf? l = w.leaf? l) ∧
      (∀ k, md'.find? k = if k = d then some dirEntryNow else md.find? k) ∧
      (∀ k, ms'.find? k = if i = j ∧ k = d then some dirEntryNow else ms.find? k) := by
  obtain ⟨pe, hpe, hpd⟩ := hd.parent
  have hwfd' : WF (md.insert d dirEntryNow) := hwfd.insert_dir _ _ rfl hd.slash pe hpe hpd
  have hrun : VPath.createDir (mk j did d) w = (.ok (), w.setLeafFiles j (md.insert d dirEntryNow)) := by
    show VPath.createDir { fs := leafFS j, fsId := did, path := d } w = _
    rw [run_pCreateDir hj did d, hd.pCreateDir]
  have hoth : ∀ l, l ≠ i → l ≠ j →
      (w.setLeafFiles j (md.insert d dirEntryNow)).leaf? l = w.leaf? l := by
    intro l _ hl; exact World.leaf?_setLeafFiles_ne _ _ _ _ (Ne.symm hl)
  by_cases hij : i = j
  · subst hij
    have := hi.unique hj; subst this
    exact ⟨_, _, _, hrun, hj.set _, hj.set _, hwfd', hwfd', FMap.nodup_insert _ _ _ hnd, hoth,
      fun k => by rw [FMap.find?_insert], fun k => by rw [FMap.find?_insert]; simp⟩
  · exact ⟨_, ms, _, hrun, hi.set_ne (Ne.symm hij) _, hj.set _, hwfs, hwfd', hnd, hoth,
      fun k => by rw [FMap.find?_insert], fun k => by simp [hij]⟩

/-- a file item: `copy_file` to the fresh destination key -/
theorem item_file {w : World} {i j : Nat} {ms md : FMap} (hi : MemLeafAt w i ms)
    (hj : MemLeafAt w j md) (sid did : Nat) (x d : Str) (e : Entry) (hx : ms.find? x = some e)
    (hf : e.ftype = .file) (hd : FreshDest md d)
    (hwfs : WF ms) (hwfd : WF md) (hnd : FMap.NodupKeys ms) :
    ∃ w' ms' md', VPath.copyFile (mk i sid x) (mk j did d) w = (.ok (), w') ∧
      MemLeafAt w' i ms' ∧ MemLeafAt w' j md' ∧ WF ms' ∧ WF md' ∧ FMap.NodupKeys ms' ∧
      (∀ l, l ≠ i → l ≠ j → w'.leaf? l = w.leaf? l) ∧
      (∀ k, md'.find? k = if k = d then some (copiedEntry e.content)
                           else if i = j ∧ k = x then some (touched e) else md.find? k) ∧
      (∀ k, ms'.find? k = if i = j ∧ k = d then some (copiedEntry e.content)
                           else if k = x then some (touched e) else ms.find? k) := by
  obtain ⟨w', hrun, hoth, _, ⟨ms', md', hi', hj', hmd', hms'⟩, hinv⟩ :=
    copyFile_mem hi hj sid did x d e hx hf hd
  have hwf' := (hinv ms' md' hi' hj').1 hwfs hwfd
  refine ⟨w', ms', md', hrun, hi', hj', hwf'.1, hwf'.2, ?_, hoth, hmd', hms'⟩
  by_cases hij : i = j
  · subst hij
    have := hi.unique hj; subst this
    exact ((hinv ms' md' hi' hj').2 hnd hnd).1
  · -- two leaves: the source leaf is `ms` with the access time of `x` stamped
    have hd1 : MemLeafAt (w.setLeafFiles i (ms.insert x (touched e))) j md := hj.set_ne hij _
    have hrun2 := run_copyFile_generic hi hj sid did x d e hx hf hd.absent hd1
    have hw : w' = (w.setLeafFiles i (ms.insert x (touched e))).setLeafFiles j
        (Mem.pWrite md d e.content).2 := by
      rw [hrun2] at hrun
      exact (congrArg Prod.snd hrun).symm
    have hi2 : MemLeafAt w' i (ms.insert x (touched e)) := by
      rw [hw]; exact (hi.set _).set_ne (Ne.symm hij) _
    rw [hi'.unique hi2]
    exact FMap.nodup_insert _ _ _ hnd

theorem stripAcc_touched (e : Entry) : stripAcc (touched e) = stripAcc e := rfl

/-- one item, directory or file: a new entry `ne` at the destination key whose type and bytes are
the shape of the source entry (a directory is created with no bytes), the
source entry `e` replaced by `te` (equal up to the access time), nothing else touched -/
theorem item_step {w : World} {i j : Nat} {ms md : FMap} (hi : MemLeafAt w i ms)
    (hj : MemLeafAt w j md) (sid did : Nat) (x d : Str) (e : Entry) (hx : ms.find? x = some e)
    (hd : FreshDest md d) (hwfs : WF ms) (hwfd : WF md) (hnd : FMap.NodupKeys ms) :
    ∃ w' ms' md' ne te, itemAct e.ftype (mk i sid x) (mk j did d) w = (.ok (), w') ∧
      MemLeafAt w' i ms' ∧ MemLeafAt w' j md' ∧ WF ms' ∧ WF md' ∧ FMap.NodupKeys ms' ∧
      (∀ l, l ≠ i → l ≠ j → w'.leaf? l = w.leaf? l) ∧
      core ne = shape e ∧ stripAcc te = stripAcc e ∧
      (∀ k, md'.find? k = if k = d then some ne
                           else if i = j ∧ k = x then some te else md.find? k) ∧
      (∀ k, ms'.find? k = if i = j ∧ k = d then some ne
                           else if k = x then some te else ms.find? k) := by
  cases hft : e.ftype with
  | dir =>
    obtain ⟨w', ms', md', hrun, hi', hj', h1, h2, h3, h4, hmd', hms'⟩ :=
      item_dir hi hj did d hd hwfs hwfd hnd
    refine ⟨w', ms', md', dirEntryNow, e, hrun, hi', hj', h1, h2, h3, h4, ?_, rfl, ?_, ?_⟩
    · rw [shape_dir hft]; rfl
    · intro k
      rw [hmd' k]
      by_cases hkd : k = d
      · simp [hkd]
      · rw [if_neg hkd, if_neg hkd]
        split
        · rename_i h
          obtain ⟨hij, hkx⟩ := h
          subst hij
          have := hi.unique hj; subst this
          rw [hkx]; exact hx
        · rfl
    · intro k
      rw [hms' k]
      split
      · rfl
      · split
        · rename_i h; rw [h]; exact hx
        · rfl
  | file =>
    obtain ⟨w', ms', md', hrun, hi', hj', h1, h2, h3, h4, hmd', hms'⟩ :=
      item_file hi hj sid did x d e hx hft hd hwfs hwfd hnd
    refine ⟨w', ms', md', copiedEntry e.content, touched e, hrun, hi', hj', h1, h2, h3, h4, ?_,
      stripAcc_touched e, hmd', hms'⟩
    rw [shape_file hft]; rfl

/-! ### 5. the loop invariant -/

theorem opt_map_some {α β} {f : α → β} {a b : Option α} {e : α} (h : a.map f = b.map f)
    (ha : a = some e) : ∃ e0, b = some e0 ∧ f e = f e0 := by
  subst ha
  cases b with
  | none => simp at h
  | some e0 => exact ⟨e0, rfl, by simpa using h⟩

/-- the fixed data of one run of the copy loop: source leaf `i` held `ms`, destination leaf `j`
held `md` before the call; `S` the source directory, `D` the destination path -/
structure Setup (i j : Nat) (ms md : FMap) (S D : Str) (N : Nat) : Prop where
  /-- one leaf: a path at or below the source is not at or below the destination -/
  apart : i = j → ∀ k, under S k = true → under D k = false
  /-- the relative part of a source key is joined onto the destination unchanged -/
  join : ∀ t e, ms.find? (S ++ '/' :: t) = some e → joinInternal D t = .ok (D ++ '/' :: t)
  /-- `N` bounds the number of keys strictly below the source -/
  bound : ∀ L : List Str, L.Nodup →
    (∀ k ∈ L, (∃ e, ms.find? k = some e) ∧ below S k = true) → L.length ≤ N

/-- invariant of the copy loop: `msc` / `mdc` are the current maps of the source and destination
leaf, `(inner, todo)` the iterator state, `L` the keys yielded (and copied) so far -/
structure PInv (i j : Nat) (ms md : FMap) (S D : Str) (msc mdc : FMap)
    (inner todo L : List Str) : Prop where
  wfs : WF msc
  wfd : WF mdc
  nds : FMap.NodupKeys msc
  good : Good msc inner todo
  /-- only keys below the source are ever pending -/
  scope : ∀ k, pending inner todo k = true → below S k = true
  /-- yielded so far = the source keys below `S` that are no longer pending -/
  listed : ∀ k, k ∈ L ↔
    (∃ e, ms.find? k = some e) ∧ below S k = true ∧ pending inner todo k = false
  nodup : L.Nodup
  /-- the source leaf is as it was, up to access times (on one leaf: outside the destination) -/
  src : ∀ k, (i = j → under D k = false) →
    (msc.find? k).map stripAcc = (ms.find? k).map stripAcc
  dstD : mdc.find? D = some dirEntryNow
  /-- below the destination: exactly the re-rooted copies of the keys yielded so far -/
  dst : ∀ t, (mdc.find? (D ++ '/' :: t)).map core =
    if S ++ '/' :: t ∈ L then (ms.find? (S ++ '/' :: t)).map shape else none
  /-- outside the destination the destination leaf is as it was, up to access times -/
  frame : ∀ k, under D k = false → (mdc.find? k).map stripAcc = (md.find? k).map stripAcc

section inv
variable {i j : Nat} {ms md : FMap} {S D : Str} {N : Nat} {msc mdc : FMap}
  {inner todo L : List Str}

theorem PInv.key_src (hs : Setup i j ms md S D N) (h : PInv i j ms md S D msc mdc inner todo L)
    {k : Str} (hk : below S k = true) {e : Entry} (he : msc.find? k = some e) :
    ∃ e0, ms.find? k = some e0 ∧ stripAcc e = stripAcc e0 :=
  opt_map_some (h.src k (fun hij => hs.apart hij k (under_of_below hk))) he

theorem PInv.key_cur (hs : Setup i j ms md S D N) (h : PInv i j ms md S D msc mdc inner todo L)
    {k : Str} (hk : below S k = true) {e0 : Entry} (he : ms.find? k = some e0) :
    ∃ e, msc.find? k = some e ∧ stripAcc e0 = stripAcc e :=
  opt_map_some (h.src k (fun hij => hs.apart hij k (under_of_below hk))).symm he

/-- the destination key of the next item is fresh: absent, and its parent — the destination
directory or the copy of the item's parent, yielded earlier — is a directory -/
theorem PInv.fresh (hs : Setup i j ms md S D N) (h : PInv i j ms md S D msc mdc inner todo L)
    (t : Str) (e : Entry) (he : msc.find? (S ++ '/' :: t) = some e)
    (hp : pending inner todo (S ++ '/' :: t) = true)
    (hanc : ∀ p, below p (S ++ '/' :: t) = true → below S p = true →
      (∃ e', msc.find? p = some e') → pending inner todo p = false) :
    FreshDest mdc (D ++ '/' :: t) := by
  refine ⟨?_, by simp, ?_⟩
  · have hnl : S ++ '/' :: t ∉ L := by
      intro hl
      have := ((h.listed _).1 hl).2.2
      rw [hp] at this; cases this
    have := h.dst t
    rw [if_neg hnl] at this
    cases hf : mdc.find? (D ++ '/' :: t) with
    | none => rfl
    | some v => rw [hf] at this; simp at this
  · rw [parent_graft, beforeLast_slash_cons]
    by_cases hsl : '/' ∈ t
    · rw [if_pos hsl]
      have hpar : parentInternal (S ++ '/' :: t) = S ++ '/' :: beforeLast '/' t := by
        rw [parent_graft, beforeLast_slash_cons, if_pos hsl]
      have hxne : S ++ '/' :: t ≠ [] := by simp
      obtain ⟨hxs, pe, hpe, hpd⟩ := h.wfs.2 _ e he hxne
      rw [hpar] at hpe
      have hbp : below (S ++ '/' :: beforeLast '/' t) (S ++ '/' :: t) = true := by
        have := Wk.below_parent_self _ hxs
        rw [hpar] at this; exact this
      have hSp : below S (S ++ '/' :: beforeLast '/' t) = true := below_graft S _
      have hpend := hanc _ hbp hSp ⟨pe, hpe⟩
      obtain ⟨e0, he0, hse0⟩ := h.key_src hs hSp hpe
      have hin : S ++ '/' :: beforeLast '/' t ∈ L := (h.listed _).2 ⟨⟨e0, he0⟩, hSp, hpend⟩
      have hd := h.dst (beforeLast '/' t)
      rw [if_pos hin, he0] at hd
      cases hf : mdc.find? (D ++ '/' :: beforeLast '/' t) with
      | none => rw [hf] at hd; simp at hd
      | some v =>
        rw [hf] at hd
        simp only [Option.map_some, Option.some.injEq] at hd
        refine ⟨v, rfl, ?_⟩
        have h1 : (core v).1 = (shape e0).1 := by rw [hd]
        have h2 : e0.ftype = .dir := by rw [← ftype_of_stripAcc hse0]; exact hpd
        simpa [shape, core, h2] using h1
    · rw [if_neg hsl, List.append_nil]
      exact ⟨dirEntryNow, h.dstD, rfl⟩

/-- one item copied: the invariant holds for the new maps, the new iterator state and the list
extended by the item -/
theorem PInv.step (hs : Setup i j ms md S D N) (h : PInv i j ms md S D msc mdc inner todo L)
    (hcs : i = j → msc = mdc) (t : Str) (e : Entry) (he : msc.find? (S ++ '/' :: t) = some e)
    (hdabs : mdc.find? (D ++ '/' :: t) = none)
    (inner' todo' : List Str) (hgood' : Good msc inner' todo')
    (hpx' : pending inner' todo' (S ++ '/' :: t) = false)
    (heq : ∀ k, (∃ e, msc.find? k = some e) →
      pending inner todo k = (decide (k = S ++ '/' :: t) || pending inner' todo' k))
    (hmono : ∀ k, pending inner' todo' k = true → pending inner todo k = true)
    (ms' md' : FMap) (ne te : Entry) (hsh : core ne = shape e) (hst : stripAcc te = stripAcc e)
    (hmd : ∀ k, md'.find? k = if k = D ++ '/' :: t then some ne
      else if i = j ∧ k = S ++ '/' :: t then some te else mdc.find? k)
    (hms : ∀ k, ms'.find? k = if i = j ∧ k = D ++ '/' :: t then some ne
      else if k = S ++ '/' :: t then some te else msc.find? k)
    (hwfs' : WF ms') (hwfd' : WF md') (hnd' : FMap.NodupKeys ms') :
    PInv i j ms md S D ms' md' inner' todo' ((S ++ '/' :: t) :: L) := by
  have hxS : below S (S ++ '/' :: t) = true := below_graft S t
  have hxD : i = j → under D (S ++ '/' :: t) = false := fun hij => hs.apart hij _ (under_graft S t)
  have hdD : under D (D ++ '/' :: t) = true := under_graft D t
  obtain ⟨e0, he0, hse0⟩ := h.key_src hs hxS he
  have hpx : pending inner todo (S ++ '/' :: t) = true := by rw [heq _ ⟨e, he⟩]; simp
  refine ⟨hwfs', hwfd', hnd', ?_, fun k hk => h.scope k (hmono k hk), ?_, ?_, ?_, ?_, ?_, ?_⟩
  · -- the iterator invariant on the new source map
    refine Good.transfer hgood' ?_
    intro k e1 hk
    rw [hms k]
    by_cases c1 : i = j ∧ k = D ++ '/' :: t
    · obtain ⟨hij, rfl⟩ := c1
      rw [hcs hij, hdabs] at hk; cases hk
    · rw [if_neg c1]
      by_cases c2 : k = S ++ '/' :: t
      · subst c2
        rw [he] at hk; injection hk with hk; subst hk
        exact ⟨te, by simp, ftype_of_stripAcc hst⟩
      · rw [if_neg c2]; exact ⟨e1, hk, rfl⟩
  · -- yielded so far
    intro k
    simp only [List.mem_cons]
    constructor
    · rintro (rfl | hk)
      · exact ⟨⟨e0, he0⟩, hxS, hpx'⟩
      · obtain ⟨p1, p2, p3⟩ := (h.listed k).1 hk
        refine ⟨p1, p2, ?_⟩
        cases hq : pending inner' todo' k with
        | false => rfl
        | true => rw [hmono k hq] at p3; cases p3
    · rintro ⟨⟨ek, hek⟩, p2, p3⟩
      by_cases hkx : k = S ++ '/' :: t
      · exact Or.inl hkx
      · right
        obtain ⟨ec, hec, _⟩ := h.key_cur hs p2 hek
        refine (h.listed k).2 ⟨⟨ek, hek⟩, p2, ?_⟩
        rw [heq k ⟨ec, hec⟩, p3]; simp [hkx]
  · rw [List.nodup_cons]
    refine ⟨?_, h.nodup⟩
    intro hx
    have := ((h.listed _).1 hx).2.2
    rw [hpx] at this; cases this
  · -- the source leaf
    intro k hk
    rw [hms k]
    have c1 : ¬ (i = j ∧ k = D ++ '/' :: t) := by
      rintro ⟨hij, rfl⟩
      rw [hk hij] at hdD; cases hdD
    rw [if_neg c1]
    by_cases c2 : k = S ++ '/' :: t
    · rw [if_pos c2, ← h.src k hk, c2, he]; simp [hst]
    · rw [if_neg c2]; exact h.src k hk
  · -- the destination directory itself
    rw [hmd D, if_neg (graft_ne D t).symm, if_neg]
    · exact h.dstD
    · rintro ⟨hij, hDx⟩
      have := hxD hij
      rw [← hDx, under_self] at this; cases this
  · -- below the destination
    intro t2
    rw [hmd]
    by_cases ht : t2 = t
    · subst ht
      rw [if_pos rfl]
      simp only [List.mem_cons, true_or, if_true, Option.map_some]
      rw [he0]
      simp [hsh, shape_of_stripAcc hse0]
    · have hne1 : D ++ '/' :: t2 ≠ D ++ '/' :: t := fun hq => ht ((graft_inj D t2 t).1 hq)
      have hne2 : ¬ (i = j ∧ D ++ '/' :: t2 = S ++ '/' :: t) := by
        rintro ⟨hij, hq⟩
        have := hxD hij
        rw [← hq, under_graft] at this; cases this
      rw [if_neg hne1, if_neg hne2, h.dst t2]
      simp only [List.mem_cons, graft_inj S t2 t, ht, false_or]
  · -- outside the destination
    intro k hk
    rw [hmd k]
    have c1 : k ≠ D ++ '/' :: t := by
      rintro rfl
      rw [hk] at hdD; cases hdD
    rw [if_neg c1]
    by_cases c2 : i = j ∧ k = S ++ '/' :: t
    · rw [if_pos c2]
      obtain ⟨hij, rfl⟩ := c2
      have : mdc.find? (S ++ '/' :: t) = some e := by rw [← hcs hij]; exact he
      rw [← h.frame _ hk, this]; simp [hst]
    · rw [if_neg c2]; exact h.frame k hk

/-- the walk is over: nothing is pending -/
theorem PInv.done (hs : Setup i j ms md S D N) (h : PInv i j ms md S D msc mdc inner todo L)
    (hnone : ∀ k, (∃ e, msc.find? k = some e) → pending inner todo k = false) :
    PInv i j ms md S D msc mdc [] [] L := by
  refine ⟨h.wfs, h.wfd, h.nds, ⟨by simp, by simp, by simp⟩, ?_, ?_, h.nodup, h.src, h.dstD, h.dst,
    h.frame⟩
  · intro k hk; simp [pending] at hk
  · intro k
    constructor
    · intro hk
      obtain ⟨p1, p2, _⟩ := (h.listed k).1 hk
      exact ⟨p1, p2, rfl⟩
    · rintro ⟨⟨ek, hek⟩, p2, _⟩
      obtain ⟨ec, hec, _⟩ := h.key_cur hs p2 hek
      exact (h.listed k).2 ⟨⟨ek, hek⟩, p2, hnone k ⟨ec, hec⟩⟩

end inv

/-- one turn of the copy loop, unfolded -/
theorem copyItems_unfold (fuel : Nat) (src dst xp dp : VPath) (s s' : VPath.Walk) (count : Nat)
    (w : World) (md : Meta)
    (hwalk : VPath.walkNext s w = (.ok (some (.ok xp), s'), w))
    (hrel : VPath.relJoin dst src.path.length xp = .ok dp)
    (hmeta : xp.metadata w = (.ok md, w)) :
    VPath.copyItems (fuel + 1) src dst s count w =
      M.bind (itemAct md.ftype xp dp) (fun _ => VPath.copyItems fuel src dst s' (count + 1)) w := by
  rw [VPath.copyItems]
  simp only [bind, M.bind, hwalk, M.ret, hrel, hmeta]
  cases md.ftype <;> rfl

theorem relJoin_graft (j did sid i : Nat) (S D t : Str) (h : joinInternal D t = .ok (D ++ '/' :: t)) :
    VPath.relJoin (mk j did D) (mk i sid S).path.length (mk i sid (S ++ '/' :: t)) =
      .ok (mk j did (D ++ '/' :: t)) := by
  unfold VPath.relJoin
  have hlen : ¬ (S ++ '/' :: t).length < S.length + 1 := by simp [List.length_append]
  have hp : (mk i sid (S ++ '/' :: t)).path = S ++ '/' :: t := rfl
  have hp2 : (mk i sid S).path = S := rfl
  have hp3 : (mk j did D).path = D := rfl
  rw [hp, hp2, if_neg hlen, drop_child, VPath.join, hp3, h]
  rfl

/-- the copy loop from a state satisfying the invariant, with more fuel than keys left: it ends
`Ok` with the number of keys yielded, and the invariant holds with nothing pending -/
theorem copyItems_loop {i j : Nat} {ms md : FMap} {S D : Str} {N : Nat}
    (hs : Setup i j ms md S D N) (sid did : Nat) (w0 : World) :
    ∀ (fuel : Nat) (inner todo L : List Str) (w : World) (msc mdc : FMap),
      MemLeafAt w i msc → MemLeafAt w j mdc →
      (∀ l, l ≠ i → l ≠ j → w.leaf? l = w0.leaf? l) →
      PInv i j ms md S D msc mdc inner todo L → N < L.length + fuel →
      ∃ w' msc' mdc' L',
        VPath.copyItems fuel (mk i sid S) (mk j did D) (st i sid inner todo) L.length w =
          (.ok L'.length, w') ∧
        MemLeafAt w' i msc' ∧ MemLeafAt w' j mdc' ∧
        (∀ l, l ≠ i → l ≠ j → w'.leaf? l = w0.leaf? l) ∧
        PInv i j ms md S D msc' mdc' [] [] L' := by
  intro fuel
  induction fuel with
  | zero =>
    intro inner todo L w msc mdc _ _ _ h hf
    have := hs.bound L h.nodup (fun k hk => by
      obtain ⟨p1, p2, _⟩ := (h.listed k).1 hk; exact ⟨p1, p2⟩)
    omega
  | succ fuel ih =>
    intro inner todo L w msc mdc hi hj hoth h hf
    rcases walkNext_spec' hi sid h.wfs h.nds todo inner h.good with
      ⟨h1, h2⟩ | ⟨x, inner', todo', h1, h2, ⟨e, he⟩, h4, h5, h6, h7⟩
    · refine ⟨w, msc, mdc, L, ?_, hi, hj, hoth, h.done hs h2⟩
      rw [VPath.copyItems]
      simp only [bind, M.bind, h1]
      rfl
    · have hpx : pending inner todo x = true := by rw [h5 x ⟨e, he⟩]; simp
      obtain ⟨t, rfl⟩ := (below_iff S x).1 (h.scope x hpx)
      obtain ⟨e0, he0, _⟩ := h.key_src hs (below_graft S t) he
      have hanc : ∀ p, below p (S ++ '/' :: t) = true → below S p = true →
          (∃ e', msc.find? p = some e') → pending inner todo p = false := by
        intro p hpb _ hpres
        have hne : p ≠ S ++ '/' :: t := by
          rintro rfl
          rw [Wk.below_irrefl] at hpb; cases hpb
        rw [h5 p hpres]
        cases hq : pending inner' todo' p with
        | false => simp [hne]
        | true => rw [h6 p hq] at hpb; cases hpb
      have hfresh := h.fresh hs t e he hpx hanc
      obtain ⟨w1, ms', md', ne, te, hrun, hi', hj', hw1, hw2, hn, hoth1, hsh, hst, hmd, hms⟩ :=
        item_step hi hj sid did _ _ e he hfresh h.wfs h.wfd h.nds
      have hcs : i = j → msc = mdc := fun hij => by subst hij; exact hi.unique hj
      have hinv' := h.step hs hcs t e he hfresh.absent inner' todo' h2 h4 h5 h7 ms' md' ne te
        hsh hst hmd hms hw1 hw2 hn
      obtain ⟨w', msc', mdc', L', hrun', hi'', hj'', hoth', hfin⟩ :=
        ih inner' todo' ((S ++ '/' :: t) :: L) w1 ms' md' hi' hj'
          (fun l h1 h2 => by rw [hoth1 l h1 h2, hoth l h1 h2]) hinv'
          (by simp only [List.length_cons]; omega)
      refine ⟨w', msc', mdc', L', ?_, hi'', hj'', hoth', hfin⟩
      have hmeta : (mk i sid (S ++ '/' :: t)).metadata w = (.ok e.meta, w) :=
        run_vmetadata hi sid _ e he
      rw [copyItems_unfold fuel _ _ _ _ _ _ _ w e.meta h1
        (relJoin_graft j did sid i S D t (hs.join t e0 he0)) hmeta]
      simp only [M.bind, Entry.meta, hrun]
      exact hrun'

/-! ### 6. `copy_dir` -/

/-- What `copy_dir S → D` leaves behind (one statement for one leaf and for two leaves). `n` is
the count returned. -/
structure TreeCopied (i j : Nat) (ms md : FMap) (S D : Str) (w w' : World) (n : Nat) : Prop where
  others : ∀ l, l ≠ i → l ≠ j → w'.leaf? l = w.leaf? l
  /-- the count is the number of keys strictly below the source -/
  count : n = (ms.keys.filter (below S)).length
  leaves : ∃ ms' md', MemLeafAt w' i ms' ∧ MemLeafAt w' j md' ∧ WF ms' ∧ WF md' ∧
    FMap.NodupKeys ms' ∧
    -- the destination is a fresh directory
    md'.find? D = some dirEntryNow ∧
    -- below it: `D/t` exists iff `S/t` did, with the same type; a file has the same bytes, a
    -- directory (empty ones included) has none
    (∀ t, (md'.find? (D ++ '/' :: t)).map core = (ms.find? (S ++ '/' :: t)).map shape) ∧
    -- nothing else on the destination leaf changed (access times aside)
    (∀ k, under D k = false → (md'.find? k).map stripAcc = (md.find? k).map stripAcc) ∧
    -- the source leaf is unchanged (access times aside; on one leaf: outside the destination)
    (∀ k, (i = j → under D k = false) → (ms'.find? k).map stripAcc = (ms.find? k).map stripAcc)

theorem filter_below_nodup (m : FMap) (hnd : FMap.NodupKeys m) (S : Str) :
    (m.keys.filter (below S)).Nodup := by
  unfold FMap.NodupKeys at hnd
  exact hnd.sublist List.filter_sublist

/-- the static facts the loop needs, from the hypotheses of the theorem -/
theorem setup_of {i j : Nat} {ms md : FMap} {w : World} (hi : MemLeafAt w i ms)
    (hj : MemLeafAt w j md) (hwfd : WF md) (S : Str) (bs : List Str)
    (hbs : ∀ c ∈ bs, '/' ∉ c) (se : Entry) (hse : ms.find? S = some se)
    (hcanon : ∀ k e, ms.find? k = some e → under S k = true → Canon k)
    (hfresh : FreshDest md (renderC bs)) (hout : i = j → under S (renderC bs) = false) :
    Setup i j ms md S (renderC bs) (ms.keys.filter (below S)).length := by
  refine ⟨?_, ?_, ?_⟩
  · intro hij
    subst hij
    have := hi.unique hj; subst this
    refine apart_of_not_under (hout rfl) ?_
    cases hu : under (renderC bs) S with
    | false => rfl
    | true =>
      rcases (under_iff _ _).1 hu with h | ⟨t, h⟩
      · rw [h, hfresh.absent] at hse; cases hse
      · rw [h, hfresh.child_absent hwfd t] at hse; cases hse
  · intro t e he
    exact rel_join bs S t hbs (hcanon S se hse (under_self S)) (hcanon _ e he (under_graft S t))
  · intro L hnd hL
    apply nodup_subset_length_le L _ hnd
    intro k hk
    obtain ⟨hp, hb⟩ := hL k hk
    exact List.mem_filter.2 ⟨(FMap.mem_keys_iff ms k).2 hp, hb⟩

/-- the invariant holds when the loop starts: `D` has been created, the iterator holds the
listing of `S`, nothing has been copied -/
theorem pinv_start {i j : Nat} {ms md ms1 : FMap} {S D : Str} {N : Nat}
    (hs : Setup i j ms md S D N) (hwfd : WF md) (hfresh : FreshDest md D)
    (hwf1 : WF ms1) (hnd1 : FMap.NodupKeys ms1) (se : Entry) (hse : ms.find? S = some se)
    (hsd : se.ftype = .dir)
    (hms1 : ∀ k, ms1.find? k = if i = j ∧ k = D then some dirEntryNow else ms.find? k) :
    PInv i j ms md S D ms1 (md.insert D dirEntryNow) (children ms1 S) [] [] := by
  have hnotD : ∀ k, (i = j → under D k = false) → ¬ (i = j ∧ k = D) := by
    rintro k hk ⟨hij, rfl⟩
    have := hk hij
    rw [under_self] at this; cases this
  have hkeep : ∀ k, (i = j → under D k = false) → ms1.find? k = ms.find? k := by
    intro k hk; rw [hms1 k, if_neg (hnotD k hk)]
  have hse1 : ms1.find? S = some se := by
    rw [hkeep S (fun hij => hs.apart hij S (under_self S))]; exact hse
  obtain ⟨g1, g2⟩ := Wk.start_good hwf1 hnd1 S se hse1 hsd
  obtain ⟨pe, hpe, hpd⟩ := hfresh.parent
  refine ⟨hwf1, hwfd.insert_dir _ _ rfl hfresh.slash pe hpe hpd, hnd1, g1, ?_, ?_, List.nodup_nil,
    ?_, by simp, ?_, ?_⟩
  · intro k hk
    unfold pending at hk
    simp only [List.any_nil, Bool.or_false] at hk
    rw [List.any_eq_true] at hk
    obtain ⟨c, hc, hw⟩ := hk
    exact Wk.below_of_below_within (Wk.child_below hc) hw
  · intro k
    constructor
    · intro hk; cases hk
    · rintro ⟨⟨e, he⟩, hb, hp⟩
      have h1 : ms1.find? k = some e := by
        rw [hkeep k (fun hij => hs.apart hij k (under_of_below hb))]; exact he
      rw [g2 k ⟨e, h1⟩, hb] at hp; cases hp
  · intro k hk; rw [hkeep k hk]
  · intro t
    rw [FMap.find?_insert_ne _ _ _ _ (graft_ne D t), hfresh.child_absent hwfd t]
    simp
  · intro k hk
    have : k ≠ D := by
      rintro rfl
      rw [under_self] at hk; cases hk
    rw [FMap.find?_insert_ne _ _ _ _ this]

/-- `create_dir D`, `walk_dir S`, the loop: on memory leaves `i` (source) and `j` (destination),
equal or different, a tree of any depth -/
theorem copyDirBody_tree {w : World} {i j : Nat} {ms md : FMap}
    (hi : MemLeafAt w i ms) (hj : MemLeafAt w j md) (sid did fuel : Nat) (S : Str) (bs : List Str)
    (hbs : ∀ c ∈ bs, '/' ∉ c) (hwfs : WF ms) (hwfd : WF md) (hnd : FMap.NodupKeys ms)
    (hdir : ∃ se, ms.find? S = some se ∧ se.ftype = .dir)
    (hcanon : ∀ k e, ms.find? k = some e → under S k = true → Canon k)
    (hfresh : FreshDest md (renderC bs)) (hout : i = j → under S (renderC bs) = false)
    (hfuel : (ms.keys.filter (below S)).length < fuel) :
    ∃ w', VPath.copyDirBody fuel { fs := leafFS i, fsId := sid, path := S }
            { fs := leafFS j, fsId := did, path := renderC bs } w =
          (.ok (ms.keys.filter (below S)).length, w') ∧
      TreeCopied i j ms md S (renderC bs) w w' (ms.keys.filter (below S)).length := by
  obtain ⟨se, hse, hsd⟩ := hdir
  have hs := setup_of hi hj hwfd S bs hbs se hse hcanon hfresh hout
  have hj1 := hj.set (md.insert (renderC bs) dirEntryNow)
  -- leaf `i` after the destination directory has been created
  obtain ⟨ms1, hi1, hms1, hwf1, hnd1⟩ : ∃ ms1,
      MemLeafAt (w.setLeafFiles j (md.insert (renderC bs) dirEntryNow)) i ms1 ∧
      (∀ k, ms1.find? k = if i = j ∧ k = renderC bs then some dirEntryNow else ms.find? k) ∧
      WF ms1 ∧ FMap.NodupKeys ms1 := by
    by_cases hij : i = j
    · subst hij
      have := hi.unique hj; subst this
      obtain ⟨pe, hpe, hpd⟩ := hfresh.parent
      exact ⟨_, hj1, fun k => by rw [FMap.find?_insert]; simp,
        hwfs.insert_dir _ _ rfl hfresh.slash pe hpe hpd, FMap.nodup_insert _ _ _ hnd⟩
    · exact ⟨ms, hi.set_ne (Ne.symm hij) _, fun k => by simp [hij], hwfs, hnd⟩
  have hse1 : ms1.find? S = some se := by
    rw [hms1 S, if_neg]
    · exact hse
    · rintro ⟨hij, hSD⟩
      have := hs.apart hij S (under_self S)
      rw [hSD, under_self] at this; cases this
  have hinv := pinv_start hs hwfd hfresh hwf1 hnd1 se hse hsd hms1
  obtain ⟨w', msc', mdc', L', hrun, hi', hj', hoth, hfin⟩ :=
    copyItems_loop hs sid did (w.setLeafFiles j (md.insert (renderC bs) dirEntryNow)) fuel
      (children ms1 S) [] [] _ ms1 _ hi1 hj1 (fun _ _ _ => rfl) hinv
      (by simp only [List.length_nil, Nat.zero_add]; exact hfuel)
  -- the list of yielded keys is a permutation of the keys below `S`
  have hmem : ∀ k, k ∈ L' ↔ k ∈ ms.keys.filter (below S) := by
    intro k
    rw [hfin.listed k, List.mem_filter, FMap.mem_keys_iff]
    constructor
    · rintro ⟨p1, p2, _⟩; exact ⟨p1, p2⟩
    · rintro ⟨p1, p2⟩; exact ⟨p1, p2, rfl⟩
  have hlen : L'.length = (ms.keys.filter (below S)).length :=
    ((List.perm_ext_iff_of_nodup hfin.nodup (filter_below_nodup ms hnd S)).2 hmem).length_eq
  refine ⟨w', ?_, ?_, hlen ▸ rfl, msc', mdc', hi', hj', hfin.wfs, hfin.wfd, hfin.nds, hfin.dstD, ?_,
    hfin.frame, hfin.src⟩
  · unfold VPath.copyDirBody
    have hwd := Wk.run_walkDir hi1 sid S se hse1 hsd
    have hcd : VPath.createDir { fs := leafFS j, fsId := did, path := renderC bs } w =
        (.ok (), w.setLeafFiles j (md.insert (renderC bs) dirEntryNow)) := by
      rw [run_pCreateDir hj did _, hfresh.pCreateDir]
    have hwd' : VPath.walkDir { fs := leafFS i, fsId := sid, path := S }
        (w.setLeafFiles j (md.insert (renderC bs) dirEntryNow)) = _ := hwd
    simp only [bind, M.bind, hcd, hwd']
    rw [← hlen]
    exact hrun
  · intro l h1 h2
    rw [hoth l h1 h2, World.leaf?_setLeafFiles_ne _ _ _ _ (Ne.symm h2)]
  · intro t
    rw [hfin.dst t]
    split
    · rfl
    · rename_i hnl
      cases hf : ms.find? (S ++ '/' :: t) with
      | none => rfl
      | some e =>
        exfalso
        exact hnl ((hfin.listed _).2 ⟨⟨e, hf⟩, below_graft S t, rfl⟩)

/-- `copy_dir` itself: the existence probe, then the body -/
theorem copyDir_tree {w : World} {i j : Nat} {ms md : FMap}
    (hi : MemLeafAt w i ms) (hj : MemLeafAt w j md) (sid did fuel : Nat) (S : Str) (bs : List Str)
    (hbs : ∀ c ∈ bs, '/' ∉ c) (hwfs : WF ms) (hwfd : WF md) (hnd : FMap.NodupKeys ms)
    (hdir : ∃ se, ms.find? S = some se ∧ se.ftype = .dir)
    (hcanon : ∀ k e, ms.find? k = some e → under S k = true → Canon k)
    (hfresh : FreshDest md (renderC bs)) (hout : i = j → under S (renderC bs) = false)
    (hfuel : (ms.keys.filter (below S)).length < fuel) :
    ∃ w', VPath.copyDir fuel { fs := leafFS i, fsId := sid, path := S }
            { fs := leafFS j, fsId := did, path := renderC bs } w =
          (.ok (ms.keys.filter (below S)).length, w') ∧
      TreeCopied i j ms md S (renderC bs) w w' (ms.keys.filter (below S)).length := by
  obtain ⟨w', hrun, hres⟩ := copyDirBody_tree hi hj sid did fuel S bs hbs hwfs hwfd hnd hdir hcanon
    hfresh hout hfuel
  have hc : md.contains (renderC bs) = false := by simp [FMap.contains, hfresh.absent]
  refine ⟨w', ?_, hres⟩
  rw [copyDir_route _ _ _ w (by simp [VPath.exists_, run_exists hj, hc])]
  simp only [M.withPath, hrun, Res.withPath]

/-! ### 7. `move_dir` -/

/-- What `move_dir S → D` leaves behind: the destination as after `copy_dir`, NO key at or below
`S`, everything else unchanged (access times aside). -/
structure TreeMoved (i j : Nat) (ms md : FMap) (S D : Str) (w w' : World) : Prop where
  others : ∀ l, l ≠ i → l ≠ j → w'.leaf? l = w.leaf? l
  leaves : ∃ ms' md', MemLeafAt w' i ms' ∧ MemLeafAt w' j md' ∧ WF ms' ∧ WF md' ∧
    FMap.NodupKeys ms' ∧
    -- no trace of the source
    (∀ k, under S k = true → ms'.find? k = none) ∧
    md'.find? D = some dirEntryNow ∧
    (∀ t, (md'.find? (D ++ '/' :: t)).map core = (ms.find? (S ++ '/' :: t)).map shape) ∧
    (∀ k, under D k = false → (i = j → under S k = false) →
      (md'.find? k).map stripAcc = (md.find? k).map stripAcc) ∧
    (∀ k, under S k = false → (i = j → under D k = false) →
      (ms'.find? k).map stripAcc = (ms.find? k).map stripAcc)

theorem moveDir_tree {w : World} {i j : Nat} {ms md : FMap}
    (hi : MemLeafAt w i ms) (hj : MemLeafAt w j md) (sid did fuel : Nat) (S : Str) (bs : List Str)
    (hbs : ∀ c ∈ bs, '/' ∉ c) (hwfs : WF ms) (hwfd : WF md) (hnd : FMap.NodupKeys ms)
    (hS : S ≠ []) (hdir : ∃ se, ms.find? S = some se ∧ se.ftype = .dir)
    (hcanon : ∀ k e, ms.find? k = some e → under S k = true → Canon k)
    (hfresh : FreshDest md (renderC bs)) (hout : i = j → under S (renderC bs) = false)
    (hfuel : (ms.keys.filter (below S)).length < fuel)
    (hb1 : ∀ k e, ms.find? k = some e → k.length < S.length + fuel)
    (hb2 : i = j → ∀ k e, ms.find? k = some e → under S k = true →
      (renderC bs).length + k.length < 2 * S.length + fuel) :
    ∃ w', VPath.moveDir fuel { fs := leafFS i, fsId := sid, path := S }
            { fs := leafFS j, fsId := did, path := renderC bs } w = (.ok (), w') ∧
      TreeMoved i j ms md S (renderC bs) w w' := by
  obtain ⟨se, hse, hsd⟩ := hdir
  have hs := setup_of hi hj hwfd S bs hbs se hse hcanon hfresh hout
  have hc : md.contains (renderC bs) = false := by simp [FMap.contains, hfresh.absent]
  obtain ⟨w1, hrun1, hoth1, _, ms1, md1, hi1, hj1, hwf1, hwfd1, hnd1, hD1, hdst1, hfr1, hsrc1⟩ :=
    copyDirBody_tree hi hj sid did fuel S bs hbs hwfs hwfd hnd ⟨se, hse, hsd⟩ hcanon hfresh hout
      hfuel
  -- the source directory is still there
  obtain ⟨se1, hse1, hst1⟩ := opt_map_some (hsrc1 S (fun hij => hs.apart hij S (under_self S))).symm hse
  have hsd1 : se1.ftype = .dir := by rw [← ftype_of_stripAcc hst1]; exact hsd
  -- every key of the source leaf is short enough for the recursion depth available
  have hbound : ∀ k e', ms1.find? k = some e' → k.length < S.length + fuel := by
    intro k e' hk
    by_cases hu : i = j ∧ under (renderC bs) k = true
    · obtain ⟨hij, hu⟩ := hu
      have hmd : md1 = ms1 := by subst hij; exact hj1.unique hi1
      rcases (under_iff _ _).1 hu with rfl | ⟨t, rfl⟩
      · have := hb2 hij S se hse (under_self S)
        omega
      · have h1 := hdst1 t
        rw [hmd, hk] at h1
        cases hf : ms.find? (S ++ '/' :: t) with
        | none => rw [hf] at h1; simp at h1
        | some e0 =>
          have := hb2 hij _ e0 hf (under_graft S t)
          simp only [List.length_append, List.length_cons] at this ⊢
          omega
    · have hk' : i = j → under (renderC bs) k = false := by
        intro hij
        cases hq : under (renderC bs) k with
        | false => rfl
        | true => exact absurd ⟨hij, hq⟩ hu
      obtain ⟨e0, he0, _⟩ := opt_map_some (hsrc1 k hk') hk
      exact hb1 k e0 he0
  obtain ⟨ms2, hrun2, hwf2, hnd2, hrem⟩ := rd_all i sid fuel w1 ms1 S se1 hi1 hwf1 hnd1 hS hse1 hsd1
    hbound
  refine ⟨w1.setLeafFiles i ms2, ?_, ?_, ?_⟩
  · rw [moveDir_route _ _ _ w (by simp [VPath.exists_, run_exists hj, hc])
      (fun _ => ⟨none, run_moveDir_mem hi _ _⟩), moveDirBody_eq]
    simp only [M.withPath, M.bind, hrun1, hrun2, Res.withPath]
  · intro l hl hl'
    rw [World.leaf?_setLeafFiles_ne _ _ _ _ (Ne.symm hl), hoth1 l hl hl']
  · have hgone : ∀ k, under S k = true → ms2.find? k = none := by
      intro k hk; rw [hrem k, hk]; rfl
    have hkeep : ∀ k, under S k = false → ms2.find? k = ms1.find? k := by
      intro k hk; rw [hrem k, hk]; rfl
    by_cases hij : i = j
    · subst hij
      have := hi1.unique hj1; subst this
      -- what lies at or below the destination is not at or below the source
      have hDS : ∀ k, under (renderC bs) k = true → under S k = false := by
        intro k hk
        cases hq : under S k with
        | false => rfl
        | true => rw [hs.apart rfl k hq] at hk; cases hk
      refine ⟨ms2, ms2, hi1.set ms2, hi1.set ms2, hwf2, hwf2, hnd2, hgone, ?_, ?_, ?_, ?_⟩
      · rw [hkeep _ (hDS _ (under_self _))]; exact hD1
      · intro t
        rw [hkeep _ (hDS _ (under_graft _ t))]; exact hdst1 t
      · intro k hk1 hk2
        rw [hkeep k (hk2 rfl)]; exact hfr1 k hk1
      · intro k hk1 hk2
        rw [hkeep k hk1]; exact hsrc1 k hk2
    · refine ⟨ms2, md1, hi1.set ms2, hj1.set_ne hij ms2, hwf2, hwfd1, hnd2, hgone, hD1, hdst1, ?_, ?_⟩
      · intro k hk1 _; exact hfr1 k hk1
      · intro k hk1 _
        rw [hkeep k hk1]; exact hsrc1 k (fun h => absurd h hij)

end Vfs.CD
