/-
  Invariant-preservation calculus for the state monad `M`: `Preserves I m` says that running
  `m` from a world satisfying `I` ends in a world satisfying `I` (whatever the outcome:
  success, error or panic). Rules for the monad combinators, and the automation `preserves`.
-/
import VfsModel.Adapters
import VfsModel.Leaf
namespace Vfs

structure Preserves {α} (I : World → Prop) (m : M α) : Prop where
  pres : ∀ w, I w → I (m w).2

namespace Preserves
variable {I : World → Prop}

theorem pure {α} (a : α) : Preserves I (Pure.pure a : M α) := ⟨fun _ h => h⟩
theorem mpure {α} (a : α) : Preserves I (M.pure a) := ⟨fun _ h => h⟩
theorem ret {α} (r : Res α) : Preserves I (M.ret r) := ⟨fun _ h => h⟩
theorem failK {α} (k : ErrKind) : Preserves I (M.failK k : M α) := ⟨fun _ h => h⟩
theorem failAt {α} (k : ErrKind) (p : Str) : Preserves I (M.failAt k p : M α) := ⟨fun _ h => h⟩

theorem bind {α β} {m : M α} {f : α → M β} (hm : Preserves I m) (hf : ∀ a, Preserves I (f a)) :
    Preserves I (m >>= f) := by
  refine ⟨fun w hw => ?_⟩
  show I ((M.bind m f) w).2
  unfold M.bind
  have := hm.pres w hw
  split
  · rename_i a w' heq; rw [heq] at this; exact (hf a).pres w' this
  · rename_i k p w' heq; rw [heq] at this; exact this
  · rename_i w' heq; rw [heq] at this; exact this

theorem mbind {α β} {m : M α} {f : α → M β} (hm : Preserves I m) (hf : ∀ a, Preserves I (f a)) :
    Preserves I (M.bind m f) := bind hm hf

theorem withPath {α} (p : Str) {m : M α} (hm : Preserves I m) : Preserves I (M.withPath p m) := by
  refine ⟨fun w hw => ?_⟩
  unfold M.withPath
  exact hm.pres w hw

theorem attempt {α} {m : M α} (hm : Preserves I m) : Preserves I (M.attempt m) := by
  refine ⟨fun w hw => ?_⟩
  unfold M.attempt
  exact hm.pres w hw

theorem ite {α} {c : Prop} [Decidable c] {a b : M α} (ha : Preserves I a) (hb : Preserves I b) :
    Preserves I (if c then a else b) := by
  split <;> assumption

theorem seq_unit {β} {m : M Unit} {f : M β} (hm : Preserves I m) (hf : Preserves I f) :
    Preserves I (do m; f) := bind hm (fun _ => hf)

end Preserves

end Vfs

namespace Vfs

/-- a state-independent postcondition on the value returned by a successful run -/
structure Returns {α} (m : M α) (Q : α → Prop) : Prop where
  post : ∀ w a, (m w).1 = .ok a → Q a

theorem Preserves.bindQ {α β} {I : World → Prop} {m : M α} {f : α → M β} (Q : α → Prop)
    (hm : Preserves I m) (hq : Returns m Q) (hf : ∀ a, Q a → Preserves I (f a)) :
    Preserves I (m >>= f) := by
  refine ⟨fun w hw => ?_⟩
  show I ((M.bind m f) w).2
  unfold M.bind
  have := hm.pres w hw
  have hq' := hq.post w
  split
  · rename_i a w' heq; rw [heq] at this hq'; exact (hf a (hq' a rfl)).pres w' this
  · rename_i k p w' heq; rw [heq] at this; exact this
  · rename_i w' heq; rw [heq] at this; exact this

theorem Res.withPath_ok {α} (p : Str) (r : Res α) (a : α) (h : r.withPath p = .ok a) : r = .ok a := by
  cases r <;> simp [Res.withPath] at h ⊢
  exact h

theorem Returns.withPath {α} {m : M α} {Q : α → Prop} (p : Str) (h : Returns m Q) :
    Returns (M.withPath p m) Q := by
  refine ⟨fun w a heq => ?_⟩
  unfold M.withPath at heq
  exact h.post w a (Res.withPath_ok p _ a heq)

theorem Returns.bind {α β} {m : M α} {f : α → M β} {Q : β → Prop}
    (hf : ∀ a, Returns (f a) Q) : Returns (m >>= f) Q := by
  refine ⟨fun w b => ?_⟩
  show ((M.bind m f) w).1 = .ok b → Q b
  unfold M.bind
  split
  · rename_i a w' _; exact (hf a).post w' b
  · intro h; cases h
  · intro h; cases h

theorem Returns.ret {α} {Q : α → Prop} (r : Res α) (h : ∀ a, r = .ok a → Q a) :
    Returns (M.ret r) Q := ⟨fun _ a he => h a he⟩

/-- what a write handle may touch, independent of its buffer and position -/
def HandleOK (I : World → Prop) (h : WHandle) : Prop :=
  ∀ buf pos, (∀ bs, Preserves I (({ h with buf := buf, pos := pos } : WHandle).write bs)) ∧
    Preserves I (({ h with buf := buf, pos := pos } : WHandle).flush)

/-- the write handle returned by `write` differs only in buffer and position -/
theorem WHandle.write_same (h : WHandle) (bs : Bytes) (w : World) (n : Nat) (h' : WHandle)
    (he : (h.write bs w).1 = .ok (n, h')) :
    ∃ buf pos, h' = { h with buf := buf, pos := pos } := by
  unfold WHandle.write at he
  cases hk : h.kind <;> simp only [hk] at he
  · simp only [Res.ok.injEq, Prod.mk.injEq] at he
    exact ⟨_, _, he.2.symm⟩
  · split at he
    · split at he <;>
        (simp only [Res.ok.injEq, Prod.mk.injEq] at he; exact ⟨h.buf, _, he.2.symm⟩)
    · simp only [Res.ok.injEq, Prod.mk.injEq] at he
      exact ⟨h.buf, h.pos, by rw [← he.2]; cases h; simp_all⟩
  · split at he
    · split at he
      · simp only [Res.ok.injEq, Prod.mk.injEq] at he; exact ⟨h.buf, _, he.2.symm⟩
      · simp only [Res.ok.injEq, Prod.mk.injEq] at he; exact ⟨h.buf, h.pos, by rw [← he.2]; cases h; simp_all⟩
    · simp only [Res.ok.injEq, Prod.mk.injEq] at he; exact ⟨h.buf, h.pos, by rw [← he.2]; cases h; simp_all⟩

theorem HandleOK.of_same {I : World → Prop} {h : WHandle} (hk : HandleOK I h) (buf : Bytes) (pos : Nat) :
    HandleOK I { h with buf := buf, pos := pos } := by
  intro b p
  exact hk b p

theorem HandleOK.write {I : World → Prop} {h : WHandle} (hk : HandleOK I h) (bs : Bytes) :
    Preserves I (h.write bs) := by
  have := (hk h.buf h.pos).1 bs
  simpa using this

theorem HandleOK.flush {I : World → Prop} {h : WHandle} (hk : HandleOK I h) :
    Preserves I h.flush := by
  have := (hk h.buf h.pos).2
  simpa using this

theorem HandleOK.drop {I : World → Prop} {h : WHandle} (hk : HandleOK I h) :
    Preserves I h.drop := hk.flush

theorem HandleOK.writeAllAndDrop {I : World → Prop} {h : WHandle} (hk : HandleOK I h) (bs : Bytes) :
    Preserves I (h.writeAllAndDrop bs) := by
  unfold WHandle.writeAllAndDrop
  apply Preserves.bindQ (fun r => HandleOK I r.2) (hk.write bs)
  · refine ⟨fun w r he => ?_⟩
    obtain ⟨n, h'⟩ := r
    obtain ⟨buf, pos, rfl⟩ := WHandle.write_same h bs w n h' he
    exact hk.of_same buf pos
  · intro r hr
    exact hr.drop

/-- every method of the filesystem preserves `I`, and so do the handles it hands out -/
structure FS.AllPreserve (I : World → Prop) (fs : FS) : Prop where
  readDir : ∀ p, Preserves I (fs.readDir p)
  createDir : ∀ p, Preserves I (fs.createDir p)
  openFile : ∀ p, Preserves I (fs.openFile p)
  createFile : ∀ p, Preserves I (fs.createFile p)
  appendFile : ∀ p, Preserves I (fs.appendFile p)
  metadata : ∀ p, Preserves I (fs.metadata p)
  setCreationTime : ∀ p t, Preserves I (fs.setCreationTime p t)
  setModificationTime : ∀ p t, Preserves I (fs.setModificationTime p t)
  setAccessTime : ∀ p t, Preserves I (fs.setAccessTime p t)
  exists_ : ∀ p, Preserves I (fs.exists_ p)
  removeFile : ∀ p, Preserves I (fs.removeFile p)
  removeDir : ∀ p, Preserves I (fs.removeDir p)
  copyFile : ∀ s d, Preserves I (fs.copyFile s d)
  moveFile : ∀ s d, Preserves I (fs.moveFile s d)
  moveDir : ∀ s d, Preserves I (fs.moveDir s d)
  createHandle : ∀ p, Returns (fs.createFile p) (HandleOK I)
  appendHandle : ∀ p, Returns (fs.appendFile p) (HandleOK I)

/-- the four observers of the filesystem preserve `I` -/
structure FS.ObsPreserve (I : World → Prop) (fs : FS) : Prop where
  readDir : ∀ p, Preserves I (fs.readDir p)
  openFile : ∀ p, Preserves I (fs.openFile p)
  metadata : ∀ p, Preserves I (fs.metadata p)
  exists_ : ∀ p, Preserves I (fs.exists_ p)

theorem FS.AllPreserve.obs {I : World → Prop} {fs : FS} (h : fs.AllPreserve I) : fs.ObsPreserve I :=
  ⟨h.readDir, h.openFile, h.metadata, h.exists_⟩

end Vfs

namespace Vfs

theorem Returns.bindQ {α β} {m : M α} {f : α → M β} {P : α → Prop} {Q : β → Prop}
    (hm : Returns m P) (hf : ∀ a, P a → Returns (f a) Q) : Returns (m >>= f) Q := by
  refine ⟨fun w b => ?_⟩
  show ((M.bind m f) w).1 = .ok b → Q b
  unfold M.bind
  have := hm.post w
  split
  · rename_i a w' heq; rw [heq] at this; exact (hf a (this a rfl)).post w' b
  · intro h; cases h
  · intro h; cases h

theorem Returns.pure {α} {Q : α → Prop} (a : α) (h : Q a) : Returns (Pure.pure a : M α) Q := by
  refine ⟨fun w b he => ?_⟩
  simp only [Pure.pure, M.pure, Res.ok.injEq] at he
  subst he; exact h

theorem Returns.failK {α} {Q : α → Prop} (k : ErrKind) : Returns (M.failK k : M α) Q := by
  refine ⟨fun w b he => ?_⟩; simp [M.failK, fail] at he

theorem Returns.failAt {α} {Q : α → Prop} (k : ErrKind) (p : Str) : Returns (M.failAt k p : M α) Q := by
  refine ⟨fun w b he => ?_⟩; simp [M.failAt] at he

theorem Returns.ite {α} {Q : α → Prop} {c : Prop} [Decidable c] {a b : M α}
    (ha : Returns a Q) (hb : Returns b Q) : Returns (if c then a else b) Q := by
  split <;> assumption

theorem Returns.trivial {α} (m : M α) : Returns m (fun _ => True) := ⟨fun _ _ _ => True.intro⟩

end Vfs
