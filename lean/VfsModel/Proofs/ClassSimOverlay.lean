/-
  Part D of the class calculus (Proofs/ClassSim.lean): the overlay adapter is parametric at the
  session level.

  PROVED: `Overlay.simC` — for layer lists `l1`, `l2` that are pointwise `SimVC`-related and whose
  write layers (heads) are `SimVW`-related (a leaf or altroots over a leaf), the two overlays are
  `SimC`-related: `exists` (strictly), `metadata`, `read_dir` (as sets), `readAll`, `create_dir`,
  `remove_file`, `remove_dir` (with their whiteout bookkeeping), `create_file` alone and the
  closed write session.
  `create_dir` (after the fix of O11) inspects the answer of the write layer and clears the
  whiteout with the tolerant `clear_whiteout`: `DirectoryExists` matches exactly under `KRel`, so
  both sides take the same branch; the tolerant clearing is the field `clearT` of `SimW`.
  NOT PROVED: `append_file` of an overlay (its copy-up is a `copy_file`, see Proofs/ClassSim.lean);
  an overlay is therefore `SimC` but not `SimW`, i.e. it is not shown usable as the WRITE layer of
  another overlay (as a lower layer it is).
-/
import VfsModel.Proofs.ClassSim
set_option linter.unusedVariables false
set_option linter.unusedSectionVars false
namespace Vfs.C02
namespace Overlay
open Vfs.Overlay

section overlay
variable {R : World → World → Prop} {l1 l2 : List VPath}
variable (hL : ListRel (SimVC R) l1 l2) (hW : SimVW R (writeLayer l1) (writeLayer l2))
include hL hW

theorem sim_whiteoutPath (p : Str) :
    CRes (· = ·) (SimVW R) (whiteoutPath l1 p) (whiteoutPath l2 p) := by
  unfold whiteoutPath
  split
  · exact hW.join _
  · exact hW.join _

theorem sim_writePath (p : Str) : CRes (· = ·) (SimVW R) (writePath l1 p) (writePath l2 p) := by
  unfold writePath
  split
  · exact .ok hW
  · exact hW.join _

theorem sim_writePath_nonroot (p : Str) (hp : Canon p) (hpn : p ≠ []) :
    CRes (· = ·) (fun v1 v2 => SimVW R v1 v2 ∧ v1.path ≠ []) (writePath l1 p) (writePath l2 p) := by
  unfold writePath
  rw [if_neg hpn, if_neg hpn]
  unfold VPath.join
  rw [hW.path, Vfs.Overlay.join_tail_canon hW.canon hp hpn]
  refine .ok ⟨hW.withStr _ (Vfs.canon_append hW.canon hp), ?_⟩
  intro h
  exact hpn (List.append_eq_nil_iff.1 h).2

omit hW in
theorem sim_firstExisting (p : Str) {a b : List VPath} (hab : ListRel (SimVC R) a b) :
    CSim R (· = ·) (OptRel (SimVC R)) (firstExisting p a) (firstExisting p b) := by
  induction hab with
  | nil => unfold firstExisting; exact CSim.pure trivial
  | @cons x y a b hxy _ ih =>
    unfold firstExisting
    refine CSim.bind (CSim.ret (hxy.join _)) fun lp1 lp2 hlp => ?_
    refine CSim.bind_eq (VPath.sim_exists hlp) fun c => ?_
    exact CSim.ite (fun _ => CSim.pure (show OptRel _ (some lp1) (some lp2) from hlp)) (fun _ => ih)

theorem sim_readPath (p : Str) : CSim R (· = ·) (SimVC R) (readPath l1 p) (readPath l2 p) := by
  unfold readPath
  refine CSim.ite (fun _ => CSim.pure hW.toC) (fun _ => ?_)
  refine CSim.bind (CSim.ret (sim_whiteoutPath hL hW p)) fun wo1 wo2 hwo => ?_
  refine CSim.bind_eq (VPath.sim_exists hwo.toC) fun marked => ?_
  refine CSim.ite (fun _ => CSim.failK _) (fun _ => ?_)
  refine CSim.bind (sim_firstExisting hL p hL) fun f1 f2 hf => ?_
  cases f1 with
  | none =>
    cases f2 with
    | some _ => exact absurd hf id
    | none =>
      dsimp only
      refine CSim.bind (CSim.ret (hW.toC.join _)) fun rp1 rp2 hrp => ?_
      refine CSim.bind_eq (VPath.sim_exists hrp) fun ex => ?_
      exact CSim.ite (fun _ => CSim.failK _) (fun _ => CSim.pure hrp)
  | some a1 =>
    cases f2 with
    | none => exact absurd hf id
    | some a2 => exact CSim.pure hf

theorem sim_exists (p : Str) : CSim R (· = ·) (· = ·) (exists_ l1 p) (exists_ l2 p) := by
  unfold exists_
  refine CSim.bind (CSim.ret (sim_whiteoutPath hL hW p)) fun wo1 wo2 hwo => ?_
  refine CSim.bind_eq (VPath.sim_exists hwo.toC) fun marked => ?_
  refine CSim.ite (fun _ => CSim.pure rfl) (fun _ => ?_)
  intro w1 w2 hr
  dsimp only
  rcases e1 : readPath l1 p w1 with ⟨r1, w1'⟩
  rcases e2 : readPath l2 p w2 with ⟨r2, w2'⟩
  obtain ⟨hres, hr'⟩ := (sim_readPath hL hW p).run hr e1 e2
  cases hres with
  | ok hq => exact VPath.sim_exists hq w1' w2' hr'
  | panic => exact ⟨.panic, hr'⟩
  | @err k1 k2 p1 p2 hk =>
    cases hk
    cases k1 <;> first | exact ⟨.ok rfl, hr'⟩ | exact ⟨.err rfl, hr'⟩

theorem sim_ensureHasParent (p : Str) :
    CSim R KRel (· = ·) (ensureHasParent l1 p) (ensureHasParent l2 p) := by
  unfold ensureHasParent
  refine CSim.ite (fun _ => ?_) (fun _ => CSim.failK _)
  refine CSim.bind_eq (sim_exists hL hW _).ofEq fun ex => ?_
  refine CSim.ite (fun _ => ?_) (fun _ => CSim.failK _)
  refine CSim.bind (sim_readPath hL hW _).ofEq fun rp1 rp2 hrp => ?_
  refine CSim.bind_eq (VPath.sim_isDir hrp) fun isd => ?_
  refine CSim.ite (fun _ => ?_) (fun _ => CSim.failK _)
  refine CSim.bind (CSim.ret ((sim_writePath hL hW _).monoK fun a b e => by cases e; exact Or.inl rfl))
    fun wp1 wp2 hwp => ?_
  exact VPath.sim_createDirAll hwp.toC

omit hL hW in
theorem mem_foldl_dedup (names acc : List Str) (n : Str) :
    n ∈ names.foldl (fun a n => if n ∈ a then a else a ++ [n]) acc ↔ n ∈ acc ∨ n ∈ names := by
  induction names generalizing acc with
  | nil => simp
  | cons x xs ih =>
    simp only [List.foldl_cons]
    rw [ih]
    by_cases hx : x ∈ acc
    · rw [if_pos hx]
      constructor
      · rintro (h | h)
        · exact Or.inl h
        · exact Or.inr (List.mem_cons_of_mem _ h)
      · rintro (h | h)
        · exact Or.inl h
        · rcases List.mem_cons.1 h with rfl | h
          · exact Or.inl hx
          · exact Or.inr h
    · rw [if_neg hx]
      constructor
      · rintro (h | h)
        · rcases List.mem_append.1 h with h | h
          · exact Or.inl h
          · rw [List.mem_singleton.1 h]; exact Or.inr (List.mem_cons_self)
        · exact Or.inr (List.mem_cons_of_mem _ h)
      · rintro (h | h)
        · exact Or.inl (List.mem_append_left _ h)
        · rcases List.mem_cons.1 h with rfl | h
          · exact Or.inl (List.mem_append_right _ (List.mem_singleton.2 rfl))
          · exact Or.inr h

omit hL hW in
theorem readDir_names (lp : VPath) {α : Type} (F : List Str → M α) :
    (lp.readDir >>= fun cs => F (cs.map fun c => filenameInternal c.path)) = VPath.readNames lp >>= F := by
  unfold VPath.readNames
  rw [M.bind_assoc3]
  rfl

omit hW in
theorem sim_mergeListings (actual : Str) {a b : List VPath}
    (hab : ListRel (SimVC R) a b) (acc1 acc2 : List Str) (hacc : NamesSet acc1 acc2) :
    CSim R KRel NamesSet (mergeListings actual a acc1) (mergeListings actual b acc2) := by
  induction hab generalizing acc1 acc2 with
  | nil => unfold mergeListings; exact CSim.pure hacc
  | @cons x y a b hxy _ ih =>
    unfold mergeListings
    refine CSim.bind (CSim.ret ((hxy.join _).monoK fun a b e => by cases e; exact Or.inl rfl))
      fun lp1 lp2 hlp => ?_
    refine CSim.bind_eq (VPath.sim_isDir hlp) fun isd => ?_
    refine CSim.ite (fun _ => ?_) (fun _ => ih acc1 acc2 hacc)
    rw [readDir_names lp1 (fun names => mergeListings actual a
        (List.foldl (fun a n => if n ∈ a then a else a ++ [n]) acc1 names)),
      readDir_names lp2 (fun names => mergeListings actual b
        (List.foldl (fun a n => if n ∈ a then a else a ++ [n]) acc2 names))]
    refine CSim.bind (VPath.sim_readNames hlp) fun n1 n2 hn => ?_
    apply ih
    constructor
    · intro n
      rw [mem_foldl_dedup, mem_foldl_dedup, hacc.1 n, hn.1 n]
    · exact Vfs.Overlay.foldl_names_good _ _ hn.2 hacc.2

theorem sim_clearWhiteout (p : Str) :
    CSim R KRel (· = ·) (clearWhiteout l1 p) (clearWhiteout l2 p) := by
  unfold clearWhiteout
  refine CSim.bind (CSim.ret ((sim_whiteoutPath hL hW p).monoK fun a b e => by cases e; exact Or.inl rfl))
    fun wo1 wo2 hwo => ?_
  refine CSim.bind_eq (VPath.sim_exists hwo.toC).ofEq fun ex => ?_
  exact CSim.ite (fun _ => VPath.sim_removeFile hwo.toC) (fun _ => CSim.pure rfl)

omit hL hW in
theorem clearWhiteoutT_eq (l : List VPath) (p : Str) :
    clearWhiteoutT l p = (M.ret (whiteoutPath l p) >>= fun wo => VPath.clearVT wo) := rfl

/-- `clear_whiteout` of `create_dir` (fix of O11): the probe and the tolerant removal are one
field (`clearT`) of the write layer's interface -/
theorem sim_clearWhiteoutT (p : Str) :
    CSim R KRel (· = ·) (clearWhiteoutT l1 p) (clearWhiteoutT l2 p) := by
  rw [clearWhiteoutT_eq, clearWhiteoutT_eq]
  refine CSim.bind (CSim.ret ((sim_whiteoutPath hL hW p).monoK fun a b e => by cases e; exact Or.inl rfl))
    fun wo1 wo2 hwo => ?_
  exact VPath.sim_clearVT hwo

theorem sim_addWhiteout (p : Str) :
    CSim R KRel (· = ·) (addWhiteout l1 p) (addWhiteout l2 p) := by
  unfold addWhiteout
  refine CSim.bind (CSim.ret ((sim_whiteoutPath hL hW p).monoK fun a b e => by cases e; exact Or.inl rfl))
    fun wo1 wo2 hwo => ?_
  refine CSim.bind_eq (VPath.sim_createDirAll hwo.toC.parent) fun _ => ?_
  exact VPath.sim_createSession hwo.toC []

omit hL hW in
theorem filterMap_marks (l : List VPath) :
    (l.filterMap fun m => stripWo (filenameInternal m.path))
      = (l.map fun c => filenameInternal c.path).filterMap stripWo := by
  rw [List.filterMap_map]; rfl

theorem sim_readDir (p : Str) : CSim R KRel NamesSet (readDir l1 p) (readDir l2 p) := by
  unfold readDir
  refine CSim.bind (sim_readPath hL hW p).ofEq fun rp1 rp2 hrp => ?_
  refine CSim.bind_eq (VPath.sim_exists hrp).ofEq fun ex => ?_
  refine CSim.ite (fun _ => CSim.failK _) (fun _ => ?_)
  refine CSim.bind_eq (VPath.sim_isDir hrp) fun isd => ?_
  refine CSim.ite (fun _ => CSim.failK _) (fun _ => ?_)
  refine CSim.bind (sim_mergeListings hL _ hL [] [] ⟨fun _ => Iff.rfl, by simp⟩) fun en1 en2 hen => ?_
  refine CSim.bind (CSim.ret ((hW.toC.join _).monoK fun a b e => by cases e; exact Or.inl rfl))
    fun wp1 wp2 hwp => ?_
  refine CSim.bind_eq (VPath.sim_exists hwp).ofEq fun wex => ?_
  have hbase : NamesSet (if p = [] then en1.filter (fun n => n ≠ woDir) else en1)
      (if p = [] then en2.filter (fun n => n ≠ woDir) else en2) := by
    split
    · refine ⟨fun n => ?_, fun n hn => hen.2 n (List.mem_filter.1 hn).1⟩
      simp only [List.mem_filter, hen.1 n]
    · exact hen
  refine CSim.ite (fun _ => ?_) (fun _ => CSim.pure hbase)
  simp only [filterMap_marks]
  rw [readDir_names wp1 (fun names => (pure (List.filter (fun n => decide (n ∉ names.filterMap stripWo))
        (if p = [] then en1.filter (fun n => n ≠ woDir) else en1)) : M (List Str))),
    readDir_names wp2 (fun names => (pure (List.filter (fun n => decide (n ∉ names.filterMap stripWo))
        (if p = [] then en2.filter (fun n => n ≠ woDir) else en2)) : M (List Str)))]
  refine CSim.bind (VPath.sim_readNames hwp) fun m1 m2 hm => CSim.pure ?_
  have hfm : ∀ n, n ∈ m1.filterMap stripWo ↔ n ∈ m2.filterMap stripWo := by
    intro n
    simp only [List.mem_filterMap]
    constructor
    · rintro ⟨x, hx, e⟩; exact ⟨x, (hm.1 x).1 hx, e⟩
    · rintro ⟨x, hx, e⟩; exact ⟨x, (hm.1 x).2 hx, e⟩
  refine ⟨fun n => ?_, fun n hn => hbase.2 n (List.mem_filter.1 hn).1⟩
  simp only [List.mem_filter, hbase.1 n, hfm n]

theorem sim_createDir (p : Str) (hp : Canon p) (hpn : p ≠ []) :
    CSim R KRel (· = ·) (createDir l1 p) (createDir l2 p) := by
  unfold createDir
  refine CSim.bind_eq (sim_ensureHasParent hL hW p) fun _ => ?_
  refine CSim.bind_eq (sim_exists hL hW p).ofEq fun ex => ?_
  refine CSim.ite (fun _ => ?_) (fun _ => ?_)
  · refine CSim.bind (sim_readPath hL hW p).ofEq fun q1 q2 hq => ?_
    refine CSim.bind (VPath.sim_metadata hq) fun m1 m2 hm => ?_
    rw [hm.1]
    exact CSim.failK _
  · refine CSim.bind (CSim.ret ((sim_writePath_nonroot hL hW p hp hpn).monoK
      fun a b e => by cases e; exact Or.inl rfl)) fun wp1 wp2 hwp => ?_
    -- related answers of the write layers select the same branch (`DirectoryExists` matches
    -- exactly under `KRel`)
    intro w1 w2 hr
    dsimp only
    rcases e1 : wp1.createDir w1 with ⟨r1, w1'⟩
    rcases e2 : wp2.createDir w2 with ⟨r2, w2'⟩
    obtain ⟨hres, hr'⟩ := (VPath.sim_createDir hwp.1.toC hwp.2).run hr e1 e2
    cases hres with
    | @ok a b hq => cases a; cases b; exact sim_clearWhiteoutT hL hW p w1' w2' hr'
    | panic => exact ⟨.panic, hr'⟩
    | @err k1 k2 p1 p2 hk =>
      have hiff := (KRel.exact hk).2.1
      by_cases hd : k1 = .dirExists
      · have hd2 := hiff.1 hd
        subst hd hd2
        dsimp only
        rcases e3 : clearWhiteoutT l1 p w1' with ⟨r3, w1''⟩
        rcases e4 : clearWhiteoutT l2 p w2' with ⟨r4, w2''⟩
        obtain ⟨hres2, hr''⟩ := (sim_clearWhiteoutT hL hW p).run hr' e3 e4
        cases hres2 with
        | @ok a b hq => cases a; cases b; exact ⟨.err hk, hr''⟩
        | panic => exact ⟨.panic, hr''⟩
        | @err k3 k4 p3 p4 hk2 => exact ⟨.err hk2, hr''⟩
      · have hd2 : k2 ≠ .dirExists := fun h => hd (hiff.2 h)
        cases k1 <;> cases k2 <;> first | exact absurd rfl hd | exact absurd rfl hd2 | exact ⟨.err hk, hr'⟩

theorem sim_refuseDir (p : Str) : CSim R KRel (· = ·) (refuseDir l1 p) (refuseDir l2 p) := by
  unfold refuseDir
  refine CSim.bind_eq (sim_exists hL hW p).ofEq fun ex => ?_
  refine CSim.ite (fun _ => ?_) (fun _ => CSim.pure rfl)
  refine CSim.bind (sim_readPath hL hW p).ofEq fun q1 q2 hq => ?_
  refine CSim.bind (VPath.sim_metadata hq) fun m1 m2 hm => ?_
  rw [hm.1]
  exact CSim.ite (fun _ => CSim.failK _) (fun _ => CSim.pure rfl)

theorem sim_createOnly (p : Str) :
    CSim R KRel (fun _ _ => True) (createFile l1 p) (createFile l2 p) := by
  unfold createFile
  refine CSim.bind_eq (sim_ensureHasParent hL hW p) fun _ => ?_
  refine CSim.bind_eq (sim_refuseDir hL hW p) fun _ => ?_
  refine CSim.bind (CSim.ret ((sim_writePath hL hW p).monoK fun a b e => by cases e; exact Or.inl rfl))
    fun wp1 wp2 hwp => ?_
  refine CSim.bind (VPath.sim_createOnly hwp.toC) fun h1 h2 _ => ?_
  exact CSim.bind_eq (sim_clearWhiteout hL hW p) fun _ => CSim.pure trivial

omit hL hW in
/-- the session on an overlay, re-associated: the part after `create_file` of the write layer -/
theorem createSession_eq (l : List VPath) (p : Str) (s : List Bytes) :
    createSession (fs l) p s =
      (ensureHasParent l p >>= fun _ => refuseDir l p >>= fun _ =>
        M.ret (writePath l p) >>= fun wp =>
          wp.createFile >>= fun h => clearWhiteout l p >>= fun _ => finish h s) := by
  show (createFile l p >>= fun h => finish h s) = _
  unfold createFile
  simp only [M.bind_assoc3]
  rfl

omit hL hW in
theorem join_fs {v1 v2 : VPath} (h : SimVW R v1 v2) (arg : Str) :
    CRes KRel (fun a b => SimVW R a b ∧ a.fs = v1.fs ∧ b.fs = v2.fs) (v1.join arg) (v2.join arg) := by
  unfold VPath.join
  rw [h.path]
  cases hj : joinInternal v1.path arg with
  | ok r => exact .ok ⟨h.withStr r (C06.join_canonical _ _ _ h.canon hj), rfl, rfl⟩
  | err k p => exact .err (Or.inl rfl)
  | panic => exact .panic

theorem sim_whiteoutPath_fs (p : Str) :
    CRes KRel (fun a b => SimVW R a b ∧ a.fs = (writeLayer l1).fs ∧ b.fs = (writeLayer l2).fs)
      (whiteoutPath l1 p) (whiteoutPath l2 p) := by
  unfold whiteoutPath
  split
  · exact join_fs hW _
  · exact join_fs hW _

theorem sim_writePath_fs (p : Str) :
    CRes KRel (fun a b => SimVW R a b ∧ a.fs = (writeLayer l1).fs ∧ b.fs = (writeLayer l2).fs)
      (writePath l1 p) (writePath l2 p) := by
  unfold writePath
  split
  · exact .ok ⟨hW, rfl, rfl⟩
  · exact join_fs hW _

theorem sim_createSession (p : Str) (s : List Bytes) :
    CSim R KRel (· = ·) (createSession (fs l1) p s) (createSession (fs l2) p s) := by
  rw [createSession_eq, createSession_eq]
  refine CSim.bind_eq (sim_ensureHasParent hL hW p) fun _ => ?_
  refine CSim.bind_eq (sim_refuseDir hL hW p) fun _ => ?_
  refine CSim.bind (CSim.ret (sim_writePath_fs hL hW p)) fun wp1 wp2 hwp => ?_
  have hwo := sim_whiteoutPath_fs hL hW p
  unfold clearWhiteout
  generalize whiteoutPath l1 p = r1 at hwo ⊢
  generalize whiteoutPath l2 p = r2 at hwo ⊢
  cases hwo with
  | @ok wo1 wo2 hwo =>
    exact VPath.sim_createClear (p1 := wp1) (p2 := wp2) (q1 := wo1) (q2 := wo2)
      hwp.1 hwo.1.path hwo.1.canon (by rw [hwo.2.1, hwp.2.1]) (by rw [hwo.2.2, hwp.2.2]) s
  | err hk =>
    refine CSim.bind (VPath.sim_createOnly hwp.1.toC) fun _ _ _ => ?_
    exact CSim.ret (.err hk)
  | panic =>
    refine CSim.bind (VPath.sim_createOnly hwp.1.toC) fun _ _ _ => ?_
    exact CSim.panic

theorem sim_removeFile (p : Str) : CSim R KRel (· = ·) (removeFile l1 p) (removeFile l2 p) := by
  unfold removeFile
  refine CSim.bind (sim_readPath hL hW p).ofEq fun _ _ _ => ?_
  refine CSim.bind (CSim.ret ((sim_writePath hL hW p).monoK fun a b e => by cases e; exact Or.inl rfl))
    fun wp1 wp2 hwp => ?_
  refine CSim.bind_eq (VPath.sim_exists hwp.toC).ofEq fun ex => ?_
  refine CSim.bind_eq (CSim.ite (fun _ => VPath.sim_removeFile hwp.toC) (fun _ => CSim.pure rfl))
    fun _ => ?_
  exact sim_addWhiteout hL hW p

theorem sim_removeDir (p : Str) (hp : Canon p) (hpn : p ≠ []) :
    CSim R KRel (· = ·) (removeDir l1 p) (removeDir l2 p) := by
  unfold removeDir
  refine CSim.bind (sim_readPath hL hW p).ofEq fun _ _ _ => ?_
  refine CSim.bind (sim_readDir hL hW p) fun n1 n2 hn => ?_
  have hnil : (n1 ≠ []) ↔ (n2 ≠ []) := by
    constructor
    · intro h h2
      obtain ⟨x, hx⟩ := List.exists_mem_of_ne_nil _ h
      have := (hn.1 x).1 hx
      rw [h2] at this; cases this
    · intro h h1
      obtain ⟨x, hx⟩ := List.exists_mem_of_ne_nil _ h
      have := (hn.1 x).2 hx
      rw [h1] at this; cases this
  by_cases h1 : n1 ≠ []
  · rw [if_pos h1, if_pos (hnil.1 h1)]; exact CSim.failK _
  · rw [if_neg h1, if_neg (fun h => h1 (hnil.2 h))]
    refine CSim.bind (CSim.ret ((sim_writePath_nonroot hL hW p hp hpn).monoK
      fun a b e => by cases e; exact Or.inl rfl)) fun wp1 wp2 hwp => ?_
    refine CSim.bind_eq (VPath.sim_exists hwp.1.toC).ofEq fun ex => ?_
    refine CSim.bind_eq (CSim.ite (fun _ => VPath.sim_removeDir hwp.1.toC hwp.2)
      (fun _ => CSim.pure rfl)) fun _ => ?_
    exact sim_addWhiteout hL hW p

/-- **the overlay adapter is parametric at the session level** -/
theorem simC : SimC R (fs l1) (fs l2) where
  exists_ p _ := sim_exists hL hW p
  metadata p _ := CSim.bind (sim_readPath hL hW p).ofEq fun q1 q2 hq => VPath.sim_metadata hq
  readDir p _ := sim_readDir hL hW p
  readAll p _ := by
    show CSim R KRel (· = ·) ((readPath l1 p >>= fun q => q.openFile) >>= _)
      ((readPath l2 p >>= fun q => q.openFile) >>= _)
    rw [M.bind_assoc3, M.bind_assoc3]
    exact CSim.bind (sim_readPath hL hW p).ofEq fun q1 q2 hq => VPath.sim_readAll hq
  createDir p hp hpn := sim_createDir hL hW p hp hpn
  removeFile p _ := sim_removeFile hL hW p
  removeDir p hp hpn := sim_removeDir hL hW p hp hpn
  createOnly p _ := sim_createOnly hL hW p
  createSession p s _ := sim_createSession hL hW p s

end overlay
end Overlay
end Vfs.C02
