/-
  Lemmas about the association-list finite map `FMap`.
-/
import VfsModel.Fs
namespace Vfs.FMap

@[simp] theorem find?_nil (k : Str) : find? [] k = none := rfl

theorem find?_cons (k' : Str) (v : Entry) (m : FMap) (k : Str) :
    find? ((k', v) :: m) k = if k' = k then some v else find? m k := rfl

theorem erase_cons (k' : Str) (v : Entry) (m : FMap) (k : Str) :
    erase ((k', v) :: m) k = if k' = k then erase m k else (k', v) :: erase m k := rfl

@[simp] theorem find?_erase_self (m : FMap) (k : Str) : find? (erase m k) k = none := by
  induction m with
  | nil => rfl
  | cons kv rest ih =>
    obtain ⟨k', v⟩ := kv
    rw [erase_cons]
    by_cases h : k' = k
    · simp [h, ih]
    · simp [h, find?_cons, ih]

theorem find?_erase_ne (m : FMap) (k k' : Str) (h : k' ≠ k) :
    find? (erase m k) k' = find? m k' := by
  induction m with
  | nil => rfl
  | cons kv rest ih =>
    obtain ⟨k1, v⟩ := kv
    rw [erase_cons]
    by_cases h1 : k1 = k
    · have : k1 ≠ k' := by rw [h1]; exact fun e => h e.symm
      simp [h1, ih, find?_cons]
      intro e; exact absurd e.symm h
    · simp [h1, find?_cons, ih]

@[simp] theorem find?_insert_self (m : FMap) (k : Str) (v : Entry) :
    find? (insert m k v) k = some v := by
  simp [insert, find?_cons]

theorem find?_insert_ne (m : FMap) (k k' : Str) (v : Entry) (h : k' ≠ k) :
    find? (insert m k v) k' = find? m k' := by
  simp only [insert, find?_cons]
  rw [if_neg (fun e => h e.symm), find?_erase_ne m k k' h]

theorem find?_insert (m : FMap) (k k' : Str) (v : Entry) :
    find? (insert m k v) k' = if k' = k then some v else find? m k' := by
  by_cases h : k' = k
  · subst h; simp
  · rw [if_neg h, find?_insert_ne m k k' v h]

theorem find?_erase (m : FMap) (k k' : Str) :
    find? (erase m k) k' = if k' = k then none else find? m k' := by
  by_cases h : k' = k
  · subst h; simp
  · rw [if_neg h, find?_erase_ne m k k' h]

theorem contains_iff (m : FMap) (k : Str) : contains m k = true ↔ ∃ e, find? m k = some e := by
  unfold contains
  cases find? m k <;> simp

theorem mem_keys_iff (m : FMap) (k : Str) : k ∈ keys m ↔ ∃ e, find? m k = some e := by
  induction m with
  | nil => simp [keys]
  | cons kv rest ih =>
    rw [show kv = (kv.1, kv.2) from rfl]
    simp only [keys, List.map_cons, List.mem_cons, find?_cons]
    unfold keys at ih
    by_cases h : kv.1 = k
    · simp [h]
    · simp [h, ih]
      intro e; exact absurd e.symm h

/-- key lists without duplicates -/
def NodupKeys (m : FMap) : Prop := (keys m).Nodup

theorem keys_erase_subset (m : FMap) (k : Str) : ∀ x ∈ keys (erase m k), x ∈ keys m ∧ x ≠ k := by
  induction m with
  | nil => intro x hx; simp [erase, keys] at hx
  | cons kv rest ih =>
    obtain ⟨k1, v⟩ := kv
    intro x hx
    rw [erase_cons] at hx
    by_cases h1 : k1 = k
    · rw [if_pos h1] at hx
      have := ih x hx
      exact ⟨by simp [keys] at this ⊢; exact Or.inr this.1, this.2⟩
    · rw [if_neg h1] at hx
      simp only [keys, List.map_cons, List.mem_cons] at hx ⊢
      rcases hx with rfl | hx
      · exact ⟨Or.inl rfl, h1⟩
      · have := ih x (by simpa [keys] using hx)
        exact ⟨Or.inr (by simpa [keys] using this.1), this.2⟩

theorem nodup_erase (m : FMap) (k : Str) (h : NodupKeys m) : NodupKeys (erase m k) := by
  induction m with
  | nil => simpa [erase] using h
  | cons kv rest ih =>
    obtain ⟨k1, v⟩ := kv
    unfold NodupKeys at *
    simp only [keys, List.map_cons, List.nodup_cons] at h
    rw [erase_cons]
    by_cases h1 : k1 = k
    · rw [if_pos h1]; exact ih h.2
    · rw [if_neg h1]
      simp only [keys, List.map_cons, List.nodup_cons]
      refine ⟨?_, ih h.2⟩
      intro hm
      exact h.1 (by simpa [keys] using (keys_erase_subset rest k k1 (by simpa [keys] using hm)).1)

theorem nodup_insert (m : FMap) (k : Str) (v : Entry) (h : NodupKeys m) :
    NodupKeys (insert m k v) := by
  unfold NodupKeys insert keys
  simp only [List.map_cons, List.nodup_cons]
  refine ⟨?_, nodup_erase m k h⟩
  intro hmem
  exact (keys_erase_subset m k k hmem).2 rfl

end Vfs.FMap
