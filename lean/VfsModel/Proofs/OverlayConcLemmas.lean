/-
  Lemmas for Props/C17OverlayConc.lean, part A: the small-step model VfsModel/OverlayConc.lean IS
  the modelled code.

  * `Prog.run_bindR`, `Prog.run_bind`: `Prog.run` is a monad morphism `Prog → M`;
  * `run_v*`: the `VfsPath` primitives written in `Prog` run as the ones of PathOps.lean;
  * `run_firstExisting … run_createDir`: the overlay functions written in `Prog` run as the ones of
    Adapters.lean — for ARBITRARY layers (any inner filesystems, any layer paths);
  * `run_createDirAll`: `(OConc.createDirAll layers p).run = VPath.createDirAll ⟨Overlay.fs layers, id, p⟩`;
  * `alone_run`: stepping a single thread `callsFrom` times reaches `done r` with `(r, w') =
    Prog.run`: the interleaving semantics restricted to one thread is `Prog.run`.
  Nothing here is about memory layers; no hypothesis anywhere.
-/
import VfsModel.OverlayConc
set_option linter.unusedVariables false
set_option linter.unusedSimpArgs false
namespace Vfs.OConc
open Vfs Vfs.Overlay Prog

/-! ### `run` is a monad morphism -/

theorem Prog.run_bindR {α β} (m : Prog α) (f : Res α → Prog β) (w : World) :
    (m.bindR f).run w = (f (m.run w).1).run (m.run w).2 := by
  induction m generalizing w with
  | done r => rfl
  | exists_ fs p k ih => simp only [Prog.bindR, Prog.run, ih]
  | metadata fs p k ih => simp only [Prog.bindR, Prog.run, ih]
  | createDir fs p k ih => simp only [Prog.bindR, Prog.run, ih]
  | removeFile fs p k ih => simp only [Prog.bindR, Prog.run, ih]

theorem Prog.bind_def {α β} (m : Prog α) (f : α → Prog β) : (m >>= f) = m.bindR (Prog.lift f) := rfl

theorem Prog.run_bind {α β} (m : Prog α) (f : α → Prog β) :
    (m >>= f).run = m.run >>= fun a => (f a).run := by
  funext w
  rw [Prog.bind_def, Prog.run_bindR]
  show _ = M.bind _ _ w
  unfold M.bind
  cases h : m.run w with
  | mk r w' =>
    cases r <;> rfl

theorem mbind_congr {α β} (m : M α) {f g : α → M β} (h : ∀ a, f a = g a) :
    (m >>= f) = (m >>= g) := by rw [funext h]

theorem Prog.run_pure {α} (a : α) : (pure a : Prog α).run = (pure a : M α) := rfl
theorem Prog.run_ret {α} (r : Res α) : (Prog.ret r).run = M.ret r := rfl
theorem Prog.run_failK {α} (k : ErrKind) : (Prog.failK k : Prog α).run = M.failK k := rfl
theorem Prog.run_done {α} (r : Res α) (w : World) : (Prog.done r).run w = (r, w) := rfl

/-! ### the `VfsPath` primitives -/

theorem run_vExists (q : VPath) : (vExists q).run = q.exists_ := rfl

theorem run_vMetadata (q : VPath) : (vMetadata q).run = q.metadata := rfl

theorem run_vRemoveFile (q : VPath) : (vRemoveFile q).run = q.removeFile := rfl

theorem run_vGetParent (q : VPath) : (vGetParent q).run = q.getParent := by
  unfold vGetParent VPath.getParent
  simp only [Prog.run_bind, run_vExists]
  refine mbind_congr _ fun b => ?_
  cases b
  · rfl
  · simp only [Bool.not_true, Bool.false_eq_true, ↓reduceIte, Prog.run_bind, run_vMetadata]
    refine mbind_congr _ fun md => ?_
    split <;> rfl

theorem run_vCreateDir (q : VPath) : (vCreateDir q).run = q.createDir := by
  unfold vCreateDir VPath.createDir
  simp only [Prog.run_bind, run_vGetParent]
  rfl

theorem run_vIsDir (q : VPath) : (vIsDir q).run = q.isDir := by
  unfold vIsDir VPath.isDir
  simp only [Prog.run_bind, run_vExists]
  refine mbind_congr _ fun b => ?_
  cases b
  · rfl
  · simp only [Bool.not_true, Bool.false_eq_true, ↓reduceIte, Prog.run_bind, run_vMetadata]
    rfl

/-- the loop of `create_dir_all`, for any `create_dir` -/
theorem run_cdaLoop (mk : Str → Prog Unit) (q : VPath) (hmk : ∀ d, (mk d).run = q.fs.createDir d)
    (ds : List Str) : (cdaLoop mk ds).run = VPath.createDirAllLoop q ds := by
  induction ds with
  | nil => rfl
  | cons d rest ih =>
    funext w
    unfold cdaLoop VPath.createDirAllLoop
    rw [Prog.run_bindR, hmk]
    cases h : q.fs.createDir d w with
    | mk r w' =>
      cases r with
      | ok a => simp only [ih]
      | err k pth => cases k <;> simp only [ih] <;> rfl
      | panic => rfl

theorem run_cdaWith (mk : Str → Prog Unit) (q : VPath) (hmk : ∀ d, (mk d).run = q.fs.createDir d) :
    (cdaWith mk q.path).run = q.createDirAll := by
  unfold cdaWith VPath.createDirAll
  split
  · rfl
  · exact run_cdaLoop mk q hmk _

theorem run_vCreateDirAll (q : VPath) : (vCreateDirAll q).run = q.createDirAll :=
  run_cdaWith _ q (fun _ => rfl)

/-! ### the overlay -/

theorem run_firstExisting (p : Str) (layers : List VPath) :
    (OConc.firstExisting p layers).run = Overlay.firstExisting p layers := by
  induction layers with
  | nil => rfl
  | cons l rest ih =>
    unfold OConc.firstExisting Overlay.firstExisting
    simp only [Prog.run_bind, Prog.run_ret, run_vExists]
    refine mbind_congr _ fun lp => ?_
    refine mbind_congr _ fun b => ?_
    cases b
    · simpa using ih
    · rfl

theorem run_readPath (layers : List VPath) (p : Str) :
    (OConc.readPath layers p).run = Overlay.readPath layers p := by
  unfold OConc.readPath Overlay.readPath
  split
  · rfl
  · simp only [Prog.run_bind, Prog.run_ret, run_vExists, run_firstExisting]
    refine mbind_congr _ fun wo => ?_
    refine mbind_congr _ fun marked => ?_
    cases marked
    · simp only [Bool.false_eq_true, ↓reduceIte, Prog.run_bind, run_firstExisting]
      refine mbind_congr _ fun found => ?_
      cases found with
      | some lp => rfl
      | none =>
        simp only [Prog.run_bind, Prog.run_ret, run_vExists]
        refine mbind_congr _ fun rp => ?_
        refine mbind_congr _ fun ex => ?_
        cases ex <;> rfl
    · rfl

theorem run_oexists (layers : List VPath) (p : Str) :
    (OConc.oexists layers p).run = Overlay.exists_ layers p := by
  unfold OConc.oexists Overlay.exists_
  simp only [Prog.run_bind, Prog.run_ret, run_vExists]
  refine mbind_congr _ fun wo => ?_
  refine mbind_congr _ fun marked => ?_
  cases marked
  · simp only [Bool.false_eq_true, ↓reduceIte]
    funext w
    rw [Prog.run_bindR, run_readPath]
    cases h : Overlay.readPath layers p w with
    | mk r w' =>
      cases r with
      | ok q => rfl
      | err k pth => cases k <;> rfl
      | panic => rfl
  · rfl

theorem run_ensureHasParent (layers : List VPath) (p : Str) :
    (OConc.ensureHasParent layers p).run = Overlay.ensureHasParent layers p := by
  unfold OConc.ensureHasParent Overlay.ensureHasParent
  split
  · simp only [Prog.run_bind, run_oexists]
    refine mbind_congr _ fun ex => ?_
    cases ex
    · rfl
    · simp only [↓reduceIte, Prog.run_bind, run_readPath, run_vIsDir]
      refine mbind_congr _ fun rp => ?_
      refine mbind_congr _ fun isd => ?_
      cases isd
      · rfl
      · simp only [↓reduceIte, Prog.run_bind, Prog.run_ret, run_vCreateDirAll]
  · rfl

theorem run_clearWhiteout (layers : List VPath) (p : Str) :
    (OConc.clearWhiteout layers p).run = Overlay.clearWhiteout layers p := by
  unfold OConc.clearWhiteout Overlay.clearWhiteout
  simp only [Prog.run_bind, Prog.run_ret, run_vExists]
  refine mbind_congr _ fun wo => ?_
  refine mbind_congr _ fun ex => ?_
  cases ex <;> rfl

theorem run_clearWhiteoutT (layers : List VPath) (p : Str) :
    (OConc.clearWhiteoutT layers p).run = Overlay.clearWhiteoutT layers p := by
  unfold OConc.clearWhiteoutT Overlay.clearWhiteoutT
  simp only [Prog.run_bind, Prog.run_ret, run_vExists]
  refine mbind_congr _ fun wo => ?_
  refine mbind_congr _ fun ex => ?_
  cases ex
  · rfl
  · simp only [↓reduceIte]
    funext w
    rw [Prog.run_bindR, run_vRemoveFile]
    cases h : wo.removeFile w with
    | mk r w' =>
      cases r with
      | ok a => rfl
      | err k pth => cases k <;> rfl
      | panic => rfl

/-- `create_dir` of the repaired overlay -/
theorem run_createDir (layers : List VPath) (p : Str) :
    (OConc.createDir layers p).run = Overlay.createDir layers p := by
  unfold OConc.createDir OConc.createDirHead Overlay.createDir
  simp only [Prog.run_bind, run_ensureHasParent, run_oexists]
  refine mbind_congr _ fun _ => ?_
  refine mbind_congr _ fun ex => ?_
  cases ex
  · simp only [Bool.false_eq_true, ↓reduceIte, Prog.run_bind, Prog.run_ret]
    refine mbind_congr _ fun wp => ?_
    funext w
    rw [Prog.run_bindR, run_vCreateDir]
    cases h : wp.createDir w with
    | mk r w' =>
      cases r with
      | ok a => simp only [run_clearWhiteoutT]
      | err k pth =>
        cases k <;> try rfl
        simp only [Prog.run_bindR, run_clearWhiteoutT]
        cases h2 : Overlay.clearWhiteoutT layers p w' with
        | mk r2 w2 => cases r2 <;> rfl
      | panic => rfl
  · simp only [↓reduceIte, Prog.run_bind, run_readPath, run_vMetadata]
    rfl

/-- **the small-step program of `create_dir_all` is the modelled code**: running all its calls one
after the other is `VfsPath::create_dir_all` on the overlay path, for arbitrary layers, every path
string and every world -/
theorem run_createDirAll (layers : List VPath) (id : Nat) (p : Str) :
    (OConc.createDirAll layers p).run
      = VPath.createDirAll { fs := Overlay.fs layers, fsId := id, path := p } :=
  run_cdaWith (OConc.createDir layers) { fs := Overlay.fs layers, fsId := id, path := p }
    (fun d => run_createDir layers d)

/-! ### one thread alone -/

theorem Prog.step1_done {α} (r : Res α) (w : World) : (Prog.done r).step1 w = (.done r, w) := rfl

/-- iterating `step1` -/
def Prog.steps {α} : Nat → Prog α × World → Prog α × World
  | 0, x => x
  | n + 1, x => Prog.steps n (x.1.step1 x.2)

/-- stepping a program `callsFrom` times performs all its calls: it ends in `done r` and the
world of `Prog.run` -/
theorem Prog.steps_run {α} (t : Prog α) (w : World) :
    Prog.steps (t.callsFrom w) (t, w) = (.done (t.run w).1, (t.run w).2) := by
  induction t generalizing w with
  | done r => rfl
  | exists_ fs p k ih => simp only [Prog.callsFrom, Prog.steps, Prog.step1, Prog.run, ih]
  | metadata fs p k ih => simp only [Prog.callsFrom, Prog.steps, Prog.step1, Prog.run, ih]
  | createDir fs p k ih => simp only [Prog.callsFrom, Prog.steps, Prog.step1, Prog.run, ih]
  | removeFile fs p k ih => simp only [Prog.callsFrom, Prog.steps, Prog.step1, Prog.run, ih]

theorem run_single (t : Prog Unit) (w : World) (n : Nat) :
    OConc.run { world := w, threads := [t] } (List.replicate n 0)
      = { world := (Prog.steps n (t, w)).2, threads := [(Prog.steps n (t, w)).1] } := by
  induction n generalizing t w with
  | zero => rfl
  | succ n ih =>
    rw [List.replicate_succ, OConc.run, List.foldl_cons]
    show OConc.run (OConc.step _ 0) _ = _
    simp only [OConc.step, List.getElem?_cons_zero, List.set_cons_zero]
    rw [ih]
    rfl

/-- **one thread alone**: scheduled `callsFrom` times, the single thread has returned the result
of `Prog.run` and the world is the world of `Prog.run` -/
theorem alone_run (t : Prog Unit) (w : World) :
    OConc.run { world := w, threads := [t] } (List.replicate (t.callsFrom w) 0)
      = { world := (t.run w).2, threads := [.done (t.run w).1] } := by
  rw [run_single, Prog.steps_run]

end Vfs.OConc
